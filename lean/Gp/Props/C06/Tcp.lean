import Gp.Lemmas.Layers.TcpWf
/-
  C06 (TCP part): serialize (FixLengths + ComputeChecksums) then decode returns the same
  layer and payload; serialising the decoded layer again reproduces the bytes.

  `wf` (Gp/Lemmas/Layers/TcpRt.lean) is the explicit, decidable in-range predicate;
  `l.core` is the field-equivalence `≈`: all public fields but Contents/Payload, the private
  port slices, the Multipath flag (derived from the options) and the pseudo-header.
  Scope decision: an option list whose length is not a multiple of 4 and does not end in
  End-of-list gets zero bytes appended by FixLengths, which the TCP format itself reads back
  as an End-of-list option — such lists are outside `wf` (as the decoder never produces them).
-/
namespace Gp.C06.Tcp
open Gp Gp.Tcp

/-- decoded_wf: every successfully decoded TCP layer (any old layer value, bytes, capacity) is
    `wf` — MPTCP options included. -/
theorem decoded_wf (old : Layer) (data foreign : Bytes) (o : DecOut)
    (h : decode Variant.fixed old data foreign = .ok o) (he : o.err = false) : wf o.layer = true :=
  decoded_wf' old data foreign o h he

/-- non-vacuity of `decoded_wf`: a successful decode leaving four options (MSS, NOP, MP_CAPABLE,
    End-of-list) and three padding bytes -/
example : (match decode Variant.fixed fresh
    [0x30, 0x39, 0, 80, 0, 0, 0, 1, 0, 0, 0, 0, 0x80, 0x02, 0xff, 0xff, 0, 0, 0, 0,
     2, 4, 5, 0xb4, 1, 0x1e, 4, 1, 0, 0, 9, 9, 0xaa] [] with
    | .ok o => !o.err && o.layer.options.length == 4 && o.layer.padding == [9, 9] && wf o.layer
    | _ => false) = true := by decide

/-- The round-trip statement for one layer: for every reachable buffer holding the payload, if
    SerializeTo(FixLengths, ComputeChecksums) succeeds, decoding the bytes yields — without error
    or truncation flag — a layer ≈ the (length-fixed, checksummed) layer SerializeTo left behind,
    with the same payload, and Contents ++ Payload are the bytes. -/
def RoundTrip (l : Layer) : Prop :=
  ∀ (b b' : SBuf.SBuf) (lf : Layer), Gp.C18.Inv b → serializeTcp l b true true = .ok (b', lf) →
    ∃ o, decode Variant.fixed fresh (SBuf.contents b') [] = .ok o ∧ o.err = false ∧ o.trunc = false ∧
      o.layer.core = lf.core ∧ o.layer.payload = SBuf.contents b ∧
      o.layer.contents ++ o.layer.payload = SBuf.contents b'

/-- full-strength statement: every wf layer round-trips -/
def roundtrip_full : Prop := ∀ l : Layer, wf l = true → RoundTrip l

/-- roundtrip (proved part): every wf layer WITHOUT MPTCP options round-trips.
    Missing for `roundtrip_full`: options of kind 30 — see `roundtrip_counterexample`. -/
theorem roundtrip_partial (l : Layer) (hwf : wf l = true) (hno : noMptcp l = true) : RoundTrip l := by
  intro b b' lf hb hs
  simp only [wf, Bool.and_eq_true, decide_eq_true_eq] at hwf
  obtain ⟨⟨⟨hr, hwg⟩, hal⟩, h60⟩ := hwf
  obtain ⟨hr, hck⟩ := rangesB_elim hr
  obtain ⟨hw, hwire⟩ := plain_of_noMptcp _ _ hno hwg
  rw [hwire] at hal h60
  rw [serializeTcp_eq l b true true hb] at hs
  cases hc : serCk (fixedLayer l true) true true (SBuf.contents b) with
  | none => rw [hc] at hs; cases hs
  | some c =>
    rw [hc] at hs
    simp only [Res.ok.injEq, Prod.mk.injEq, if_true] at hs
    obtain ⟨hb', hlf⟩ := hs
    have hcont : SBuf.contents b' = hdrBytes (fixLengths l) true c ++ SBuf.contents b := by
      rw [← hb', Gp.C18.contents_step_prepend _ _ hb]; rfl
    have hd := roundtrip_plain l (SBuf.contents b) [] c true hr hck hw hal h60 hc
    refine ⟨_, by unfold decode; rw [hcont]; exact hd, rfl, rfl, ?_, rfl, by rw [hcont]⟩
    rw [← hlf]
    rfl

/-- a layer as decoded from a segment carrying an MP_CAPABLE option (options `1e 04 01 00`) -/
def mptcpLayer : Layer :=
  { srcPort := 12345, dstPort := 80, dataOffset := 6, syn := true, multipath := true,
    options := [{ optionType := 30, optionLength := 4, mpCapable := some { version := 1 } }],
    pseudo := some (.ip4 [10, 0, 0, 1] [10, 0, 0, 2]) }

/-- The real code violates the full statement: a decoded MPTCP option has no OptionData (the
    decoder keeps the content only in the sub-structures), SerializeTo writes just kind and a
    recomputed length 2, and decoding that fails.  (Known finding ltcp:roundtrip:mptcp-option:
    making the decoder keep OptionData would change what the repository's own
    TestPacketMPTCPOptionDecode expects, so no fix is proposed.) -/
theorem roundtrip_counterexample : ¬ roundtrip_full := by
  intro h
  have hb : Gp.C18.Inv (SBuf.new 0 0) := Gp.C18.inv_new' 0 0
  have hrt := h mptcpLayer (by decide) (SBuf.new 0 0)
  have hs := serializeTcp_eq mptcpLayer (SBuf.new 0 0) true true hb
  cases hc : serCk (fixedLayer mptcpLayer true) true true (SBuf.contents (SBuf.new 0 0)) with
  | none =>
    -- the checksum can be computed: a valid IPv4 pseudo-header is installed
    have : (serCk (fixedLayer mptcpLayer true) true true (SBuf.contents (SBuf.new 0 0))).isSome = true := by
      simp only [serCk, if_true, l4checksum, fixedLayer]
      rfl
    rw [hc] at this
    cases this
  | some c =>
    rw [hc] at hs
    obtain ⟨o, hd, he, -⟩ := hrt _ _ hb hs
    rw [Gp.C18.contents_step_prepend _ _ hb] at hd
    -- decode the serialised bytes: the option area is `1e 02 00 00`
    have hfix : fixedLayer mptcpLayer true = fixLengths mptcpLayer := rfl
    have harea : hdrBytes (fixLengths mptcpLayer) true c ++ SBuf.contents (SBuf.new 0 0) =
        fixed20 (fixLengths mptcpLayer) (u8 (c / 256)) (u8 c) ++ ([30, 2, 0, 0] ++ []) := by
      simp only [hdrBytes, List.append_assoc]
      rfl
    unfold decode at hd
    rw [hfix, harea, decode_fixed20 fresh (fixLengths mptcpLayer) _ _ [30, 2, 0, 0] [] []
      (by decide) (by decide) (by decide)] at hd
    have hloop : optLoop Variant.fixed 4 { multipath := false } ⟨[30, 2, 0, 0], []⟩ =
        .ok { st := { options := [{ optionType := 30, optionLength := 2 }], multipath := true },
              trunc := false, err := true } := by decide
    simp only [List.length_cons, List.length_nil, List.append_nil, Nat.zero_add, Nat.reduceAdd] at hd
    rw [hloop] at hd
    simp only [Res.bind_ok, Res.ok.injEq] at hd
    rw [← hd] at he
    cases he

/-- a wf layer without MPTCP options: MSS, SACK-permitted, NOP ×2, timestamps are not needed —
    an unaligned list closed by End-of-list and explicit (non-zero) padding -/
def sampleLayer : Layer :=
  { srcPort := 443, dstPort := 51000, seq := 4294967295, ack := 7, dataOffset := 0, syn := true, ackF := true,
    window := 65535, urgent := 1,
    options := [{ optionType := 2, optionLength := 4, optionData := [5, 180] },
                { optionType := 1, optionLength := 1 },
                { optionType := 3, optionLength := 3, optionData := [7] },
                { optionType := 0, optionLength := 1 }],
    padding := [9, 9, 9],
    pseudo := some (.ip4 [192, 168, 0, 1] [192, 168, 0, 2]) }

/-- non-vacuity of `roundtrip_partial`: its hypotheses hold for a concrete non-trivial layer and the
    serialization succeeds on a dirty buffer holding a 3-byte payload -/
example : wf sampleLayer = true ∧ noMptcp sampleLayer = true ∧
    (serializeTcp sampleLayer
      (SBuf.step (SBuf.clear (SBuf.step (SBuf.new 0 0) (.prepend (List.replicate 40 0xa5)))) (.append [1, 2, 3]))
      true true).isOk = true := by decide

/-- reserialize_fixpoint: serialising the decoded layer again (with the same network layer for
    the checksum, over its own payload, in any reachable buffer) reproduces the bytes. -/
theorem reserialize_fixpoint (l : Layer) (hwf : wf l = true) (hno : noMptcp l = true)
    (b b' b2 : SBuf.SBuf) (lf : Layer) (o : DecOut)
    (hb : Gp.C18.Inv b) (hb2 : Gp.C18.Inv b2)
    (hs : serializeTcp l b true true = .ok (b', lf))
    (hd : decode Variant.fixed fresh (SBuf.contents b') [] = .ok o)
    (hp : SBuf.contents b2 = o.layer.payload) :
    serBytes (serView (serializeTcp { o.layer with pseudo := lf.pseudo } b2 true true)) =
      .ok (SBuf.contents b') := by
  obtain ⟨o', hd', _, _, hcore, hpay, _⟩ := roundtrip_partial l hwf hno b b' lf hb hs
  rw [hd] at hd'
  cases hd'
  -- the decoded layer and `lf` agree on everything SerializeTo reads
  have hser : ({ o.layer with pseudo := lf.pseudo } : Layer).ser = lf.ser := by
    have := congrArg (fun x : Layer => ({ x with pseudo := lf.pseudo } : Layer)) hcore
    simpa [Layer.core, Layer.ser] using this
  have h1 := serView_eq l b true true hb
  rw [hs] at h1
  have hidem := serSpec_idem l true true _ _ lf h1.symm
  rw [serView_eq _ b2 true true hb2, hp, hpay, ← serSpec_bytes_ser, hser, serSpec_bytes_ser, hidem]
  rfl

end Gp.C06.Tcp
