import Gp.Lemmas.Layers.ArpRt
/-
  C06 (engine `larp`) — ARP, Loopback, ERSPAN II: serialize (FixLengths on) then decode returns the
  same field values and the same payload, with no error and no truncation flag; serialising the
  decoded layer once more reproduces the same bytes.

  Definitions (Gp/Lemmas/Layers/ArpRt.lean, ArpSer.lean):
    wfArp l         : AddrType, Protocol, Operation < 2^16; size fields < 2^8; |SourceHw| = |DstHw| ≤ 255;
                      |SourceProt| = |DstProt| ≤ 255   (the size FIELDS may disagree with the slices)
    arpFixed l fix  : the layer after FixLengths (HwAddressSize := |SourceHw|, ProtAddressSize := |SourceProt|)
    arpSizesAgree l : the size fields equal the slice lengths (true of decoded layers and after FixLengths)
    ArpEquiv a b    : all nine public fields equal (≈ ignores Contents/Payload)
    wfLo l          : Family < 256;   wfEr l : every field within the width of its bit field
  The buffer `b` holds the payload (`contents b = p`) and is otherwise arbitrary (any buffer with the
  C18 invariant: capacity, stale bytes, history); the decoder's receiver `old`, the capacity of the
  packet buffer and the foreign bytes behind the packet are arbitrary too.  None of the three headers
  has a length field, so the claim holds for EVERY payload (also beyond 64 KiB).
-/
namespace Gp.C06.Arp
open Gp Gp.SBuf Gp.Arp Gp.C18

/-! ## ARP -/

/-- Every successfully decoded ARP layer has in-range field values, and its size fields say what its
    address slices are. -/
theorem decoded_wf (old : ARP) (d : GSlice) (o : DecOut ARP)
    (h : old.decodeFromBytes d = .ok o) (he : o.err = false) : wfArp o.layer ∧ arpSizesAgree o.layer := by
  by_cases hs : d.len < 8
  · rw [ARP.decode_short old d hs] at h; cases h; cases he
  · rw [ARP.decode_long old d (by omega)] at h; cases h
    unfold arpDecSpec at he ⊢
    by_cases hlt : d.vis.length < arpLen d.vis
    · rw [if_pos hlt] at he; cases he
    · rw [if_neg hlt]; exact arpLayer_wf d.vis hlt

/-- Round trip: a well-formed layer over ANY payload is written without error, FixLengths turns it
    into `arpFixed l true`, and decoding the produced bytes (into any receiver, in a packet buffer of
    any capacity) yields — without error and without truncation flag — a layer ≈ the fixed one whose
    payload is exactly `p` and whose Contents ++ Payload are the bytes written. -/
theorem roundtrip (l : ARP) (p : Bytes) (b : SBuf) (csum : Bool) (old : ARP) (foreign : Bytes)
    (hw : wfArp l) (hb : Inv b) (hc : contents b = p) :
    ∃ o l', l.serializeTo b true csum = .ok o ∧ o.err = false ∧ o.layer = arpFixed l true ∧
      old.decodeFromBytes { vis := contents o.buf, tail := foreign } =
        .ok { layer := l', trunc := false, err := false } ∧
      ArpEquiv l' (arpFixed l true) ∧ l'.payload = p ∧ l'.contents ++ l'.payload = contents o.buf := by
  obtain ⟨o, ho, -, hl, he, hbytes⟩ := arp_serializeTo_refines l b true csum hb
  rw [hc, arpSerSpec_wf l p true hw] at hl he hbytes
  simp only at hl he hbytes
  obtain ⟨hw2, hs2⟩ := arpFixed_wf l hw
  have hby := hbytes trivial
  have h8 : 8 ≤ (arpEncode (arpFixed l true) ++ p).length := by
    rw [arpEncode_cons, List.length_append, arpHeader_length]; omega
  refine ⟨o, { arpFixed l true with contents := arpEncode (arpFixed l true), payload := p }, ho, he, hl, ?_,
    ⟨rfl, rfl, rfl, rfl, rfl, rfl, rfl, rfl, rfl⟩, rfl, by rw [hby]⟩
  rw [hby, ARP.decode_vis old _ _ h8, arpDecSpec_encode old _ p hw2 hs2]

/-- Without FixLengths the same holds for layers whose size fields already agree with the slices
    (e.g. every decoded layer): nothing is mutated and all fields come back exactly. -/
theorem roundtrip_nofix (l : ARP) (p : Bytes) (b : SBuf) (fix csum : Bool) (old : ARP) (foreign : Bytes)
    (hw : wfArp l) (hs : arpSizesAgree l) (hb : Inv b) (hc : contents b = p) :
    ∃ o l', l.serializeTo b fix csum = .ok o ∧ o.err = false ∧ o.layer = l ∧
      old.decodeFromBytes { vis := contents o.buf, tail := foreign } =
        .ok { layer := l', trunc := false, err := false } ∧
      ArpEquiv l' l ∧ l'.payload = p := by
  obtain ⟨o, ho, -, hl, he, hbytes⟩ := arp_serializeTo_refines l b fix csum hb
  rw [hc, arpSerSpec_wf l p fix hw, arpFixed_of_agree l fix hw hs] at hl he hbytes
  simp only at hl he hbytes
  have hby := hbytes trivial
  have h8 : 8 ≤ (arpEncode l ++ p).length := by
    rw [arpEncode_cons, List.length_append, arpHeader_length]; omega
  refine ⟨o, { l with contents := arpEncode l, payload := p }, ho, he, hl, ?_,
    ⟨rfl, rfl, rfl, rfl, rfl, rfl, rfl, rfl, rfl⟩, rfl⟩
  rw [hby, ARP.decode_vis old _ _ h8, arpDecSpec_encode old _ p hw hs]

/-- Writing the decoded layer once more (over its own payload, into any buffer, any options)
    reproduces the same bytes and does not change the layer. -/
theorem reserialize_fixpoint (l : ARP) (p : Bytes) (b b2 : SBuf) (csum fix2 csum2 : Bool)
    (old : ARP) (foreign : Bytes) (hw : wfArp l) (hb : Inv b) (hc : contents b = p) (hb2 : Inv b2) :
    ∃ o l', l.serializeTo b true csum = .ok o ∧ o.err = false ∧
      old.decodeFromBytes { vis := contents o.buf, tail := foreign } =
        .ok { layer := l', trunc := false, err := false } ∧
      (contents b2 = l'.payload →
        ∃ o2, l'.serializeTo b2 fix2 csum2 = .ok o2 ∧ o2.err = false ∧ o2.layer = l' ∧
          contents o2.buf = contents o.buf) := by
  obtain ⟨o, ho, -, hl, he, hbytes⟩ := arp_serializeTo_refines l b true csum hb
  rw [hc, arpSerSpec_wf l p true hw] at hl he hbytes
  simp only at hl he hbytes
  obtain ⟨hw2, hs2⟩ := arpFixed_wf l hw
  have hby := hbytes trivial
  have h8 : 8 ≤ (arpEncode (arpFixed l true) ++ p).length := by
    rw [arpEncode_cons, List.length_append, arpHeader_length]; omega
  refine ⟨o, { arpFixed l true with contents := arpEncode (arpFixed l true), payload := p }, ho, he, ?_, ?_⟩
  · rw [hby, ARP.decode_vis old _ _ h8, arpDecSpec_encode old _ p hw2 hs2]
  · intro hc2
    simp only at hc2
    have hw3 : wfArp { arpFixed l true with contents := arpEncode (arpFixed l true), payload := p } := hw2
    have hs3 : arpSizesAgree { arpFixed l true with contents := arpEncode (arpFixed l true), payload := p } := hs2
    obtain ⟨o2, ho2, -, hl2, he2, hbytes2⟩ := arp_serializeTo_refines
      { arpFixed l true with contents := arpEncode (arpFixed l true), payload := p } b2 fix2 csum2 hb2
    rw [hc2, arpSerSpec_wf _ p fix2 hw3, arpFixed_of_agree _ fix2 hw3 hs3] at hl2 he2 hbytes2
    simp only at hl2 he2 hbytes2
    exact ⟨o2, ho2, he2, hl2, by rw [hbytes2 trivial, hby]; rfl⟩

set_option maxRecDepth 20000 in
/-- The address-length bound of `wfArp` is sharp: with 256-byte hardware addresses FixLengths stores
    `uint8(256) = 0` in HwAddressSize (silently), the serializer still writes all 512 address bytes,
    and the decoder — told "size 0" — returns empty addresses and the 512 bytes as payload.  (One
    byte cannot express the length; such a layer is not "in range".) -/
theorem roundtrip_long_address_counterexample :
    let a : Bytes := List.replicate 256 7
    let l : ARP := { ARP.fresh with sourceHwAddress := a, dstHwAddress := a }
    let s := arpSerSpec l [] true
    s.err = false ∧ s.layer.hwAddressSize = 0 ∧ s.bytes.length = 520 ∧
    (arpDecSpec ARP.fresh s.bytes).err = false ∧
    (arpDecSpec ARP.fresh s.bytes).layer.sourceHwAddress = [] ∧
    (arpDecSpec ARP.fresh s.bytes).layer.payload.length = 512 := by
  decide

/-! ## Loopback -/

theorem decoded_wf_loopback (old : Loopback) (d : GSlice) (o : DecOut Loopback)
    (h : old.decodeFromBytes d = .ok o) (he : o.err = false) : wfLo o.layer := by
  by_cases hs : d.len < 4
  · rw [Loopback.decode_short old d hs] at h; cases h; cases he
  · rw [Loopback.decode_long old d (by omega)] at h; cases h
    exact loDecSpec_wf old d.vis he

/-- Round trip for every family value and every payload: the header is written little-endian and
    read back in whichever byte order the decoder guesses (big-endian exactly for family 0, where
    both orders coincide). -/
theorem roundtrip_loopback (l : Loopback) (p : Bytes) (b : SBuf) (fix csum : Bool) (old : Loopback)
    (foreign : Bytes) (hw : wfLo l) (hb : Inv b) (hc : contents b = p) :
    ∃ o l', l.serializeTo b fix csum = .ok o ∧ o.err = false ∧ o.layer = l ∧
      old.decodeFromBytes { vis := contents o.buf, tail := foreign } =
        .ok { layer := l', trunc := false, err := false } ∧
      LoEquiv l' l ∧ l'.payload = p ∧ l'.contents ++ l'.payload = contents o.buf := by
  obtain ⟨o, ho, -, hl, he, hby⟩ := lo_serializeTo_refines l b fix csum hb
  rw [hc] at hby
  have h4 : 4 ≤ (putLe32 l.family ++ p).length := by rw [List.length_append, putLe32_length]; omega
  refine ⟨o, { l with contents := putLe32 l.family, payload := p }, ho, he, hl, ?_, rfl, rfl, by rw [hby]⟩
  rw [hby, Loopback.decode_vis old _ _ h4, loDecSpec_encode old l p hw]

theorem reserialize_fixpoint_loopback (l : Loopback) (p : Bytes) (b b2 : SBuf) (fix csum fix2 csum2 : Bool)
    (old : Loopback) (foreign : Bytes) (hw : wfLo l) (hb : Inv b) (hc : contents b = p) (hb2 : Inv b2) :
    ∃ o l', l.serializeTo b fix csum = .ok o ∧ o.err = false ∧
      old.decodeFromBytes { vis := contents o.buf, tail := foreign } =
        .ok { layer := l', trunc := false, err := false } ∧
      (contents b2 = l'.payload →
        ∃ o2, l'.serializeTo b2 fix2 csum2 = .ok o2 ∧ o2.err = false ∧ contents o2.buf = contents o.buf) := by
  obtain ⟨o, ho, -, hl, he, hby⟩ := lo_serializeTo_refines l b fix csum hb
  rw [hc] at hby
  have h4 : 4 ≤ (putLe32 l.family ++ p).length := by rw [List.length_append, putLe32_length]; omega
  refine ⟨o, { l with contents := putLe32 l.family, payload := p }, ho, he, ?_, ?_⟩
  · rw [hby, Loopback.decode_vis old _ _ h4, loDecSpec_encode old l p hw]
  · intro hc2
    simp only at hc2
    obtain ⟨o2, ho2, -, -, he2, hby2⟩ := lo_serializeTo_refines
      { l with contents := putLe32 l.family, payload := p } b2 fix2 csum2 hb2
    rw [hc2] at hby2
    exact ⟨o2, ho2, he2, by rw [hby2, hby]⟩

/-- Observation (not part of the property): a big-endian capture (DLT_LOOP, `00 00 00 1e`) decodes to
    the same Family as its little-endian form and is WRITTEN little-endian (`1e 00 00 00`): the
    original byte order of a decoded header is not reproduced; the round trip of the written bytes
    (`roundtrip_loopback`, `reserialize_fixpoint_loopback`) is exact. -/
example :
    decodeLoopbackView Loopback.fresh [0,0,0,30, 0x60] [] =
      .ok ({ contents := [0,0,0,30], payload := [0x60], family := 30 }, false) ∧
    (loSerSpec { contents := [0,0,0,30], payload := [0x60], family := 30 } [0x60]).bytes = [30,0,0,0, 0x60] := by
  decide

/-! ## ERSPAN II -/

theorem decoded_wf_erspan2 (old : ERSPANII) (d : GSlice) (o : DecOut ERSPANII)
    (h : old.decodeFromBytes d = .ok o) (he : o.err = false) : wfEr o.layer := by
  by_cases hs : d.len < 8
  · rw [ERSPANII.decode_short old d hs] at h; cases h; cases he
  · rw [ERSPANII.decode_long old d (by omega)] at h; cases h
    exact erLayer_wf d.vis

/-- Round trip of the bit packing: every field within its width comes back exactly. -/
theorem roundtrip_erspan2 (l : ERSPANII) (p : Bytes) (b : SBuf) (fix csum : Bool) (old : ERSPANII)
    (foreign : Bytes) (hw : wfEr l) (hb : Inv b) (hc : contents b = p) :
    ∃ o l', l.serializeTo b fix csum = .ok o ∧ o.err = false ∧ o.layer = l ∧
      old.decodeFromBytes { vis := contents o.buf, tail := foreign } =
        .ok { layer := l', trunc := false, err := false } ∧
      ErEquiv l' l ∧ l'.payload = p ∧ l'.contents ++ l'.payload = contents o.buf := by
  obtain ⟨o, ho, -, hl, he, hby⟩ := er_serializeTo_refines l b fix csum hb
  rw [hc] at hby
  have h8 : 8 ≤ (erEncode l ++ p).length := by
    rw [List.length_append]; have : (erEncode l).length = 8 := rfl; omega
  refine ⟨o, { l with contents := erEncode l, payload := p }, ho, he, hl, ?_,
    ⟨rfl, rfl, rfl, rfl, rfl, rfl, rfl, rfl⟩, rfl, by rw [hby]⟩
  rw [hby, ERSPANII.decode_vis old _ _ h8]
  unfold erDecSpec
  rw [erLayer_encode l p hw]

theorem reserialize_fixpoint_erspan2 (l : ERSPANII) (p : Bytes) (b b2 : SBuf) (fix csum fix2 csum2 : Bool)
    (old : ERSPANII) (foreign : Bytes) (hw : wfEr l) (hb : Inv b) (hc : contents b = p) (hb2 : Inv b2) :
    ∃ o l', l.serializeTo b fix csum = .ok o ∧ o.err = false ∧
      old.decodeFromBytes { vis := contents o.buf, tail := foreign } =
        .ok { layer := l', trunc := false, err := false } ∧
      (contents b2 = l'.payload →
        ∃ o2, l'.serializeTo b2 fix2 csum2 = .ok o2 ∧ o2.err = false ∧ contents o2.buf = contents o.buf) := by
  obtain ⟨o, ho, -, hl, he, hby⟩ := er_serializeTo_refines l b fix csum hb
  rw [hc] at hby
  have h8 : 8 ≤ (erEncode l ++ p).length := by
    rw [List.length_append]; have : (erEncode l).length = 8 := rfl; omega
  refine ⟨o, { l with contents := erEncode l, payload := p }, ho, he, ?_, ?_⟩
  · rw [hby, ERSPANII.decode_vis old _ _ h8]
    unfold erDecSpec
    rw [erLayer_encode l p hw]
  · intro hc2
    simp only at hc2
    obtain ⟨o2, ho2, -, -, he2, hby2⟩ := er_serializeTo_refines
      { l with contents := erEncode l, payload := p } b2 fix2 csum2 hb2
    rw [hc2] at hby2
    exact ⟨o2, ho2, he2, by rw [hby2, hby]; rfl⟩

/-- The field widths of `wfEr` are sharp: a Version of 16 is silently masked to 0 by the serializer
    (`Version&0xF`), so it does not come back. -/
theorem roundtrip_erspan2_version_counterexample :
    let l : ERSPANII := { ERSPANII.fresh with version := 16 }
    (erLayer (erEncode l)).version = 0 := by decide

/-! ## Non-vacuity: concrete non-trivial inhabitants of the hypotheses -/

example : wfArp { ARP.fresh with addrType := 1, protocol := 0x0800, hwAddressSize := 77, protAddressSize := 0,
                                 operation := 2, sourceHwAddress := [1,2,3,4,5,6], sourceProtAddress := [10,0,0,1],
                                 dstHwAddress := [6,5,4,3,2,1], dstProtAddress := [10,0,0,2] } := by decide

example : wfLo { Loopback.fresh with family := 30 } := by decide

example : wfEr { ERSPANII.fresh with version := 1, vlan := 0x2aa, cos := 4, trunkEncap := 2, isTruncated := true,
                                     sessionID := 0x2aa, reserved := 0x155, index := 0xF0F0F } := by decide

/-- the whole round trip computed on a concrete layer whose size fields (77, 0) are wrong on entry -/
example :
    serView (({ ARP.fresh with addrType := 1, protocol := 0x0800, hwAddressSize := 77, protAddressSize := 0,
                               operation := 2, sourceHwAddress := [1,2], sourceProtAddress := [3],
                               dstHwAddress := [4,5], dstProtAddress := [6] } : ARP).serializeTo
              (step (new 0 0) (.prepend [0xAA, 0xBB])) true true) =
      .ok { layer := { ARP.fresh with addrType := 1, protocol := 0x0800, hwAddressSize := 2, protAddressSize := 1,
                                      operation := 2, sourceHwAddress := [1,2], sourceProtAddress := [3],
                                      dstHwAddress := [4,5], dstProtAddress := [6] },
            err := false, bytes := [0,1,8,0,2,1,0,2, 1,2, 3, 4,5, 6, 0xAA,0xBB] } ∧
    decodeArp ARP.fresh [0,1,8,0,2,1,0,2, 1,2, 3, 4,5, 6, 0xAA,0xBB] [0xEE] =
      .ok ({ contents := [0,1,8,0,2,1,0,2, 1,2, 3, 4,5, 6], payload := [0xAA,0xBB], addrType := 1, protocol := 0x0800,
             hwAddressSize := 2, protAddressSize := 1, operation := 2, sourceHwAddress := [1,2],
             sourceProtAddress := [3], dstHwAddress := [4,5], dstProtAddress := [6] }, false) := by decide

end Gp.C06.Arp
