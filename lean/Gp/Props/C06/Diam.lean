import Gp.Lemmas.Layers.DiamRt
/-
  C06 (engine `ldiam`) — Diameter: serialize then decode returns the same layer.

  Model: `Gp/Model/Layers/Diam.lean`.  `wfDiam` is the explicit, decidable in-range predicate
  (version 1, 24-bit command code and total length, 32-bit ids; every AVP: Length = header + data,
  below 2^24, no vendor id without the V flag); `DiamEquiv` (≈) compares every public header field
  and the AVP lists in order, element-wise up to GroupedAVPs (derived from Data by the decoder,
  ignored by the serializer), and ignores Contents/Payload.

  Diameter is a leaf (application) layer: `Payload()` returns nil by design and the decoder keeps
  only `data[:MessageLength]`; bytes serialised behind the layer are outside MessageLength and are
  NOT returned as payload (`roundtrip` states what happens for every payload, `roundtrip_leaf` is
  the C06 claim for the empty payload — as for DHCPv4 in engine `ldhcp`).
-/
namespace Gp.C06.Diam
open Gp Gp.SBuf Gp.Arp Gp.Diam Gp.C18

/-- Every successfully decoded layer (any receiver, any bytes, any capacity, any Grouped table) is
    inside the claim: it satisfies `wfDiam`. -/
theorem decoded_wf (grp : Nat → Nat → Bool) (old : Diameter) (d : GSlice) (o : DecOut Diameter)
    (h : old.decodeFromBytes grp d = .ok o) (he : o.err = false) : wfDiam o.layer := by
  obtain ⟨v, t⟩ := d
  rw [decode_refines grp old v t] at h
  cases h
  exact diamDecSpec_wf grp old v he

/-- Round trip, for EVERY payload `p` already in the buffer: serialising an in-range layer with
    FixLengths (any checksum option, any buffer satisfying the invariant) and decoding the bytes
    (any receiver, any capacity) gives no error, no truncation flag, a layer ≈ the fixed one (AVPs in
    order), whose Contents are exactly the written layer bytes; the decoded Payload is EMPTY and the
    buffer = Contents ++ p. -/
theorem roundtrip (grp : Nat → Nat → Bool) (l : Diameter) (p : Bytes) (b : SBuf) (csum : Bool)
    (old : Diameter) (foreign : Bytes) (hw : wfDiam l) (hb : Inv b) (hc : contents b = p) :
    ∃ o l', l.serializeTo b true csum = .ok o ∧ o.err = false ∧ o.layer = diamFixed l true ∧
      old.decodeFromBytes grp { vis := contents o.buf, tail := foreign } =
        .ok { layer := l', trunc := false, err := false } ∧
      DiamEquiv l' (diamFixed l true) ∧ l'.payload = [] ∧ l'.contents ++ p = contents o.buf := by
  obtain ⟨o, ho, -, hl, he, hbytes⟩ := diam_serializeTo_refines l b true csum hb
  obtain ⟨l', hd, heq, hcon, hpl⟩ := decSpec_encode grp old l p hw
  refine ⟨o, l', ho, he, hl, ?_, heq, hpl, ?_⟩
  · rw [decode_refines, hbytes]
    simp only [diamSerSpec, hc]
    rw [hd]
  · rw [hcon, hbytes]; simp only [diamSerSpec, hc]

/-- The C06 claim for this leaf layer: over the empty payload the decoded payload equals the
    serialised one, and Contents ++ Payload are exactly the bytes written. -/
theorem roundtrip_leaf (grp : Nat → Nat → Bool) (l : Diameter) (b : SBuf) (csum : Bool)
    (old : Diameter) (foreign : Bytes) (hw : wfDiam l) (hb : Inv b) (hc : contents b = []) :
    ∃ o l', l.serializeTo b true csum = .ok o ∧ o.err = false ∧
      old.decodeFromBytes grp { vis := contents o.buf, tail := foreign } =
        .ok { layer := l', trunc := false, err := false } ∧
      DiamEquiv l' (diamFixed l true) ∧ l'.payload = contents b ∧ l'.contents ++ l'.payload = contents o.buf := by
  obtain ⟨o, l', h1, h2, -, h4, h5, h6, h7⟩ := roundtrip grp l [] b csum old foreign hw hb hc
  exact ⟨o, l', h1, h2, h4, h5, by rw [h6, hc], by rw [h6]; exact h7⟩

/-- Bytes serialised behind a Diameter layer are not returned as its payload: for every non-empty
    payload the "same payload" clause fails (by design: application layer, `Payload()` is nil). -/
theorem payload_behind_message_ignored (grp : Nat → Nat → Bool) (l : Diameter) (p : Bytes) (b : SBuf)
    (hw : wfDiam l) (hb : Inv b) (hc : contents b = p) (hp : p ≠ []) :
    ∃ o l', l.serializeTo b true true = .ok o ∧
      Diameter.fresh.decodeFromBytes grp { vis := contents o.buf, tail := [] } =
        .ok { layer := l', trunc := false, err := false } ∧ l'.layerPayload ≠ p := by
  obtain ⟨o, l', h1, -, -, h4, -, h6, -⟩ := roundtrip grp l p b true Diameter.fresh [] hw hb hc
  exact ⟨o, l', h1, h4, by show l'.payload ≠ p; rw [h6]; exact fun h => hp h.symm⟩

/-- Re-serialising the decoded layer (over the same payload, in any buffer, with any options) gives
    the same bytes: the decoded layer is a fixpoint. -/
theorem reserialize_fixpoint (grp : Nat → Nat → Bool) (l : Diameter) (p : Bytes) (b b2 : SBuf)
    (csum fix2 csum2 : Bool) (old : Diameter) (foreign : Bytes) (hw : wfDiam l) (hb : Inv b)
    (hc : contents b = p) (hb2 : Inv b2) (hc2 : contents b2 = p) :
    ∃ o l', l.serializeTo b true csum = .ok o ∧ o.err = false ∧
      old.decodeFromBytes grp { vis := contents o.buf, tail := foreign } =
        .ok { layer := l', trunc := false, err := false } ∧
      ∃ o2, l'.serializeTo b2 fix2 csum2 = .ok o2 ∧ o2.err = false ∧ contents o2.buf = contents o.buf := by
  obtain ⟨o, l', h1, h2, -, h4, h5, h6, h7⟩ := roundtrip grp l p b csum old foreign hw hb hc
  refine ⟨o, l', h1, h2, h4, ?_⟩
  -- l' is wf (it was decoded), so serialising it with FixLengths and decoding gives contents = its encoding;
  -- directly: the bytes SerializeTo writes for l' are determined by the fields ≈ compares
  obtain ⟨o2, ho2, -, hl2, he2, hbytes2⟩ := diam_serializeTo_refines l' b2 fix2 csum2 hb2
  refine ⟨o2, ho2, he2, ?_⟩
  have e1 : diamEncode (diamFixed l' fix2) = diamEncode (diamFixed l true) :=
    diamEncode_equiv _ _ (diamFixed_equiv l' l fix2 h5)
  obtain ⟨o', ho', -, -, -, hbytes'⟩ := diam_serializeTo_refines l b true csum hb
  rw [h1] at ho'; cases ho'
  rw [hbytes2, hbytes']
  simp only [diamSerSpec, hc, hc2, e1]

/-! Non-vacuity: a concrete, non-trivial in-range layer (a request with a mandatory Origin-Host AVP
    whose data needs padding and a vendor-specific AVP), and a layer outside the predicate. -/
example : wfDiam
    { contents := [], payload := [], version := 1, messageLength := 0, fRequest := true, fProxiable := false,
      fError := false, fRetransmitted := false, commandCode := 257, applicationID := 16777251,
      hopByHopID := 4294967295, endToEndID := 7,
      avps := [ { code := 264, fVendor := false, fMandatory := true, fProtected := false, length := 13,
                  vendorID := 0, data := [104, 111, 115, 116, 49], grouped := none },
                { code := 1, fVendor := true, fMandatory := true, fProtected := false, length := 13,
                  vendorID := 10415, data := [117], grouped := none } ] } := by decide

example : ¬ wfDiam { Diameter.fresh with version := 1, commandCode := 16777216 } := by decide

/-- Observation (scoped out by `wfDiam`, not a violation of the property as written: the value is
    not in range): a CommandCode ≥ 2^24 is cut to its low 24 bits by `byte(x >> 16)`. -/
example : ((diamHeader { Diameter.fresh with version := 1, commandCode := 16777217 }).drop 5).take 3 = [0, 0, 1] := by
  decide

end Gp.C06.Diam
