import Gp.Lemmas.Layers.MldRt
/-
  C06 (engine `lmld`) — MLDv1 query / report / done: serialize then decode returns the same field
  values and the same payload, with no error and no truncation flag; serialising the decoded layer
  once more reproduces the same bytes.

  Definitions (Gp/Lemmas/Layers/MldRt.lean, MldSer.lean):
    wfMsg l      : 0 ≤ MaximumResponseDelay ≤ 65535 ms, a whole number of milliseconds (the field on
                   the wire counts milliseconds in 16 bits); |MulticastAddress| = 16
    MsgEquiv a b : MaximumResponseDelay and MulticastAddress equal (≈ ignores Contents/Payload)
  The buffer `b` holds the payload (`contents b = p`) and is otherwise arbitrary (any buffer with the
  C18 invariant: capacity, stale bytes, history); the decoder's receiver `old`, its wrapper type, the
  capacity of the packet buffer and the foreign bytes behind the packet are arbitrary too.  The body
  has no length field, so the claim holds for EVERY payload (also beyond 64 KiB).

  The model is the code WITH proposed_fixes/lmld-1: the unpatched report / done types never assigned
  `Payload` (the round trip lost every non-empty payload, monitor `lmld:roundtrip:Payload`).
  Scoped by `wfMsg`, NOT violations of the property as written (observations, proved below): a
  sub-millisecond part of the delay is truncated; a 4-byte (IPv4) address is written in its 16-byte
  v4-in-v6 form and comes back 16 bytes long.
-/
namespace Gp.C06.Mld
open Gp Gp.SBuf Gp.Mld Gp.C18

/-- Every successfully decoded MLDv1 message (any of the three types) has in-range field values. -/
theorem decoded_wf (kind : Kind) (old : Msg) (d : GSlice) (o : DecOut Msg)
    (h : decodeFromBytes kind old d = .ok o) (he : o.err = false) : wfMsg o.layer := by
  rw [decode_spec] at h
  cases h
  obtain ⟨hl, h20⟩ := msgDecSpec_ok_layer old d.vis he
  rw [hl]
  exact msgLayer_wf d.vis h20

/-- Round trip: a well-formed layer over ANY payload is written without error and unchanged, and
    decoding the produced bytes (as any of the three types, into any receiver, in a packet buffer of
    any capacity) yields — without error and without truncation flag — a layer ≈ the original whose
    payload is exactly `p` and whose Contents ++ Payload are the bytes written. -/
theorem roundtrip (l : Msg) (p : Bytes) (b : SBuf) (fix csum : Bool) (kind : Kind) (old : Msg) (foreign : Bytes)
    (hw : wfMsg l) (hb : Inv b) (hc : contents b = p) :
    ∃ o l', l.serializeTo b fix csum = .ok o ∧ o.err = false ∧ o.layer = l ∧
      decodeFromBytes kind old { vis := contents o.buf, tail := foreign } =
        .ok { layer := l', trunc := false, err := false } ∧
      MsgEquiv l' l ∧ l'.payload = p ∧ l'.contents ++ l'.payload = contents o.buf := by
  obtain ⟨o, ho, -, hl, he, hbytes⟩ := serializeTo_refines l b fix csum hb
  rw [hc, msgSerSpec_wf l p hw] at hl he hbytes
  simp only at hl he hbytes
  have hby := hbytes trivial
  obtain ⟨h0, h1, h2, h16⟩ := hw
  obtain ⟨hd, -, -⟩ := delayWord_wf _ h0 h1 h2
  have hlen : ¬ ((msgEncode l.maximumResponseDelay l.multicastAddress ++ p).length < 20) := by
    rw [List.length_append, msgEncode_length, h16]; omega
  refine ⟨o, { contents := msgEncode l.maximumResponseDelay l.multicastAddress, payload := p,
               maximumResponseDelay := l.maximumResponseDelay, multicastAddress := l.multicastAddress },
    ho, he, hl, ?_, ⟨rfl, rfl⟩, rfl, by rw [hby]⟩
  rw [hby, decode_spec]
  simp only [msgDecSpec, if_neg hlen]
  rw [msgLayer_encode _ _ _ h16, hd]

/-- The same in the shape of the brief's views (`serializeMld`, `decodeMld`). -/
theorem roundtrip_view (l : Msg) (p : Bytes) (b : SBuf) (fix csum : Bool) (kind : Kind) (old : Msg) (foreign : Bytes)
    (hw : wfMsg l) (hb : Inv b) (hc : contents b = p) :
    ∃ b' l', serializeMld l b fix csum = .ok (b', l) ∧
      decodeMld kind old (contents b') foreign = .ok (l', false) ∧ MsgEquiv l' l ∧ l'.payload = p := by
  obtain ⟨o, l', ho, he, hl, hd, heq, hp, -⟩ := roundtrip l p b fix csum kind old foreign hw hb hc
  refine ⟨o.buf, l', ?_, ?_, heq, hp⟩
  · unfold serializeMld; rw [ho]; simp only [he, Bool.false_eq_true, if_false, hl]
  · unfold decodeMld; rw [hd]; simp only [Bool.false_eq_true, if_false]

/-- Serialising a decoded layer again (over its own payload, in any buffer, with any options)
    reproduces the bytes it was decoded from, except that the two reserved bytes — which the decoder
    ignores and the struct does not carry — are written as zero (RFC 2710: "initialized to zero by
    the sender; ignored by receivers"); nothing is mutated. -/
theorem reserialize_decoded (kind : Kind) (old : Msg) (d : GSlice) (o : DecOut Msg) (b : SBuf) (fix csum : Bool)
    (h : decodeFromBytes kind old d = .ok o) (he : o.err = false) (hb : Inv b)
    (hc : contents b = o.layer.payload) :
    serView (o.layer.serializeTo b fix csum) = .ok { layer := o.layer, err := false, bytes := zeroReserved d.vis } := by
  have hw := decoded_wf kind old d o h he
  rw [decode_spec] at h
  cases h
  obtain ⟨hl, h20⟩ := msgDecSpec_ok_layer old d.vis he
  rw [msg_serView _ b fix csum hb, msgSerSpec_wf _ _ hw, hc, hl, encode_decoded d.vis h20]

/-- Fixpoint (the property's "writing the decoded stack once more reproduces the same bytes"):
    write a well-formed layer over a payload, decode the bytes (any of the three types, any
    receiver, any capacity), write the decoded layer over the decoded payload into any buffer:
    the same bytes, no error. -/
theorem reserialize_fixpoint (l : Msg) (p : Bytes) (b b2 : SBuf) (fix csum fix2 csum2 : Bool) (kind : Kind)
    (old : Msg) (foreign : Bytes) (hw : wfMsg l) (hb : Inv b) (hc : contents b = p) (hb2 : Inv b2) :
    ∃ o l', l.serializeTo b fix csum = .ok o ∧ o.err = false ∧
      decodeFromBytes kind old { vis := contents o.buf, tail := foreign } =
        .ok { layer := l', trunc := false, err := false } ∧
      (contents b2 = l'.payload →
        serView (l'.serializeTo b2 fix2 csum2) = .ok { layer := l', err := false, bytes := contents o.buf }) := by
  obtain ⟨o, ho, -, hl, he, hbytes⟩ := serializeTo_refines l b fix csum hb
  rw [hc, msgSerSpec_wf l p hw] at hl he hbytes
  simp only at hl he hbytes
  have hby := hbytes trivial
  obtain ⟨o', l', ho', he', -, hd, -, -, -⟩ := roundtrip l p b fix csum kind old foreign hw hb hc
  rw [ho] at ho'; cases ho'
  refine ⟨o, l', ho, he, hd, ?_⟩
  intro hc2
  have := reserialize_decoded kind old { vis := contents o.buf, tail := foreign } _ b2 fix2 csum2 hd rfl hb2 hc2
  rw [this]
  simp only
  rw [hby, zeroReserved_encode]

/-! ## Observations scoped by `wfMsg` (not violations of the property as written) -/

/-- A sub-millisecond part of the delay does not survive: 1.5 ms is written as 1 and read as 1 ms. -/
theorem roundtrip_submillisecond_counterexample :
    ¬ (∀ (l : Msg) (p : Bytes), l.multicastAddress.length = 16 → 0 ≤ l.maximumResponseDelay →
        l.maximumResponseDelay ≤ 65535 * millisecond →
        ∀ s, msgSerSpec l p = s → s.err = false → (msgLayer s.bytes).maximumResponseDelay = l.maximumResponseDelay) := by
  intro h
  have := h { Msg.fresh with maximumResponseDelay := 1500000, multicastAddress := List.replicate 16 0 } []
    (by decide) (by decide) (by decide) _ rfl (by decide)
  revert this
  decide

/-- A 4-byte (IPv4) address is accepted by the serializer (`To16`) and comes back in its 16-byte
    v4-in-v6 form. -/
theorem roundtrip_ipv4_address_counterexample :
    ¬ (∀ (l : Msg) (p : Bytes), l.maximumResponseDelay = 0 →
        ∀ s, msgSerSpec l p = s → s.err = false → (msgLayer s.bytes).multicastAddress = l.multicastAddress) := by
  intro h
  have := h { Msg.fresh with multicastAddress := [224, 0, 0, 251] } [] rfl _ rfl (by decide)
  revert this
  decide

/-! Non-vacuity: a concrete non-trivial inhabitant of `wfMsg`, its round trip, and layers outside. -/

example : wfMsg { contents := [], payload := [], maximumResponseDelay := 10000000000,
                  multicastAddress := [0xff,2,0,0,0,0,0,0,0,0,0x0d,0xb8,0x11,0x22,0x33,0x44] } := by decide

example : ¬ wfMsg { Msg.fresh with maximumResponseDelay := 1500000, multicastAddress := List.replicate 16 0 } := by decide
example : ¬ wfMsg { Msg.fresh with multicastAddress := [224, 0, 0, 251] } := by decide
example : ¬ wfMsg { Msg.fresh with maximumResponseDelay := 65536000000, multicastAddress := List.replicate 16 0 } := by decide

example :
    let l : Msg := { Msg.fresh with maximumResponseDelay := 65535000000,
                                    multicastAddress := [0xff,2,0,0,0,0,0,0,0,0,0x0d,0xb8,0x11,0x22,0x33,0x44] }
    ∃ o, l.serializeTo (serializePayload [0xaa, 0xbb] (new 0 0)) true true = .ok o ∧
      contents o.buf = [0xff,0xff,0,0, 0xff,2,0,0,0,0,0,0,0,0,0x0d,0xb8,0x11,0x22,0x33,0x44, 0xaa,0xbb] ∧
      decodeMld .done Msg.fresh (contents o.buf) [] =
        .ok ({ l with contents := [0xff,0xff,0,0, 0xff,2,0,0,0,0,0,0,0,0,0x0d,0xb8,0x11,0x22,0x33,0x44],
                      payload := [0xaa, 0xbb] }, false) :=
  ⟨_, rfl, by decide, by decide⟩

end Gp.C06.Mld
