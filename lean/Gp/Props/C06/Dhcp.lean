import Gp.Lemmas.Layers.DhcpRt
/-
  C06 (engine `ldhcp`) — serialize then decode returns the same DHCPv4 layer; writing the decoded layer
  once more reproduces the same bytes.

  `wfDhcp` (Gp/Lemmas/Layers/DhcpRt.lean) is the explicit, decidable in-range predicate: byte / 16-bit /
  32-bit scalars, four 4-byte addresses, ClientHWAddr of at most 16 bytes, 64 bytes of ServerName, 128
  bytes of File, options with Length = len(Data) that are no End options and Pads without data — the
  sizes of the fixed BOOTP fields.  Every decoded layer satisfies it (`decoded_wf`).  `DhcpEquiv` (≈)
  compares all public fields, Options element by element in order, and ignores Contents/Payload.

  DHCPv4 is a leaf: the message format has no payload — the options run to the end of the message and
  the decoder ignores whatever follows the End option (it is part of Contents; Payload is always
  empty).  "All payloads … where the protocol allows" is therefore the empty payload; `roundtrip`
  states what happens for every payload (the fields come back, the payload bytes end up in Contents)
  and `roundtrip_leaf` is the property's clause.

  The theorems are about the `.fixed` code (proposed_fixes/ldhcp-1..3): with the pinned serializer a
  layer decoded from ordinary traffic (6-byte chaddr) does not even have well-defined bytes on a
  re-used buffer (C07).
-/
namespace Gp.C06.Dhcp
open Gp Gp.SBuf Gp.Dhcp Gp.C18

/-- Every successfully decoded layer — any receiver, any bytes, any capacity — is well-formed, and its
    HardwareLen agrees with its ClientHWAddr. -/
theorem decoded_wf (old : DHCPv4) (data foreign : Bytes) (l : DHCPv4) (t : Bool)
    (h : decodeDhcp old data foreign = .ok (l, t)) : wfDhcp l ∧ hwLenAgrees l := by
  rw [decodeDhcp_eq] at h
  by_cases he : (decSpec old data).err = true
  · rw [if_pos he] at h; cases h
  · rw [if_neg he] at h
    cases h
    exact decSpec_wf old data (by simpa using he)

/-- Round trip, for every payload already in the buffer: a well-formed layer serialised with FixLengths
    (ComputeChecksums either way) into ANY buffer satisfying the C18 invariant gives
    `dhcpEncode (fixed l) ++ payload`; decoding those bytes into ANY receiver, with any spare capacity,
    succeeds without truncation flag and returns a layer ≈ the layer after FixLengths (HardwareLen =
    len(ClientHWAddr)), Options in order; Contents are all the bytes and Payload is empty. -/
theorem roundtrip (l old : DHCPv4) (b : SBuf) (csum : Bool) (foreign : Bytes) (hw : wfDhcp l) (h : Inv b) :
    ∃ s l', serView (l.serializeTo .fixed b true csum) = .ok s ∧ s.err = false ∧ s.layer = dhcpFixed l true ∧
      s.bytes = dhcpEncode (dhcpFixed l true) ++ contents b ∧
      decodeDhcp old s.bytes foreign = .ok (l', false) ∧ DhcpEquiv l' (dhcpFixed l true) ∧
      l'.contents = s.bytes ∧ l'.payload = [] := by
  have hbad : serBad l = false := (serBad_iff l).mpr (wfOpts_consistent _ hw.2.2.2.2.2.2.2.2.2.2.2.2.2.2)
  have hspec : serSpec l (contents b) true =
      { layer := dhcpFixed l true, err := false, bytes := dhcpEncode (dhcpFixed l true) ++ contents b } := by
    unfold serSpec; simp only [hbad, Bool.false_eq_true, if_false]
  refine ⟨_, { dhcpFixed l true with contents := dhcpEncode (dhcpFixed l true) ++ contents b, payload := [] },
    dhcp_serView l b true csum h, ?_, ?_, ?_, ?_, DhcpEquiv_base _ _ _, ?_, rfl⟩
  · rw [hspec]
  · rw [hspec]
  · rw [hspec]
  · rw [hspec, decodeDhcp_eq]
    simp only
    rw [decSpec_encode old (dhcpFixed l true) (contents b) (wfDhcp_fixed l true hw)
      (hwLenAgrees_fixed l hw.2.2.2.2.2.2.2.2.2.2.2.1)]
    simp
  · rw [hspec]

/-- The property's clause for this layer (a leaf: empty payload): same fields, same (empty) payload,
    no error, no truncation flag, and Contents ++ Payload are exactly the bytes written. -/
theorem roundtrip_leaf (l old : DHCPv4) (b : SBuf) (csum : Bool) (foreign : Bytes) (hw : wfDhcp l) (h : Inv b)
    (hp : contents b = []) :
    ∃ s l', serView (l.serializeTo .fixed b true csum) = .ok s ∧ s.err = false ∧
      decodeDhcp old s.bytes foreign = .ok (l', false) ∧ DhcpEquiv l' (dhcpFixed l true) ∧
      l'.payload = contents b ∧ l'.contents ++ l'.payload = s.bytes := by
  obtain ⟨s, l', h1, h2, -, -, h5, h6, h7, h8⟩ := roundtrip l old b csum foreign hw h
  exact ⟨s, l', h1, h2, h5, h6, by rw [h8, hp], by rw [h7, h8, List.append_nil]⟩

/-- Without FixLengths: a layer whose HardwareLen already agrees with ClientHWAddr comes back ≈ itself. -/
theorem roundtrip_nofix (l old : DHCPv4) (b : SBuf) (fix csum : Bool) (foreign : Bytes) (hw : wfDhcp l)
    (ha : hwLenAgrees l) (h : Inv b) :
    ∃ s l', serView (l.serializeTo .fixed b fix csum) = .ok s ∧ s.err = false ∧ s.layer = l ∧
      decodeDhcp old s.bytes foreign = .ok (l', false) ∧ DhcpEquiv l' l ∧ l'.payload = [] := by
  have hbad : serBad l = false := (serBad_iff l).mpr (wfOpts_consistent _ hw.2.2.2.2.2.2.2.2.2.2.2.2.2.2)
  have hfix : dhcpFixed l fix = l := dhcpFixed_of_agrees l fix ha hw.2.2.2.2.2.2.2.2.2.2.2.1
  have hspec : serSpec l (contents b) fix = { layer := l, err := false, bytes := dhcpEncode l ++ contents b } := by
    unfold serSpec; simp only [hbad, Bool.false_eq_true, if_false, hfix]
  refine ⟨_, { l with contents := dhcpEncode l ++ contents b, payload := [] },
    dhcp_serView l b fix csum h, ?_, ?_, ?_, DhcpEquiv_base _ _ _, rfl⟩
  · rw [hspec]
  · rw [hspec]
  · rw [hspec, decodeDhcp_eq]
    simp only
    rw [decSpec_encode old l (contents b) hw ha]
    simp

/-- Bytes written behind a DHCPv4 message are NOT returned as payload: the decoder stops at the End
    option, keeps everything in Contents and leaves Payload empty.  (DHCP has no payload; packets
    decoded from the wire never have one, `decode_success` in C05.) -/
theorem payload_behind_end_ignored (l old : DHCPv4) (b : SBuf) (csum : Bool) (foreign : Bytes) (hw : wfDhcp l)
    (h : Inv b) (hp : contents b ≠ []) :
    ∃ s l', serView (l.serializeTo .fixed b true csum) = .ok s ∧ decodeDhcp old s.bytes foreign = .ok (l', false) ∧
      l'.payload ≠ contents b ∧ l'.contents = dhcpEncode (dhcpFixed l true) ++ contents b := by
  obtain ⟨s, l', h1, -, -, h4, h5, -, h7, h8⟩ := roundtrip l old b csum foreign hw h
  exact ⟨s, l', h1, h5, by rw [h8]; exact fun x => hp x.symm, by rw [h7, h4]⟩

/-- Writing the decoded layer once more reproduces the same bytes: serialise a well-formed layer over
    the empty payload, decode, serialise the decoded layer over its own payload into any other
    buffer — the bytes are the same, and the decoded layer is not changed by FixLengths. -/
theorem reserialize_fixpoint (l old : DHCPv4) (b b' : SBuf) (csum csum' : Bool) (foreign : Bytes) (hw : wfDhcp l)
    (h : Inv b) (h' : Inv b') (hp : contents b = []) (hp' : contents b' = []) :
    ∃ s l', serView (l.serializeTo .fixed b true csum) = .ok s ∧
      decodeDhcp old s.bytes foreign = .ok (l', false) ∧ l'.payload = contents b' ∧
      serView (l'.serializeTo .fixed b' true csum') = .ok { layer := l', err := false, bytes := s.bytes } := by
  obtain ⟨s, l', h1, h2, h3, h4, h5, h6, h7, h8⟩ := roundtrip l old b csum foreign hw h
  refine ⟨s, l', h1, h5, by rw [h8, hp'], ?_⟩
  rw [dhcp_serView l' b' true csum' h']
  have hwf := decoded_wf old s.bytes foreign l' false h5
  have hbad : serBad l' = false := (serBad_iff l').mpr (wfOpts_consistent _ hwf.1.2.2.2.2.2.2.2.2.2.2.2.2.2.2)
  have hfix : dhcpFixed l' true = l' := dhcpFixed_of_agrees l' true hwf.2 hwf.1.2.2.2.2.2.2.2.2.2.2.2.1
  unfold serSpec
  simp only [hbad, Bool.false_eq_true, if_false, hfix]
  rw [hp', List.append_nil, dhcpEncode_congr l' _ h6, h4, hp, List.append_nil]

/-- The same starting from ANY bytes that decode: the decoded layer `l` serialises (no error) to some
    bytes `E`; decoding `E` gives a layer ≈ `l` with empty payload, and serialising that layer again
    gives `E` again.  (`E` need not be the input: bytes behind the End option are dropped, a missing
    End option is added.) -/
theorem reserialize_decoded (old old' : DHCPv4) (data foreign foreign' : Bytes) (l : DHCPv4) (t : Bool)
    (b b' : SBuf) (csum : Bool) (hd : decodeDhcp old data foreign = .ok (l, t))
    (h : Inv b) (hb : contents b = l.payload) (h' : Inv b') (hb' : contents b' = []) :
    ∃ s l', serView (l.serializeTo .fixed b true csum) = .ok s ∧ s.err = false ∧ s.layer = l ∧
      decodeDhcp old' s.bytes foreign' = .ok (l', false) ∧ DhcpEquiv l' l ∧ l'.payload = l.payload ∧
      serView (l'.serializeTo .fixed b' true csum) = .ok { layer := l', err := false, bytes := s.bytes } := by
  obtain ⟨hwf, hag⟩ := decoded_wf old data foreign l t hd
  obtain ⟨-, -, hpl, -⟩ := Gp.Dhcp.decSpec_ok_base old data (by
    rw [decodeDhcp_eq] at hd
    by_cases he : (decSpec old data).err = true
    · rw [if_pos he] at hd; cases hd
    · simpa using he)
  have hlp : l.payload = [] := by
    rw [decodeDhcp_eq] at hd
    by_cases he : (decSpec old data).err = true
    · rw [if_pos he] at hd; cases hd
    · rw [if_neg he] at hd; cases hd
      exact (decSpec_ok_base old data (by simpa using he)).2.1
  have hfixl : dhcpFixed l true = l := dhcpFixed_of_agrees l true hag hwf.2.2.2.2.2.2.2.2.2.2.2.1
  obtain ⟨s, l', h1, h2, h3, h4, h5, h6, h7, h8⟩ := roundtrip l old' b csum foreign' hwf h
  rw [hfixl] at h3 h4 h6
  refine ⟨s, l', h1, h2, h3, h5, h6, by rw [h8, hlp], ?_⟩
  rw [dhcp_serView l' b' true csum h']
  have hwf' := decoded_wf old' s.bytes foreign' l' false h5
  have hbad : serBad l' = false := (serBad_iff l').mpr (wfOpts_consistent _ hwf'.1.2.2.2.2.2.2.2.2.2.2.2.2.2.2)
  have hfix : dhcpFixed l' true = l' := dhcpFixed_of_agrees l' true hwf'.2 hwf'.1.2.2.2.2.2.2.2.2.2.2.2.1
  unfold serSpec
  simp only [hbad, Bool.false_eq_true, if_false, hfix]
  rw [hb', List.append_nil, dhcpEncode_congr l' l h6, h4, hb, hlp, List.append_nil]

/-! ### Sharpness of `wfDhcp` (values outside it do not come back) and non-vacuity -/

/-- a realistic layer built through public fields -/
def sample : DHCPv4 :=
  { DHCPv4.fresh with
      operation := 1
      hardwareType := 1
      hardwareLen := 99
      xid := 0x12345678
      flags := 0x8000
      clientIP := [0, 0, 0, 0]
      yourClientIP := [192, 168, 0, 123]
      nextServerIP := [10, 0, 0, 1]
      relayAgentIP := [0, 0, 0, 0]
      clientHWAddr := [0x00, 0x1b, 0x21, 0x3c, 0xab, 0x10]
      serverName := List.replicate 64 0x41
      file := List.replicate 128 0x42
      options := [{ typ := 53, length := 1, data := [1] }, { typ := 0, length := 0, data := [] },
                  { typ := 55, length := 3, data := [1, 3, 6] }, { typ := 12, length := 0, data := [] }] }

set_option maxRecDepth 8000 in
example : wfDhcp sample ∧ ¬ hwLenAgrees sample ∧ hwLenAgrees (dhcpFixed sample true) := by decide

set_option maxRecDepth 100000 in
/-- the round trip of `sample`, evaluated: HardwareLen 99 is repaired to 6, everything else comes back -/
example : (decSpec DHCPv4.fresh (serSpec sample [] true).bytes).err = false ∧
    DhcpEquiv (decSpec DHCPv4.fresh (serSpec sample [] true).bytes).layer (dhcpFixed sample true) := by decide

set_option maxRecDepth 100000 in
/-- A ServerName shorter than the 64-byte field comes back zero padded: `wfDhcp` asks for 64 bytes. -/
theorem roundtrip_short_sname_counterexample :
    ¬ DhcpEquiv (decSpec DHCPv4.fresh (serSpec { sample with serverName := [0x61, 0x62] } [] true).bytes).layer
        (dhcpFixed { sample with serverName := [0x61, 0x62] } true) := by decide

set_option maxRecDepth 100000 in
/-- An End option placed inside Options ends the list for the decoder: `wfOpt` excludes it. -/
theorem roundtrip_explicit_end_counterexample :
    (decSpec DHCPv4.fresh (serSpec { sample with options := [{ typ := 255, length := 0, data := [] },
        { typ := 53, length := 1, data := [1] }] } [] true).bytes).layer.options = [] := by decide

set_option maxRecDepth 100000 in
/-- A ClientHWAddr longer than chaddr (20 bytes): FixLengths writes HardwareLen 20, the first 16 bytes
    are written, and the decoder rejects the message (hardware length exceeds 16). -/
theorem roundtrip_long_chaddr_counterexample :
    (decSpec DHCPv4.fresh (serSpec { sample with clientHWAddr := List.replicate 20 7 } [] true).bytes).err = true := by
  decide

end Gp.C06.Dhcp
