import Gp.Lemmas.Layers.PppRt
/-
  C06 (engine `lppp`) — PPP, PPPoE, MPLS: serialize (FixLengths on) then decode returns the same
  field values and the same payload, with no error and no truncation flag; serialising the decoded
  layer once more reproduces the same bytes.

  Definitions (Gp/Lemmas/Layers/PppRt.lean, PppSer.lean):
    wfPPP l    :  PPPType < 2^16 ∧ high byte even ∧ low byte odd   (RFC 1661 protocol numbers — and exactly
                  the values decodePPP produces; a type with an odd high byte is written as ONE byte)
    wfPPPoE l  :  Version ≤ 15 ∧ Type ≤ 15 ∧ Code < 2^8 ∧ SessionId < 2^16 ∧ Length < 2^16
    wfMPLS l   :  Label < 2^20 ∧ TrafficClass ≤ 7 ∧ TTL < 2^8
    pppoeFixed l p fix : the PPPoE layer after FixLengths (Length := |p| mod 2^16)
    PPPEquiv / PPPoEEquiv / MPLSEquiv : all public fields equal (≈ ignores Contents/Payload)
  The buffer `b` holds the payload (`contents b = p`) and is otherwise arbitrary (any C18-reachable
  buffer: capacity, stale bytes, history); the capacity of the packet buffer the result is decoded
  from and the foreign bytes behind it are arbitrary too.  "No truncation flag" = the decoder's
  behaviour contains no SetTruncated call.
-/
namespace Gp.C06.Ppp
open Gp Gp.SBuf Gp.Ppp Gp.C18 Gp.Gen.Ppp

/-! ## PPP -/

/-- Every layer `decodePPP` adds has in-range field values. -/
theorem decoded_wf (d : GSlice) (o : DecOut PPP) (l : PPP)
    (h : decodePPP d = .ok o) (hl : o.layer = some l) : wfPPP l := by
  rw [decodePPP_eq] at h; cases h
  unfold pppOut at hl
  cases hs : pppDecSpec d.vis with
  | none => rw [hs] at hl; cases hl
  | some p => rw [hs] at hl; cases hl; exact pppDecSpec_wf d.vis l hs

/-- Round trip: a well-formed PPP layer over EVERY payload (PPP has no length field) is written
    without error and unchanged; decoding the produced bytes (in a packet buffer of any capacity)
    yields — no error, no truncation flag — a layer ≈ the written one whose payload is exactly `p`,
    added to the packet as its link layer. -/
theorem roundtrip (l : PPP) (p : Bytes) (b : SBuf) (fix csum : Bool) (foreign : Bytes)
    (hw : wfPPP l) (hb : Inv b) (hc : contents b = p) :
    ∃ o od l', l.serializeTo b fix csum = .ok o ∧ o.err = false ∧ o.layer = l ∧
      decodePPP { vis := contents o.buf, tail := foreign } = .ok od ∧ od.layer = some l' ∧
      od.beh.acts = [.addLayer LayerTypePPP, .setLinkLayer] ∧ od.beh.tail = .pppType l.pppType ∧
      PPPEquiv l' l ∧ l'.payload = p ∧ od.rest.vis = p := by
  have hd : decodePPP { vis := contents (pppSerBuf l b), tail := foreign } =
      .ok { beh := { acts := [.addLayer LayerTypePPP, .setLinkLayer], tail := .pppType l.pppType },
            layer := some { contents := putBe16 l.pppType, payload := p, pppType := l.pppType,
                            hasPPTPHeader := l.hasPPTPHeader },
            rest := { vis := p, tail := foreign } } := by
    rw [decodePPP_eq, (pppSerBuf_contents l b hb).1, hc]
    unfold pppOut
    simp only [(pppDecSpec_frame l p hw).2]
  exact ⟨_, _, _, ppp_serializeTo_eq l b fix csum, rfl, rfl, hd, rfl, rfl, rfl, ⟨rfl, rfl⟩, rfl, rfl⟩

/-- Writing the decoded layer once more (over the decoded payload, in any buffer, any options)
    reproduces the same bytes. -/
theorem reserialize_fixpoint (l : PPP) (p : Bytes) (b b2 : SBuf) (fix csum fix2 csum2 : Bool)
    (foreign : Bytes) (hw : wfPPP l) (hb : Inv b) (hc : contents b = p) (hb2 : Inv b2) :
    ∃ o od l', l.serializeTo b fix csum = .ok o ∧
      decodePPP { vis := contents o.buf, tail := foreign } = .ok od ∧ od.layer = some l' ∧
      (contents b2 = l'.payload →
        ∃ o2, l'.serializeTo b2 fix2 csum2 = .ok o2 ∧ o2.err = false ∧ contents o2.buf = contents o.buf) := by
  obtain ⟨o, od, l', ho, -, -, hd, hl', -, -, heq, hpay, -⟩ := roundtrip l p b fix csum foreign hw hb hc
  refine ⟨o, od, l', ho, hd, hl', fun hc2 => ⟨_, ppp_serializeTo_eq l' b2 fix2 csum2, rfl, ?_⟩⟩
  rw [ppp_serializeTo_eq] at ho; cases ho
  simp only [(pppSerBuf_contents l' b2 hb2).1, (pppSerBuf_contents l b hb).1, hc2, hpay, hc,
    pppHdrBytes_congr l' l heq]

/-- `wfPPP` is needed: a protocol number whose HIGH byte is odd (bit 0x100 set) is written as ONE
    byte — 0x0121 goes out as `21` and comes back as PPPType 0x0021. -/
theorem roundtrip_ppp_odd_high_byte_counterexample :
    let l : PPP := { PPP.fresh with pppType := 0x0121 }
    (pppSerSpec l [0x45]).bytes = [0x21, 0x45] ∧
    (pppDecSpec (pppSerSpec l [0x45]).bytes).map (·.pppType) = some 0x0021 := by decide

/-- A one-byte (compressed) protocol field on the wire is decoded to the same PPPType value as its
    two-byte form, and is re-written in the two-byte form: decode → serialize is NOT the identity on
    bytes for such frames (serialize → decode → serialize is, see `reserialize_fixpoint`). -/
theorem compressed_protocol_field_is_expanded :
    (pppDecSpec [0x21, 0x45]).map (·.pppType) = some 0x21 ∧
    (pppDecSpec [0x00, 0x21, 0x45]).map (·.pppType) = some 0x21 ∧
    pppHdrBytes { PPP.fresh with pppType := 0x21 } = [0x00, 0x21] := by decide

/-! ## PPPoE -/

/-- Every layer `decodePPPoE` adds has in-range field values, and its payload is exactly `Length`
    bytes long (bytes behind it — Ethernet padding — are dropped). -/
theorem decoded_wf_pppoe (d : GSlice) (o : DecOut PPPoE) (l : PPPoE)
    (h : decodePPPoE d = .ok o) (hl : o.layer = some l) : wfPPPoE l ∧ l.payload.length = l.length := by
  rw [decodePPPoE_eq] at h; cases h
  unfold pppoeOut at hl
  cases hs : pppoeDecSpec d.vis with
  | none => rw [hs] at hl; cases hl
  | some p => rw [hs] at hl; cases hl; exact pppoeDecSpec_wf d.vis l hs

/-- Round trip with FixLengths: a well-formed PPPoE layer (whatever its Length field held) over a
    payload the length field can express (< 2^16 bytes) is written without error, Length becomes
    `|p|`, and decoding yields — no error, no SetTruncated — a layer ≈ the fixed one with payload `p`. -/
theorem roundtrip_pppoe (l : PPPoE) (p : Bytes) (b : SBuf) (csum : Bool) (foreign : Bytes)
    (hw : wfPPPoE l) (hp : p.length < 65536) (hb : Inv b) (hc : contents b = p) :
    ∃ o od l', l.serializeTo b true csum = .ok o ∧ o.err = false ∧ o.layer = pppoeFixed l p true ∧
      o.layer.length = p.length ∧
      decodePPPoE { vis := contents o.buf, tail := foreign } = .ok od ∧ od.layer = some l' ∧
      od.beh.acts = [.addLayer LayerTypePPPoE] ∧ od.beh.tail = .pppoeCode l.code ∧
      PPPoEEquiv l' (pppoeFixed l p true) ∧ l'.payload = p ∧ od.rest.vis = p := by
  have hfix : pppoeFixed l p true = { l with length := p.length } := by
    unfold pppoeFixed; simp only [if_true, Nat.mod_eq_of_lt hp]
  have hwf : wfPPPoE (pppoeFixed l p true) := by
    rw [hfix]; exact ⟨hw.1, hw.2.1, hw.2.2.1, hw.2.2.2.1, hp⟩
  have hd : decodePPPoE { vis := contents (pppoeSerBuf l b true), tail := foreign } =
      .ok { beh := { acts := [.addLayer LayerTypePPPoE], tail := .pppoeCode l.code },
            layer := some { contents := pppoeHdrBytes (pppoeFixed l p true), payload := p,
                            version := l.version, type := l.type, code := l.code, sessionId := l.sessionId,
                            length := p.length },
            rest := { vis := p, tail := List.drop (6 + p.length) (pppoeHdrBytes (pppoeFixed l p true) ++ p) ++ foreign } } := by
    rw [decodePPPoE_eq, (pppoeSerBuf_contents l b true hb).1, hc]
    unfold pppoeOut
    simp only [pppoeDecSpec_frame (pppoeFixed l p true) p hwf (by rw [hfix])]
    rw [hfix]
  refine ⟨_, _, _, pppoe_serializeTo_eq l b true csum, rfl, by rw [hc], by rw [hc, hfix], hd, rfl, rfl, rfl, ?_, rfl, rfl⟩
  rw [hfix]; exact ⟨rfl, rfl, rfl, rfl, rfl⟩

theorem reserialize_fixpoint_pppoe (l : PPPoE) (p : Bytes) (b b2 : SBuf) (csum csum2 : Bool)
    (foreign : Bytes) (hw : wfPPPoE l) (hp : p.length < 65536) (hb : Inv b) (hc : contents b = p)
    (hb2 : Inv b2) :
    ∃ o od l', l.serializeTo b true csum = .ok o ∧
      decodePPPoE { vis := contents o.buf, tail := foreign } = .ok od ∧ od.layer = some l' ∧
      (contents b2 = l'.payload →
        ∃ o2, l'.serializeTo b2 true csum2 = .ok o2 ∧ o2.err = false ∧ contents o2.buf = contents o.buf) := by
  obtain ⟨o, od, l', ho, -, hol, holen, hd, hl', -, -, heq, hpay, -⟩ := roundtrip_pppoe l p b csum foreign hw hp hb hc
  refine ⟨o, od, l', ho, hd, hl', fun hc2 => ⟨_, pppoe_serializeTo_eq l' b2 true csum2, rfl, ?_⟩⟩
  rw [pppoe_serializeTo_eq] at ho; cases ho
  simp only [(pppoeSerBuf_contents l' b2 true hb2).1, (pppoeSerBuf_contents l b true hb).1, hc2, hpay, hc]
  have h1 : PPPoEEquiv (pppoeFixed l' p true) (pppoeFixed l p true) := by
    obtain ⟨e1, e2, e3, e4, e5⟩ := heq
    unfold pppoeFixed at e1 e2 e3 e4 e5 ⊢
    simp only [if_true] at e1 e2 e3 e4 e5 ⊢
    exact ⟨e1, e2, e3, e4, rfl⟩
  rw [pppoeHdrBytes_congr _ _ h1]

/-- `Type ≤ 15` is needed: `(p.Version << 4) | p.Type` does not mask Type, so Type 17 spills into
    the Version nibble (Version 1, Type 17 comes back as Version 1|1 = 1 … here 0 → 1). -/
theorem roundtrip_pppoe_type_counterexample :
    let l : PPPoE := { PPPoE.fresh with version := 0, type := 17 }
    (pppoeDecSpec (pppoeSerSpec l [] true).bytes).map (fun d => (d.version, d.type)) = some (1, 1) := by decide

/-- The payload bound is sharp: the 16-bit Length field cannot hold 65536 or more, FixLengths stores
    `len(payload) mod 2^16` silently (no error), so the decoder cuts the payload short. -/
theorem roundtrip_pppoe_payload_bound_sharp (l : PPPoE) (p : Bytes) (h : 65536 ≤ p.length) :
    (pppoeSerSpec l p true).err = false ∧ (pppoeSerSpec l p true).layer.length < p.length := by
  refine ⟨rfl, ?_⟩
  show (pppoeFixed l p true).length < p.length
  unfold pppoeFixed; simp only [if_true]; omega

/-! ## MPLS -/

theorem decoded_wf_mpls (d : GSlice) (o : DecOut MPLS) (l : MPLS)
    (h : decodeMPLS d = .ok o) (hl : o.layer = some l) : wfMPLS l := by
  rw [decodeMPLS_eq] at h; cases h
  unfold mplsOut at hl
  cases hs : mplsDecSpec d.vis with
  | none => rw [hs] at hl; cases hl
  | some p => rw [hs] at hl; cases hl; exact mplsDecSpec_wf d.vis l hs

/-- Round trip for every well-formed label stack entry over EVERY payload: label, traffic class,
    bottom-of-stack bit, TTL and the payload come back; the next decoder is the payload decoder
    exactly when the S bit is set. -/
theorem roundtrip_mpls (l : MPLS) (p : Bytes) (b : SBuf) (fix csum : Bool) (foreign : Bytes)
    (hw : wfMPLS l) (hb : Inv b) (hc : contents b = p) :
    ∃ o od l', l.serializeTo b fix csum = .ok o ∧ o.err = false ∧ o.layer = l ∧
      decodeMPLS { vis := contents o.buf, tail := foreign } = .ok od ∧ od.layer = some l' ∧
      od.beh.acts = [.addLayer LayerTypeMPLS] ∧
      od.beh.tail = (if l.stackBottom then .mplsPayload else .mplsFunc) ∧
      MPLSEquiv l' l ∧ l'.payload = p ∧ od.rest.vis = p := by
  have hd : decodeMPLS { vis := contents (mplsSerBuf l b), tail := foreign } =
      .ok { beh := { acts := [.addLayer LayerTypeMPLS],
                     tail := if l.stackBottom then .mplsPayload else .mplsFunc },
            layer := some { contents := putBe32 l.encode, payload := p, label := l.label,
                            trafficClass := l.trafficClass, stackBottom := l.stackBottom, ttl := l.ttl },
            rest := { vis := p, tail := foreign } } := by
    rw [decodeMPLS_eq, (mplsSerBuf_contents l b hb).1, hc]
    unfold mplsOut
    simp only [mplsDecSpec_frame l p hw]
  exact ⟨_, _, _, mpls_serializeTo_eq l b fix csum, rfl, rfl, hd, rfl, rfl, rfl, ⟨rfl, rfl, rfl, rfl⟩, rfl, rfl⟩

theorem reserialize_fixpoint_mpls (l : MPLS) (p : Bytes) (b b2 : SBuf) (fix csum fix2 csum2 : Bool)
    (foreign : Bytes) (hw : wfMPLS l) (hb : Inv b) (hc : contents b = p) (hb2 : Inv b2) :
    ∃ o od l', l.serializeTo b fix csum = .ok o ∧
      decodeMPLS { vis := contents o.buf, tail := foreign } = .ok od ∧ od.layer = some l' ∧
      (contents b2 = l'.payload →
        ∃ o2, l'.serializeTo b2 fix2 csum2 = .ok o2 ∧ o2.err = false ∧ contents o2.buf = contents o.buf) := by
  obtain ⟨o, od, l', ho, -, -, hd, hl', -, -, heq, hpay, -⟩ := roundtrip_mpls l p b fix csum foreign hw hb hc
  refine ⟨o, od, l', ho, hd, hl', fun hc2 => ⟨_, mpls_serializeTo_eq l' b2 fix2 csum2, rfl, ?_⟩⟩
  rw [mpls_serializeTo_eq] at ho; cases ho
  simp only [(mplsSerBuf_contents l' b2 hb2).1, (mplsSerBuf_contents l b hb).1, hc2, hpay, hc,
    mplsEncode_congr l' l heq]

/-- `wfMPLS` is needed: `m.Label << 12` is a uint32 shift, a label of 2^20 is written as label 0;
    a TrafficClass of 8 sets the lowest label bit instead. -/
theorem roundtrip_mpls_label_counterexample :
    (mplsDecSpec (mplsSerSpec { MPLS.fresh with label := 1048576, ttl := 1 } []).bytes).map (·.label) = some 0 ∧
    (mplsDecSpec (mplsSerSpec { MPLS.fresh with trafficClass := 8 } []).bytes).map (fun d => (d.label, d.trafficClass))
      = some (1, 0) := by decide

/-! ## Stacks written with SerializeLayers -/

/-- Stack round trip PPPoE(session) / PPP / payload, written innermost-first as SerializeLayers does
    (FixLengths on): NewPacket with LayerTypePPPoE as first decoder shows — in a packet buffer of any
    capacity — a PPPoE layer ≈ the written one with Length fixed to the PPP header + payload length,
    followed by a PPP layer ≈ the written one whose payload is `p` (then whatever the PPP type
    selects: IPv4 / IPv6 / MPLS / nothing).  `|p| + 4 < 2^16`: the PPPoE length field can express it. -/
theorem stack_roundtrip (q : PPPoE) (l : PPP) (p : Bytes) (b : SBuf) (fix1 csum1 csum2 : Bool)
    (foreign : Bytes) (hq : wfPPPoE q) (hcode : q.code = pppoeCodeSession) (hl : wfPPP l)
    (hp : p.length + 4 < 65536) (hb : Inv b) (hc : contents b = p) :
    ∃ o1 o2 r q' l' more, l.serializeTo b fix1 csum1 = .ok o1 ∧ o1.err = false ∧
      q.serializeTo o1.buf true csum2 = .ok o2 ∧ o2.err = false ∧
      newPacket false .pppoe { vis := contents o2.buf, tail := foreign } = .ok r ∧
      r.layers = .pppoe q' :: .ppp l' :: more ∧
      PPPoEEquiv q' (pppoeFixed q (pppHdrBytes l ++ p) true) ∧ q'.length = (pppHdrBytes l ++ p).length ∧
      q'.payload = pppHdrBytes l ++ p ∧ PPPEquiv l' l ∧ l'.payload = p := by
  -- the two serializers
  obtain ⟨c1, i1⟩ := pppSerBuf_contents l b hb
  rw [hc] at c1
  obtain ⟨c2, -⟩ := pppoeSerBuf_contents q (pppSerBuf l b) true i1
  rw [c1] at c2
  obtain ⟨hbytes, hdecL⟩ := pppDecSpec_frame l p hl
  have hlen : (pppHdrBytes l ++ p).length < 65536 := by
    rw [hbytes]; cases l.hasPPTPHeader <;> simp [putBe16] <;> omega
  have hpos : (pppHdrBytes l ++ p).length ≠ 0 := by
    rw [hbytes]; cases l.hasPPTPHeader <;> simp [putBe16]
  generalize hP : pppHdrBytes l ++ p = P at c2 hlen hpos hdecL
  have hfix : pppoeFixed q P true = { q with length := P.length } := by
    unfold pppoeFixed; simp only [if_true, Nat.mod_eq_of_lt hlen]
  have hwf : wfPPPoE (pppoeFixed q P true) := by
    rw [hfix]; exact ⟨hq.1, hq.2.1, hq.2.2.1, hq.2.2.2.1, hlen⟩
  have hdecQ := pppoeDecSpec_frame (pppoeFixed q P true) P hwf (by rw [hfix])
  -- the packet
  have hrun : ∃ more, (newPacketS false .pppoe (pppoeHdrBytes (pppoeFixed q P true) ++ P)).layers =
      AnyLayer.pppoe { contents := pppoeHdrBytes (pppoeFixed q P true), payload := P,
                       version := (pppoeFixed q P true).version, type := (pppoeFixed q P true).type,
                       code := (pppoeFixed q P true).code, sessionId := (pppoeFixed q P true).sessionId,
                       length := (pppoeFixed q P true).length } ::
      AnyLayer.ppp { contents := putBe16 l.pppType, payload := p, pppType := l.pppType,
                     hasPPTPHeader := l.hasPPTPHeader } :: more := by
    unfold newPacketS
    simp only [Bool.false_eq_true, false_and, if_false]
    -- fuel = |frame| + 1 = (|P| + 5) + 2
    have hfl : (pppoeHdrBytes (pppoeFixed q P true) ++ P).length + 1 = (P.length + 5) + 1 + 1 := by
      simp [pppoeHdrBytes, putBe16]
    rw [hfl]
    -- first layer: PPPoE, its code selects decodePPP
    have hs1 : stepS .pppoe (pppoeHdrBytes (pppoeFixed q P true) ++ P) = some
        { beh := { acts := [.addLayer LayerTypePPPoE], tail := .pppoeCode (pppoeFixed q P true).code },
          layer := some (.pppoe { contents := pppoeHdrBytes (pppoeFixed q P true), payload := P,
                                  version := (pppoeFixed q P true).version, type := (pppoeFixed q P true).type,
                                  code := (pppoeFixed q P true).code, sessionId := (pppoeFixed q P true).sessionId,
                                  length := (pppoeFixed q P true).length }),
          rest := P } := by
      simp only [stepS, hdecQ]
    have hcode' : (pppoeFixed q P true).code = pppoeCodeSession := by rw [hfix]; exact hcode
    rw [runS_next _ _ _ _ _ _ .ppp hs1 rfl hpos (by simp only [resolveS, hcode']; rfl)]
    -- second layer: PPP
    have hs2 : stepS .ppp P = some
        { beh := { acts := [.addLayer LayerTypePPP, .setLinkLayer], tail := .pppType l.pppType },
          layer := some (.ppp { contents := putBe16 l.pppType, payload := p, pppType := l.pppType,
                                hasPPTPHeader := l.hasPPTPHeader }),
          rest := p } := by
      simp only [stepS, hdecL]
    obtain ⟨more, hm⟩ := runS_step_layers (P.length + 5) .ppp P
      { layers := [] ++ [AnyLayer.pppoe _], acts := [] ++ [Act.addLayer LayerTypePPPoE], end_ := End.done } _ _ hs2 rfl
    exact ⟨more, by rw [hm]; rfl⟩
  obtain ⟨more, hm⟩ := hrun
  subst hP
  refine ⟨_, _, _,
    { contents := pppoeHdrBytes (pppoeFixed q (pppHdrBytes l ++ p) true), payload := pppHdrBytes l ++ p,
      version := (pppoeFixed q (pppHdrBytes l ++ p) true).version, type := (pppoeFixed q (pppHdrBytes l ++ p) true).type,
      code := (pppoeFixed q (pppHdrBytes l ++ p) true).code,
      sessionId := (pppoeFixed q (pppHdrBytes l ++ p) true).sessionId,
      length := (pppoeFixed q (pppHdrBytes l ++ p) true).length },
    { contents := putBe16 l.pppType, payload := p, pppType := l.pppType, hasPPTPHeader := l.hasPPTPHeader },
    more, ppp_serializeTo_eq l b fix1 csum1, rfl, pppoe_serializeTo_eq q _ true csum2, rfl,
    newPacket_eq false .pppoe _, ?_, ?_⟩
  · simp only [c2]; exact hm
  · exact ⟨⟨rfl, rfl, rfl, rfl, rfl⟩, by rw [hfix], rfl, ⟨rfl, rfl⟩, rfl⟩

/-- The hypotheses of `stack_roundtrip` are satisfiable (a PPPoE session frame carrying IPv4 over PPP). -/
example :
    wfPPPoE { PPPoE.fresh with version := 1, type := 1, sessionId := 0x11 } ∧
    ({ PPPoE.fresh with version := 1, type := 1, sessionId := 0x11 } : PPPoE).code = pppoeCodeSession ∧
    wfPPP { PPP.fresh with pppType := pppTypeIPv4 } := by decide

/-- MPLS label stacks of ANY depth: the entries `ls` (outermost first; every entry but the last with
    the S bit clear) written innermost-first over a payload, as SerializeLayers does, decode — in a
    packet buffer of any capacity — to exactly those entries in order, every field intact, each
    entry's Payload being everything behind it (`mplsDecoded`), followed by whatever the guessing
    decoder makes of the payload.  The decode recursion re-enters `decodeMPLS` once per entry. -/
theorem mpls_stack_roundtrip (ls : List MPLS) (b : SBuf) (foreign : Bytes) (lazy : Bool)
    (hne : ls ≠ []) (hw : ∀ l ∈ ls, wfMPLS l) (hs : ∀ l ∈ ls.dropLast, l.stackBottom = false) (hb : Inv b) :
    contents (mplsSerStack ls b) = mplsFrame ls (contents b) ∧
    ∃ r more, newPacket lazy .mpls { vis := contents (mplsSerStack ls b), tail := foreign } = .ok r ∧
      r.layers = mplsDecoded ls (contents b) ++ more := by
  obtain ⟨c, -⟩ := mplsSerStack_contents ls b hb
  have hlen := mplsFrame_length ls (contents b)
  have hpos : 0 < ls.length := by
    cases ls with
    | nil => exact absurd rfl hne
    | cons _ _ => simp
  obtain ⟨more, hm⟩ := mpls_stack_run ls (contents b) { layers := [], acts := [], end_ := .done }
    ((mplsFrame ls (contents b)).length + 1) hne hw hs (by omega)
  refine ⟨c, _, more, newPacket_eq lazy .mpls _, ?_⟩
  simp only [c]
  unfold newPacketS
  rw [if_neg (by omega), hm, List.nil_append]

/-- A three-entry stack inside the claim. -/
example :
    let ls : List MPLS := [{ MPLS.fresh with label := 18, ttl := 255 }, { MPLS.fresh with label := 17, trafficClass := 3, ttl := 9 },
                           { MPLS.fresh with label := 16, stackBottom := true, ttl := 255 }]
    (∀ l ∈ ls, wfMPLS l) ∧ (∀ l ∈ ls.dropLast, l.stackBottom = false) ∧
    mplsFrame ls [0x45] = [0x00,0x01,0x20,0xff, 0x00,0x01,0x16,0x09, 0x00,0x01,0x01,0xff, 0x45] := by decide

/-! ## Non-vacuity: concrete well-formed layers inside the claims -/

example : wfPPP { PPP.fresh with pppType := 0x0021, hasPPTPHeader := true } ∧
    wfPPP { PPP.fresh with pppType := 0xc021 } ∧ wfPPP { PPP.fresh with pppType := 0x0281 } := by decide

example : wfPPPoE { PPPoE.fresh with version := 1, type := 1, code := 0xa7, sessionId := 0xffff, length := 77 } := by decide

example : wfMPLS { MPLS.fresh with label := 0xfffff, trafficClass := 7, stackBottom := true, ttl := 255 } := by decide

end Gp.C06.Ppp
