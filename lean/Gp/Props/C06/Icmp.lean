import Gp.Lemmas.Layers.Icmp
/- C06 for engine licmp: theorems under construction (see notes/licmp.md). -/
namespace Gp.C06.Icmp
end Gp.C06.Icmp
