import Gp.Lemmas.Layers.IcmpDefects
import Gp.Lemmas.Layers.IcmpStack
/-
  C06 for layers/icmp4.go, icmp6.go, icmp6msg.go (engine `licmp`): serialize (FixLengths and
  ComputeChecksums on) then decode returns the same layer and payload.

  * `wf` (Gp/Lemmas/Layers/IcmpRt.lean) is the explicit, decidable in-range predicate: numeric
    fields fit their Go types; NDP target/destination addresses are 16 bytes; every NDP option
    has a byte type and a total length that is a non-zero multiple of 8 not above 2040 (what the
    one-byte length field can carry); ICMPv6.TypeBytes is nil ("deprecated and always nil").
  * `payloadAllowed`: any payload under ICMPv4 / ICMPv6 / ICMPv6Echo; the five NDP messages carry
    no payload (their decoders read the whole rest as options and report a nil payload), so
    "where the protocol allows" means the empty payload for them.
  * `strip` is `≈`: all public fields, option lists in order; Contents/Payload/pseudo-header
    forgotten.  Payload equality is stated separately.
  * `hasNet`: ICMPv6 can only compute its checksum with a network layer attached
    (SetNetworkLayerForChecksum) — otherwise SerializeTo returns an error by design.

  The model is the tree with proposed_fixes/licmp-1 (NDP options were written in REVERSE order:
  `Gp.Icmp.roundtrip_options_counterexample_prefix`) and licmp-2 (ICMPv6Echo did not set its
  BaseLayer, so the payload was lost: `Gp.Icmp.roundtrip_echo_counterexample_prefix`) applied;
  the pre-fix counterexamples live in Gp/Lemmas/Layers/IcmpDefects.lean.
-/
namespace Gp.C06.Icmp
open Gp Gp.SBuf Gp.Icmp Gp.C18

/-- Every successfully decoded layer is in range — for any capacity, and for any reused object
    whose never-assigned fields are untouched (in particular a fresh one, or one reached by any
    decode history: `Gp.C05.Icmp.history_invariant`). -/
theorem decoded_wf (old : AnyLayer) (data foreign : Bytes) (r : Dec AnyLayer) (hu : Untouched old)
    (e : old.decode ⟨data, foreign⟩ = .ok r) (he : r.err = false) : wf r.layer := by
  rw [decodeAny_eq] at e
  cases e
  exact pureAny_wf old data hu he

/-- Round trip: an in-range layer written over an allowed payload (any buffer of the C18 model)
    and decoded again (fresh object, any capacity / foreign bytes behind the bytes) gives a
    layer with the same field values and the same payload, no error, no truncation flag. -/
theorem roundtrip (l : AnyLayer) (b : SBuf) (foreign : Bytes) (h : Inv b) (hwf : wf l)
    (hp : payloadAllowed l (contents b)) (hn : hasNet l) :
    ∃ b' lf ld, l.serialize b ⟨true, true⟩ = .ok (b', lf) ∧ wf lf ∧
      (fresh l.kind).decode ⟨contents b', foreign⟩ = .ok ⟨ld, false, false⟩ ∧
      strip ld = strip lf ∧ ld.payload = contents b := by
  obtain ⟨out, lf, hs⟩ := spec_ok_of_wf l (contents b) hwf hn
  have hspec := (serializeAny_spec l b ⟨true, true⟩ h).1
  rw [hs] at hspec
  cases hser : l.serialize b ⟨true, true⟩ with
  | panic k => rw [hser] at hspec; cases hspec
  | err e => rw [hser] at hspec; cases hspec
  | ok r =>
    obtain ⟨b', lf'⟩ := r
    rw [hser] at hspec
    simp only [outOf, Res.ok.injEq, Prod.mk.injEq] at hspec
    obtain ⟨hb, hl⟩ := hspec
    subst hl
    obtain ⟨hwf', _, _, c, hd⟩ := decode_spec_enc l lf' (contents b) out hwf hp hs
    refine ⟨b', lf', setBase (setNet lf' .absent) c (contents b), rfl, hwf', ?_, ?_, ?_⟩
    · rw [decodeAny_eq, hb, hd]
    · rw [strip_setBase, strip_setNet]
    · exact payload_setBase _ _ _

/-- Re-serialising what was decoded (with the network layer attached again where one is needed)
    over the decoded payload reproduces the same bytes, in any buffer. -/
theorem reserialize_fixpoint (l : AnyLayer) (b b2 : SBuf) (foreign : Bytes) (h : Inv b) (h2 : Inv b2)
    (hwf : wf l) (hp : payloadAllowed l (contents b))
    (b' : SBuf) (lf ld : AnyLayer)
    (hs : l.serialize b ⟨true, true⟩ = .ok (b', lf))
    (hd : (fresh l.kind).decode ⟨contents b', foreign⟩ = .ok ⟨ld, false, false⟩)
    (hc : contents b2 = ld.payload) :
    ∃ b'' ld', (setNet ld (netOf l)).serialize b2 ⟨true, true⟩ = .ok (b'', ld') ∧
      contents b'' = contents b' ∧ ld' = setNet ld (netOf l) := by
  have hspec := (serializeAny_spec l b ⟨true, true⟩ h).1
  rw [hs] at hspec
  simp only [outOf] at hspec
  obtain ⟨hwf', _, hnet, c, hdec⟩ := decode_spec_enc l lf (contents b) (contents b') hwf hp hspec.symm
  rw [decodeAny_eq] at hd
  simp only [Res.ok.injEq] at hd
  rw [hdec] at hd
  simp only [Dec.mk.injEq, and_true] at hd
  subst hd
  rw [payload_setBase] at hc
  -- the first serialisation is a fixpoint of the spec; Contents/Payload are never read
  have hid := Gp.Icmp.spec_setBase lf lf c (contents b) (contents b) (contents b') ⟨true, true⟩
    (spec_idempotent l lf _ _ _ hspec.symm)
  have hnet' : setNet (setBase (setNet lf .absent) c (contents b)) (netOf l) = setBase lf c (contents b) := by
    rw [setNet_setBase, ← hnet, setNet_netOf]
  rw [hnet']
  have hspec2 := (serializeAny_spec (setBase lf c (contents b)) b2 ⟨true, true⟩ h2).1
  rw [hc, hid] at hspec2
  cases hser : (setBase lf c (contents b)).serialize b2 ⟨true, true⟩ with
  | panic k => rw [hser] at hspec2; cases hspec2
  | err e => rw [hser] at hspec2; cases hspec2
  | ok r =>
    obtain ⟨b'', ld'⟩ := r
    rw [hser] at hspec2
    simp only [outOf, Res.ok.injEq, Prod.mk.injEq] at hspec2
    exact ⟨b'', ld', rfl, hspec2.1, hspec2.2⟩

/-! ### stacks: SerializeLayers order (innermost first), decoded by the NewPacket chain -/

/-- An ICMPv6 header whose type selects the message `l`, over `l`, over a payload: the packet
    built from the written bytes has exactly the layers ICMPv6, `l`'s type and (for a non-empty
    payload) Payload, with the written field values, no error layer and no truncation flag. -/
theorem stack_roundtrip (hv : ICMPv6) (l : AnyLayer) (b : SBuf) (hI : Inv b)
    (hwfh : wf (.icmp6 hv)) (hn : hv.pseudo ≠ .absent) (hwfl : wf l)
    (hp : payloadAllowed l (contents b)) (hk : l.kind ≠ .icmp6)
    (hdisp : ∀ w : ICMPv6, w.typeCode = hv.typeCode → nextICMPv6 w = l.kind.lt) :
    ∃ b1 lf b2 hf H L acts,
      l.serialize b ⟨true, true⟩ = .ok (b1, lf) ∧
      (AnyLayer.icmp6 hv).serialize b1 ⟨true, true⟩ = .ok (b2, hf) ∧
      pktRun 3 .icmp6 (contents b2) =
        .ok ⟨.lay H :: .lay L :: (if contents b = [] then [] else [.payload (contents b)]),
             acts, false, false⟩ ∧
      strip H = strip hf ∧ strip L = strip lf :=
  stack_roundtrip_core hv l b hI hwfh hn hwfl hp hk hdisp

/-- the dispatch hypothesis is satisfiable: type 135 selects NeighborSolicitation, 129 Echo -/
example : ∀ w : ICMPv6, w.typeCode = 0x8700 → nextICMPv6 w = Kind.ns.lt := by
  intro w hw
  simp [nextICMPv6, hw, Gen.Icmp.v6Type, Gen.Icmp.typeEchoRequest, Gen.Icmp.typeEchoReply, Gen.Icmp.typeRouterSolicitation, Gen.Icmp.typeRouterAdvertisement, Gen.Icmp.typeNeighborSolicitation, Gen.Icmp.typeNeighborAdvertisement, Gen.Icmp.typeRedirect, Gen.Icmp.typeMLDv1Query, Gen.Icmp.typeMLDv1Done, Gen.Icmp.typeMLDv1Report, Gen.Icmp.typeMLDv2Report, Kind.lt]
example : ∀ w : ICMPv6, w.typeCode = 0x8100 → nextICMPv6 w = Kind.echo.lt := by
  intro w hw
  simp [nextICMPv6, hw, Gen.Icmp.v6Type, Gen.Icmp.typeEchoRequest, Gen.Icmp.typeEchoReply, Gen.Icmp.typeRouterSolicitation, Gen.Icmp.typeRouterAdvertisement, Gen.Icmp.typeNeighborSolicitation, Gen.Icmp.typeNeighborAdvertisement, Gen.Icmp.typeRedirect, Gen.Icmp.typeMLDv1Query, Gen.Icmp.typeMLDv1Done, Gen.Icmp.typeMLDv1Report, Gen.Icmp.typeMLDv2Report, Kind.lt]

/-- ICMPv4 (or a message decoded as first layer) over a payload. -/
theorem stack_roundtrip_single (l : AnyLayer) (b : SBuf) (hI : Inv b) (hwfl : wf l)
    (hp : payloadAllowed l (contents b)) (hk : l.kind ≠ .icmp6) :
    ∃ b1 lf L acts,
      l.serialize b ⟨true, true⟩ = .ok (b1, lf) ∧
      pktRun 3 l.kind (contents b1) =
        .ok ⟨.lay L :: (if contents b = [] then [] else [.payload (contents b)]), acts, false, false⟩ ∧
      strip L = strip lf :=
  stack_roundtrip_single_core l b hI hwfl hp hk

/-! ### the pinned (pre-fix) code violates the round trip: negation witnesses -/

/-- Without proposed_fixes/licmp-1 two in-range NDP options come back in reverse order. -/
theorem prefix_roundtrip_options_counterexample :
    (match serializeNSOrig { targetAddress := List.replicate 16 9, options := twoOpts } (new 0 0) ⟨true, true⟩ with
     | .ok (b', _) => (match decodeNS {} ⟨contents b', []⟩ with | .ok d => d.layer.options | _ => [])
     | _ => []) = twoOpts.reverse ∧ twoOpts.reverse ≠ twoOpts :=
  ⟨roundtrip_options_counterexample_prefix, by decide⟩

/-- Without proposed_fixes/licmp-2 the payload written under an ICMPv6Echo does not come back. -/
theorem prefix_roundtrip_echo_counterexample :
    (match serializeEcho { identifier := 7, seqNumber := 9 } (step (new 0 0) (.prepend [0x61, 0x62])) ⟨true, true⟩ with
     | .ok (b', _) => (match decodeEchoOrig {} ⟨contents b', []⟩ with | .ok d => d.layer.payload | _ => [0])
     | _ => [0]) = [] :=
  roundtrip_echo_counterexample_prefix

/-! ### non-vacuity: concrete in-range layers (the hypotheses are satisfiable) -/

/-- a Router Advertisement with three options of different kinds and sizes -/
example : wf (.ra {
    hopLimit := 64, flags := 0xc0, routerLifetime := 1800, reachableTime := 0x01020304,
    retransTimer := 0xfffefdfc,
    options := [⟨1, [0xc2, 0, 0x54, 0xf5, 0, 0]⟩, ⟨5, [0, 0, 0, 0, 5, 0xdc]⟩, ⟨3, List.replicate 30 7⟩] }) := by
  decide

example : payloadAllowed (.ra {}) (contents (new 0 0)) := by
  show contents (new 0 0) = []
  decide

/-- an ICMPv6 header with an IPv6 pseudo-header -/
example : wf (.icmp6 { typeCode := 0x8700, pseudo := .v6 (List.replicate 16 1) (List.replicate 16 2) }) ∧
    hasNet (.icmp6 { typeCode := 0x8700, pseudo := .v6 (List.replicate 16 1) (List.replicate 16 2) }) := by
  decide

def exampleNS : AnyLayer :=
  .ns { targetAddress := List.replicate 16 9, options := [⟨1, [1, 2, 3, 4, 5, 6]⟩, ⟨2, [6, 5, 4, 3, 2, 1]⟩] }

/-- the round trip on a concrete Neighbor Solicitation with TWO options (order preserved) -/
example :
    (match exampleNS.serialize (new 0 0) ⟨true, true⟩ with
     | .ok (b', _) => (fresh .ns).decode ⟨contents b', [0xee]⟩
     | _ => .err "no") =
    .ok ⟨.ns {
          contents := zeros 4 ++ List.replicate 16 9 ++ [1, 1, 1, 2, 3, 4, 5, 6, 2, 1, 6, 5, 4, 3, 2, 1],
          payload := [], targetAddress := List.replicate 16 9,
          options := [⟨1, [1, 2, 3, 4, 5, 6]⟩, ⟨2, [6, 5, 4, 3, 2, 1]⟩] }, false, false⟩ := by decide

end Gp.C06.Icmp
