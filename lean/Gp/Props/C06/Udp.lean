import Gp.Lemmas.Layers.UdpRt
/-
  C06 for layers/udp.go (engine `ludp`): writing a UDP layer over a payload with FixLengths and
  ComputeChecksums and decoding the bytes again yields the same public fields and the same
  payload, no error, no truncation flag; every decoded layer is `wf`; serialising the decoded
  layer once more reproduces the bytes.

  Hypotheses (each with a concrete witness below):
   * `wf l`            — the four public fields are in uint16 range (always true in Go);
   * `pseudoOk l.pseudo` — SetNetworkLayerForChecksum was called with usable addresses
                          (ComputeChecksums cannot work otherwise: SerializeTo returns an error,
                          see C07.serialize_ok_iff);
   * `fits l.pseudo n`  — "where the protocol allows": a payload above 65527 bytes needs the
                          IPv6 jumbogram form (Length 0); over IPv4 the 16-bit Length cannot
                          represent it (`oversize_not_representable` shows what happens then).
-/
namespace Gp.C06.Udp
open Gp Gp.Udp Gp.SBuf

/-- Every successfully decoded layer is well-formed (all fields in range)… -/
theorem decoded_wf (old : Layer) (data foreign : Bytes) (l : Layer) (t : Bool)
    (h : decodeUdp old data foreign = .ok (l, t)) : wf l :=
  (decodeUdp_shape old data foreign l t h).wf

/-- … and has the full shape of a parsed header: Contents are the first 8 input bytes and equal
    the big-endian rendering of the fields, Length is 0 or ≥ 8, Contents ++ Payload is a prefix
    of the input, and without truncation Length is 0 (payload = everything) or exact. -/
theorem decoded_shape (old : Layer) (data foreign : Bytes) (l : Layer) (t : Bool)
    (h : decodeUdp old data foreign = .ok (l, t)) : DecodedShape data l t :=
  decodeUdp_shape old data foreign l t h

/-- Round trip.  For any buffer `b` holding the payload, any old layer object and any spare
    capacity on the decoding side. -/
theorem roundtrip (l : Layer) (b : SBuf) (hI : Gp.C18.Inv b) (hw : wf l) (hp : pseudoOk l.pseudo)
    (hf : fits l.pseudo (contents b).length) (old : Layer) (foreign : Bytes) :
    ∃ b' lf l',
      serializeUdp l b true true = .ok (b', lf) ∧                 -- no error on the way out
      decodeUdp old (contents b') foreign = .ok (l', false) ∧     -- no error, no truncation flag
      sameFields l' lf ∧                                          -- l' ≈ fixed l
      l'.payload = contents b ∧                                   -- same payload
      l'.contents = (contents b').take 8 ∧
      lf.srcPort = l.srcPort ∧ lf.dstPort = l.dstPort ∧ lf.pseudo = l.pseudo ∧
      lf.length = fixedLength l.pseudo (contents b).length ∧
      (lf.length = (contents b).length + 8 ∨ (lf.length = 0 ∧ (contents b).length + 8 > 65535)) ∧
      wf lf := by
  obtain ⟨⟨x, lf⟩, hs⟩ := serializeSpec_ok_of l (contents b) true true (fun _ => hp)
  have hv := serialize_spec l b true true hI
  rw [hs] at hv
  obtain ⟨b', hb, hc⟩ := view_ok _ _ _ hv
  have hx := serializeSpec_ok_bytes l lf _ _ true true hs
  -- the mutated layer
  have hlf : lf.srcPort = l.srcPort ∧ lf.dstPort = l.dstPort ∧ lf.pseudo = l.pseudo ∧
      lf.length = fixedLength l.pseudo (contents b).length ∧ lf.checksum < 65536 := by
    simp only [serializeSpec, fixLen, if_true] at hs
    revert hs
    generalize computeChecksum _ _ = r
    cases r <;> intro hs <;> cases hs
    exact ⟨rfl, rfl, rfl, rfl, emitChecksum_lt _⟩
  obtain ⟨e1, e2, e3, e4, e5⟩ := hlf
  have hwf : wf lf := ⟨e1 ▸ hw.1, e2 ▸ hw.2.1, e4 ▸ fixedLength_lt _ _, e5⟩
  have hlen := fixedLength_fits l.pseudo (contents b).length hf
  have hl : lf.length = 0 ∨ lf.length = (contents b).length + 8 := by
    rcases hlen with ⟨h0, _⟩ | ⟨h1, _⟩
    · left; rw [e4, h0]
    · right; rw [e4, h1]
  refine ⟨b', lf,
    { srcPort := lf.srcPort, dstPort := lf.dstPort, length := lf.length, checksum := lf.checksum,
      sPort := putBe16 lf.srcPort, dPort := putBe16 lf.dstPort, contents := header lf,
      payload := contents b, pseudo := old.pseudo }, hb, ?_, ?_⟩
  · unfold decodeUdp
    rw [decode_eq, hc, hx, decodeSpec_header old lf (contents b) hwf hl]
    rfl
  · refine ⟨⟨rfl, rfl, rfl, rfl⟩, rfl, ?_, e1, e2, e3, e4, ?_, hwf⟩
    · rw [hc, hx]; simp [header, putBe16]
    · rcases hlen with ⟨h0, hbig⟩ | ⟨h1, _⟩
      · right; exact ⟨by rw [e4, h0], hbig⟩
      · left; rw [e4, h1]

/-- Writing the decoded layer again (same network layer for the checksum, any well-formed buffer
    holding the decoded payload) reproduces the same bytes and the same field values. -/
theorem reserialize_fixpoint (l : Layer) (b : SBuf) (hI : Gp.C18.Inv b) (hw : wf l) (hp : pseudoOk l.pseudo)
    (hf : fits l.pseudo (contents b).length) (old : Layer) (foreign : Bytes)
    (b' : SBuf) (lf l' : Layer) (hs : serializeUdp l b true true = .ok (b', lf))
    (hd : decodeUdp old (contents b') foreign = .ok (l', false))
    (b₂ : SBuf) (hI₂ : Gp.C18.Inv b₂) (hc₂ : contents b₂ = l'.payload) :
    ∃ b'' l'', serializeUdp { l' with pseudo := l.pseudo } b₂ true true = .ok (b'', l'') ∧
      contents b'' = contents b' ∧ sameFields l'' l' := by
  obtain ⟨b1, lf1, l1, hs1, hd1, hsame, hpay, _, _, _, e3, _, _, hwlf⟩ := roundtrip l b hI hw hp hf old foreign
  rw [hs] at hs1; cases hs1
  rw [hd] at hd1; cases hd1
  -- serialising lf again is a fixpoint; l' has the same fields and pseudo as lf
  have hv := serialize_spec l b true true hI
  rw [hs] at hv
  simp only [view] at hv
  have hid := serializeSpec_idem l lf _ _ true true hv.symm
  have hcong := serializeSpec_bytes_congr { l' with pseudo := l.pseudo } lf (contents b) true true hsame e3.symm
  rw [hid] at hcong
  have hv2 := serialize_spec { l' with pseudo := l.pseudo } b₂ true true hI₂
  rw [hc₂.trans hpay] at hv2
  cases hr : serializeSpec { l' with pseudo := l.pseudo } (contents b) true true with
  | err e => rw [hr] at hcong; cases hcong
  | panic k => rw [hr] at hcong; cases hcong
  | ok r =>
    obtain ⟨x, l''⟩ := r
    rw [hr] at hcong hv2
    simp only [Res.ok.injEq] at hcong
    obtain ⟨b'', hb'', hcb⟩ := view_ok _ _ _ hv2
    refine ⟨b'', l'', hb'', by rw [hcb, hcong], ?_⟩
    -- fields of l'': determined by the eight header bytes
    have hbytes := serializeSpec_ok_bytes _ _ _ _ true true hr
    have hbytes' := serializeSpec_ok_bytes _ _ _ _ true true hid
    rw [hcong, hbytes'] at hbytes
    have hh : header lf = header l'' := List.append_cancel_right hbytes
    have hwl' := decoded_wf old _ foreign l' false hd
    have hwl'' : wf l'' := by
      simp only [serializeSpec, fixLen, if_true] at hr
      revert hr
      generalize computeChecksum _ _ = r
      cases r <;> intro hr <;> cases hr
      exact ⟨hwl'.1, hwl'.2.1, fixedLength_lt _ _, emitChecksum_lt _⟩
    obtain ⟨a1, a2, a3, a4⟩ := header_inj l'' lf hwl'' hwlf hh.symm
    obtain ⟨c1, c2, c3, c4⟩ := hsame
    exact ⟨a1.trans c1.symm, a2.trans c2.symm, a3.trans c3.symm, a4.trans c4.symm⟩

/-- Without `fits` the claim is not made — and is in fact false: over IPv4 a 65528-byte payload
    wraps the 16-bit Length to 0, which the decoder reads as the jumbogram form. -/
theorem oversize_length_wraps : fixedLength (.v4 [1, 2, 3, 4] [5, 6, 7, 8]) 65528 = 0 := by decide

/-! Non-vacuity. -/
def exL : Layer := { Layer.fresh with srcPort := 53, dstPort := 35181, length := 7, checksum := 1, pseudo := .v6 (List.replicate 16 1) (List.replicate 16 2) }
example : wf exL ∧ pseudoOk exL.pseudo ∧ fits exL.pseudo 70000 ∧ fits (.v4 [1, 2, 3, 4] [5, 6, 7, 8]) 1472 := by decide
example : (decodeUdp exL [0, 53, 0x89, 0x6d, 0, 9, 0x75, 0x4a, 0xb8, 0xd8] []).isOk = true := by decide

end Gp.C06.Udp
