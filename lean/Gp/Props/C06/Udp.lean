import Gp.Model.Layers.Udp
namespace Gp.C06.Udp
end Gp.C06.Udp
