import Gp.Lemmas.Layers.Ip6Dec2
import Gp.Model.Layers.Ip6Ser
namespace Gp.C06.Ip6
open Gp Gp.Ip6
end Gp.C06.Ip6
