import Gp.Lemmas.Layers.Ip6RtIp3
/-
  C06 (layer part `lip6`) — serialize (FixLengths) then decode returns the same layer and payload,
  for IPv6 (with and without embedded hop-by-hop header), IPv6HopByHop / IPv6Destination (TLV options
  with Xn+Y alignment and final padding to 8), IPv6Routing and IPv6Fragment.

  * `wf` predicates are explicit in-range conditions (`IPv6.hdrWf`, `TlvExt.wf`, `Routing.wf`,
    `Fragment.wf`); each has a concrete inhabitant below.
  * `≈` (`IPv6.eqv`, `hbhEqv`, `optsView`): all public fields except Contents/Payload (stated
    separately), ignoring the derived/hint fields of options (ActualLength, OptionAlignment) and
    padding options (Pad1/PadN), which the serializer inserts and the decoder reports.
  * payload = the buffer contents before SerializeTo; buffers are arbitrary `Inv` buffers.
  * no error, no truncation flag: the decode results below are `.ok (_, false)` / `(_, false, .ok ())`.

  The model is ip6.go WITH proposed fixes lip6-1 (final pad), lip6-4 (Length counts the hop-by-hop
  header: no bogus truncation), lip6-5 (Pad1 is one byte), lip6-6 (options decoded inside the header,
  trailing Pad1), lip6-8 (empty payload decodes).  On the unfixed tree every one of them is found by
  the monitor (`lip6:roundtrip:*`).

  KNOWN FINDING (jumbograms, > 65535 bytes): DecodeFromBytes keeps the hop-by-hop header inside
  IPv6.Payload (pinned by the repository's TestIPv6JumbogramDecode) and SerializeTo stores the jumbo
  length in the buffer only.  `roundtrip_full` is therefore false; `roundtrip_partial_*` assume the
  IPv6 payload (including the hop-by-hop header) fits 65535 bytes; `jumbo_payload_keeps_hbh` is the
  witness on the decode side.
-/
namespace Gp.C06.Ip6
open Gp Gp.Ip6 Gp.SBuf Gp.C18 Gp.Gen.Ip6

/-! ## IPv6 -/

/-- Full statement: every in-range IPv6 layer over every payload (any size). -/
def roundtrip_full : Prop :=
  ∀ (l : IPv6) (b : SBuf) (old : IPv6) (x : Bytes), Inv b → l.hdrWf →
    (match l.hopByHop with
      | none => l.nextHeader ≠ 0
      | some hb => hb.wf ∧ b.layers.contains layerTypeIPv6HopByHop = false) →
    ∃ b' l' l'', serializeIPv6 l b true = .ok (b', l') ∧
      decodeIp6 old (contents b') x = .ok (l'', false) ∧ l''.eqv l' ∧ l''.payload = contents b

/-- Proved part 1: no hop-by-hop header, every payload of 0..65535 bytes. -/
theorem roundtrip_partial_plain (l : IPv6) (b : SBuf) (old : IPv6) (x : Bytes) (h : Inv b) (hw : l.hdrWf)
    (hnone : l.hopByHop = none) (hnh : l.nextHeader ≠ 0) (hs : (contents b).length ≤ 65535) :
    ∃ b' l' l'', serializeIPv6 l b true = .ok (b', l') ∧
      decodeIp6 old (contents b') x = .ok (l'', false) ∧ l''.eqv l' ∧ l''.payload = contents b := by
  obtain ⟨b', l', l'', h1, -, -, -, h2, h3, h4, -⟩ := ip6_roundtrip_plain l b h hw hnone hnh hs old x
  exact ⟨b', l', l'', h1, h2, h3, h4⟩

/-- Proved part 2: embedded hop-by-hop header (any in-range option list, any alignments), payload
    such that hop-by-hop header + payload fit 65535 bytes. -/
theorem roundtrip_partial_hbh (l : IPv6) (hb : TlvExt) (b : SBuf) (old : IPv6) (x : Bytes) (h : Inv b)
    (hw : l.hdrWf) (hsome : l.hopByHop = some hb) (hp : hb.plain)
    (hlay : b.layers.contains layerTypeIPv6HopByHop = false)
    (hs : encLen true hb.options + 2 + (contents b).length ≤ 65535) :
    ∃ b' l' l'', serializeIPv6 l b true = .ok (b', l') ∧
      decodeIp6 old (contents b') x = .ok (l'', false) ∧ l''.eqv l' ∧ l''.payload = contents b := by
  obtain ⟨b', l', l'', h1, -, -, h2, h3, h4⟩ := ip6_roundtrip_hbh l hb b h hw hsome hp hlay hs old x
  exact ⟨b', l', l'', h1, h2, h3, h4⟩

/-- Payload of a decode outcome (for stating the witness below). -/
def payloadOf (r : Res (IPv6 × Bool)) : Option Bytes :=
  match r with
  | .ok (l, _) => some l.payload
  | _ => none

/-- Witness for the known finding: a (truncated) jumbogram decodes without error and its Payload
    starts with the 8 bytes of the hop-by-hop header instead of the bytes behind it. -/
theorem jumbo_payload_keeps_hbh :
    payloadOf (decodeIp6 IPv6.zero
      ([0x60, 0, 0, 0, 0, 0, 0, 0x40, 0x20, 1, 0x0d, 0xb8, 0, 0, 0, 0, 0, 0, 0, 0, 0, 0, 0, 1,
        0x20, 1, 0x0d, 0xb8, 0, 0, 0, 0, 0, 0, 0, 0, 0, 0, 0, 2, 0x3b, 0, 0xc2, 4, 0, 1, 0, 8] ++ [0xfe, 0xfe]) []) =
      some [0x3b, 0, 0xc2, 4, 0, 1, 0, 8, 0xfe, 0xfe] := by decide

/-- Non-vacuity of the hypotheses of `roundtrip_partial_hbh`: version 6 layer, hop-by-hop header
    with an 8n+2-aligned option and a Pad1, 3-byte payload. -/
def exHbh : TlvExt :=
  { base := { ExtBase.zero with nextHeader := 59 },
    options := [{ typ := 0x1e, len := 0, alen := 0, data := some [1, 2, 3, 4, 5], ax := 8, ay := 2 }, pad1] }

example : exHbh.plain ∧ encLen true exHbh.options + 2 + 3 ≤ 65535 := by
  refine ⟨⟨⟨by decide, ?_, by decide⟩, ?_⟩, by decide⟩
  · intro o ho
    simp [exHbh] at ho
    rcases ho with rfl | rfl <;> decide
  · intro o ho
    simp [exHbh] at ho
    rcases ho with rfl | rfl <;> decide

example : ({ IPv6.zero with
             version := 6, trafficClass := 0xb8, flowLabel := 0x12345, nextHeader := 0, hopLimit := 64,
             srcIP := List.replicate 16 1, dstIP := List.replicate 16 2, hopByHop := some exHbh } : IPv6).hdrWf :=
  ⟨by decide, by decide, by decide, by decide, by decide, by decide, by decide⟩

/-! ## IPv6HopByHop / IPv6Destination on their own -/

/-- Serialize (FixLengths) then decode an in-range extension header over any payload: no error, no
    truncation, same next header, the header length that was written, the same non-padding options
    in order, the same payload; Contents are the written bytes. -/
theorem roundtrip_ext (kind : ExtKind) (e : TlvExt) (b : SBuf) (old : TlvExt) (x : Bytes) (h : Inv b)
    (hw : e.wf) :
    ∃ b' d, serializeTlvExt e b true = .ok (b', fixExt true e) ∧
      decodeExt kind old (contents b') x = .ok (d, false) ∧
      d.base.nextHeader = e.base.nextHeader ∧ d.base.headerLength = (fixExt true e).base.headerLength ∧
      optsView d.options = optsView (fixExt true e).options ∧ d.base.payload = contents b ∧
      d.base.contents ++ d.base.payload = contents b' := by
  obtain ⟨hg, hr, hi, hb255⟩ := e.wf_facts hw
  obtain ⟨hnh, -, hmax⟩ := hw
  have h8 := encLen_mod8 e.options
  have hmin := encLen_ge6 e.options
  have hser := serializeTlvExt_closed e b true h hg hr
  rw [if_neg (by omega)] at hser
  obtain ⟨hc1, -, -⟩ := ext_result_contents b (encOpts true e.options)
    [u8 e.base.nextHeader, u8 (extHdrLen true e)] h
  have hehl : extHdrLen true e = ((encLen true e.options + 2) / 8 - 1) % 256 := by simp [extHdrLen]
  have hspec := ext_decode_encoded old true e.base.nextHeader e.options (contents b) hnh hg hr hi h8 hmax hmin
  have hdec : decodeExt kind old (contents (step (step b (.prepend (encOpts true e.options)))
      (.prepend [u8 e.base.nextHeader, u8 (extHdrLen true e)]))) x =
      .ok ((tlvExtSpec old ([u8 e.base.nextHeader, u8 (((encLen true e.options + 2) / 8 - 1) % 256)] ++
        encOpts true e.options ++ contents b)).layer, false) := by
    unfold decodeExt
    rw [decodeTlvExt_eq_spec, hc1, hehl, hspec]
  refine ⟨_, _, hser, hdec, ?_⟩
  rw [hspec]
  refine ⟨rfl, ?_, ?_, rfl, ?_⟩
  · show (encLen true e.options + 2) / 8 - 1 = extHdrLen true e
    rw [hehl, Nat.mod_eq_of_lt (by omega)]
  · show optsView (decItems true e.options 2 ++ _) = optsView (e.options.map (fixOpt true))
    simp only [if_true]
    rw [optsView_append, optsView_padOpts, List.append_nil, optsView_decItems _ _ hb255]
  · rw [hc1, hehl]

/-! ## IPv6Routing, IPv6Fragment -/

theorem roundtrip_routing (r : Routing) (b : SBuf) (x : Bytes) (h : Inv b) (hw : r.wf) :
    ∃ b' d, serializeRouting r b = .ok b' ∧ decodeRouting ⟨contents b', x⟩ = (some d, false, .ok ()) ∧
      d.base.nextHeader = r.base.nextHeader ∧ d.routingType = r.routingType ∧
      d.segmentsLeft = r.segmentsLeft ∧ d.reserved = r.reserved ∧
      d.sourceRoutingIPs = r.sourceRoutingIPs ∧ d.base.payload = contents b := by
  have hc : RoutingConsistent r := ⟨by have := hw.2.2.2.1; omega, fun ip hip => Or.inr (hw.2.2.2.2.2 ip hip)⟩
  refine ⟨_, { r with base := { contents := rtBytes r, payload := contents b, nextHeader := r.base.nextHeader,
                                headerLength := r.sourceRoutingIPs.length * 2,
                                actualLength := 8 + r.sourceRoutingIPs.length * 16 } },
    serializeRouting_closed r b h hc, ?_, rfl, rfl, rfl, rfl, rfl, rfl⟩
  rw [decodeRouting_eq_spec, contents_step_prepend _ _ h, routing_roundtrip r _ hw]

theorem roundtrip_fragment (f : Fragment) (b : SBuf) (x : Bytes) (h : Inv b) (hw : f.wf) :
    ∃ b', serializeFragment f b = .ok b' ∧
      decodeFragment ⟨contents b', x⟩ =
        (some { f with contents := fragBytes f, payload := contents b }, false, .ok ()) := by
  refine ⟨_, serializeFragment_eq f b h, ?_⟩
  rw [decodeFragment_eq_spec, contents_step_prepend _ _ h, fragment_roundtrip f _ hw]

example : ({ contents := [], payload := [], nextHeader := 17, reserved1 := 0, fragmentOffset := 185,
             reserved2 := 3, moreFragments := true, identification := 0xdeadbeef } : Fragment).wf := by decide

example : ({ base := { ExtBase.zero with nextHeader := 59 }, routingType := 0, segmentsLeft := 1,
             reserved := [0, 0, 0, 0], sourceRoutingIPs := [List.replicate 16 7] } : Routing).wf := by
  refine ⟨by decide, rfl, by decide, rfl, by decide, ?_⟩
  intro ip hip
  simp at hip
  subst hip
  rfl

end Gp.C06.Ip6
