import Gp.Lemmas.Layers.BfdRt
/-
  C06 (engine `lbfd`) — serialize then decode returns the same BFD layer.

  `wfBfd` (Gp/Lemmas/Layers/BfdRt.lean) is the explicit, decidable well-formedness predicate: the
  widths of the bit fields (Version < 8, Diagnostic < 32, State < 4), 8/32-bit ranges, an
  authentication header only together with the A bit, and per authentication type what one packet
  can express: Simple Password — no sequence number, at most 228 password bytes; the four keyed
  types — at most 223 digest bytes; any other type — type and key id only (lbfd-3).  The bounds are
  what the one-byte Length field allows (24 + section ≤ 255).  The decoder does not enforce the
  RFC's fixed sizes (password 1..16, MD5 24, SHA1 28), so neither does `wfBfd`.
  `BfdEquiv` compares all public fields (AuthHeader by value) and ignores Contents/Payload.

  BFD control packets carry no payload (`Payload()` is nil, `NextLayerType` is Zero, the serializer
  APPENDS the authentication section behind whatever the buffer holds): the round trip is stated
  for the empty payload; `serialize_over_payload_not_decodable` says what happens otherwise.
  All theorems are about the code WITH the proposed fixes lbfd-1..3.
-/
namespace Gp.C06.Bfd
open Gp Gp.SBuf Gp.Bfd Gp.C18

/-- Every successfully decoded layer is well-formed (any receiver, any bytes, any capacity), its
    Contents are the whole input and its payload is empty. -/
theorem decoded_wf (old : BFD) (d : GSlice) (o : DecOut BFD)
    (h : old.decodeFromBytes d = .ok o) (he : o.err = false) :
    wfBfd o.layer ∧ o.layer.contents = d.vis ∧ o.layer.layerPayload = [] ∧ o.trunc = false := by
  rw [BFD.decode_eq old d] at h
  by_cases hs : d.len < 24
  · rw [if_pos hs] at h; cases h; cases he
  · rw [if_neg hs] at h
    cases h
    have hb := bfdDecSpec_base old d.vis he
    refine ⟨bfdDecSpec_wf old d.vis he, hb.1, hb.2, ?_⟩
    -- success never sets the truncation flag: decode again what the layer encodes to? no — directly:
    have hk : ∀ (l : BFD) (hd : AuthHeader) (w : Bytes), (keyedSpec l hd w).err = false → (keyedSpec l hd w).trunc = false := by
      intro l hd w hh; unfold keyedSpec at hh ⊢; split
      · rename_i hn; rw [if_pos hn] at hh; cases hh
      · rfl
    unfold bfdDecSpec at he ⊢
    split
    · rfl
    · rename_i hm; rw [if_neg hm] at he
      unfold authSpec authSpec0 at he ⊢
      split
      · rename_i hc; rw [if_pos hc] at he
        simp only at he ⊢
        split
        · rfl
        · rename_i h1; rw [if_neg h1] at he
          split
          · rename_i h2; rw [if_pos h2] at he; exact hk _ _ _ he
          · rename_i h2; rw [if_neg h2] at he
            split
            · rename_i h3; rw [if_pos h3] at he; exact hk _ _ _ he
            · rfl
      · rfl

/-- Round trip: a well-formed layer written into ANY buffer (any capacity, stale bytes, history)
    holding the empty payload, with any option set, then decoded into ANY receiver from a packet
    buffer of ANY capacity: no error, no truncation flag, the decoded layer is EXACTLY the layer
    (all public fields, AuthHeader included) with Contents = all bytes and an empty payload. -/
theorem roundtrip (l old : BFD) (b : SBuf) (fix csum : Bool) (foreign : Bytes)
    (hw : wfBfd l) (hb : Inv b) (hp : contents b = []) :
    ∃ o, l.serializeTo b fix csum = .ok o ∧ o.err = false ∧ o.layer = l ∧ contents o.buf = bfdEncode l ∧
      ∃ l', decodeBfd old (contents o.buf) foreign = .ok (l', false) ∧ BfdEquiv l' l ∧
        l'.layerPayload = contents b ∧ l'.contents = contents o.buf := by
  obtain ⟨o, ho, -, hl, he, hc⟩ := bfd_serializeTo_refines l b fix csum hb
  rw [hp, List.append_nil] at hc
  have hc' : contents o.buf = bfdEncode l := hc
  refine ⟨o, ho, he, hl, hc', { l with contents := bfdEncode l, payload := [] }, ?_, BfdEquiv_of_base l _ _,
    by rw [hp]; rfl, by rw [hc']⟩
  rw [hc']
  exact decodeBfd_enc old l foreign hw

/-- A layer obtained by decoding any bytes round-trips (field values; the input may have carried
    bytes the decoder ignores — trailing bytes without the A bit, digest bytes of an unknown type,
    the authentication length byte — so the BYTES need not be the input). -/
theorem roundtrip_decoded (old0 old : BFD) (d : GSlice) (o0 : DecOut BFD) (b : SBuf) (fix csum : Bool) (foreign : Bytes)
    (h : old0.decodeFromBytes d = .ok o0) (he : o0.err = false) (hb : Inv b) (hp : contents b = []) :
    ∃ o, o0.layer.serializeTo b fix csum = .ok o ∧ o.err = false ∧
      ∃ l', decodeBfd old (contents o.buf) foreign = .ok (l', false) ∧ BfdEquiv l' o0.layer ∧ l'.layerPayload = [] := by
  obtain ⟨o, h1, h2, -, -, l', h5, h6, h7, -⟩ :=
    roundtrip o0.layer old b fix csum foreign (decoded_wf old0 d o0 h he).1 hb hp
  exact ⟨o, h1, h2, l', h5, h6, by rw [h7, hp]⟩

/-- Serialising the decoded layer once more reproduces the same bytes (in any buffer). -/
theorem reserialize_fixpoint (l old : BFD) (b b' : SBuf) (fix csum : Bool) (foreign : Bytes)
    (hw : wfBfd l) (hb : Inv b) (hp : contents b = []) (hb' : Inv b') (hp' : contents b' = []) :
    ∃ o l' o', l.serializeTo b fix csum = .ok o ∧ decodeBfd old (contents o.buf) foreign = .ok (l', false) ∧
      l'.serializeTo b' fix csum = .ok o' ∧ o'.err = false ∧ contents o'.buf = contents o.buf := by
  obtain ⟨o, ho, -, hl, he, hc⟩ := bfd_serializeTo_refines l b fix csum hb
  rw [hp, List.append_nil] at hc
  have hc1 : contents o.buf = bfdEncode l := hc
  obtain ⟨o', ho', -, -, he', hc'⟩ :=
    bfd_serializeTo_refines { l with contents := bfdEncode l, payload := [] } b' fix csum hb'
  rw [hp', List.append_nil] at hc'
  refine ⟨o, _, o', ho, ?_, ho', he', ?_⟩
  · rw [hc1]; exact decodeBfd_enc old l foreign hw
  · rw [hc', hc1]; rfl

/-- BFD carries no payload: written over a NON-empty payload the authentication section lands
    behind it and the output (header ++ payload ++ section) is rejected by the decoder — the Length
    byte counts header and section only.  (Scope of the property: "payloads where the protocol
    allows"; for this protocol that is the empty one.) -/
theorem serialize_over_payload_not_decodable (l old : BFD) (b : SBuf) (fix csum : Bool) (foreign : Bytes)
    (hw : wfBfd l) (hb : Inv b) (hp : contents b ≠ []) :
    ∃ o, l.serializeTo b fix csum = .ok o ∧ contents o.buf = bfdHeader l ++ contents b ++ bfdAuthSection l ∧
      decodeBfd old (contents o.buf) foreign = .err "bfd" := by
  obtain ⟨o, ho, -, hl, he, hc⟩ := bfd_serializeTo_refines l b fix csum hb
  refine ⟨o, ho, hc, ?_⟩
  rw [hc]
  exact decodeBfd_over_payload old l _ foreign hw hp

/-- Outside `wfBfd` (1): the bit fields are not masked — Diagnostic 32 spills into the Version bits. -/
theorem roundtrip_diagnostic_counterexample :
    ∃ l : BFD, l.diagnostic = 32 ∧ l.version = 0 ∧
      (match l.serializeTo (new 0 0) true true with
       | .ok o => (match decodeBfd BFD.fresh (contents o.buf) [] with
                   | .ok (l', _) => some (l'.version, l'.diagnostic)
                   | _ => none)
       | _ => none) = some (1, 0) :=
  ⟨{ BFD.fresh with diagnostic := 32 }, rfl, rfl, by decide⟩

/-- Outside `wfBfd` (2): an authentication header without the A bit is not written at all. -/
theorem roundtrip_header_without_A_bit_counterexample :
    ∃ l : BFD, l.authPresent = false ∧ l.authHeader ≠ none ∧
      (match l.serializeTo (new 0 0) true true with
       | .ok o => (match decodeBfd BFD.fresh (contents o.buf) [] with
                   | .ok (l', _) => some l'.authHeader
                   | _ => none)
       | _ => none) = some none :=
  ⟨{ BFD.fresh with authHeader := some { authType := 1, keyID := 2, sequenceNumber := 0, data := [0x73] } },
   rfl, by decide, by decide⟩

set_option maxRecDepth 20000 in
/-- The tables the model branches on, over the constants REGENERATED from bfd.go on every run: the
    mandatory section is 24 bytes; type 1 is the Simple Password; exactly the types 2..5 are keyed
    (reserved byte + sequence number + digest); `Length()` per type. -/
theorem auth_type_table :
    Gp.Gen.Bfd.bfdMinimumRecordSizeInBytes = 24 ∧ Gp.Gen.Bfd.bfdAuthTypePassword = 1 ∧
    (List.range 256).filter (fun t => decide (keyedType t)) = [2, 3, 4, 5] ∧
    (∀ t, t < 256 → ∀ n, n < 3 →
      AuthHeader.length { authType := t, keyID := 0, sequenceNumber := 0, data := List.replicate n 0 } =
        if t = 1 then 3 + n else if 2 ≤ t ∧ t ≤ 5 then 8 + n else 3) := by decide

/-! Non-vacuity: concrete well-formed layers of every kind. -/

example : wfBfd { BFD.fresh with version := 1, diagnostic := 7, state := 3, poll := true, authPresent := true,
                                 detectMultiplier := 3, myDiscriminator := 0xffffffff, yourDiscriminator := 1,
                                 desiredMinTxInterval := 1000000, requiredMinRxInterval := 1000000,
                                 authHeader := some { authType := 5, keyID := 9, sequenceNumber := 0xdeadbeef,
                                                      data := [1,2,3,4,5,6,7,8,9,10,11,12,13,14,15,16,17,18,19,20] } } := by decide

example : wfBfd { BFD.fresh with authPresent := true,
                                 authHeader := some { authType := 1, keyID := 2, sequenceNumber := 0, data := [0x73, 0x65, 0x63] } } ∧
          wfBfd { BFD.fresh with authPresent := true } ∧
          wfBfd { BFD.fresh with authPresent := true,
                                 authHeader := some { authType := 200, keyID := 2, sequenceNumber := 0, data := [] } } ∧
          ¬ wfBfd { BFD.fresh with authPresent := true,
                                   authHeader := some { authType := 200, keyID := 2, sequenceNumber := 0, data := [1] } } := by decide

example :
    let l : BFD := { BFD.fresh with version := 1, state := 3, authPresent := true, detectMultiplier := 3,
                                    myDiscriminator := 1, yourDiscriminator := 2,
                                    authHeader := some { authType := 3, keyID := 2, sequenceNumber := 258, data := [0xaa, 0xbb] } }
    bfdEncode l = [0x20, 0xc4, 3, 34, 0,0,0,1, 0,0,0,2, 0,0,0,0, 0,0,0,0, 0,0,0,0, 3, 10, 2, 0, 0,0,1,2, 0xaa, 0xbb] ∧
    decodeBfd BFD.fresh (bfdEncode l) [0xEE] = .ok ({ l with contents := bfdEncode l }, false) := by decide

end Gp.C06.Bfd
