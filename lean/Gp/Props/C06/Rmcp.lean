import Gp.Lemmas.Layers.RmcpRt
/-
  C06 (engine `lrmcp`) — RMCP, ASF, AGUEVar0: serialize (FixLengths on) then decode returns the same field
  values and the same payload, with no error and no truncation flag; serialising the decoded layer once
  more reproduces the same bytes.  MDP: `SerializeTo` is an empty function, so no MDP frame is ever written
  (`roundtrip_mdp_counterexample`, known finding `lrmcp:mdp-serialize-noop`).

  Definitions (Gp/Lemmas/Layers/RmcpRt.lean, RmcpSer.lean):
    wfRmcp l   : Version, Sequence < 2^8; Class < 16 (four class bits on the wire)
    wfAsf l    : Enterprise < 2^32; Type, Tag, Length < 2^8   (Length may disagree with the payload)
    asfFixed l p fix : the layer after FixLengths (Length := |p| mod 256)
    wfAgue l   : Version < 4, Protocol < 2^8, Flags < 2^16, at most 31 extension bytes
    RmcpEquiv / AsfEquiv / AgueEquiv : all public fields equal (≈ ignores Contents/Payload resp. Data)
  The buffer `b` holds the payload (`contents b = p`) and is otherwise arbitrary (any buffer with the C18
  invariant: capacity, stale bytes, history); the decoder's receiver `old`, the capacity of the packet
  buffer and the foreign bytes behind the packet are arbitrary too.  None of the three decoders looks at
  a length field, so the claims hold for EVERY payload (also beyond 64 KiB).
-/
namespace Gp.C06.Rmcp
open Gp Gp.SBuf Gp.Rmcp Gp.C18

/-! ## RMCP -/

/-- Every successfully decoded RMCP layer has in-range field values (in particular Class < 16). -/
theorem decoded_wf (old : RMCP) (d : GSlice) (o : DecOut RMCP)
    (h : old.decodeFromBytes d = .ok o) (he : o.err = false) : wfRmcp o.layer := by
  by_cases hs : d.len < 4
  · rw [RMCP.decode_short old d hs] at h; cases h; cases he
  · rw [RMCP.decode_long old d (by omega)] at h; cases h
    exact rmcpLayer_wf d.vis

/-- Round trip of the class/ack bit packing: a well-formed layer over ANY payload is written without
    error and unchanged, and decoding the produced bytes (into any receiver, in a packet buffer of any
    capacity) yields — without error and without truncation flag — a layer ≈ l whose payload is exactly
    `p` and whose Contents ++ Payload are the bytes written. -/
theorem roundtrip (l : RMCP) (p : Bytes) (b : SBuf) (fix csum : Bool) (old : RMCP) (foreign : Bytes)
    (hw : wfRmcp l) (hb : Inv b) (hc : contents b = p) :
    ∃ o l', l.serializeTo b fix csum = .ok o ∧ o.err = false ∧ o.layer = l ∧
      old.decodeFromBytes { vis := contents o.buf, tail := foreign } =
        .ok { layer := l', trunc := false, err := false } ∧
      RmcpEquiv l' l ∧ l'.payload = p ∧ l'.contents ++ l'.payload = contents o.buf := by
  obtain ⟨o, ho, -, hl, he, hby⟩ := rmcp_serializeTo_refines l b fix csum hb
  rw [hc] at hby
  have h4 : 4 ≤ (rmcpEncode l ++ p).length := by
    rw [List.length_append]; have : (rmcpEncode l).length = 4 := rfl; omega
  refine ⟨o, { l with contents := rmcpEncode l, payload := p }, ho, he, hl, ?_, ⟨rfl, rfl, rfl, rfl⟩, rfl, by rw [hby]⟩
  rw [hby, RMCP.decode_vis old _ _ h4]
  unfold rmcpDecSpec
  rw [rmcpLayer_encode l p hw]

theorem reserialize_fixpoint (l : RMCP) (p : Bytes) (b b2 : SBuf) (fix csum fix2 csum2 : Bool)
    (old : RMCP) (foreign : Bytes) (hw : wfRmcp l) (hb : Inv b) (hc : contents b = p) (hb2 : Inv b2) :
    ∃ o l', l.serializeTo b fix csum = .ok o ∧ o.err = false ∧
      old.decodeFromBytes { vis := contents o.buf, tail := foreign } =
        .ok { layer := l', trunc := false, err := false } ∧
      (contents b2 = l'.payload →
        ∃ o2, l'.serializeTo b2 fix2 csum2 = .ok o2 ∧ o2.err = false ∧ contents o2.buf = contents o.buf) := by
  obtain ⟨o, ho, -, hl, he, hby⟩ := rmcp_serializeTo_refines l b fix csum hb
  rw [hc] at hby
  have h4 : 4 ≤ (rmcpEncode l ++ p).length := by
    rw [List.length_append]; have : (rmcpEncode l).length = 4 := rfl; omega
  refine ⟨o, { l with contents := rmcpEncode l, payload := p }, ho, he, ?_, ?_⟩
  · rw [hby, RMCP.decode_vis old _ _ h4]
    unfold rmcpDecSpec
    rw [rmcpLayer_encode l p hw]
  · intro hc2
    simp only at hc2
    obtain ⟨o2, ho2, -, -, he2, hby2⟩ := rmcp_serializeTo_refines
      { l with contents := rmcpEncode l, payload := p } b2 fix2 csum2 hb2
    rw [hc2] at hby2
    exact ⟨o2, ho2, he2, by rw [hby2, hby]; rfl⟩

/-- The class bound of `wfRmcp` is sharp: Class 0x90 is written as it is (`bool2uint8(Ack)<<7 | uint8(Class)`,
    no mask) and comes back as Ack = true, Class = 0. -/
theorem roundtrip_class_counterexample :
    let l : RMCP := { RMCP.fresh with cls := 0x90 }
    (rmcpLayer (rmcpEncode l)).ack = true ∧ (rmcpLayer (rmcpEncode l)).cls = 0 := by decide

/-! ## ASF -/

theorem decoded_wf_asf (old : ASF) (d : GSlice) (o : DecOut ASF)
    (h : old.decodeFromBytes d = .ok o) (he : o.err = false) : wfAsf o.layer := by
  by_cases hs : d.len < 8
  · rw [ASF.decode_short old d hs] at h; cases h; cases he
  · rw [ASF.decode_long old d (by omega)] at h; cases h
    exact asfLayer_wf d.vis

/-- Round trip: FixLengths turns the layer into `asfFixed l p true` (Length := |p| mod 256 — one byte cannot
    say more; the decoder does not use the field), and decoding the written bytes gives a layer ≈ that
    fixed layer with payload exactly `p`, for every payload. -/
theorem roundtrip_asf (l : ASF) (p : Bytes) (b : SBuf) (fix csum : Bool) (old : ASF) (foreign : Bytes)
    (hw : wfAsf l) (hb : Inv b) (hc : contents b = p) :
    ∃ o l', l.serializeTo b fix csum = .ok o ∧ o.err = false ∧ o.layer = asfFixed l p fix ∧
      old.decodeFromBytes { vis := contents o.buf, tail := foreign } =
        .ok { layer := l', trunc := false, err := false } ∧
      AsfEquiv l' (asfFixed l p fix) ∧ l'.payload = p ∧ l'.contents ++ l'.payload = contents o.buf := by
  obtain ⟨o, ho, -, hl, he, hby⟩ := asf_serializeTo_refines l b fix csum hb
  rw [hc] at hby hl
  have hw2 := asfFixed_wf l p fix hw
  have h8 : 8 ≤ (asfEncode (asfFixed l p fix) ++ p).length := by
    rw [List.length_append]; have : (asfEncode (asfFixed l p fix)).length = 8 := rfl; omega
  refine ⟨o, { asfFixed l p fix with contents := asfEncode (asfFixed l p fix), payload := p }, ho, he, hl, ?_,
    ⟨rfl, rfl, rfl, rfl⟩, rfl, by rw [hby]⟩
  rw [hby, ASF.decode_vis old _ _ h8]
  unfold asfDecSpec
  rw [asfLayer_encode _ p hw2]

/-- With FixLengths the Length field of the result is the payload length whenever that fits one byte. -/
theorem roundtrip_asf_length (l : ASF) (p : Bytes) (hp : p.length < 256) : (asfFixed l p true).length = p.length := by
  unfold asfFixed; simp only [if_true]; omega

theorem reserialize_fixpoint_asf (l : ASF) (p : Bytes) (b b2 : SBuf) (csum csum2 : Bool)
    (old : ASF) (foreign : Bytes) (hw : wfAsf l) (hb : Inv b) (hc : contents b = p) (hb2 : Inv b2) :
    ∃ o l', l.serializeTo b true csum = .ok o ∧ o.err = false ∧
      old.decodeFromBytes { vis := contents o.buf, tail := foreign } =
        .ok { layer := l', trunc := false, err := false } ∧
      (contents b2 = l'.payload →
        ∃ o2, l'.serializeTo b2 true csum2 = .ok o2 ∧ o2.err = false ∧ o2.layer = l' ∧
          contents o2.buf = contents o.buf) := by
  obtain ⟨o, ho, -, hl, he, hby⟩ := asf_serializeTo_refines l b true csum hb
  rw [hc] at hby hl
  have hw2 := asfFixed_wf l p true hw
  have h8 : 8 ≤ (asfEncode (asfFixed l p true) ++ p).length := by
    rw [List.length_append]; have : (asfEncode (asfFixed l p true)).length = 8 := rfl; omega
  refine ⟨o, { asfFixed l p true with contents := asfEncode (asfFixed l p true), payload := p }, ho, he, ?_, ?_⟩
  · rw [hby, ASF.decode_vis old _ _ h8]
    unfold asfDecSpec
    rw [asfLayer_encode _ p hw2]
  · intro hc2
    simp only at hc2
    obtain ⟨o2, ho2, -, hl2, he2, hby2⟩ := asf_serializeTo_refines
      { asfFixed l p true with contents := asfEncode (asfFixed l p true), payload := p } b2 true csum2 hb2
    rw [hc2] at hby2 hl2
    have efix : asfFixed { asfFixed l p true with contents := asfEncode (asfFixed l p true), payload := p } p true =
        { asfFixed l p true with contents := asfEncode (asfFixed l p true), payload := p } := by
      unfold asfFixed; rfl
    rw [efix] at hby2 hl2
    exact ⟨o2, ho2, he2, hl2, by rw [hby2, hby]; rfl⟩

/- Observation: a payload of 256 bytes gets Length 0 (silently): the one-byte field cannot express it. The
   round trip above still holds (the decoder hands on everything behind the header). -/
example (p : Bytes) (h : p.length = 256) : (asfFixed ASF.fresh p true).length = 0 := by
  unfold asfFixed; simp [h]

/-! ## AGUEVar0 -/

theorem decoded_wf_ague (old : AGUE) (d : GSlice) (o : DecOut AGUE)
    (h : old.decodeFromBytes d = .ok o) (he : o.err = false) : wfAgue o.layer := by
  by_cases hs : d.len < 4
  · rw [AGUE.decode_short old d hs] at h; cases h; cases he
  · rw [AGUE.decode_long old d (by omega)] at h; cases h
    unfold agueDecSpec at he ⊢
    by_cases hlt : d.vis.length < 4 + agueHlen d.vis
    · rw [if_pos hlt] at he; cases he
    · rw [if_neg hlt]; exact agueLayer_wf d.vis

/-- Round trip of the version/C/length bit packing and of the extension bytes: a well-formed layer over ANY
    payload is written without error, and decoding the written bytes gives ≈ the same layer with
    Data = the payload. -/
theorem roundtrip_ague (l : AGUE) (p : Bytes) (b : SBuf) (fix csum : Bool) (old : AGUE) (foreign : Bytes)
    (hw : wfAgue l) (hb : Inv b) (hc : contents b = p) :
    ∃ o l', l.serializeTo b fix csum = .ok o ∧ o.err = false ∧ o.layer = l ∧
      old.decodeFromBytes { vis := contents o.buf, tail := foreign } =
        .ok { layer := l', trunc := false, err := false } ∧
      AgueEquiv l' l ∧ l'.layerPayload = p ∧ l'.layerContents ++ l'.layerPayload = contents o.buf := by
  obtain ⟨o, ho, -, hl, he, hby⟩ := ague_serializeTo_refines l b fix csum hb
  rw [hc] at hby
  have h4 : 4 ≤ (l.layerContents ++ p).length := by
    rw [List.length_append, agueContents_length]; omega
  refine ⟨o, { l with data := p }, ho, he, hl, ?_, ⟨rfl, rfl, rfl, rfl, rfl⟩, rfl, by rw [hby]; rfl⟩
  rw [hby, AGUE.decode_vis old _ _ h4, agueDecSpec_encode old l p hw]

theorem reserialize_fixpoint_ague (l : AGUE) (p : Bytes) (b b2 : SBuf) (fix csum fix2 csum2 : Bool)
    (old : AGUE) (foreign : Bytes) (hw : wfAgue l) (hb : Inv b) (hc : contents b = p) (hb2 : Inv b2) :
    ∃ o l', l.serializeTo b fix csum = .ok o ∧ o.err = false ∧
      old.decodeFromBytes { vis := contents o.buf, tail := foreign } =
        .ok { layer := l', trunc := false, err := false } ∧
      (contents b2 = l'.layerPayload →
        ∃ o2, l'.serializeTo b2 fix2 csum2 = .ok o2 ∧ o2.err = false ∧ contents o2.buf = contents o.buf) := by
  obtain ⟨o, ho, -, hl, he, hby⟩ := ague_serializeTo_refines l b fix csum hb
  rw [hc] at hby
  have h4 : 4 ≤ (l.layerContents ++ p).length := by
    rw [List.length_append, agueContents_length]; omega
  refine ⟨o, { l with data := p }, ho, he, ?_, ?_⟩
  · rw [hby, AGUE.decode_vis old _ _ h4, agueDecSpec_encode old l p hw]
  · intro hc2
    obtain ⟨o2, ho2, -, -, he2, hby2⟩ := ague_serializeTo_refines { l with data := p } b2 fix2 csum2 hb2
    rw [hc2] at hby2
    exact ⟨o2, ho2, he2, by rw [hby2, hby]; rfl⟩

/-- The bounds of `wfAgue` are sharp: Version 5 comes back as 1 (and such bytes are even routed to the
    variant-1 decoder by `decodeAGUE`); 33 extension bytes announce length 1 and set the C bit. -/
theorem roundtrip_ague_counterexample :
    (agueLayer ({ AGUE.fresh with version := 5 } : AGUE).layerContents).version = 1 ∧
    (agueLayer ({ AGUE.fresh with extensions := List.replicate 33 7 } : AGUE).layerContents).c = true ∧
    (agueLayer ({ AGUE.fresh with extensions := List.replicate 33 7 } : AGUE).layerContents).extensions = [7] := by
  decide

/-! ## MDP -/

/-- The round-trip claim at full strength for MDP (as for the other three layers). -/
def roundtrip_mdp_full : Prop :=
  ∀ (l : MDP) (p : Bytes) (b : SBuf), Inv b → contents b = p → l.length = 28 → l.contents.length = 28 →
    ∃ o o', l.serializeTo b true true = .ok o ∧
      MDP.fresh.decodeFromBytes { vis := contents o.buf, tail := [] } = .ok o' ∧ o'.err = false

/-- It FAILS: `MDP.SerializeTo` (mdp.go:145-151) has its body commented out — it writes nothing and returns
    nil, so "serialising" a decoded 28-byte MDP frame over an empty payload yields zero bytes, which do not
    decode.  Reported as known finding `lrmcp:mdp-serialize-noop` (a fix would be a new serializer, not a
    small patch). -/
theorem roundtrip_mdp_counterexample : ¬ roundtrip_mdp_full := by
  intro h
  obtain ⟨o, o', e1, e2, e3⟩ := h { MDP.fresh with contents := List.replicate 28 0, length := 28 } [] (new 0 0)
    (inv_new' 0 0) rfl rfl rfl
  unfold MDP.serializeTo at e1
  cases e1
  have : MDP.fresh.decodeFromBytes { vis := contents (new 0 0), tail := [] } =
      .ok { layer := MDP.fresh, trunc := true, err := true } := by decide
  rw [this] at e2
  cases e2
  cases e3

/-- What does hold for MDP (`_partial`): the call never fails and leaves the payload untouched. -/
theorem roundtrip_mdp_partial (l : MDP) (b : SBuf) (fix csum : Bool) :
    l.serializeTo b fix csum = .ok { buf := b, layer := l, err := false } := rfl

/-! ## Non-vacuity: concrete non-trivial inhabitants of the hypotheses -/

example : wfRmcp { RMCP.fresh with version := 6, sequence := 255, ack := true, cls := 6 } := by decide
example : wfAsf { ASF.fresh with enterprise := 4542, typ := 0x40, tag := 7, length := 99 } := by decide
example : wfAgue { AGUE.fresh with version := 2, c := true, protocol := 41, flags := 0x8001, extensions := [7, 8] } := by decide

/-- the whole round trip computed on concrete layers (ASF's Length 99 is wrong on entry) -/
example :
    serView (({ ASF.fresh with enterprise := 4542, typ := 0x40, tag := 7, length := 99 } : ASF).serializeTo
              (step (new 0 0) (.prepend [0xAA, 0xBB])) true true) =
      .ok { layer := { ASF.fresh with enterprise := 4542, typ := 0x40, tag := 7, length := 2 }, err := false,
            bytes := [0,0,0x11,0xbe,0x40,7,0,2, 0xAA,0xBB] } ∧
    decodeAsfView ASF.fresh [0,0,0x11,0xbe,0x40,7,0,2, 0xAA,0xBB] [0xEE] =
      .ok ({ contents := [0,0,0x11,0xbe,0x40,7,0,2], payload := [0xAA,0xBB], enterprise := 4542, typ := 0x40, tag := 7,
             length := 2 }, false) ∧
    serView (({ AGUE.fresh with version := 2, c := true, protocol := 41, flags := 0x8001, extensions := [7, 8] } : AGUE).serializeTo
              (step (new 0 0) (.prepend [0x60])) true true) =
      .ok { layer := { AGUE.fresh with version := 2, c := true, protocol := 41, flags := 0x8001, extensions := [7, 8] },
            err := false, bytes := [0xA2, 41, 0x80, 1, 7, 8, 0x60] } := by decide

end Gp.C06.Rmcp
