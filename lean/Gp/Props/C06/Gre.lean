import Gp.Lemmas.Layers.GreRt
/-
  C06 — "Serialize then decode returns the same layers and payload": the GRE layer (engine `lgre`).

  `serializeGre` models SerializeTo of the tree WITH the proposed fixes lgre-1 (offset advanced after
  the NULL SRE), lgre-2 (uncovered SRE bytes zeroed) and lgre-3 (checksum word kept when only the R
  bit is set); the `_orig_counterexample` theorems are machine-checked witnesses that the unpatched
  code (`Variant.orig`) violates the property.
-/
namespace Gp.C06.Gre
open Gp Gp.Gre Gp.SBuf

/-- a concrete, non-trivial well-formed layer: checksum, key, ack, GREv1, two SREs. -/
def sample : Layer :=
  { Layer.fresh with
    checksumPresent := true, routingPresent := true, keyPresent := true, ackPresent := true,
    strictSourceRoute := true, flags := 17, version := 1, recursionControl := 5, protocol := 0x0800,
    offset := 4, key := 0xdeadbeef, ack := 7,
    routing := [⟨0x0800, 4, 4, [10, 0, 0, 1]⟩, ⟨0xffff, 0, 0, []⟩] }

/-- `wf` is decidable and inhabited by a non-trivial value. -/
example : wf sample := by decide
example : ¬ wf { sample with recursionControl := 8 } := by decide
example : ¬ wf { sample with routing := [⟨0, 0, 0, []⟩] } := by decide

/-- Every layer DecodeFromBytes produces is well-formed (so the round trip applies to "a layer
    obtained by decoding" as well as to in-range constructions). -/
theorem decoded_wf (old : Layer) (data foreign : Bytes) (l : Layer) (t : Bool)
    (h : decodeGre old data foreign = .ok (l, t)) : wf l := by
  rw [decode_cases] at h
  split at h
  · cases h
  · cases hs : specDecode data with
    | none => rw [hs] at h; cases h
    | some l' =>
      rw [hs] at h
      simp only [Res.ok.injEq, Prod.mk.injEq] at h
      rw [← h.1]
      exact spec_wf data l' hs

/-- **Round trip.**  For every well-formed layer, every payload already in the buffer, every buffer
    history (`Inv`), all four option sets, decoding into any object from a buffer of any capacity:
    SerializeTo succeeds; decoding the produced bytes succeeds without error and without the truncation
    flag; the decoded layer has the field values of the (mutated) serialized layer — the SRE list
    in the same order —, its payload is the original payload and Contents ++ Payload are the bytes. -/
theorem roundtrip (l : Layer) (b : SBuf) (opts : Opts) (old : Layer) (foreign : Bytes)
    (hwf : wf l) (hb : Gp.C18.Inv b) :
    ∃ b' d, serializeGre l b opts = .ok (b', mutated l opts (contents b)) ∧
      decodeGre old (contents b') foreign = .ok (d, false) ∧
      sameFields d (mutated l opts (contents b)) ∧
      d.payload = contents b ∧ d.contents ++ d.payload = contents b' := by
  obtain ⟨b', hser, _, hcont⟩ := serialize_spec l b opts hb
  have hwf' := wf_mutated l opts (contents b) hwf
  generalize mutated l opts (contents b) = l' at hser hcont hwf'
  refine ⟨b', { l' with contents := encode l', payload := contents b }, hser, ?_, rfl, rfl, ?_⟩
  · rw [decode_cases, hcont, if_neg (by have := encode_length_ge_4 l'; rw [List.length_append]; omega),
      specDecode_encode l' (contents b) hwf']
  · rw [hcont]

/-- When no checksum is computed the receiver is not mutated: the fields come back exactly. -/
theorem roundtrip_unmutated (l : Layer) (b : SBuf) (opts : Opts) (old : Layer) (foreign : Bytes)
    (hwf : wf l) (hb : Gp.C18.Inv b) (hc : (l.checksumPresent && opts.computeChecksums) = false) :
    ∃ b' d, serializeGre l b opts = .ok (b', l) ∧
      decodeGre old (contents b') foreign = .ok (d, false) ∧ sameFields d l ∧ d.payload = contents b := by
  obtain ⟨b', d, h1, h2, h3, h4, _⟩ := roundtrip l b opts old foreign hwf hb
  have e : mutated l opts (contents b) = l := by unfold mutated; rw [hc]; rfl
  rw [e] at h1 h3
  exact ⟨b', d, h1, h2, h3, h4⟩

/-- **Re-serialization fixpoint.**  Writing the decoded layer once more — into ANY buffer that holds
    the decoded payload — reproduces the same bytes and leaves the decoded layer unchanged. -/
theorem reserialize_fixpoint (l : Layer) (b b₂ : SBuf) (opts : Opts) (old : Layer) (foreign : Bytes)
    (hwf : wf l) (hb : Gp.C18.Inv b) (hb₂ : Gp.C18.Inv b₂) :
    ∃ b' d, serializeGre l b opts = .ok (b', mutated l opts (contents b)) ∧
      decodeGre old (contents b') foreign = .ok (d, false) ∧
      (contents b₂ = d.payload →
        ∃ b₃, serializeGre d b₂ opts = .ok (b₃, d) ∧ contents b₃ = contents b') := by
  obtain ⟨b', hser, _, hcont⟩ := serialize_spec l b opts hb
  have hwf' := wf_mutated l opts (contents b) hwf
  have hidem := mutated_idem l opts (contents b)
  generalize mutated l opts (contents b) = l' at hser hcont hwf' hidem
  refine ⟨b', { l' with contents := encode l', payload := contents b }, hser, ?_, ?_⟩
  · rw [decode_cases, hcont, if_neg (by have := encode_length_ge_4 l'; rw [List.length_append]; omega),
      specDecode_encode l' (contents b) hwf']
  · intro hp
    simp only at hp
    obtain ⟨b₃, hs3, _, hc3⟩ := serialize_spec { l' with contents := encode l', payload := contents b } b₂ opts hb₂
    rw [hp, mutated_base, hidem] at hs3 hc3
    refine ⟨b₃, hs3, ?_⟩
    rw [hc3, hcont]
    rfl

set_option maxRecDepth 8000 in
/-- a concrete instance with everything switched on: the witness of `wf` round-trips through a
    buffer that held 0xA5 bytes before (the non-trivial case the hypotheses admit). -/
example :
    (match serializeGre sample (putPayload (SBuf.clear (SBuf.fill (SBuf.prepend (SBuf.new 0 0) 40).1
        (SBuf.prepend (SBuf.new 0 0) 40).2 (List.replicate 40 0xA5))) [1, 2, 3]) ⟨true, true⟩ with
     | .ok (b', l') =>
       (match decodeGre Layer.fresh (contents b') [] with
        | .ok (d, t) => decide (sameFields d l') && !t && d.payload == [1, 2, 3] && l'.checksum != 0
        | _ => false)
     | _ => false) = true := by decide

/-! ### witnesses for the defects of the unpatched code (`Variant.orig`) -/

/-- routing + ack, ORIGINAL code: the offset is not advanced after the NULL SRE, the Ack word
    overwrites it and the result does not decode at all (a well-formed layer, fresh buffer). -/
theorem roundtrip_orig_counterexample :
    ∃ l bytes, wf l ∧ outBytes (serializeGreV Variant.orig l (SBuf.new 0 0) ⟨true, true⟩) = some bytes ∧
      decodeGre Layer.fresh bytes [] = errTruncated :=
  ⟨{ Layer.fresh with routingPresent := true, ackPresent := true, flags := 16, protocol := 0x0800, ack := 0x01020304 },
   [0x40, 0x80, 8, 0, 0, 0, 0, 0, 1, 2, 3, 4, 0, 0, 0, 0], by decide, by decide, by decide⟩

/-- routing only, ORIGINAL code: a decoded layer whose (meaningless but present) checksum word is
    non-zero comes back with Checksum = 0. -/
theorem roundtrip_orig_counterexample_checksum_word :
    ∃ data l bytes d, decodeGre Layer.fresh data [] = .ok (l, false) ∧
      outBytes (serializeGreV Variant.orig l (SBuf.new 0 0) ⟨true, true⟩) = some bytes ∧
      decodeGre Layer.fresh bytes [] = .ok (d, false) ∧ d.checksum ≠ l.checksum :=
  ⟨[0x40, 0, 8, 0, 0xbe, 0xef, 0, 0, 0, 0, 0, 0],
   { Layer.fresh with contents := [0x40, 0, 8, 0, 0xbe, 0xef, 0, 0, 0, 0, 0, 0], routingPresent := true, protocol := 0x0800, checksum := 0xbeef },
   [0x40, 0, 8, 0, 0, 0, 0, 0, 0, 0, 0, 0],
   { Layer.fresh with contents := [0x40, 0, 8, 0, 0, 0, 0, 0, 0, 0, 0, 0], routingPresent := true, protocol := 0x0800 },
   by decide, by decide, by decide, by decide⟩

/-- …and the patched code returns it (lgre-3). -/
example : outBytes (serializeGre { Layer.fresh with routingPresent := true, protocol := 0x0800, checksum := 0xbeef }
    (SBuf.new 0 0) ⟨true, true⟩) = some [0x40, 0, 8, 0, 0xbe, 0xef, 0, 0, 0, 0, 0, 0] := by decide

end Gp.C06.Gre
