import Gp.Lemmas.Layers.Mld2RtRep
/-
  C06 (engine `lmld2`) — serialize-then-decode of the MLDv2 query / report returns the same layer and payload;
  the decoded layer is well-formed; re-serialising reproduces the bytes.

  Model: `Gp/Model/Layers/Mld2.lean` (code WITH fixes lmld2-1/2/3).  Query and report (nested
  variable-length records with source lists and auxiliary data) are both proved for ALL well-formed
  layers, payloads, buffers, receivers and capacities.
  Only property-level theorems here; helpers are in `Gp/Lemmas/Layers/Mld2Rt.lean`, `Mld2RtRep.lean`.
-/
namespace Gp.C06.Mld2
open Gp Gp.SBuf Gp.C18 Gp.Mld Gp.Mld2

/-- `decoded_wf`: every successfully decoded query is well-formed (in-range fields, 16-byte
    addresses) and its NumberOfSources equals the length of its source list. -/
theorem query_decoded_wf (old : Query) (d : GSlice) (o : DecOut Query)
    (h : old.decodeFromBytes d = .ok o) (hok : o.err = false) :
    wfQuery o.layer ∧ o.layer.n = o.layer.srcs.length := by
  rw [Query.decode_spec] at h
  cases h
  exact queryDecSpec_wf old d.vis hok

/-- What `SerializeTo` (FixLengths on) writes for a well-formed query: no error, the receiver with
    NumberOfSources fixed, and the 24 header bytes, the sources in order, then the payload. -/
theorem query_serialize_wf (l : Query) (p : Bytes) (hw : wfQuery l) :
    querySerSpec l p true =
      { layer := queryFixed l true, err := false,
        bytes := queryHeader (queryFixed l true) l.addr ++ (l.srcs.flatten ++ p) } := by
  obtain ⟨hmrc, haddr, hqrv, hqqic, hnn, hcnt, hall⟩ := hw
  unfold querySerSpec
  rw [if_neg (by omega)]
  unfold queryFixedSpec
  have e1 : (queryFixed l true).srcs = l.srcs := rfl
  have e2 : (queryFixed l true).addr = l.addr := rfl
  rw [e1, e2, srcsSpec_wf l.srcs p hall, to16_of_16 _ haddr]

/-- `roundtrip`: for every well-formed query `l`, every payload `p`, every buffer holding `p` (any
    capacity / stale bytes / history), every receiver and capacity on the decoding side:
    serialising with FixLengths (and either checksum option) succeeds, and decoding the bytes yields
    — without error, without truncation flag — a layer equal to `l` with NumberOfSources fixed in
    all public protocol fields (source list in order), with payload `p`, and
    Contents ++ Payload = the bytes. -/
theorem query_roundtrip (l : Query) (p : Bytes) (b : SBuf) (csum : Bool) (old : Query) (foreign : Bytes)
    (hw : wfQuery l) (hb : Inv b) (hp : SBuf.contents b = p) :
    ∃ bytes l', serView (l.serializeTo b true csum) = .ok { layer := queryFixed l true, err := false, bytes := bytes } ∧
      old.decodeFromBytes { vis := bytes, tail := foreign } = .ok { layer := l', trunc := false, err := false } ∧
      QueryEquiv l' (queryFixed l true) ∧ l'.payload = p ∧ l'.contents ++ l'.payload = bytes := by
  obtain ⟨hmrc, haddr, hqrv, hqqic, hnn, hcnt, hall⟩ := hw
  have hwf : wfQuery (queryFixed l true) := ⟨hmrc, haddr, hqrv, hqqic, by show l.srcs.length < 65536; omega, hcnt, hall⟩
  refine ⟨queryHeader (queryFixed l true) l.addr ++ (l.srcs.flatten ++ p),
    { queryFixed l true with
      contents := queryHeader (queryFixed l true) (queryFixed l true).addr ++ (queryFixed l true).srcs.flatten,
      payload := p }, ?_, ?_, ?_, ?_, ?_⟩
  · rw [query_refines_view l b true csum hb, hp, query_serialize_wf l p ⟨hmrc, haddr, hqrv, hqqic, hnn, hcnt, hall⟩]
  · rw [Query.decode_spec]
    exact congrArg _ (queryDecSpec_encode old (queryFixed l true) p hwf rfl)
  · exact ⟨rfl, rfl, rfl, rfl, rfl, rfl, rfl⟩
  · rfl
  · show (queryHeader (queryFixed l true) l.addr ++ l.srcs.flatten) ++ p = _
    simp only [List.append_assoc]

/-- `reserialize_fixpoint`: serialising the decoded layer again over its own payload gives the same
    bytes (and leaves the layer as it is). -/
theorem query_reserialize_fixpoint (l : Query) (p : Bytes) (old : Query) (foreign : Bytes) (hw : wfQuery l)
    (o : DecOut Query)
    (hd : old.decodeFromBytes { vis := (querySerSpec l p true).bytes, tail := foreign } = .ok o) :
    o.err = false ∧ querySerSpec o.layer o.layer.payload true =
      { layer := o.layer, err := false, bytes := (querySerSpec l p true).bytes } := by
  obtain ⟨hmrc, haddr, hqrv, hqqic, hnn, hcnt, hall⟩ := hw
  have hw' : wfQuery l := ⟨hmrc, haddr, hqrv, hqqic, hnn, hcnt, hall⟩
  have hwf : wfQuery (queryFixed l true) := ⟨hmrc, haddr, hqrv, hqqic, by show l.srcs.length < 65536; omega, hcnt, hall⟩
  rw [query_serialize_wf l p hw', Query.decode_spec] at hd
  simp only at hd
  have e := queryDecSpec_encode old (queryFixed l true) p hwf rfl
  change queryDecSpec old (queryHeader (queryFixed l true) l.addr ++ (l.srcs.flatten ++ p)) = _ at e
  rw [e] at hd
  cases hd
  refine ⟨rfl, ?_⟩
  rw [query_serialize_wf l p hw']
  exact query_serialize_wf _ p hwf

/-- Serialising a layer obtained by decoding ANY bytes over its own payload reproduces those bytes,
    except for what the decoder ignores and the serializer writes as zero: the two reserved bytes
    2..3 and the four reserved high bits of byte 20 — stated as: it reproduces the bytes of the
    decoded layer's own re-encoding, which decodes to the same layer again. -/
theorem query_decoded_roundtrip (old old2 : Query) (d : GSlice) (o : DecOut Query) (foreign : Bytes)
    (h : old.decodeFromBytes d = .ok o) (hok : o.err = false) :
    ∃ l', old2.decodeFromBytes { vis := (querySerSpec o.layer o.layer.payload true).bytes, tail := foreign } =
        .ok { layer := l', trunc := false, err := false } ∧
      QueryEquiv l' o.layer ∧ l'.payload = o.layer.payload := by
  obtain ⟨hw, hn⟩ := query_decoded_wf old d o h hok
  have hfix : queryFixed o.layer true = o.layer := by
    show { o.layer with n := o.layer.srcs.length } = o.layer
    rw [← hn]
  rw [query_serialize_wf _ _ hw, hfix, Query.decode_spec]
  exact ⟨_, congrArg _ (queryDecSpec_encode old2 o.layer o.layer.payload hw hn), ⟨rfl, rfl, rfl, rfl, rfl, rfl, rfl⟩, rfl⟩

/-- Outside `wfQuery` the round trip is lossy by design of the wire format: a QRV above 7 is masked
    to 3 bits by the serializer. -/
theorem roundtrip_qrv_counterexample :
    ¬ (∀ l : Query, l.addr.length = 16 → l.srcs = [] →
        QueryEquiv (queryDecSpec Query.fresh (querySerSpec l [] true).bytes).layer (queryFixed l true)) := by
  intro h
  have := h { Query.fresh with addr := List.replicate 16 0, qrv := 9 } rfl rfl
  revert this
  decide

/-- `decoded_wf` (report): every successfully decoded report is well-formed: the record count equals
    the number of records, every record has a 16-byte address, N sources of 16 bytes and
    AuxDataLen·4 bytes of auxiliary data. -/
theorem report_decoded_wf (old : Report) (d : GSlice) (o : DecOut Report)
    (h : old.decodeFromBytes d = .ok o) (hok : o.err = false) : wfReport o.layer := by
  rw [Report.decode_spec] at h
  cases h
  exact reportDecSpec_wf old d.vis hok

/-- `roundtrip` (report): for every well-formed report `l` (every decoded report is one; the counts
    agree with the lists, so FixLengths changes nothing), every payload, every buffer holding it,
    every receiver / capacity on the decoding side: serialising succeeds and leaves `l` as it is, and
    decoding the bytes yields — no error, no truncation flag — the same record count, the same
    records in order (each with its sources in order and its auxiliary data), payload `p`, and
    Contents ++ Payload = the bytes. -/
theorem report_roundtrip (l : Report) (p : Bytes) (b : SBuf) (csum : Bool) (old : Report) (foreign : Bytes)
    (hw : wfReport l) (hb : Inv b) (hp : SBuf.contents b = p) :
    ∃ bytes l', serView (l.serializeTo b true csum) = .ok { layer := l, err := false, bytes := bytes } ∧
      old.decodeFromBytes { vis := bytes, tail := foreign } = .ok { layer := l', trunc := false, err := false } ∧
      l'.nrec = l.nrec ∧ l'.recs = l.recs ∧ l'.payload = p ∧ l'.contents ++ l'.payload = bytes := by
  refine ⟨[0, 0] ++ putBe16 l.nrec ++ (encRecs l.recs ++ p),
    { l with contents := [0, 0] ++ putBe16 l.nrec ++ encRecs l.recs, payload := p }, ?_, ?_, rfl, rfl, rfl, ?_⟩
  · rw [report_refines_view l b true csum hb, hp, reportSerSpec_wf l p hw]
  · rw [Report.decode_spec]
    exact congrArg _ (reportDecSpec_encode old l p hw)
  · show ([0, 0] ++ putBe16 l.nrec ++ encRecs l.recs) ++ p = _
    simp only [List.append_assoc]

/-- `reserialize_fixpoint` (report): a report obtained by decoding ANY bytes, serialised over its own
    payload, decodes to the same report again, and serialising that once more gives the same bytes. -/
theorem report_reserialize_fixpoint (old old2 : Report) (d : GSlice) (o : DecOut Report) (foreign : Bytes)
    (h : old.decodeFromBytes d = .ok o) (hok : o.err = false) :
    reportSerSpec o.layer o.layer.payload true =
      { layer := o.layer, err := false,
        bytes := [0, 0] ++ putBe16 o.layer.nrec ++ (encRecs o.layer.recs ++ o.layer.payload) } ∧
    ∃ l', old2.decodeFromBytes { vis := (reportSerSpec o.layer o.layer.payload true).bytes, tail := foreign } =
        .ok { layer := l', trunc := false, err := false } ∧
      l'.nrec = o.layer.nrec ∧ l'.recs = o.layer.recs ∧ l'.payload = o.layer.payload ∧
      (reportSerSpec l' l'.payload true).bytes = (reportSerSpec o.layer o.layer.payload true).bytes := by
  have hw := report_decoded_wf old d o h hok
  have e := reportSerSpec_wf o.layer o.layer.payload hw
  refine ⟨e, { o.layer with contents := [0, 0] ++ putBe16 o.layer.nrec ++ encRecs o.layer.recs }, ?_, rfl, rfl, rfl, ?_⟩
  · rw [e, Report.decode_spec]
    exact congrArg _ (reportDecSpec_encode old2 o.layer o.layer.payload hw)
  · have e' := reportSerSpec_wf { o.layer with contents := [0, 0] ++ putBe16 o.layer.nrec ++ encRecs o.layer.recs }
      o.layer.payload hw
    rw [e]
    change (reportSerSpec _ o.layer.payload true).bytes = _
    rw [e']

/-- Outside `wfReport` FixLengths repairs the counts and pads the auxiliary data; the round trip then
    returns the REPAIRED layer (5 bytes of auxiliary data come back as 8). -/
theorem report_roundtrip_padding_example :
    let l : Report := { Report.fresh with recs :=
      [{ Rec.fresh with typ := 1, addr := List.replicate 16 0xff, srcs := [List.replicate 16 1, List.replicate 16 2],
                        aux := [1, 2, 3, 4, 5] },
       { Rec.fresh with typ := 4, addr := List.replicate 16 0xee }] }
    let o := reportDecSpec Report.fresh (reportSerSpec l [7, 7, 7] true).bytes
    (reportSerSpec l [7, 7, 7] true).err = false ∧ o.err = false ∧ o.trunc = false ∧
      o.layer.nrec = 2 ∧ o.layer.recs = (reportSerSpec l [7, 7, 7] true).layer.recs ∧ o.layer.payload = [7, 7, 7] := by
  decide

example : wfReport { Report.fresh with nrec := 1, recs :=
    [{ typ := 2, auxLen := 1, n := 1, addr := List.replicate 16 0xff, srcs := [List.replicate 16 3], aux := [1, 2, 3, 4] }] } := by
  decide

/-! Non-vacuity: a concrete well-formed query with two sources. -/
example : wfQuery { Query.fresh with mrc := 0x8123, addr := List.replicate 16 0xff, s := true, qrv := 5, qqic := 200,
                                     srcs := [List.replicate 16 1, List.replicate 16 2] } := by decide

end Gp.C06.Mld2
