import Gp.Lemmas.Layers.TunVxlan
import Gp.Lemmas.Layers.TunGeneve
import Gp.Lemmas.Layers.TunGtp
/-
  C19 — "Decoders return errors, not panics, even with panic recovery switched off": the UDP-borne
  tunnel headers VXLAN, Geneve, GTPv1-U (layers/vxlan.go, geneve.go, gtp.go; engine `ltun`).

  `X.decode old data foreign` is the line-by-line model of (*X).DecodeFromBytes on a receiver holding
  `old`, for a slice with `len = |data|` and `cap = |data| + |foreign|` (Go panics on `data[i]` iff
  i ≥ len, on `data[a:b]` iff ¬(a ≤ b ≤ cap)).  Running out of loop fuel is modelled as
  `.panic .explicit`, so each `decode_no_panic` is also the termination bound of the option /
  extension-header loop.  The models are the tree WITH proposed_fixes/ltun-1…6 (ltun-4 removes the
  C19 defect of gtp.go: uint16 offset arithmetic that wraps on inputs of 65535+ bytes and then
  slices/indexes out of range — witnessed by corpus/ltun/01-defects.ops on the unpatched tree).
-/
namespace Gp.C19.Tun
open Gp Gp.Tun

/-! ### VXLAN -/

/-- Direct DecodeFromBytes never panics: any receiver state, any bytes, any capacity, any bytes
    beyond the length. -/
theorem decode_no_panic_vxlan (old : Vxlan.Layer) (data foreign : Bytes) (k : PanicKind) :
    Vxlan.decode old data foreign ≠ .panic k := by
  rw [Vxlan.decode_cases]
  split <;> (intro h; cases h)

/-- The registered decoder decodeVXLAN never panics (NewPacket with SkipDecodeRecovery; the
    DecodingLayerParser with IgnorePanic calls DecodeFromBytes directly). -/
theorem decodePkt_no_panic_vxlan (data foreign : Bytes) (k : PanicKind) :
    Vxlan.decodePkt data foreign ≠ .panic k := by
  unfold Vxlan.decodePkt
  have h := decode_no_panic_vxlan Vxlan.Layer.fresh data foreign
  cases hd : Vxlan.decode Vxlan.Layer.fresh data foreign with
  | ok x => intro hk; cases hk
  | err e => intro hk; cases hk
  | panic k' => exact absurd hd (h k')

/-- What the call returns instead: an error exactly below 8 bytes. -/
theorem decode_outcome_vxlan (old : Vxlan.Layer) (data foreign : Bytes) :
    Vxlan.decode old data foreign =
      match Vxlan.spec data with
      | some l => .ok (l, false)
      | none => .err "vxlan packet too small" :=
  Vxlan.decode_cases old data foreign

/-! ### Geneve -/

/-- Direct DecodeFromBytes never panics (tree with ltun-1/2/3). -/
theorem decode_no_panic_geneve (old : Geneve.Layer) (data foreign : Bytes) (k : PanicKind) :
    Geneve.decode old data foreign ≠ .panic k := by
  rw [Geneve.decode_cases]
  exact Geneve.spec_no_panic data k

/-- The option loop ends within `len(data)` iterations (fuel exhaustion is `.panic .explicit`). -/
theorem decode_terminates_geneve (old : Geneve.Layer) (data foreign : Bytes) :
    Geneve.decode old data foreign ≠ .panic .explicit :=
  decode_no_panic_geneve old data foreign .explicit

/-- The registered decoder decodeGeneve (base.go decodingLayerDecoder) never panics. -/
theorem decodePkt_no_panic_geneve (data foreign : Bytes) (k : PanicKind) :
    Geneve.decodePkt data foreign ≠ .panic k := by
  unfold Geneve.decodePkt
  have h := decode_no_panic_geneve Geneve.Layer.fresh data foreign
  cases hd : Geneve.decode Geneve.Layer.fresh data foreign with
  | ok x => intro hk; cases hk
  | err e => intro hk; cases hk
  | panic k' => exact absurd hd (h k')

/-- The option loop itself, in invariant form: entered with the offset inside the data and an
    announced length that is a multiple of 4 and not more than what is left, every index and slice of
    decodeGeneveOption is in range — although that function only checks for 3 bytes before reading
    `data[3]` (next theorem) — and `len/4 + 1` iterations suffice. -/
theorem option_loop_no_panic_geneve (data foreign : Bytes) (fuel offset len : Nat)
    (ho : offset ≤ data.length) (h4 : len % 4 = 0) (hl : len ≤ data.length - offset)
    (hf : len < 4 * fuel) (k : PanicKind) :
    Geneve.decodeLoop Geneve.Variant.fixed data foreign fuel offset (len : Int) ≠ .panic k := by
  rw [Geneve.decodeLoop_spec data foreign fuel offset len ho h4 (by rw [List.length_drop]; exact hl)]
  have := Geneve.specLoop_no_panic fuel len (data.drop offset) hf
  cases hs : Geneve.specLoop fuel len (data.drop offset) with
  | panic k' => exact absurd hs (this k')
  | err e => intro h; cases h
  | ok y => obtain ⟨os, m⟩ := y; intro h; cases h

/-- decodeGeneveOption's own guard is `len(data) < 3`: on exactly three bytes it indexes out of range.
    Unreachable from DecodeFromBytes (previous theorems), recorded as a hazard of the helper. -/
theorem decodeGeneveOption_three_bytes_panics : Geneve.decodeOption [1, 2, 3] [] = .panic .index := by
  decide

/-- What the call returns instead. -/
theorem decode_outcome_geneve (old : Geneve.Layer) (data foreign : Bytes) :
    Geneve.decode old data foreign = Geneve.spec data :=
  Geneve.decode_cases old data foreign

/-! ### GTPv1-U -/

/-- Direct DecodeFromBytes never panics (tree with ltun-4/5/6): all offsets are ints. -/
theorem decode_no_panic_gtp (old : Gtp.Layer) (data foreign : Bytes) (k : PanicKind) :
    Gtp.decode old data foreign ≠ .panic k := by
  rw [Gtp.decode_cases]
  exact Gtp.spec_no_panic data k

/-- The extension header loop ends within `len(data)` iterations. -/
theorem decode_terminates_gtp (old : Gtp.Layer) (data foreign : Bytes) :
    Gtp.decode old data foreign ≠ .panic .explicit :=
  decode_no_panic_gtp old data foreign .explicit

/-- The registered decoder decodeGTPv1u never panics. -/
theorem decodePkt_no_panic_gtp (data foreign : Bytes) (k : PanicKind) :
    Gtp.decodePkt data foreign ≠ .panic k := by
  unfold Gtp.decodePkt
  have h := decode_no_panic_gtp Gtp.Layer.fresh data foreign
  cases hd : Gtp.decode Gtp.Layer.fresh data foreign with
  | ok x => intro hk; cases hk
  | err e => intro hk; cases hk
  | panic k' => exact absurd hd (h k')

/-- The extension header loop, entered at ANY cIndex ≥ 1 with fuel for every 4 bytes left: no index
    or slice is out of range, whatever the length bytes say. -/
theorem ext_loop_no_panic_gtp (data foreign : Bytes) (fuel p : Nat)
    (hf : data.length - p < 4 * fuel) (k : PanicKind) :
    Gtp.decodeExts data foreign fuel (p + 1) ≠ .panic k := by
  rw [Gtp.decodeExts_spec]
  have := Gtp.specExts_no_panic fuel (data.drop p) (by rw [List.length_drop]; exact hf)
  cases hs : Gtp.specExts fuel (data.drop p) with
  | panic k' => exact absurd hs (this k')
  | err e => intro h; cases h
  | ok y => obtain ⟨es, m⟩ := y; intro h; cases h

/-- What the call returns instead. -/
theorem decode_outcome_gtp (old : Gtp.Layer) (data foreign : Bytes) :
    Gtp.decode old data foreign = Gtp.spec data :=
  Gtp.decode_cases old data foreign

/-! ### non-vacuity: packets with options / extension headers and foreign bytes decode; the same
    packets cut inside the list are errors, not panics — although the missing bytes ARE present in the
    spare capacity. -/

example : Geneve.decode Geneve.Layer.fresh
    [0x42, 0x80, 0x65, 0x58, 0, 0, 7, 0, 0, 1, 2, 0x61, 9, 8, 7, 6, 0xaa] [0x55] =
    .ok ({ Geneve.Layer.fresh with
           contents := [0x42, 0x80, 0x65, 0x58, 0, 0, 7, 0, 0, 1, 2, 0x61, 9, 8, 7, 6], payload := [0xaa],
           version := 1, optionsLength := 8, oamPacket := true, protocol := 0x6558, vni := 7,
           options := [⟨1, 2, 3, 8, [9, 8, 7, 6]⟩] }, false) := by decide
example : Geneve.decode Geneve.Layer.fresh [0x42, 0x80, 0x65, 0x58, 0, 0, 7, 0, 0, 1, 2, 0x61, 9, 8] [7, 6, 0xaa] =
    .err "geneve:truncated" := by decide
example : Gtp.decode Gtp.Layer.fresh
    [0x36, 0xff, 0, 8, 0, 0, 0, 1, 0x12, 0x34, 0, 0x85, 1, 0xaa, 0xbb, 0, 0x45] [0x55] =
    .ok ({ Gtp.Layer.fresh with
           contents := [0x36, 0xff, 0, 8, 0, 0, 0, 1, 0x12, 0x34, 0, 0x85, 1, 0xaa, 0xbb, 0], payload := [0x45],
           version := 1, protocolType := 1, extensionHeaderFlag := true, sequenceNumberFlag := true,
           messageType := 255, messageLength := 8, teid := 1, sequenceNumber := 0x1234,
           extensionHeaders := [⟨0x85, [0xaa, 0xbb]⟩] }, false) := by decide
example : Gtp.decode Gtp.Layer.fresh [0x36, 0xff, 0, 2, 0, 0, 0, 1, 0x12, 0x34, 0, 0x85, 1, 0xaa] [0xbb, 0, 0x45] =
    .err "GTP packet with invalid extension header" := by decide

end Gp.C19.Tun
