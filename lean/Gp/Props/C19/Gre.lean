import Gp.Lemmas.Layers.Gre
/-
  C19 — "Decoders return errors, not panics, even with panic recovery switched off": the GRE layer
  (layers/gre.go, engine `lgre`).  `decodeGre old data foreign` is the line-by-line model of
  (*GRE).DecodeFromBytes on a receiver holding `old`, for a slice with `len = |data|` and
  `cap = |data| + |foreign|` (Go panics on `data[i]` iff i ≥ len, on `data[a:b]` iff ¬(a ≤ b ≤ cap)).
  Running out of loop fuel is modelled as a panic, so the first theorem is also the termination bound.
-/
namespace Gp.C19.Gre
open Gp Gp.Gre

/-- Direct DecodeFromBytes never panics: any receiver state, any bytes, any capacity, any bytes
    beyond the length. -/
theorem decode_no_panic (old : Layer) (data foreign : Bytes) (k : PanicKind) :
    decodeGre old data foreign ≠ .panic k := by
  rw [decode_cases]
  split
  · intro h; cases h
  · split
    · intro h; cases h
    · intro h; cases h

/-- The SRE loop ends within `len(data)` iterations (fuel exhaustion is `.panic .explicit`). -/
theorem decode_terminates (old : Layer) (data foreign : Bytes) :
    decodeGre old data foreign ≠ .panic .explicit :=
  decode_no_panic old data foreign .explicit

/-- The decoder registered for NewPacket (decodeGRE → decodingLayerDecoder) never panics either
    (SkipDecodeRecovery; the DecodingLayerParser with IgnorePanic calls DecodeFromBytes directly). -/
theorem decodePkt_no_panic (data foreign : Bytes) (k : PanicKind) :
    decodeGREPkt data foreign ≠ .panic k := by
  unfold decodeGREPkt
  have h := decode_no_panic Layer.fresh data foreign
  cases hd : decodeGre Layer.fresh data foreign with
  | ok x => intro hk; cases hk
  | err e => intro hk; cases hk
  | panic k' => exact absurd hd (h k')

/-- What the call returns instead: an error exactly when fewer than 4 bytes are present or an
    optional word / SRE is cut short (`specDecode = none`), otherwise the decoded layer. -/
theorem decode_outcome (old : Layer) (data foreign : Bytes) :
    decodeGre old data foreign =
      if data.length < 4 then .err "GRE packet too small"
      else match specDecode data with
        | some l => .ok (l, false)
        | none => errTruncated :=
  decode_cases old data foreign

/-- every slice/index of the SRE loop is in range whenever the loop is entered with an offset
    inside the data and enough fuel — the loop invariant behind the theorems above. -/
theorem routing_loop_no_panic (data foreign : Bytes) (fuel off : Nat) (h : off ≤ data.length)
    (hf : data.length - off < fuel) (k : PanicKind) : decRouting data foreign fuel off ≠ .panic k := by
  have hlen : (data.drop off).length = data.length - off := List.length_drop
  have hs := decRouting_spec data foreign fuel off h (by omega)
  cases hr : specRouting fuel (data.drop off) with
  | none => rw [hs.1 hr]; intro hk; cases hk
  | some x =>
    obtain ⟨rs, r⟩ := x
    obtain ⟨n, _, _, _, hd⟩ := hs.2 rs r hr
    rw [hd]; intro hk; cases hk

/- non-vacuity: a packet with two SREs and foreign bytes beyond the length decodes (the loop runs
   three times); the same packet cut inside the second SRE is an error, not a panic — although the
   bytes the SRE length asks for ARE present in the spare capacity. -/
example : decodeGre Layer.fresh [0x40,0,8,0, 0,0,0,0, 0,1,2,1,0xaa, 0xff,0xff,0,2,1,2, 0,0,0,0, 0x99] [0x55] =
    .ok ({ Layer.fresh with
           contents := [0x40,0,8,0, 0,0,0,0, 0,1,2,1,0xaa, 0xff,0xff,0,2,1,2, 0,0,0,0], payload := [0x99],
           routingPresent := true, protocol := 0x0800,
           routing := [⟨1, 2, 1, [0xaa]⟩, ⟨0xffff, 0, 2, [1, 2]⟩] }, false) := by decide
example : decodeGre Layer.fresh [0x40,0,8,0, 0,0,0,0, 0,1,2,1,0xaa, 0xff,0xff,0,2,1] [2, 0,0,0,0, 0x99] =
    .err "GRE packet truncated" := by decide

end Gp.C19.Gre
