import Gp.Lemmas.Layers.Ntp
/-
  C19 (engine `lntp`) — the NTP and VRRPv2 decoders return errors, not panics.

  Model: `Gp/Model/Layers/Ntp.lean` — `NTP.decodeFromBytes` and `VRRP.decodeFromBytes` transcribe the
  two DecodeFromBytes methods with Go panic semantics for every index and slice expression (a slice
  `s[a:b]` panics iff ¬(a ≤ b ∧ b ≤ cap), an index iff i ≥ len), for an input slice of ANY capacity
  (`GSlice.tail` = the foreign bytes between len and cap).  `decodeNTPFn`/`decodeVRRPFn` are the
  functions registered for NewPacket, `dlpDecodeLayers` the DecodingLayerParser loop over these two
  layers.  Only property-level theorems here; helpers are in `Gp/Lemmas/Layers/Ntp.lean`.
-/
namespace Gp.C19.Ntp
open Gp Gp.Ntp

/-- Direct `(*NTP).DecodeFromBytes` never panics: any receiver state, any bytes, any capacity, any
    foreign bytes behind the input. -/
theorem decode_no_panic_ntp (old : NTP) (d : GSlice) (k : PanicKind) :
    old.decodeFromBytes d ≠ .panic k := by
  by_cases h : d.len < 48
  · rw [NTP.decode_short old d h]; exact fun h => nomatch h
  · rw [NTP.decode_long old d (by omega)]; exact fun h => nomatch h

/-- The same in the shape asked for by the brief (`cap = |data| + |foreign|`). -/
theorem decode_no_panic (old : NTP) (data foreign : Bytes) (k : PanicKind) :
    decodeNtp old data foreign ≠ .panic k := by
  unfold decodeNtp
  have := decode_no_panic_ntp old { vis := data, tail := foreign }
  split
  · split <;> exact fun h => nomatch h
  · exact fun h => nomatch h
  · rename_i k' hk; exact absurd hk (this k')

/-- Direct `(*VRRPv2).DecodeFromBytes` never panics — in particular for every address count the
    packet announces: the count is checked against the LENGTH before the address loop slices. -/
theorem decode_no_panic_vrrp (old : VRRP) (d : GSlice) (k : PanicKind) :
    old.decodeFromBytes d ≠ .panic k := by
  by_cases h : d.len < 8
  · rw [VRRP.decode_short old d h]; exact fun h => nomatch h
  · rw [VRRP.decode_long old d (by omega)]; exact fun h => nomatch h

theorem decode_no_panic_vrrp_view (old : VRRP) (data foreign : Bytes) (k : PanicKind) :
    decodeVrrpView old data foreign ≠ .panic k := by
  unfold decodeVrrpView
  have := decode_no_panic_vrrp old { vis := data, tail := foreign }
  split
  · split <;> exact fun h => nomatch h
  · exact fun h => nomatch h
  · rename_i k' hk; exact absurd hk (this k')

/-- The address loop of `VRRPv2.DecodeFromBytes` runs exactly `CountIPAddr` iterations (structural
    recursion — Lean's termination check), each consuming 4 bytes, and never slices out of range when
    `off + 4n` bytes are visible (the guard `len(data) ≥ 8 + 4*CountIPAddr` the method checks first). -/
theorem vrrp_addr_loop_total (d : GSlice) (n off : Nat) (acc : List Bytes) (h : off + 4 * n ≤ d.len) :
    vrrpAddrLoop d n off acc = .ok (acc ++ vrrpAddrs d.vis n off) ∧ (vrrpAddrs d.vis n off).length = n :=
  ⟨vrrpAddrLoop_ok d n off acc h, vrrpAddrs_length d.vis n off⟩

/-- The decoder function registered for `LayerTypeNTP` (NewPacket with SkipDecodeRecovery) never
    panics, whatever the capacity of the packet buffer (copying, NoCopy, Pool). -/
theorem decodeNTP_no_panic (d : GSlice) (k : PanicKind) : decodeNTPFn d ≠ .panic k := by
  unfold decodeNTPFn
  by_cases h : d.len < 48
  · rw [NTP.decode_short _ d h, Res.bind_ok]; simp only [pure]; split <;> exact fun h => nomatch h
  · rw [NTP.decode_long _ d (by omega), Res.bind_ok]; simp only [pure]; split <;> exact fun h => nomatch h

/-- The decoder function registered for `LayerTypeVRRP` never panics. -/
theorem decodeVRRP_no_panic (d : GSlice) (k : PanicKind) : decodeVRRPFn d ≠ .panic k := by
  unfold decodeVRRPFn
  by_cases h : d.len < 8
  · rw [VRRP.decode_short _ d h, Res.bind_ok]; exact fun h => nomatch h
  · rw [VRRP.decode_long _ d (by omega), Res.bind_ok]; exact fun h => nomatch h

/-- Progress: both layers are leaves — a successfully decoded NTP / VRRPv2 layer hands on an EMPTY
    LayerPayload and LayerTypeZero, which ends packet decoding and the parser loop. -/
theorem ntp_payload_empty (old : NTP) (d : GSlice) (o : DecOut NTP)
    (h : old.decodeFromBytes d = .ok o) (he : o.err = false) :
    o.layer.layerPayload = [] ∧ o.layer.nextLayerType = LayerTypeZero := by
  by_cases hs : d.len < 48
  · rw [NTP.decode_short old d hs] at h; cases h; cases he
  · rw [NTP.decode_long old d (by omega)] at h; cases h; exact ⟨rfl, rfl⟩

theorem vrrp_payload_empty (old : VRRP) (d : GSlice) (o : DecOut VRRP)
    (h : old.decodeFromBytes d = .ok o) (he : o.err = false) :
    o.layer.layerPayload = [] ∧ o.layer.nextLayerType = LayerTypeZero := by
  by_cases hs : d.len < 8
  · rw [VRRP.decode_short old d hs] at h; cases h; cases he
  · rw [VRRP.decode_long old d (by omega)] at h; cases h
    exact ⟨vrrpDecSpec_payload old d.vis, rfl⟩

/-- `DecodingLayerParser.DecodeLayers` over {NTP, VRRPv2} with IgnorePanic (panics let through) never
    panics: any first type, any state of the two re-used layer objects, any bytes, any capacity. -/
theorem dlp_no_panic (ntp : NTP) (vrrp : VRRP) (first : Nat) (d : GSlice) (k : PanicKind) :
    dlpDecodeLayers ntp vrrp first d ≠ .panic k := dlpLoop_no_panic _ _ _ _ k

/-- Termination ("bounded time"): the NTP method is loop-free, the VRRPv2 address loop and the parser
    loop are structural / fuel-bounded recursions (Lean's own termination check of the model), and the
    fuel `|data| + 1` used by `dlpDecodeLayers` suffices — every positive amount gives the same run,
    because the loop body runs once (`ntp_payload_empty`, `vrrp_payload_empty`). -/
theorem dlp_fuel_suffices (fuel : Nat) (st : DlpState) (typ : Nat) (d : GSlice) (h : 0 < fuel) :
    dlpLoop fuel st typ d = dlpLoop (d.len + 1) st typ d := by
  cases fuel with
  | zero => omega
  | succ f => exact dlpLoop_fuel f d.len st typ d

/-! Non-vacuity: error and success paths are inhabited, with spare capacity full of foreign bytes.
    The VRRP examples are the case the brief asks about: the count announced by the packet (2 → 16
    bytes) exceeds the 12 bytes present while the CAPACITY (12 + 8) would cover them: an error (with
    the truncation flag), not a read of foreign bytes. -/

example : decodeNtp NTP.fresh (List.replicate 47 0) (List.replicate 16 9) = .err "ntp" := by decide

example : decodeVrrpView VRRP.fresh [0x21, 1, 100, 2, 0, 1, 0xba, 0x52, 192, 168, 0, 1]
    [9, 9, 9, 9, 9, 9, 9, 9] = .err "vrrp" := by decide

example : VRRP.fresh.decodeFromBytes ⟨[0x21, 1, 100, 2, 0, 1, 0xba, 0x52, 192, 168, 0, 1], [9, 9, 9, 9, 9, 9, 9, 9]⟩ =
    .ok { layer := { VRRP.fresh with contents := [0x21, 1, 100, 2, 0, 1, 0xba, 0x52, 192, 168, 0, 1],
                                     version := 2, type := 1, virtualRtrID := 1, priority := 100, countIPAddr := 2 },
          trunc := true, err := true } := by decide

example : decodeVrrpView VRRP.fresh [0x21, 1, 100, 2, 0, 1, 0xba, 0x52, 192, 168, 0, 1, 10, 0, 0, 7, 0xAA] [0xEE] =
    .ok ({ contents := [0x21, 1, 100, 2, 0, 1, 0xba, 0x52, 192, 168, 0, 1, 10, 0, 0, 7, 0xAA], payload := [],
           version := 2, type := 1, virtualRtrID := 1, priority := 100, countIPAddr := 2, authType := 0,
           adverInt := 1, checksum := 0xba52, ipAddress := [[192, 168, 0, 1], [10, 0, 0, 7]] }, false) := by decide

set_option maxRecDepth 4000 in
example : decodeNtp NTP.fresh
    ([0xE3, 2, 0xFA, 0xEC] ++ [0,0,0,1] ++ [0,0,0,2] ++ [0,0,0,3] ++ [0,0,0,0,0,0,0,4] ++ [0,0,0,0,0,0,0,5] ++
     [0,0,0,0,0,0,0,6] ++ [1,0,0,0,0,0,0,7] ++ [0xAB]) [0xEE] =
    .ok ({ NTP.fresh with
           contents := [0xE3, 2, 0xFA, 0xEC] ++ [0,0,0,1] ++ [0,0,0,2] ++ [0,0,0,3] ++ [0,0,0,0,0,0,0,4] ++
             [0,0,0,0,0,0,0,5] ++ [0,0,0,0,0,0,0,6] ++ [1,0,0,0,0,0,0,7] ++ [0xAB],
           leapIndicator := 3, version := 4, mode := 3, stratum := 2, poll := -6, precision := -20,
           rootDelay := 1, rootDispersion := 2, referenceID := 3, referenceTimestamp := 4, originTimestamp := 5,
           receiveTimestamp := 6, transmitTimestamp := 72057594037927943, extensionBytes := [0xAB] }, false) := by
  decide

end Gp.C19.Ntp
