import Gp.Lemmas.Layers.Ip6Dec2
/-
  C19 (layer part `lip6`) — the decoders of layers/ip6.go return errors, not panics, on ANY byte
  string, for ANY spare capacity / foreign bytes behind the data and ANY previous contents of the
  layer object (direct DecodeFromBytes, and the decode functions registered for NewPacket).

  Model: Gp/Model/Layers/Ip6.lean.  A Go index `v[i]` is `.panic .index` iff `i ≥ len`, a slice
  `v[a:b]` is `.panic .slice` iff `¬(a ≤ b ≤ cap)`; the option loop's fuel running out would be
  `.panic .explicit`.  Helper lemmas: Gp/Lemmas/Layers/Ip6*.lean.
-/
namespace Gp.C19.Ip6
open Gp Gp.Ip6

/-- (*IPv6).DecodeFromBytes never panics. -/
theorem decode_no_panic (old : IPv6) (data foreign : Bytes) (k : PanicKind) :
    decodeIp6 old data foreign ≠ .panic k := by
  unfold decodeIp6
  rw [decodeIPv6_eq_spec]
  have h := ip6Spec_ne_panic old data
  match hr : (ip6Spec old data).res with
  | .ok () => simp [hr]
  | .err e => simp [hr]
  | .panic k' => exact absurd hr (h k')

/-- (*IPv6HopByHop).DecodeFromBytes / (*IPv6Destination).DecodeFromBytes never panic. -/
theorem decode_ext_no_panic (kind : ExtKind) (old : TlvExt) (data foreign : Bytes) (k : PanicKind) :
    decodeExt kind old data foreign ≠ .panic k := by
  unfold decodeExt
  rw [decodeTlvExt_eq_spec]
  have h := tlvExtSpec_ne_panic old data
  match hr : (tlvExtSpec old data).res with
  | .ok () => simp [hr]
  | .err e => simp [hr]
  | .panic k' => exact absurd hr (h k')

/-- (*IPv6ExtensionSkipper).DecodeFromBytes never panics. -/
theorem decode_skipper_no_panic (old : Skipper) (data foreign : Bytes) (k : PanicKind) :
    (decodeSkipper old ⟨data, foreign⟩).res ≠ .panic k := by
  rw [decodeSkipper_eq_spec]; exact skipperSpec_ne_panic old data k

/-- decodeIPv6Routing never panics. -/
theorem decode_routing_no_panic (data foreign : Bytes) (k : PanicKind) :
    (decodeRouting ⟨data, foreign⟩).2.2 ≠ .panic k := by
  rw [decodeRouting_eq_spec]; exact routingSpec_ne_panic data k

/-- decodeIPv6Fragment never panics. -/
theorem decode_fragment_no_panic (data foreign : Bytes) (k : PanicKind) :
    (decodeFragment ⟨data, foreign⟩).2.2 ≠ .panic k := by
  rw [decodeFragment_eq_spec]; exact fragmentSpec_ne_panic data k

/-- The five decode functions registered for NewPacket (recovery off) never panic. -/
theorem registered_no_panic (ltOf : Nat → Int) (data foreign : Bytes) (k : PanicKind) :
    (decodeIPv6Fn ltOf ⟨data, foreign⟩).2.2 ≠ .panic k ∧
    (decodeHopByHopFn ⟨data, foreign⟩).2.2 ≠ .panic k ∧
    (decodeDestinationFn ⟨data, foreign⟩).2.2 ≠ .panic k ∧
    (decodeRoutingFn ⟨data, foreign⟩).2.2 ≠ .panic k ∧
    (decodeFragmentFn ⟨data, foreign⟩).2.2 ≠ .panic k := by
  refine ⟨?_, ?_, ?_, ?_, ?_⟩
  · unfold decodeIPv6Fn
    rw [decodeIPv6_eq_spec]
    have h := ip6Spec_ne_panic IPv6.zero data
    match hr : (ip6Spec IPv6.zero data).res with
    | .ok () => simp [hr]
    | .err e => simp [hr]
    | .panic k' => exact absurd hr (h k')
  · unfold decodeHopByHopFn
    rw [decodeTlvExt_eq_spec]
    have h := tlvExtSpec_ne_panic TlvExt.zero data
    match hr : (tlvExtSpec TlvExt.zero data).res with
    | .ok () => simp [hr]
    | .err e => simp [hr]
    | .panic k' => exact absurd hr (h k')
  · unfold decodeDestinationFn
    rw [decodeTlvExt_eq_spec]
    have h := tlvExtSpec_ne_panic TlvExt.zero data
    match hr : (tlvExtSpec TlvExt.zero data).res with
    | .ok () => simp [hr]
    | .err e => simp [hr]
    | .panic k' => exact absurd hr (h k')
  · unfold decodeRoutingFn
    have h := decode_routing_no_panic data foreign
    match hr : decodeRouting ⟨data, foreign⟩ with
    | (some r, tr, .ok ()) => simp
    | (none, tr, .ok ()) => simp
    | (_, tr, .err e) => simp
    | (_, tr, .panic k') => exact absurd (by rw [hr]) (h k')
  · unfold decodeFragmentFn
    have h := decode_fragment_no_panic data foreign
    match hr : decodeFragment ⟨data, foreign⟩ with
    | (some r, tr, .ok ()) => simp
    | (none, tr, .ok ()) => simp
    | (_, tr, .err e) => simp
    | (_, tr, .panic k') => exact absurd (by rw [hr]) (h k')

/-- decode_terminates: the option loop is a structural recursion on its fuel (Lean's own
    termination proof), and the fuel the decoders start it with (`ActualLength`) always suffices:
    fuel exhaustion (`.panic .explicit`) is unreachable whenever the header lies inside the data. -/
theorem decode_terminates (data foreign : Bytes) (al : Nat) (hal : al ≤ data.length) (off : Nat)
    (h2 : off ≤ al) : (tlvLoop ⟨data, foreign⟩ al al off).2.2 ≠ .panic .explicit := by
  rw [tlvLoop_eq_spec data foreign al hal al off h2]
  apply tlvAreaSpec_ne_panic
  rw [List.length_drop, List.length_take]; omega

/-- Non-vacuity: a real packet (layers/ip6_test.go testPacketIPv6HopByHop0) decodes. -/
example : (decodeIp6 IPv6.zero
    [0x60, 0, 0, 0, 0, 8, 0, 0x40, 0x20, 1, 0x0d, 0xb8, 0, 0, 0, 0, 0, 0, 0, 0, 0, 0, 0, 1,
     0x20, 1, 0x0d, 0xb8, 0, 0, 0, 0, 0, 0, 0, 0, 0, 0, 0, 2, 0x3b, 0, 1, 4, 0, 0, 0, 0] []).isOk = true := by
  decide

end Gp.C19.Ip6
