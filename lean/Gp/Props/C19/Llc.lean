import Gp.Lemmas.Layers.LlcDlp
/-
  C19 (engine `lllc`) — the LLC, SNAP and STP decoders return errors, not panics.

  Model: `Gp/Model/Layers/Llc.lean` — `LLC/SNAP/STP.decodeFromBytes` transcribe the three
  DecodeFromBytes methods with Go panic semantics for every index and slice expression (a slice
  `s[a:b]` panics iff ¬(a ≤ b ∧ b ≤ cap), an index iff i ≥ len), for an input slice of ANY capacity
  (`GSlice.tail` = the foreign bytes between len and cap).  `decodeLLCFn/decodeSNAPFn/decodeSTPFn`
  are the functions registered for NewPacket, `dlpDecodeLayers` the DecodingLayerParser loop over
  these three layers.  Only property-level theorems here; helpers are in `Gp/Lemmas/Layers/Llc*.lean`.
-/
namespace Gp.C19.Llc
open Gp Gp.Llc

/-- Direct `(*LLC).DecodeFromBytes` never panics: any receiver state, any bytes, any capacity,
    any foreign bytes behind the input. -/
theorem decode_no_panic_llc (old : LLC) (d : GSlice) (k : PanicKind) :
    old.decodeFromBytes d ≠ .panic k := by
  by_cases h : d.len < 3
  · rw [LLC.decode_short old d h]; exact fun h => nomatch h
  · rw [LLC.decode_long old d (by omega)]; exact fun h => nomatch h

/-- The same in the shape asked for by the brief (`cap = |data| + |foreign|`). -/
theorem decode_no_panic (old : LLC) (data foreign : Bytes) (k : PanicKind) :
    decodeLlc old data foreign ≠ .panic k := by
  unfold decodeLlc
  have := decode_no_panic_llc old { vis := data, tail := foreign }
  split
  · split <;> exact fun h => nomatch h
  · exact fun h => nomatch h
  · rename_i k' hk; exact absurd hk (this k')

/-- Direct `(*SNAP).DecodeFromBytes` never panics. -/
theorem decode_no_panic_snap (old : SNAP) (d : GSlice) (k : PanicKind) :
    old.decodeFromBytes d ≠ .panic k := by
  by_cases h : d.len < 5
  · rw [SNAP.decode_short old d h]; exact fun h => nomatch h
  · rw [SNAP.decode_long old d (by omega)]; exact fun h => nomatch h

theorem decode_no_panic_snap_view (old : SNAP) (data foreign : Bytes) (k : PanicKind) :
    decodeSnap old data foreign ≠ .panic k := by
  unfold decodeSnap
  have := decode_no_panic_snap old { vis := data, tail := foreign }
  split
  · split <;> exact fun h => nomatch h
  · exact fun h => nomatch h
  · rename_i k' hk; exact absurd hk (this k')

/-- Direct `(*STP).DecodeFromBytes` never panics. -/
theorem decode_no_panic_stp (old : STP) (d : GSlice) (k : PanicKind) :
    old.decodeFromBytes d ≠ .panic k := by
  by_cases h : d.len < 35
  · rw [STP.decode_short old d h]; exact fun h => nomatch h
  · rw [STP.decode_long old d (by omega)]; exact fun h => nomatch h

theorem decode_no_panic_stp_view (old : STP) (data foreign : Bytes) (k : PanicKind) :
    decodeStp old data foreign ≠ .panic k := by
  unfold decodeStp
  have := decode_no_panic_stp old { vis := data, tail := foreign }
  split
  · split <;> exact fun h => nomatch h
  · exact fun h => nomatch h
  · rename_i k' hk; exact absurd hk (this k')

/-- The decoder function registered for `LayerTypeLLC` (NewPacket with SkipDecodeRecovery) never
    panics, whatever the capacity of the packet buffer (copying, NoCopy, Pool). -/
theorem decodeLLCFn_no_panic (d : GSlice) (k : PanicKind) : decodeLLCFn d ≠ .panic k := by
  unfold decodeLLCFn
  by_cases h : d.len < 3
  · rw [LLC.decode_short _ d h, Res.bind_ok]
    simp only [pure]
    repeat' split
    all_goals (intro h; cases h)
  · rw [LLC.decode_long _ d (by omega), Res.bind_ok]
    simp only [pure]
    repeat' split
    all_goals (intro h; cases h)

/-- The decoder function registered for `LayerTypeSNAP` never panics. -/
theorem decodeSNAPFn_no_panic (d : GSlice) (k : PanicKind) : decodeSNAPFn d ≠ .panic k := by
  unfold decodeSNAPFn
  by_cases h : d.len < 5
  · rw [SNAP.decode_short _ d h, Res.bind_ok]
    simp only [pure]
    repeat' split
    all_goals (intro h; cases h)
  · rw [SNAP.decode_long _ d (by omega), Res.bind_ok]
    simp only [pure]
    repeat' split
    all_goals (intro h; cases h)

/-- The decoder function registered for `LayerTypeSTP` never panics. -/
theorem decodeSTPFn_no_panic (d : GSlice) (k : PanicKind) : decodeSTPFn d ≠ .panic k := by
  unfold decodeSTPFn
  by_cases h : d.len < 35
  · rw [STP.decode_short _ d h, Res.bind_ok]
    simp only [pure]
    repeat' split
    all_goals (intro h; cases h)
  · rw [STP.decode_long _ d (by omega), Res.bind_ok]
    simp only [pure]
    repeat' split
    all_goals (intro h; cases h)

/-- Progress (what makes packet decoding and the parser loop terminate): a successfully decoded LLC
    header hands on a payload at least 3 bytes shorter than its input … -/
theorem llc_payload_shorter (old : LLC) (d : GSlice) (o : DecOut LLC)
    (h : old.decodeFromBytes d = .ok o) (he : o.err = false) :
    o.layer.payload.length + 3 ≤ d.len := by
  by_cases hs : d.len < 3
  · rw [LLC.decode_short old d hs] at h; cases h; cases he
  · rw [LLC.decode_long old d (by omega)] at h
    cases h
    exact llcDecSpec_payload_le old d.vis (by unfold GSlice.len at hs; omega) he

/-- … a SNAP header one 5 bytes shorter … -/
theorem snap_payload_shorter (old : SNAP) (d : GSlice) (o : DecOut SNAP)
    (h : old.decodeFromBytes d = .ok o) (he : o.err = false) :
    o.layer.payload.length + 5 ≤ d.len := by
  by_cases hs : d.len < 5
  · rw [SNAP.decode_short old d hs] at h; cases h; cases he
  · rw [SNAP.decode_long old d (by omega)] at h
    cases h
    have hl : 5 ≤ d.vis.length := by unfold GSlice.len at hs; omega
    simp only [snapDecSpec, GSlice.len, List.length_drop]; omega

/-- … and a BPDU one 35 bytes shorter. -/
theorem stp_payload_shorter (old : STP) (d : GSlice) (o : DecOut STP)
    (h : old.decodeFromBytes d = .ok o) (he : o.err = false) :
    o.layer.payload.length + 35 ≤ d.len := by
  by_cases hs : d.len < 35
  · rw [STP.decode_short old d hs] at h; cases h; cases he
  · rw [STP.decode_long old d (by omega)] at h
    cases h
    have hl : 35 ≤ d.vis.length := by unfold GSlice.len at hs; omega
    simp only [stpDecSpec, GSlice.len, List.length_drop]; omega

/-- `DecodingLayerParser.DecodeLayers` over {LLC, SNAP, STP} with IgnorePanic (panics let through)
    never panics: any state of the three re-used layer objects, any bytes, any capacity. -/
theorem dlp_no_panic (llc : LLC) (snap : SNAP) (stp : STP) (d : GSlice) (k : PanicKind) :
    dlpDecodeLayers llc snap stp d ≠ .panic k := dlpLoop_no_panic _ _ _ _ k

/-- Termination ("bounded time") of the parser loop: the model's loop is fuel-bounded recursion, and
    the fuel `|data| + 1` used by `dlpDecodeLayers` suffices — every larger amount gives the same
    run, because every iteration consumes at least 3 bytes (`llc_payload_shorter`, …).
    (DecodeFromBytes of the three layers is loop-free: termination is Lean's own check.) -/
theorem dlp_fuel_suffices (fuel : Nat) (st : DlpState) (typ : Nat) (d : GSlice) (h : d.len < fuel) :
    dlpLoop fuel st typ d = dlpLoop (d.len + 1) st typ d :=
  dlpLoop_fuel fuel (d.len + 1) st typ d h (Nat.lt_succ_self _)

/-! Non-vacuity: the error and the success paths are inhabited, with spare capacity. -/

example : decodeLlc LLC.fresh [0xaa, 0xaa] [9, 9, 9, 9, 9, 9] = .err "llc" := by decide

/-- An I-format control field cut off after its first octet: an error although 3 bytes are there and
    a 4th byte exists in the spare capacity. -/
example : decodeLlc LLC.fresh [0xaa, 0xaa, 0x00] [0x55] = .err "llc" := by decide

example : decodeLlc LLC.fresh [0xaa, 0xab, 0x03, 0x00, 0x00, 0x0c] [0xEE] =
    .ok ({ contents := [0xaa, 0xab, 0x03], payload := [0x00, 0x00, 0x0c], dsap := 0xaa, ig := false,
           ssap := 0xaa, cr := true, control := 3 }, false) := by decide

example : decodeLlc LLC.fresh [0x42, 0x42, 0x00, 0x03, 0x07] [] =
    .ok ({ contents := [0x42, 0x42, 0x00, 0x03], payload := [0x07], dsap := 0x42, ig := false,
           ssap := 0x42, cr := false, control := 3 }, false) := by decide

example : decodeSnap SNAP.fresh [0x00, 0x00, 0x0c, 0x20, 0x00, 0x02] [1, 2] =
    .ok ({ contents := [0x00, 0x00, 0x0c, 0x20, 0x00], payload := [0x02], org := [0, 0, 0x0c], type := 0x2000 }, false) := by
  decide

example : decodeStp STP.fresh (List.replicate 34 0) [0, 0, 0] = .err "stp" := by decide

end Gp.C19.Llc
