import Gp.Lemmas.Layers.Eth
/-
  C19 (engine `leth`) — Ethernet and Dot1Q decoders return errors, not panics.

  Model: `Gp/Model/Layers/Eth.lean` — `Ethernet.decodeFromBytes` / `Dot1Q.decodeFromBytes` transcribe
  the two DecodeFromBytes methods with Go panic semantics for every index and slice expression
  (a slice `s[a:b]` panics iff ¬(a ≤ b ∧ b ≤ cap), an index iff i ≥ len), for an input slice of ANY
  capacity (`GSlice.tail` = the foreign bytes between len and cap).  `decodeEthernet`/`decodeDot1QFn`
  are the functions registered for NewPacket, `dlpDecodeLayers` the DecodingLayerParser loop over
  these two layers.  Only property-level theorems here; helpers are in `Gp/Lemmas/Layers/Eth.lean`.
-/
namespace Gp.C19.Eth
open Gp Gp.Eth

/-- Direct `(*Ethernet).DecodeFromBytes` never panics: any receiver state, any bytes, any capacity,
    any foreign bytes behind the input. -/
theorem decode_no_panic_eth (old : Ethernet) (d : GSlice) (k : PanicKind) :
    old.decodeFromBytes d ≠ .panic k := by
  by_cases h : d.len < 14
  · rw [Ethernet.decode_short old d h]; exact fun h => nomatch h
  · rw [Ethernet.decode_long old d (by omega)]; exact fun h => nomatch h

/-- The same in the shape asked for by the brief (`cap = |data| + |foreign|`). -/
theorem decode_no_panic (old : Ethernet) (data foreign : Bytes) (k : PanicKind) :
    decodeEth old data foreign ≠ .panic k := by
  unfold decodeEth
  have := decode_no_panic_eth old { vis := data, tail := foreign }
  split
  · split <;> exact fun h => nomatch h
  · exact fun h => nomatch h
  · rename_i k' hk; exact absurd hk (this k')

/-- Direct `(*Dot1Q).DecodeFromBytes` never panics. -/
theorem decode_no_panic_dot1q (old : Dot1Q) (d : GSlice) (k : PanicKind) :
    old.decodeFromBytes d ≠ .panic k := by
  by_cases h : d.len < 4
  · rw [Dot1Q.decode_short old d h]; exact fun h => nomatch h
  · rw [Dot1Q.decode_long old d (by omega)]; exact fun h => nomatch h

theorem decode_no_panic_dot1q_view (old : Dot1Q) (data foreign : Bytes) (k : PanicKind) :
    decodeDot1Q old data foreign ≠ .panic k := by
  unfold decodeDot1Q
  have := decode_no_panic_dot1q old { vis := data, tail := foreign }
  split
  · split <;> exact fun h => nomatch h
  · exact fun h => nomatch h
  · rename_i k' hk; exact absurd hk (this k')

/-- The decoder function registered for `LayerTypeEthernet` (NewPacket with SkipDecodeRecovery)
    never panics, whatever the capacity of the packet buffer (copying, NoCopy, Pool). -/
theorem decodeEthernet_no_panic (d : GSlice) (k : PanicKind) : decodeEthernet d ≠ .panic k := by
  unfold decodeEthernet
  by_cases h : d.len < 14
  · rw [Ethernet.decode_short _ d h, Res.bind_ok]
    simp only [pure]
    repeat' split
    all_goals (intro h; cases h)
  · rw [Ethernet.decode_long _ d (by omega), Res.bind_ok]
    simp only [pure]
    repeat' split
    all_goals (intro h; cases h)

/-- The decoder function registered for `LayerTypeDot1Q` never panics. -/
theorem decodeDot1QFn_no_panic (d : GSlice) (k : PanicKind) : decodeDot1QFn d ≠ .panic k := by
  unfold decodeDot1QFn
  by_cases h : d.len < 4
  · rw [Dot1Q.decode_short _ d h, Res.bind_ok]
    simp only [pure]
    repeat' split
    all_goals (intro h; cases h)
  · rw [Dot1Q.decode_long _ d (by omega), Res.bind_ok]
    simp only [pure]
    repeat' split
    all_goals (intro h; cases h)

/-- Progress (what makes packet decoding and the parser loop terminate): a successfully decoded
    Ethernet layer hands on a payload at least 14 bytes shorter than its input. -/
theorem eth_payload_shorter (old : Ethernet) (d : GSlice) (o : DecOut Ethernet)
    (h : old.decodeFromBytes d = .ok o) (he : o.err = false) :
    o.layer.payload.length + 14 ≤ d.len := by
  by_cases hs : d.len < 14
  · rw [Ethernet.decode_short old d hs] at h; cases h; cases he
  · rw [Ethernet.decode_long old d (by omega)] at h
    cases h
    have hl : 14 ≤ d.vis.length := by unfold GSlice.len at hs; omega
    unfold ethDecSpec GSlice.len
    simp only
    split
    · split <;> simp only [List.length_take, List.length_drop] <;> omega
    · simp only [List.length_drop]; omega

/-- … and a Dot1Q tag one at least 4 bytes shorter. -/
theorem dot1q_payload_shorter (old : Dot1Q) (d : GSlice) (o : DecOut Dot1Q)
    (h : old.decodeFromBytes d = .ok o) (he : o.err = false) :
    o.layer.payload.length + 4 ≤ d.len := by
  by_cases hs : d.len < 4
  · rw [Dot1Q.decode_short old d hs] at h; cases h; cases he
  · rw [Dot1Q.decode_long old d (by omega)] at h
    cases h
    have hl : 4 ≤ d.vis.length := by unfold GSlice.len at hs; omega
    simp only [dot1qDecSpec, GSlice.len, List.length_drop]; omega

/-- `DecodingLayerParser.DecodeLayers` over {Ethernet, Dot1Q} with IgnorePanic (panics let through)
    never panics: any state of the two re-used layer objects, any bytes, any capacity. -/
theorem dlp_no_panic (eth : Ethernet) (dot1q : Dot1Q) (d : GSlice) (k : PanicKind) :
    dlpDecodeLayers eth dot1q d ≠ .panic k := dlpLoop_no_panic _ _ _ _ k

/-- Termination ("bounded time") of the parser loop: the model's loop is fuel-bounded recursion, and
    the fuel `|data| + 1` used by `dlpDecodeLayers` suffices — every larger amount gives the same
    run, because every iteration consumes at least 4 bytes (`eth_payload_shorter`,
    `dot1q_payload_shorter`).  (DecodeFromBytes of both layers is loop-free.) -/
theorem dlp_fuel_suffices (fuel : Nat) (st : DlpState) (typ : Nat) (d : GSlice) (h : d.len < fuel) :
    dlpLoop fuel st typ d = dlpLoop (d.len + 1) st typ d :=
  dlpLoop_fuel fuel (d.len + 1) st typ d h (Nat.lt_succ_self _)

/-! Non-vacuity: the error and the success paths are both inhabited, with spare capacity. -/

example : decodeEth Ethernet.fresh [1,2,3] [9,9,9,9,9,9,9,9,9,9,9,9,9,9,9,9] = .err "ethernet" := by decide

example : decodeEth Ethernet.fresh [1,2,3,4,5,6, 7,8,9,10,11,12, 0,2, 0xAA,0xBB,0xCC] [0xEE] =
    .ok ({ contents := [1,2,3,4,5,6,7,8,9,10,11,12,0,2], payload := [0xAA,0xBB],
           srcMAC := [7,8,9,10,11,12], dstMAC := [1,2,3,4,5,6], ethernetType := 0, length := 2 }, false) := by
  decide

example : decodeDot1Q Dot1Q.fresh [0xB0, 0x64, 0x08, 0x00, 0x45] [] =
    .ok ({ contents := [0xB0,0x64,0x08,0x00], payload := [0x45], priority := 5, dropEligible := true,
           vlan := 100, type := 0x0800 }, false) := by decide

end Gp.C19.Eth
