import Gp.Lemmas.Layers.Diam
/-
  C19 (engine `ldiam`) — the Diameter decoder returns errors, not panics, and terminates.

  Model: `Gp/Model/Layers/Diam.lean` — `Diameter.decodeFromBytes`, `decodeAVP`, `avpLoop` transcribe
  Diameter.DecodeFromBytes, decodeDiameterAVP and the two AVP loops with Go panic semantics for every
  index and slice expression, for an input slice of ANY capacity (`GSlice.tail` = the foreign bytes
  between len and cap).  decodeDiameterAVP is recursive (Grouped AVPs): the model recurses on a fuel
  argument and running out of fuel is a `Res.panic`, so "no panic" below also states that the fuel
  `len(data)+2` handed to the loop suffices for every input and every Grouped-type table `grp`.
  `decodeDiameterFn` is the function registered for NewPacket, `dlpDecodeLayers` the
  DecodingLayerParser holding a Diameter.  Only property-level theorems here.
-/
namespace Gp.C19.Diam
open Gp Gp.Arp Gp.Diam

/-- Direct `(*Diameter).DecodeFromBytes` never panics: any receiver state, any bytes — any
    MessageLength, any AVP length / vendor flag / nesting —, any capacity, any foreign bytes, any
    table of Grouped AVP types. -/
theorem decode_no_panic_diam (grp : Nat → Nat → Bool) (old : Diameter) (d : GSlice) (k : PanicKind) :
    old.decodeFromBytes grp d ≠ .panic k := by
  obtain ⟨v, t⟩ := d
  rw [decode_refines grp old v t]; exact fun h => nomatch h

/-- The same in the shape asked for by the brief (`cap = |data| + |foreign|`). -/
theorem decode_no_panic (grp : Nat → Nat → Bool) (old : Diameter) (data foreign : Bytes) (k : PanicKind) :
    decodeDiam grp old data foreign ≠ .panic k := by
  unfold decodeDiam
  have := decode_no_panic_diam grp old { vis := data, tail := foreign }
  split
  · split <;> exact fun h => nomatch h
  · exact fun h => nomatch h
  · rename_i k' hk; exact absurd hk (this k')

/-- `decodeDiameterAVP` on its own (it is also reached through the exported ParseDiameterAVPs) never
    panics, at any nesting depth: fuel `len+1` suffices. -/
theorem decodeAVP_no_panic (grp : Nat → Nat → Bool) (data foreign : Bytes) (k : PanicKind) :
    decodeAVP grp (data.length + 1) { vis := data, tail := foreign } ≠ .panic k := by
  rw [decodeAVP_refines grp _ data foreign (by omega)]; exact fun h => nomatch h

/-- The AVP loop never panics and never runs out of fuel `len+2`. -/
theorem avpLoop_no_panic (grp : Nat → Nat → Bool) (data foreign : Bytes) (acc : List AVP) (k : PanicKind) :
    avpLoop grp (data.length + 2) { vis := data, tail := foreign } acc ≠ .panic k := by
  rw [avpLoop_refines grp _ data foreign acc (by omega)]; exact fun h => nomatch h

/-- Termination measure: every loop iteration that continues consumes at least 8 and at most all of
    the remaining bytes (the recursive call on a Grouped AVP gets strictly fewer bytes than its
    parent: `Length - header ≤ len - 8`). -/
theorem avp_progress (grp : Nat → Nat → Bool) (f : Nat) (d : Bytes) (a : AVP) (n : Nat)
    (h : avpSpec grp f d = some (a, n)) : 8 ≤ n ∧ n ≤ d.length ∧ a.data.length + 8 ≤ d.length := by
  obtain ⟨h1, h2⟩ := avpSpec_consumed grp f d a n h
  refine ⟨h1, h2, ?_⟩
  cases f with
  | zero => simp [avpSpec] at h
  | succ f =>
    unfold avpSpec at h
    by_cases c1 : d.length < 8
    · rw [if_pos c1] at h; cases h
    rw [if_neg c1] at h
    by_cases c2 : u24At d 5 < 8
    · rw [if_pos c2] at h; cases h
    rw [if_neg c2] at h
    by_cases c3 : (((byteAt d 4).toNat &&& 0x80) != 0 && decide (d.length < 12)) = true
    · rw [if_pos c3] at h; cases h
    rw [if_neg c3] at h
    by_cases c4 : d.length < padded (u24At d 5)
    · rw [if_pos c4] at h; cases h
    rw [if_neg c4] at h
    by_cases c5 : u24At d 5 < (if ((byteAt d 4).toNat &&& 0x80) != 0 then 12 else 8)
    · rw [if_pos c5] at h; cases h
    rw [if_neg c5] at h
    simp only [Option.some.injEq, Prod.mk.injEq] at h
    obtain ⟨ha, _⟩ := h
    subst ha
    simp only [List.length_take, List.length_drop]
    have := padded_ge (u24At d 5)
    split <;> omega

/-- The function registered for NewPacket never panics (SkipDecodeRecovery shows nothing). -/
theorem decodeDiameter_no_panic (grp : Nat → Nat → Bool) (d : GSlice) (k : PanicKind) :
    decodeDiameterFn grp d ≠ .panic k := by
  obtain ⟨v, t⟩ := d
  unfold decodeDiameterFn
  rw [decode_refines grp _ v t, Res.bind_ok]
  split <;> split <;> (intro h; cases h)

/-- The DecodingLayerParser run never panics. -/
theorem dlp_no_panic (grp : Nat → Nat → Bool) (old : Diameter) (d : GSlice) (k : PanicKind) :
    Diam.dlpDecodeLayers grp old d ≠ .panic k := by
  obtain ⟨v, t⟩ := d
  unfold Diam.dlpDecodeLayers
  rw [decode_refines grp _ v t, Res.bind_ok]
  split
  · intro h; cases h
  · split <;> (intro h; cases h)

/-! Non-vacuity: a concrete input on an error path (kernel evaluation of the recursive decoder on
    longer literals is too slow for `decide`; the long paths are exercised by the correspondence run). -/

/-- 19 bytes with spare capacity behind them: an error, the foreign bytes are not read. -/
example (grp : Nat → Nat → Bool) :
    decodeDiam grp Diameter.fresh [1,0,0,20, 0,0,0,0, 0,0,0,0, 0,0,0,0, 0,0,0] [9,9,9] = .err "diameter" := by
  simp [decodeDiam, Diameter.decodeFromBytes, GSlice.len]

end Gp.C19.Diam
