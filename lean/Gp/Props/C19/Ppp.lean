import Gp.Lemmas.Layers.Ppp
/-
  C19 (engine `lppp`) — the PPP, PPPoE and MPLS decoders return errors, not panics.

  Model: `Gp/Model/Layers/Ppp.lean`.  These three layers have no in-place decode method
  (DecodeFromBytes); what exists — and what NewPacket with SkipDecodeRecovery runs — are the decoder
  functions registered for LayerTypePPP / LayerTypePPPoE / LayerTypeMPLS, plus the exported
  `ProtocolGuessingDecoder` behind MPLS.  `decodePPP`/`decodePPPoE`/`decodeMPLS`/`guess` transcribe
  them with Go panic semantics for every index and slice expression (`s[a:b]` panics iff
  ¬(a ≤ b ∧ b ≤ cap), `s[i]` iff i ≥ len) for an input slice of ANY capacity (`GSlice.tail` = the
  foreign bytes between len and cap: inner layers of a packet always have spare capacity).
  `run`/`newPacket` follow an eager packet through all layers of this engine (PPPoE → PPP → MPLS →
  MPLS … → guessing decoder).  Only property-level theorems here; helpers are in
  `Gp/Lemmas/Layers/Ppp.lean`.
-/
namespace Gp.C19.Ppp
open Gp Gp.Ppp

/-- `decodePPP` never panics: any bytes, any capacity, any foreign bytes behind the input
    (with proposed_fixes/all-15 applied; before it `data[0]`, `data[1]`, `data[offset+1]` were read
    unchecked). -/
theorem decodePPP_no_panic (d : GSlice) (k : PanicKind) : decodePPP d ≠ .panic k := by
  rw [decodePPP_eq]; exact fun h => nomatch h

/-- `decodePPPoE` never panics; in particular `data[6:payloadEnd]` is never evaluated with
    `payloadEnd` inside the spare capacity (the length check is against `len(data)`). -/
theorem decodePPPoE_no_panic (d : GSlice) (k : PanicKind) : decodePPPoE d ≠ .panic k := by
  rw [decodePPPoE_eq]; exact fun h => nomatch h

/-- `decodeMPLS` never panics (with proposed_fixes/all-13 applied). -/
theorem decodeMPLS_no_panic (d : GSlice) (k : PanicKind) : decodeMPLS d ≠ .panic k := by
  rw [decodeMPLS_eq]; exact fun h => nomatch h

/-- `ProtocolGuessingDecoder.Decode` (the exported default `MPLSPayloadDecoder`) never panics up to
    the point where it hands the data to decodeIPv4 / decodeIPv6 (with all-13: the empty payload is
    an error, `data[0]` is not read). -/
theorem guess_no_panic (d : GSlice) (k : PanicKind) : guess d ≠ .panic k := by
  rw [guess_eq]; exact fun h => nomatch h

/-- The same in the `decode : data → Res (Layer × behaviour)` shape of the brief
    (`cap = |data| + |foreign|`), for the three decoders. -/
theorem decode_no_panic (data foreign : Bytes) (k : PanicKind) : decodePpp data foreign ≠ .panic k := by
  unfold decodePpp viewDec
  rw [decodePPP_eq]
  simp only
  split <;> exact fun h => nomatch h

theorem decode_no_panic_pppoe (data foreign : Bytes) (k : PanicKind) : decodePppoe data foreign ≠ .panic k := by
  unfold decodePppoe viewDec
  rw [decodePPPoE_eq]
  simp only
  split <;> exact fun h => nomatch h

theorem decode_no_panic_mpls (data foreign : Bytes) (k : PanicKind) : decodeMpls data foreign ≠ .panic k := by
  unfold decodeMpls viewDec
  rw [decodeMPLS_eq]
  simp only
  split <;> exact fun h => nomatch h

/-- `gopacket.NewPacket(data, LayerTypePPP | LayerTypePPPoE | LayerTypeMPLS, {SkipDecodeRecovery})`
    does not panic inside any layer of this engine, however many of them are stacked (eager or
    lazy, any capacity of the packet buffer). -/
theorem newPacket_no_panic (lazy : Bool) (first : Dec) (d : GSlice) (k : PanicKind) :
    newPacket lazy first d ≠ .panic k := by
  rw [newPacket_eq]; exact fun h => nomatch h

/-- … and the same for the decode loop started anywhere with any amount of fuel. -/
theorem run_no_panic (fuel : Nat) (dec : Dec) (d : GSlice) (acc : RunOut) (k : PanicKind) :
    run fuel dec d acc ≠ .panic k := by
  rw [run_eq]; exact fun h => nomatch h

/-- Progress (what makes packet decoding terminate): a successfully decoded PPP layer hands on a
    payload at least one byte shorter than its input … -/
theorem ppp_payload_shorter (d : GSlice) (o : DecOut PPP) (l : PPP)
    (h : decodePPP d = .ok o) (hl : o.layer = some l) :
    o.rest.len < d.len ∧ o.rest.vis = l.payload := by
  rw [decodePPP_eq] at h; cases h
  unfold pppOut at hl ⊢
  cases hs : pppDecSpec d.vis with
  | none => rw [hs] at hl; cases hl
  | some p =>
    rw [hs] at hl; cases hl
    have := stepS_shorter .ppp d.vis
      { beh := { acts := [.addLayer LayerTypePPP, .setLinkLayer], tail := .pppType l.pppType },
        layer := some (.ppp l), rest := l.payload } (.ppp l) (by simp only [stepS, hs]) rfl
    exact ⟨this, rfl⟩

/-- … a PPPoE layer one at least 6 bytes shorter … -/
theorem pppoe_payload_shorter (d : GSlice) (o : DecOut PPPoE) (l : PPPoE)
    (h : decodePPPoE d = .ok o) (hl : o.layer = some l) :
    o.rest.len + 6 ≤ d.len ∧ o.rest.vis = l.payload := by
  rw [decodePPPoE_eq] at h; cases h
  unfold pppoeOut at hl ⊢
  cases hs : pppoeDecSpec d.vis with
  | none => rw [hs] at hl; cases hl
  | some p =>
    rw [hs] at hl; cases hl
    refine ⟨?_, rfl⟩
    unfold pppoeDecSpec at hs
    split at hs
    · cases hs
    · split at hs
      · cases hs
      · cases hs; simp only [GSlice.len, List.length_take, List.length_drop]; omega

/-- … and an MPLS label stack entry exactly 4 bytes shorter. -/
theorem mpls_payload_shorter (d : GSlice) (o : DecOut MPLS) (l : MPLS)
    (h : decodeMPLS d = .ok o) (hl : o.layer = some l) :
    o.rest.len + 4 = d.len ∧ o.rest.vis = l.payload := by
  rw [decodeMPLS_eq] at h; cases h
  unfold mplsOut at hl ⊢
  cases hs : mplsDecSpec d.vis with
  | none => rw [hs] at hl; cases hl
  | some p =>
    rw [hs] at hl; cases hl
    refine ⟨?_, rfl⟩
    unfold mplsDecSpec at hs
    split at hs
    · cases hs
    · cases hs; simp only [GSlice.len, List.length_drop]; omega

/-- Termination ("bounded time") of packet decoding through these layers — in particular through an
    MPLS label stack of any depth, where `decodeMPLS` re-enters itself through `NextDecoder`: the
    model's loop is fuel-bounded recursion and the fuel `|data| + 1` used by `newPacket` suffices —
    every larger amount gives the same run, because every layer consumes at least one byte. -/
theorem run_fuel_suffices (fuel : Nat) (dec : Dec) (d : GSlice) (acc : RunOut) (h : d.len < fuel) :
    run fuel dec d acc = run (d.len + 1) dec d acc := by
  rw [run_eq, run_eq, runS_fuel fuel (d.len + 1) dec d.vis acc h (Nat.lt_succ_self _)]

/-- … hence a packet has at most `|data|` layers of this engine (the recursion depth of the eager
    decoder inside an MPLS stack is bounded by the input length / 4). -/
theorem newPacket_layers_bounded (lazy : Bool) (first : Dec) (d : GSlice) :
    ∃ o, newPacket lazy first d = .ok o ∧ o.layers.length ≤ d.len := by
  refine ⟨_, newPacket_eq lazy first d, ?_⟩
  unfold newPacketS
  split
  · exact Nat.zero_le _
  · have := runS_layers_le (d.vis.length + 1) first d.vis { layers := [], acts := [], end_ := .done }
    simpa [GSlice.len] using this

/-! Non-vacuity: error and success paths, with spare capacity; a three-layer packet. -/

example : decodePpp [0xff] [0x03, 0x00, 0x21] = .ok ({ contents := [0xff], payload := [], pppType := 0xff, hasPPTPHeader := false },
    { acts := [.addLayer 25, .setLinkLayer], tail := .pppType 0xff }) := by decide

example : decodePpp [0xff, 0x03, 0x00] [0x21, 0x45] = .err "ppp" := by decide

example : decodePppoe [0x11, 0x00, 0x00, 0x11, 0x00, 0x04] [0x00, 0x21, 0x45, 0x00] = .err "pppoe" := by decide

example : decodeMpls [0x00, 0x01, 0xd1] [0xff, 0x45] = .err "mpls" := by decide

example :
    (match newPacket false .pppoe { vis := [0x11,0,0,0x11,0,7, 0x02,0x81, 0x00,0x01,0xd1,0xff, 0x45], tail := [] } with
     | .ok o => some (o.layers.length, o.end_, o.acts)
     | _ => none) = some (3, End.hand 20, [.addLayer 26, .addLayer 25, .setLinkLayer, .addLayer 24]) := by decide

end Gp.C19.Ppp
