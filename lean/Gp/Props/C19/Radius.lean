import Gp.Lemmas.Layers.Radius
/-
  C19 (engine `lradius`) — the RADIUS decoder returns errors, not panics, with recovery off.

  `old.decodeFromBytes v d` is `(*RADIUS).DecodeFromBytes` on the receiver `old` and the Go slice `d`
  (`d.vis` = data, `d.tail` = the foreign bytes between len and cap: cap = len on the copying path,
  larger for a direct call / NoCopy / a pool block).  `v = .fixed` is the tree the check drives (with
  proposed_fixes/lradius-1..2); neither patch concerns this property, so the pinned code (`.orig`) is
  covered by the same theorems (they quantify over `v`).  A Go panic is `Res.panic`; running out of the
  attribute loop's fuel — the model's stand-in for a loop that does not terminate — is `.panic .explicit`.
-/
namespace Gp.C19.Radius
open Gp Gp.Radius

/-- Direct `DecodeFromBytes`: every receiver, every byte string, every capacity, every foreign
    bytes, both variants of the source — never a panic (index, slice bounds or a runaway loop). -/
theorem decode_no_panic_radius (v : Variant) (old : RADIUS) (data foreign : Bytes) (k : PanicKind) :
    old.decodeFromBytes v { vis := data, tail := foreign } ≠ .panic k := by
  rw [decode_spec]; exact fun h => nomatch h

/-- The view of the engine brief (`.err` for an error return). -/
theorem decode_no_panic (old : RADIUS) (data foreign : Bytes) (k : PanicKind) :
    decodeRadius old data foreign ≠ .panic k := by
  rw [decodeRadius_eq]; split <;> exact fun h => nomatch h

/-- `decodeRADIUS`, the function registered for LayerTypeRADIUS (NewPacket with SkipDecodeRecovery:
    nothing recovers a panic of this function). -/
theorem decodeRADIUS_no_panic (v : Variant) (data foreign : Bytes) (k : PanicKind) :
    decodeRADIUSFn v { vis := data, tail := foreign } ≠ .panic k := by
  rw [decodeRADIUSFn_eq]; exact fun h => nomatch h

/-- A DecodingLayerParser over {RADIUS} with IgnorePanic (panics are let through), for every state
    of the parser's layer object. -/
theorem dlp_no_panic (v : Variant) (obj : RADIUS) (data foreign : Bytes) (k : PanicKind) :
    dlpDecodeLayers v obj { vis := data, tail := foreign } ≠ .panic k := by
  rw [dlp_eq]; exact fun h => nomatch h

/-- Termination ("no running away"): the attribute loop is structurally recursive on its fuel; the
    fuel `len(data)` handed to it by DecodeFromBytes is never exhausted — any larger fuel gives the
    same result — because every iteration advances `pos` by at least two bytes. -/
theorem decode_terminates (r : RADIUS) (data foreign : Bytes) (extra : Nat) (h : 20 ≤ data.length) :
    attrLoop (data.length + extra) r { vis := data, tail := foreign } 20 =
      attrLoop data.length r { vis := data, tail := foreign } 20 := by
  rw [attrLoop_spec _ r data foreign 20 h (by omega), attrLoop_spec _ r data foreign 20 h (by omega),
    parseAttrs_fuel _ _ extra (by rw [List.length_drop]; omega)]

/-- … from every position of the loop inside the data, with any fuel that covers the bytes left. -/
theorem attr_loop_returns (fuel : Nat) (r : RADIUS) (data foreign : Bytes) (pos : Nat)
    (hp : pos ≤ data.length) (h : data.length - pos ≤ fuel) :
    ∃ q, attrLoop fuel r { vis := data, tail := foreign } pos = .ok q :=
  ⟨_, attrLoop_spec fuel r data foreign pos hp h⟩

/-- Running out of fuel is reported as `.panic .explicit`; it does not happen. -/
theorem decode_never_out_of_fuel (v : Variant) (old : RADIUS) (data foreign : Bytes) :
    old.decodeFromBytes v { vis := data, tail := foreign } ≠ .panic .explicit :=
  decode_no_panic_radius v old data foreign .explicit

/-- Progress: every attribute the loop accepts occupies at least two bytes of the input, so `n`
    attribute bytes yield at most `n / 2` attributes (Length 0 and 1 are rejected: `pos` never stalls). -/
theorem attr_progress (fuel : Nat) (bs : Bytes) : 2 * (parseAttrs fuel bs).1.length ≤ bs.length :=
  parseAttrs_count fuel bs

/-! ### Non-vacuity and sharpness (concrete inputs, evaluated by the kernel) -/

/-- Access-Request, id 7, User-Name "alice" -/
def msg27 : Bytes :=
  [1, 7, 0, 27] ++ List.replicate 16 0xa7 ++ [1, 7, 0x61, 0x6c, 0x69, 0x63, 0x65]

example : (decSpec .fixed RADIUS.fresh msg27).err = false := by decide
example : (decSpec .fixed RADIUS.fresh msg27).layer.attributes =
    [{ typ := 1, length := 7, value := [0x61, 0x6c, 0x69, 0x63, 0x65] }] := by decide
example : (RADIUS.fresh.decodeFromBytes .fixed { vis := msg27, tail := [] }).isOk = true := by
  rw [decode_spec]; rfl
-- an attribute whose Length octet runs over the end of the message is an error, not a read of the
-- foreign bytes behind it (cap > len)
example : decodeRadius RADIUS.fresh ([1, 7, 0, 24] ++ List.replicate 16 0 ++ [1, 7, 0x61, 0x6c]) [0x69, 0x63, 0x65] =
    .err "radius" := by
  rw [decodeRadius_eq]; decide
-- attribute Length 0 / 1 (the loop would not advance / would mis-frame) are errors
example : (decSpec .fixed RADIUS.fresh ([1, 7, 0, 22] ++ List.replicate 16 0 ++ [1, 0])).err = true := by decide
example : (decSpec .fixed RADIUS.fresh ([1, 7, 0, 22] ++ List.replicate 16 0 ++ [1, 1])).err = true := by decide

end Gp.C19.Radius
