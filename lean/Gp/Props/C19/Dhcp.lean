import Gp.Lemmas.Layers.Dhcp
/-
  C19 (engine `ldhcp`) — the DHCPv4 decoder returns errors, not panics, with recovery off.

  `old.decodeFromBytes v d` is `(*DHCPv4).DecodeFromBytes` on the receiver `old` and the Go slice `d`
  (`d.vis` = data, `d.tail` = the foreign bytes between len and cap: cap = len on the copying path,
  larger for a direct call / NoCopy / a pool block).  `v = .fixed` is the tree the check drives (with
  proposed_fixes/ldhcp-1..3); none of those patches concerns this property, so the pinned code
  (`.orig`) is covered as well.  A Go panic is `Res.panic`; running out of the option loop's fuel —
  the model's stand-in for a loop that does not terminate — is `.panic .explicit`.
-/
namespace Gp.C19.Dhcp
open Gp Gp.Dhcp

/-- Direct `DecodeFromBytes`: every receiver, every byte string, every capacity, every foreign
    bytes — never a panic (index, slice bounds or a runaway option loop). -/
theorem decode_no_panic_dhcp (old : DHCPv4) (data foreign : Bytes) (k : PanicKind) :
    old.decodeFromBytes .fixed { vis := data, tail := foreign } ≠ .panic k := by
  rw [decode_spec_fixed]; exact fun h => nomatch h

/-- The same for the pinned source. -/
theorem decode_no_panic_orig (old : DHCPv4) (data foreign : Bytes) (k : PanicKind) :
    old.decodeFromBytes .orig { vis := data, tail := foreign } ≠ .panic k := by
  rw [decode_spec_orig]; exact fun h => nomatch h

/-- The view of the engine brief (`.err` for an error return). -/
theorem decode_no_panic (old : DHCPv4) (data foreign : Bytes) (k : PanicKind) :
    decodeDhcp old data foreign ≠ .panic k := by
  rw [decodeDhcp_eq]; split <;> exact fun h => nomatch h

/-- `decodeDHCPv4`, the function registered for LayerTypeDHCPv4 (NewPacket with SkipDecodeRecovery:
    nothing recovers a panic of this function). -/
theorem decodeDHCPv4_no_panic (data foreign : Bytes) (k : PanicKind) :
    decodeDHCPv4Fn .fixed { vis := data, tail := foreign } ≠ .panic k := by
  rw [decodeDHCPv4Fn_eq]; exact fun h => nomatch h

/-- A DecodingLayerParser over {DHCPv4} with IgnorePanic (panics are let through), for every state
    of the parser's layer object. -/
theorem dlp_no_panic (obj : DHCPv4) (data foreign : Bytes) (k : PanicKind) :
    dlpDecodeLayers .fixed obj { vis := data, tail := foreign } ≠ .panic k := by
  rw [dlp_eq]; exact fun h => nomatch h

/-- Progress: an option that decodes without error occupies at least one byte, lies inside the
    bytes it was decoded from, and carries exactly `Length` bytes of data (`int(o.Length)+2` cannot
    step over the end; the uint8 `Length` byte is never used in uint8 arithmetic). -/
theorem option_progress (bs : Bytes) (h : (optSpec bs).2 = false) :
    1 ≤ optWidth (optSpec bs).1 ∧
    (¬ ((optSpec bs).1.typ = Gen.Dhcp.dhcpOptPad ∨ (optSpec bs).1.typ = Gen.Dhcp.dhcpOptEnd) →
      optWidth (optSpec bs).1 ≤ bs.length ∧ (optSpec bs).1.data.length = (optSpec bs).1.length) := by
  obtain ⟨a, -, c, -⟩ := optSpec_ok bs h
  exact ⟨a, c⟩

/-- Termination ("no running away"): the option loop is structurally recursive on its fuel; the fuel
    `len(options)` handed to it by DecodeFromBytes is never exhausted — any larger fuel gives the
    same result — because every iteration advances `start` by at least one byte. -/
theorem decode_terminates (d : DHCPv4) (options foreign : Bytes) (extra : Nat) :
    optLoop (options.length + extra) d { vis := options, tail := foreign } 0 =
      optLoop options.length d { vis := options, tail := foreign } 0 := by
  rw [optLoop_spec _ d options foreign 0 (by omega), optLoop_spec _ d options foreign 0 (by omega),
    List.drop_zero, parseOpts_fuel _ _ extra (Nat.le_refl _)]

/-- … from every position of the loop, with any fuel that covers the bytes left. -/
theorem option_loop_returns (fuel : Nat) (d : DHCPv4) (options foreign : Bytes) (start : Nat)
    (h : options.length - start ≤ fuel) :
    ∃ r, optLoop fuel d { vis := options, tail := foreign } start = .ok r :=
  ⟨_, optLoop_spec fuel d options foreign start h⟩

/-- Running out of fuel is reported as `.panic .explicit`; it does not happen. -/
theorem decode_never_out_of_fuel (old : DHCPv4) (data foreign : Bytes) :
    old.decodeFromBytes .fixed { vis := data, tail := foreign } ≠ .panic .explicit :=
  decode_no_panic_dhcp old data foreign .explicit

/-- The one piece of sized arithmetic on an input byte, `28+d.HardwareLen` (uint8): on every path
    that reaches it the sum is at most 44, so it neither wraps nor leaves the 16-byte chaddr field;
    the decoded address has exactly HardwareLen ≤ 16 bytes. -/
theorem hwaddr_within_chaddr (old : DHCPv4) (v : Bytes) (h : (decSpec old v).err = false) :
    (decSpec old v).layer.hardwareLen ≤ 16 ∧
    (28 + (decSpec old v).layer.hardwareLen) % 256 = 28 + (decSpec old v).layer.hardwareLen ∧
    (decSpec old v).layer.clientHWAddr.length = (decSpec old v).layer.hardwareLen := by
  obtain ⟨-, -, -, hl, hh, -, he, -⟩ := decSpec_ok_base old v h
  rw [he]
  have e1 : ({ hdrFixed v with options := (parseOpts (v.length - 240) (v.drop 240)).1 } : DHCPv4).hardwareLen = hwLenOf v := rfl
  have e2 : ({ hdrFixed v with options := (parseOpts (v.length - 240) (v.drop 240)).1 } : DHCPv4).clientHWAddr
      = (v.drop 28).take (hwLenOf v) := rfl
  rw [e1, e2, List.length_take, List.length_drop]
  omega

/-! ### Non-vacuity and sharpness (concrete inputs, evaluated by the kernel) -/

/-- a 244-byte message: header with chaddr length 6, magic cookie, option 53 (1 byte), End -/
def msg244 : Bytes :=
  [1, 1, 6, 0] ++ List.replicate 232 0 ++ [0x63, 0x82, 0x53, 0x63] ++ [53, 1, 1, 255]

set_option maxRecDepth 8000 in
example : (DHCPv4.fresh.decodeFromBytes .fixed { vis := msg244, tail := [] }).isOk = true := by
  rw [decode_spec_fixed]; rfl
set_option maxRecDepth 8000 in
example : (decSpec DHCPv4.fresh msg244).err = false := by decide
set_option maxRecDepth 8000 in
example : (decSpec DHCPv4.fresh msg244).layer.options = [{ typ := 53, length := 1, data := [1] }] := by decide
-- the regression input of layers/decode_oob_test.go (HardwareLen 0xFF: 28+0xFF wraps in uint8) is an error
set_option maxRecDepth 8000 in
example : (decSpec DHCPv4.fresh ([0, 0, 0xFF, 0] ++ List.replicate 232 0 ++ [0x63, 0x82, 0x53, 0x63])).err = true := by decide
-- an option whose Length byte runs over the end of the message is an error, not a read of the foreign
-- bytes behind it (cap > len)
set_option maxRecDepth 8000 in
example : decodeDhcp DHCPv4.fresh (msg244.take 242) [1, 255, 9, 9] = .err "dhcpv4" := by
  rw [decodeDhcp_eq]
  have : (decSpec DHCPv4.fresh (msg244.take 242)).err = true := by decide
  rw [if_pos this]
set_option maxRecDepth 8000 in
example : (optSpec [53, 1, 1, 255]).2 = false ∧ optWidth (optSpec [53, 1, 1, 255]).1 = 3 := by decide

end Gp.C19.Dhcp
