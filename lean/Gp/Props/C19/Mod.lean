import Gp.Lemmas.Layers.ModDlp
/-
  C19 (engine `lmod`) — the ModbusTCP, LCM, PFLog and FDDI decoders return errors, not panics.

  Model: `Gp/Model/Layers/Mod.lean`.  `ModbusTCP.decodeFromBytes`, `LCM.decodeFromBytes`,
  `PFLog.decodeFromBytes` transcribe the three DecodeFromBytes methods; `decodeModbusTCPFn`,
  `decodeLCMFn`, `decodePFLogFn`, `decodeFDDI` the four decoder functions registered for NewPacket (FDDI
  has NO in-place decode method: the registered function is all there is); `dlpDecodeLayers` the
  DecodingLayerParser loop over the three DecodingLayers.  Every index and slice expression has Go
  panic semantics (`s[a:b]` panics iff ¬(a ≤ b ∧ b ≤ cap), `s[i]` iff i ≥ len) for an input slice of
  ANY capacity (`GSlice.tail` = the foreign bytes between len and cap).  None of the four layers has a
  SerializeTo method (no C06/C07 part).
  Only property-level theorems here; helpers are in `Gp/Lemmas/Layers/Mod*.lean`.
-/
namespace Gp.C19.Mod
open Gp Gp.Mod

/-! ## Direct DecodeFromBytes -/

/-- Direct `(*ModbusTCP).DecodeFromBytes` never panics: any receiver state, any bytes — in particular
    any 16-bit Length announced by the MBAP header, which is only ever COMPARED with the number of
    bytes present (never used as a slice bound) —, any capacity, any foreign bytes behind the input. -/
theorem decode_no_panic_modbus (old : ModbusTCP) (d : GSlice) (k : PanicKind) :
    old.decodeFromBytes d ≠ .panic k := by
  rw [ModbusTCP.decode_eq]; exact fun h => nomatch h

/-- The same in the shape asked for by the brief (`cap = |data| + |foreign|`). -/
theorem decode_no_panic (old : ModbusTCP) (data foreign : Bytes) (k : PanicKind) :
    decodeModbus old data foreign ≠ .panic k := by
  unfold decodeModbus
  rw [ModbusTCP.decode_eq]
  simp only
  split <;> exact fun h => nomatch h

/-- Direct `(*LCM).DecodeFromBytes` never panics: short and fragmented magic, a fragmented header cut
    anywhere between 8 and 20 bytes (the GHSA regression input `LCM/short-fragmented`), a channel name
    without terminating NUL (the scan ends with the slice), fewer than 8 bytes behind the name. -/
theorem decode_no_panic_lcm (old : LCM) (d : GSlice) (k : PanicKind) :
    old.decodeFromBytes d ≠ .panic k := by
  rw [LCM.decode_eq]; exact fun h => nomatch h

theorem decode_no_panic_lcm_view (old : LCM) (data foreign : Bytes) (k : PanicKind) :
    decodeLcm old data foreign ≠ .panic k := by
  unfold decodeLcm
  rw [LCM.decode_eq]
  simp only
  split <;> exact fun h => nomatch h

/-- Direct `(*PFLog).DecodeFromBytes` never panics (with proposed_fixes/all-14: `data[60]` is read
    only from 61 bytes on): any Length byte — the header length derived from it (up to 258) is checked
    against the LENGTH of the input before it is used as a slice bound, so spare capacity never stands
    in for missing bytes. -/
theorem decode_no_panic_pflog (old : PFLog) (d : GSlice) (k : PanicKind) :
    old.decodeFromBytes d ≠ .panic k := by
  rw [PFLog.decode_eq]; exact fun h => nomatch h

theorem decode_no_panic_pflog_view (old : PFLog) (data foreign : Bytes) (k : PanicKind) :
    decodePflog old data foreign ≠ .panic k := by
  unfold decodePflog
  rw [PFLog.decode_eq]
  simp only
  split <;> exact fun h => nomatch h

/-! ## The registered decoder functions (NewPacket with SkipDecodeRecovery) -/

/-- The decoder function registered for `LayerTypeModbusTCP` never panics, whatever the capacity of
    the packet buffer (copying, NoCopy, Pool). -/
theorem decodeModbusTCP_no_panic (d : GSlice) (k : PanicKind) : decodeModbusTCPFn d ≠ .panic k := by
  unfold decodeModbusTCPFn
  rw [ModbusTCP.decode_eq, Res.bind_ok]
  simp only [pure]
  split <;> exact fun h => nomatch h

/-- `decodeLCM` never panics, for every content of the fingerprint registry. -/
theorem decodeLCM_no_panic (reg : List (Nat × Nat)) (d : GSlice) (k : PanicKind) : decodeLCMFn reg d ≠ .panic k := by
  unfold decodeLCMFn
  rw [LCM.decode_eq, Res.bind_ok]
  simp only [pure]
  split <;> exact fun h => nomatch h

theorem decodePFLog_no_panic (d : GSlice) (k : PanicKind) : decodePFLogFn d ≠ .panic k := by
  unfold decodePFLogFn
  rw [PFLog.decode_eq, Res.bind_ok]
  exact fun h => nomatch h

/-- `decodeFDDI` never panics (with proposed_fixes/all-7: inputs below 13 bytes are an error). -/
theorem decodeFDDI_no_panic (d : GSlice) (k : PanicKind) : decodeFDDI d ≠ .panic k := by
  rw [decodeFDDI_eq]; exact fun h => nomatch h

/-- The same for the `decode : data → Res (Layer × behaviour)` view (`cap = |data| + |foreign|`). -/
theorem decode_no_panic_fddi (data foreign : Bytes) (k : PanicKind) : decodeFddi data foreign ≠ .panic k := by
  unfold decodeFddi viewFn
  rw [decodeFDDI_eq]
  rcases fddiSpec data with ⟨b, _ | l⟩ <;> exact fun h => nomatch h

/-! ## Termination -/

/-- The one loop inside these decoders — LCM's `for _, b := range data[offset:]` channel-name scan — is
    structural recursion over the ranged-over bytes (Lean's own termination proof of `scanName`).  It
    never runs past the buffer: the offset it returns lies between the start offset and the end of the
    slice, so `data[:offset]` / `data[offset:]` afterwards are in range also when NO terminating NUL
    exists … -/
theorem lcm_name_scan_bounded (bs : Bytes) (off : Nat) :
    off ≤ (scanName bs off []).1 ∧ (scanName bs off []).1 ≤ off + bs.length :=
  scanName_bounds bs off []

/-- … the name it collects contains no NUL, and the offset advances by the name length, plus one
    exactly when a terminator was consumed. -/
theorem lcm_name_scan_result (bs : Bytes) (off : Nat) :
    (∀ x ∈ (scanName bs off []).2, x ≠ 0) ∧
    ((scanName bs off []).1 = off + (scanName bs off []).2.length ∨
     (scanName bs off []).1 = off + (scanName bs off []).2.length + 1) := by
  refine ⟨scanName_no_nul bs off [] (fun _ h => nomatch h), ?_⟩
  have := scanName_advance bs off []
  simpa using this

/-- Progress (what makes packet decoding and the parser loop terminate): a successfully decoded
    ModbusTCP layer hands on a payload exactly 7 bytes shorter than its input … -/
theorem modbus_payload_shorter (old : ModbusTCP) (d : GSlice) (o : DecOut ModbusTCP)
    (h : old.decodeFromBytes d = .ok o) (he : o.err = false) :
    o.layer.payload.length + 7 = d.len := by
  rw [ModbusTCP.decode_eq] at h; cases h
  exact modbusDecSpec_payload_le old d.vis he

/-- … an LCM layer one at least 8 bytes shorter … -/
theorem lcm_payload_shorter (old : LCM) (d : GSlice) (o : DecOut LCM)
    (h : old.decodeFromBytes d = .ok o) (he : o.err = false) :
    o.layer.payload.length + 8 ≤ d.len := by
  rw [LCM.decode_eq] at h; cases h
  exact lcmDecSpec_payload_le old d.vis he

/-- … an FDDI frame one 13 bytes shorter … -/
theorem fddi_payload_shorter (d : GSlice) (b : Beh) (l : FDDI)
    (h : decodeFDDI d = .ok (b, some l)) : l.payload.length + 13 = d.len := by
  obtain ⟨h13, hl, _⟩ := decodeFDDI_some d b l h
  subst hl
  simp only [fddiLayer, List.length_drop, GSlice.len]; omega

/-- … but a PFLog header hands on a payload shorter by its announced header length (the Length byte,
    +3 when ≡ 1 mod 4) — which is 0 for a Length byte of 0: PFLog then makes NO progress.  What ends
    the decoding is that its next type is never PFLog again: IPv4, IPv6 or none. -/
theorem pflog_payload_and_next (old : PFLog) (d : GSlice) (o : DecOut PFLog)
    (h : old.decodeFromBytes d = .ok o) (he : o.err = false) :
    o.layer.payload.length + pfActual d.vis = d.len ∧
    (o.layer.nextLayerType = LayerTypeIPv4 ∨ o.layer.nextLayerType = LayerTypeIPv6 ∨
     o.layer.nextLayerType = LayerTypeZero) := by
  rw [PFLog.decode_eq] at h; cases h
  refine ⟨pflogDecSpec_payload_le old d.vis he, ?_⟩
  unfold PFLog.nextLayerType familyLayerType
  rcases lookup_getD_mem familyTable (pflogDecSpec old d.vis).layer.family LayerTypeZero with h | h
  · exact Or.inr (Or.inr h)
  · have hall : ∀ x ∈ familyTable.map (·.2), x = LayerTypeIPv4 ∨ x = LayerTypeIPv6 ∨ x = LayerTypeZero := by decide
    exact hall _ h

/-! ## The parser -/

/-- `DecodingLayerParser.DecodeLayers` over {ModbusTCP, LCM, PFLog} with IgnorePanic (panics let
    through) never panics: any first type, any state of the three re-used layer objects (including the
    half-updated ones a failed decode leaves), any bytes, any capacity, any fingerprint registry.  The
    loop itself is fuel-bounded recursion (Lean's termination check). -/
theorem dlp_no_panic (reg : List (Nat × Nat)) (m : ModbusTCP) (l : LCM) (p : PFLog) (first : Nat) (d : GSlice)
    (k : PanicKind) : dlpDecodeLayers reg m l p first d ≠ .panic k := dlpLoop_no_panic reg _ _ _ _ k

/-- Termination ("bounded time") of the parser: the loop is fuel-bounded recursion, and the fuel
    `|data| + 2` used by `dlpDecodeLayers` suffices — every larger amount gives the same run, for every
    fingerprint registry: ModbusTCP consumes 7 bytes, LCM at least 8, and after a PFLog header (which
    may consume nothing) the next type is outside the set. -/
theorem dlp_fuel_suffices (reg : List (Nat × Nat)) (fuel : Nat) (st : DlpState) (typ : Nat) (d : GSlice)
    (h : d.len + 2 ≤ fuel) : dlpLoop reg fuel st typ d = dlpLoop reg (d.len + 2) st typ d :=
  dlpLoop_fuel reg fuel (d.len + 2) st typ d h (Nat.le_refl _)

/-! Non-vacuity: error and success paths are inhabited, with spare capacity full of foreign bytes. -/

/-- ModbusTCP: Length 6 against 5 bytes behind the field, the missing byte only in the spare capacity. -/
example : decodeModbus ModbusTCP.fresh [0,1, 0,0, 0,6, 17, 3,0,0,0] [9,9,9] = .err "modbus" := by decide

example : decodeModbus ModbusTCP.fresh [0,1, 0,0, 0,6, 17, 3,0,0,0,2] [0xEE] =
    .ok ({ contents := [0,1, 0,0, 0,6, 17], payload := [3,0,0,0,2], transactionIdentifier := 1,
           protocolIdentifier := 0, length := 6, unitIdentifier := 17 }, false) := by decide

/-- LCM: a channel name that is not terminated inside the data while a NUL sits in the spare capacity. -/
example : decodeLcm LCM.fresh [0x4c,0x43,0x30,0x32, 0,0,0,7, 0x41,0x42] [0, 1,2,3,4,5,6,7,8] =
    .ok ({ magic := 0x4c433032, sequenceNumber := 7, payloadSize := 0, fragmentOffset := 0, fragmentNumber := 0,
           totalFragments := 0, channelName := [0x41,0x42], fragmented := false, fingerprint := 0,
           contents := [0x4c,0x43,0x30,0x32, 0,0,0,7, 0x41,0x42], payload := [] }, false) := by decide

/-- LCM: the GHSA regression input (fragmented magic, 8 bytes) with the rest of the header as spare capacity. -/
example : decodeLcm LCM.fresh [0x4c,0x43,0x30,0x33, 0,0,0,0] [0,0,0,9, 0,0,0,0, 0,0, 0,1] = .err "lcm" := by decide

/-- PFLog: 61 bytes announcing a 64-byte header, the three padding bytes only in the spare capacity. -/
example : decodePflog PFLog.fresh
    [61,2,0,0, 0x65,0x6d,0x30,0,0,0,0,0,0,0,0,0,0,0,0,0, 0,0,0,0,0,0,0,0,0,0,0,0,0,0,0,0,
     0,0,0,1, 0,0,0,2, 0,0,0,3, 0xff,0xff,0xff,0xff, 0,0,0,5, 0,0,0,6, 1] [0,0,0] = .err "pflog" := by decide

example : decodeFddi [0x57, 1,2,3,4,5,6, 7,8,9,10,11] [12, 13] = .err "fddi" := by decide

end Gp.C19.Mod
