import Gp.Lemmas.Layers.Ip4
/-
  C19 (decoders return errors, not panics, even with recovery off) — layer IPv4
  (layers/ip4.go, engine `lip4`).

  `decodeIp4 old data foreign` is IPv4.DecodeFromBytes called directly on a slice whose `len`
  bytes are `data` and whose spare capacity holds `foreign` (cap = len on the copying path,
  larger under NoCopy/Pool); `old` is the receiver's previous state (DecodingLayerParser reuse).
  A Go run-time panic is the value `.panic k`; a returned Go error is `.ok o` with
  `o.err = true`; `.err _` is only produced when the option loop runs out of fuel.
-/
namespace Gp.C19.Ip4
open Gp Gp.Ip4

/-- Direct DecodeFromBytes never panics: any receiver state, any bytes, any capacity. -/
theorem decode_no_panic (old : Layer) (data foreign : Bytes) (k : PanicKind) :
    decodeIp4 old data foreign ≠ .panic k := by
  simp [decodeIp4, decodeWith_eq_spec]

/-- The option loop never runs out of fuel (`len + 1` iterations suffice because every
    iteration consumes ≥ 1 byte), so the call returns a layer/flag/error triple — with Lean's
    own termination check of the model this is "returns in bounded time". -/
theorem decode_terminates (old : Layer) (data foreign : Bytes) :
    ∃ o, decodeIp4 old data foreign = .ok o :=
  ⟨_, decodeWith_eq_spec true old data foreign⟩

/-- The same for the tree WITHOUT the proposed fixes (the decode-side fix lip4-1 is about stale
    state, not about panics). -/
theorem decode_no_panic_unpatched (old : Layer) (data foreign : Bytes) (k : PanicKind) :
    Orig.decodeIp4 old data foreign ≠ .panic k := by
  simp [Orig.decodeIp4, decodeWith_eq_spec]

/-- decodeIPv4 (the function registered for NewPacket; SkipDecodeRecovery irrelevant): no panic,
    the layer is always added and made the network layer. -/
theorem newpacket_no_panic (data foreign : Bytes) :
    ∃ p, decodeIPv4Pkt data foreign = .ok p ∧ p.setNetwork = true := by
  rw [decodeIPv4Pkt, decodeIp4, decodeWith_eq_spec]
  exact ⟨_, rfl, rfl⟩

/-- Non-vacuity: a packet with options on which all option branches are taken. -/
example : (decodeIp4 fresh [0x47, 0, 0, 28, 0, 0, 0, 0, 64, 17, 0, 0, 1, 2, 3, 4, 5, 6, 7, 8,
    1, 7, 4, 9, 9, 0, 0xaa, 0xbb] []).isOk = true := by decide

end Gp.C19.Ip4
