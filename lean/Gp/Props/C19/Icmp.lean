import Gp.Lemmas.Layers.IcmpRt
/-
  C19 for layers/icmp4.go, icmp6.go, icmp6msg.go (engine `licmp`): every ICMP decoder returns
  an error (never panics, never runs away) on EVERY byte string, for every old value of the
  layer object and EVERY capacity / foreign bytes behind the input slice:
    * direct `DecodeFromBytes` of the eight layer types,
    * the registered decode functions as NewPacket runs them with SkipDecodeRecovery
      (`pktRun`: DecodeFromBytes, AddLayer, NextDecoder chain ICMPv6 → message → Payload),
    * the DecodingLayerParser loop with IgnorePanic (`dlpRun`) over reused objects.
  Termination: all decoders except the NDP option loop are non-recursive total functions; the
  loop `for len(data) > 0` is modelled with fuel = len(data) and `options_loop_total` proves the
  fuel always suffices (every iteration consumes `length ≥ 8` bytes) — a result `.ok _` exists
  for every input (`.err "fuel"` = ran out of fuel is excluded together with `.panic`).
  Also here: the option renderer `ICMPv6Option.String` (the only renderer of these layers with
  unguarded slice expressions) cannot panic on any option a decoder can leave in a layer.
-/
namespace Gp.C19.Icmp
open Gp Gp.Icmp

/-! ### direct DecodeFromBytes: a normal return exists for every input -/

theorem decodeICMPv4_total (old : ICMPv4) (data foreign : Bytes) :
    ∃ r, decodeICMPv4 old ⟨data, foreign⟩ = .ok r := ⟨_, decodeICMPv4_eq old data foreign⟩

theorem decodeICMPv6_total (old : ICMPv6) (data foreign : Bytes) :
    ∃ r, decodeICMPv6 old ⟨data, foreign⟩ = .ok r := ⟨_, decodeICMPv6_eq old data foreign⟩

theorem decodeEcho_total (old : Echo) (data foreign : Bytes) :
    ∃ r, decodeEcho old ⟨data, foreign⟩ = .ok r := ⟨_, decodeEcho_eq old data foreign⟩

theorem decodeRS_total (old : RS) (data foreign : Bytes) :
    ∃ r, decodeRS old ⟨data, foreign⟩ = .ok r := ⟨_, decodeRS_eq old data foreign⟩

theorem decodeRA_total (old : RA) (data foreign : Bytes) :
    ∃ r, decodeRA old ⟨data, foreign⟩ = .ok r := ⟨_, decodeRA_eq old data foreign⟩

theorem decodeNS_total (old : NS) (data foreign : Bytes) :
    ∃ r, decodeNS old ⟨data, foreign⟩ = .ok r := ⟨_, decodeNS_eq old data foreign⟩

theorem decodeNA_total (old : NA) (data foreign : Bytes) :
    ∃ r, decodeNA old ⟨data, foreign⟩ = .ok r := ⟨_, decodeNA_eq old data foreign⟩

theorem decodeRedirect_total (old : Redirect) (data foreign : Bytes) :
    ∃ r, decodeRedirect old ⟨data, foreign⟩ = .ok r := ⟨_, decodeRedirect_eq old data foreign⟩

/-- The eight at once: `DecodeFromBytes` on an object of any kind never panics … -/
theorem decode_no_panic (old : AnyLayer) (data foreign : Bytes) (k : PanicKind) :
    old.decode ⟨data, foreign⟩ ≠ .panic k := by
  rw [decodeAny_eq]; intro h; cases h

/-- … and never runs out of fuel (the option loop terminates within `len(data)` iterations). -/
theorem decode_terminates (old : AnyLayer) (data foreign : Bytes) (e : String) :
    old.decode ⟨data, foreign⟩ ≠ .err e := by
  rw [decodeAny_eq]; intro h; cases h

/-- The NDP option loop on its own: any accumulated list, any capacity; fuel `len` suffices. -/
theorem options_loop_total (data foreign : Bytes) (acc : List Opt) (fuel : Nat)
    (h : data.length ≤ fuel) : ∃ r, decodeOpts fuel ⟨data, foreign⟩ acc = .ok r :=
  ⟨_, decodeOpts_eq fuel data foreign acc h⟩

/-- Malformed input is an ERROR with the truncated flag, e.g. an option of length 0 … -/
theorem option_length_zero_is_error (t : UInt8) (rest foreign : Bytes) (acc : List Opt) (fuel : Nat) :
    decodeOpts (fuel + 1) ⟨t :: 0 :: rest, foreign⟩ acc = .ok ⟨acc, true, true⟩ := by
  simp [decodeOpts, CSlice.len, CSlice.index, Gp.index]

/-- … or an option announcing more bytes than are left (the foreign bytes are NOT read). -/
theorem option_overlong_is_error (t lb : UInt8) (rest foreign : Bytes) (acc : List Opt)
    (h : rest.length + 2 < lb.toNat * 8) :
    decodeOpts (rest.length + 2) ⟨t :: lb :: rest, foreign⟩ acc = .ok ⟨acc, true, true⟩ := by
  rw [decodeOpts_eq _ _ _ _ (by simp)]
  have h0 : lb.toNat * 8 ≠ 0 := by omega
  simp [parseOpts, h0, h]

/-! ### NewPacket with SkipDecodeRecovery, DecodingLayerParser with IgnorePanic -/

/-- The registered decode functions (`decodeICMPv4`, `decodeICMPv6`, `decodeICMPv6Echo`, …) run
    by NewPacket WITHOUT recovery return a packet for every input: no panic, depth ≤ 3. -/
theorem newpacket_total (k : Kind) (data : Bytes) : ∃ o, pktRun 3 k data = .ok o := by
  by_cases hk : k = .icmp6
  · subst hk
    unfold pktRun
    rw [decodeAny_eq]
    simp only [Res.bind_ok]
    split
    · exact ⟨_, rfl⟩
    · split
      · exact ⟨_, rfl⟩
      · split
        · exact ⟨_, rfl⟩
        · rename_i t _
          split
          · exact ⟨_, rfl⟩
          · rename_i k2 hk2
            have hl : ∃ v, (pureAny (fresh .icmp6) data).layer = .icmp6 v := by
              simp only [fresh, pureAny]; exact ⟨_, rfl⟩
            obtain ⟨v, hv⟩ := hl
            rw [hv] at hk2
            have hne := (nextICMPv6_kind v k2 hk2).1
            obtain ⟨o, ho⟩ := pktRun_leaf 1 k2 hne (pureAny (fresh .icmp6) data).layer.payload
            rw [ho]; exact ⟨_, rfl⟩
  · exact pktRun_leaf 2 k hk data

theorem newpacket_no_panic (k : Kind) (data : Bytes) (pk : PanicKind) :
    pktRun 3 k data ≠ .panic pk := by
  obtain ⟨o, ho⟩ := newpacket_total k data
  rw [ho]; intro h; cases h

/-- The layer parser (IgnorePanic: nothing is recovered) over ANY state of the reused objects. -/
theorem parser_total (k : Kind) (o : Objs) (data : Bytes) :
    ∃ r, dlpRun 3 k o data [] false = .ok r := by
  by_cases hk : k = .icmp6
  · subst hk
    unfold dlpRun
    rw [decodeAny_eq]
    simp only [Res.bind_ok]
    split
    · exact ⟨_, rfl⟩
    · split
      · exact ⟨_, rfl⟩
      · split
        · exact ⟨_, rfl⟩
        · split
          · exact ⟨_, rfl⟩
          · rename_i k2 hk2
            have hl : ∃ v, (pureAny (o.get .icmp6) data).layer = .icmp6 v := by
              simp only [Objs.get, pureAny]; exact ⟨_, rfl⟩
            obtain ⟨v, hv⟩ := hl
            rw [hv] at hk2
            have hne := (nextICMPv6_kind v k2 hk2).1
            exact dlpRun_leaf 1 k2 hne _ _ _ _
  · exact dlpRun_leaf 2 k hk o data [] false

theorem parser_no_panic (k : Kind) (o : Objs) (data : Bytes) (pk : PanicKind) :
    dlpRun 3 k o data [] false ≠ .panic pk := by
  obtain ⟨r, hr⟩ := parser_total k o data
  rw [hr]; intro h; cases h

/-! ### the option renderer on decoded layers (C01: String/Dump of a decoded packet) -/

/-- `ICMPv6Option.String` indexes `Data[2:6]`, `Data[6+16j : 6+16(j+1)]` (RecursiveDNSServer)
    without a length check; every option a successful decode leaves in a layer has at least 6
    data bytes (`wfOpt`), so none of these accesses can panic. -/
theorem decoded_options_render_total (old : AnyLayer) (data foreign : Bytes) (r : Dec AnyLayer)
    (hu : Untouched old) (e : old.decode ⟨data, foreign⟩ = .ok r) (he : r.err = false) :
    ∀ o ∈ optionsOf r.layer, optStringAccess o = .ok () := by
  rw [decodeAny_eq] at e
  cases e
  intro o ho
  exact optStringAccess_ok o (wfOpt_len o (wf_options _ (pureAny_wf old data hu he) o ho))

/-- … while a hand-built RecursiveDNSServer option with fewer than 6 data bytes does panic
    (not reachable by decoding; listed for the record). -/
theorem short_rdnss_option_renderer_panics :
    optStringAccess ⟨25, [1, 2, 3]⟩ = .panic .slice := by decide

/-! ### non-vacuity / regression inputs (shapes that tempt an out-of-bounds read) -/

example : (decodeICMPv4 {} ⟨[8, 0, 0, 0, 0, 1, 0], [9, 9, 9, 9]⟩) = .ok ⟨{}, true, true⟩ := by decide
example : (decodeNS {} ⟨List.replicate 20 0 ++ [1, 2, 0, 0], List.replicate 16 7⟩).isOk = true := by decide
example : (decodeNS {} ⟨List.replicate 20 0 ++ [1, 2, 0, 0], List.replicate 16 7⟩) =
    .ok ⟨{ contents := List.replicate 20 0 ++ [1, 2, 0, 0], targetAddress := List.replicate 16 0 }, true, true⟩ := by decide
example : (match pktRun 3 .icmp6 [135, 0, 0, 0, 0, 0, 0] with | .ok o => o.err && o.trunc | _ => false) = true := by decide

end Gp.C19.Icmp
