import Gp.Lemmas.Layers.Rmcp
import Gp.Lemmas.Layers.RmcpMdp
/-
  C19 (engine `lrmcp`) — the RMCP, ASF, AGUEVar0 and MDP decoders return errors, not panics.

  Model: `Gp/Model/Layers/Rmcp.lean`, `RmcpMdp.lean` — `X.decodeFromBytes` transcribe the four DecodeFromBytes
  methods with Go panic semantics for every index and slice expression (a slice `s[a:b]` panics iff
  ¬(a ≤ b ∧ b ≤ cap), an index iff i ≥ len), for an input slice of ANY capacity (`GSlice.tail` = the
  foreign bytes between len and cap).  `decodeRMCPFn`/`decodeASFFn`/`decodeAGUEFn`/`decodeMDPFn` are the
  functions registered for NewPacket, `dlpDecodeLayers` the DecodingLayerParser loop over RMCP, ASF, AGUEVar0.
  Only property-level theorems here; helpers are in `Gp/Lemmas/Layers/Rmcp*.lean`.
-/
namespace Gp.C19.Rmcp
open Gp Gp.Rmcp

/-- Direct `(*RMCP).DecodeFromBytes` never panics: any receiver state, any bytes, any capacity, any
    foreign bytes behind the input. -/
theorem decode_no_panic_rmcp (old : RMCP) (d : GSlice) (k : PanicKind) :
    old.decodeFromBytes d ≠ .panic k := by
  by_cases h : d.len < 4
  · rw [RMCP.decode_short old d h]; exact fun h => nomatch h
  · rw [RMCP.decode_long old d (by omega)]; exact fun h => nomatch h

/-- The same in the shape asked for by the brief (`cap = |data| + |foreign|`). -/
theorem decode_no_panic (old : RMCP) (data foreign : Bytes) (k : PanicKind) :
    decodeRmcp old data foreign ≠ .panic k := by
  unfold decodeRmcp
  have := decode_no_panic_rmcp old { vis := data, tail := foreign }
  split
  · split <;> exact fun h => nomatch h
  · exact fun h => nomatch h
  · rename_i k' hk; exact absurd hk (this k')

/-- Direct `(*ASF).DecodeFromBytes` never panics. -/
theorem decode_no_panic_asf (old : ASF) (d : GSlice) (k : PanicKind) :
    old.decodeFromBytes d ≠ .panic k := by
  by_cases h : d.len < 8
  · rw [ASF.decode_short old d h]; exact fun h => nomatch h
  · rw [ASF.decode_long old d (by omega)]; exact fun h => nomatch h

theorem decode_no_panic_asf_view (old : ASF) (data foreign : Bytes) (k : PanicKind) :
    decodeAsfView old data foreign ≠ .panic k := by
  unfold decodeAsfView
  have := decode_no_panic_asf old { vis := data, tail := foreign }
  split
  · split <;> exact fun h => nomatch h
  · exact fun h => nomatch h
  · rename_i k' hk; exact absurd hk (this k')

/-- Direct `(*AGUEVar0).DecodeFromBytes` (with fix all-2) never panics: every value of the first byte
    (version, C, extension length 0…31) against every input length and capacity. -/
theorem decode_no_panic_ague (old : AGUE) (d : GSlice) (k : PanicKind) :
    old.decodeFromBytes d ≠ .panic k := by
  by_cases h : d.len < 4
  · rw [AGUE.decode_short old d h]; exact fun h => nomatch h
  · rw [AGUE.decode_long old d (by omega)]; exact fun h => nomatch h

theorem decode_no_panic_ague_view (old : AGUE) (data foreign : Bytes) (k : PanicKind) :
    decodeAgueView old data foreign ≠ .panic k := by
  unfold decodeAgueView
  have := decode_no_panic_ague old { vis := data, tail := foreign }
  split
  · split <;> exact fun h => nomatch h
  · exact fun h => nomatch h
  · rename_i k' hk; exact absurd hk (this k')

/-- `RMCP.NextLayerType` indexes a 16-entry array with the Class byte; on every DECODED layer the class
    is below 16 (the decoder masks with 0xF), so the call made by `decodeRMCP` and by the parser loop
    cannot panic. -/
theorem nextLayerType_decoded_no_panic (old : RMCP) (d : GSlice) (o : DecOut RMCP)
    (h : old.decodeFromBytes d = .ok o) (he : o.err = false) :
    o.layer.cls < 16 ∧ o.layer.nextLayerType = .ok (rmcpNextOf o.layer.cls) := by
  by_cases hs : d.len < 4
  · rw [RMCP.decode_short old d hs] at h; cases h; cases he
  · rw [RMCP.decode_long old d (by omega)] at h
    cases h
    exact ⟨rmcpLayer_cls_lt d.vis, rmcpLayer_next d.vis⟩

/-- Observation (outside the property: not a decoded value): on a hand-built layer with Class ≥ 16,
    `NextLayerType()` — and `RMCPClass.String()`, which calls it — panics with an index out of range. -/
theorem nextLayerType_class16_panics :
    ({ RMCP.fresh with cls := 16 } : RMCP).nextLayerType = .panic .index := by decide

/-- The decoder function registered for `LayerTypeRMCP` (NewPacket with SkipDecodeRecovery) never
    panics, whatever the capacity of the packet buffer (copying, NoCopy, Pool). -/
theorem decodeRMCP_no_panic (d : GSlice) (k : PanicKind) : decodeRMCPFn d ≠ .panic k := by
  unfold decodeRMCPFn
  by_cases h : d.len < 4
  · rw [RMCP.decode_short _ d h, Res.bind_ok]; exact fun h => nomatch h
  · rw [RMCP.decode_long _ d (by omega), Res.bind_ok]
    simp only [rmcpDecSpec, Bool.false_eq_true, if_false, rmcpLayer_next d.vis, Res.bind_ok]
    exact fun h => nomatch h

/-- The decoder function registered for `LayerTypeASF` never panics. -/
theorem decodeASF_no_panic (d : GSlice) (k : PanicKind) : decodeASFFn d ≠ .panic k := by
  unfold decodeASFFn
  by_cases h : d.len < 8
  · rw [ASF.decode_short _ d h, Res.bind_ok]; exact fun h => nomatch h
  · rw [ASF.decode_long _ d (by omega), Res.bind_ok]; exact fun h => nomatch h

/-- The decoder function registered for `LayerTypeAGUEVar0`/`LayerTypeAGUEVar1` never panics up to the
    point where it hands variant 1 to `decodeAGUEVar1` (ague_var1.go is not part of this engine). -/
theorem decodeAGUE_no_panic (d : GSlice) (k : PanicKind) : decodeAGUEFn d ≠ .panic k := by
  unfold decodeAGUEFn
  by_cases h0 : d.len = 0
  · rw [if_pos h0]; exact fun h => nomatch h
  · rw [if_neg h0, GSlice.index_ok d 0 (by omega), Res.bind_ok]
    split
    · exact fun h => nomatch h
    · by_cases h : d.len < 4
      · rw [AGUE.decode_short _ d h, Res.bind_ok]
        simp only [pure]
        split <;> exact fun h => nomatch h
      · rw [AGUE.decode_long _ d (by omega), Res.bind_ok]
        simp only [pure]
        split <;> exact fun h => nomatch h

/-- Progress (what makes packet decoding and the parser loop terminate): a successfully decoded RMCP
    layer hands on a payload exactly 4 bytes shorter than its input … -/
theorem rmcp_payload_shorter (old : RMCP) (d : GSlice) (o : DecOut RMCP)
    (h : old.decodeFromBytes d = .ok o) (he : o.err = false) :
    o.layer.payload.length + 4 ≤ d.len := by
  by_cases hs : d.len < 4
  · rw [RMCP.decode_short old d hs] at h; cases h; cases he
  · rw [RMCP.decode_long old d (by omega)] at h
    cases h
    exact rmcpDecSpec_payload_le d.vis (by unfold GSlice.len at hs; omega)

/-- … an ASF header one 8 bytes shorter … -/
theorem asf_payload_shorter (old : ASF) (d : GSlice) (o : DecOut ASF)
    (h : old.decodeFromBytes d = .ok o) (he : o.err = false) :
    o.layer.payload.length + 8 ≤ d.len := by
  by_cases hs : d.len < 8
  · rw [ASF.decode_short old d hs] at h; cases h; cases he
  · rw [ASF.decode_long old d (by omega)] at h
    cases h
    exact asfDecSpec_payload_le d.vis (by unfold GSlice.len at hs; omega)

/-- … and an AGUEVar0 header one at least 4 bytes shorter. -/
theorem ague_payload_shorter (old : AGUE) (d : GSlice) (o : DecOut AGUE)
    (h : old.decodeFromBytes d = .ok o) (he : o.err = false) :
    o.layer.layerPayload.length + 4 ≤ d.len := by
  by_cases hs : d.len < 4
  · rw [AGUE.decode_short old d hs] at h; cases h; cases he
  · rw [AGUE.decode_long old d (by omega)] at h
    cases h
    exact agueDecSpec_payload_le old d.vis he

/-- `DecodingLayerParser.DecodeLayers` over {RMCP, ASF, AGUEVar0} with IgnorePanic (panics let
    through) never panics: any first type, any state of the three re-used layer objects, any bytes,
    any capacity. -/
theorem dlp_no_panic (r : RMCP) (a : ASF) (g : AGUE) (first : Nat) (d : GSlice) (k : PanicKind) :
    dlpDecodeLayers r a g first d ≠ .panic k := dlpLoop_no_panic _ _ _ _ k

/-- Termination ("bounded time"): RMCP/ASF/AGUEVar0 DecodeFromBytes are loop-free (Lean's own
    termination check of the model); the parser loop is fuel-bounded recursion, and the fuel `|data| + 1`
    used by `dlpDecodeLayers` suffices — every larger amount gives the same run, because every iteration
    consumes at least 4 bytes. -/
theorem dlp_fuel_suffices (fuel : Nat) (st : DlpState) (typ : Nat) (d : GSlice) (h : d.len < fuel) :
    dlpLoop fuel st typ d = dlpLoop (d.len + 1) st typ d :=
  dlpLoop_fuel fuel (d.len + 1) st typ d h (Nat.lt_succ_self _)

/-! ## MDP (layers/mdp.go with fix all-12 and the proposed fixes lrmcp-1, lrmcp-2) -/

/-- Direct `(*MDP).DecodeFromBytes` never panics: any TLV list — any type bytes, any length bytes
    (0, 1, beyond the end) — any capacity. -/
theorem decode_no_panic_mdp (old : MDP) (d : GSlice) (k : PanicKind) :
    old.decodeFromBytes d ≠ .panic k := MDP.decode_no_panic old d k

theorem decode_no_panic_mdp_view (old : MDP) (data foreign : Bytes) (k : PanicKind) :
    decodeMdpView old data foreign ≠ .panic k := by
  unfold decodeMdpView
  have := decode_no_panic_mdp old { vis := data, tail := foreign }
  split
  · split <;> exact fun h => nomatch h
  · exact fun h => nomatch h
  · rename_i k' hk; exact absurd hk (this k')

/-- The decoder function registered for `LayerTypeMDP` never panics. -/
theorem decodeMDP_no_panic (d : GSlice) (k : PanicKind) : decodeMDPFn d ≠ .panic k := by
  unfold decodeMDPFn
  have := MDP.decode_no_panic MDP.fresh d
  cases hr : MDP.fresh.decodeFromBytes d with
  | panic k' => exact absurd hr (this k')
  | err e => exact fun h => nomatch h
  | ok o =>
    rw [Res.bind_ok]
    simp only [pure]
    split <;> exact fun h => nomatch h

/-- Termination of the TLV loop: every iteration ends the loop or consumes at least 2 bytes, so the
    fuel `|data|` handed to `mdpLoop` (at offset 28 ≤ |data|) by `MDP.decodeFromBytes` suffices — any larger amount gives the
    same result (the loop is never cut short by the fuel). -/
theorem mdp_fuel_suffices (f1 f2 : Nat) (m : MDP) (d : GSlice) (off : Nat)
    (hm : m.length = d.len) (ho : off ≤ d.len) (h1 : d.len < f1 + off) (h2 : d.len < f2 + off) :
    mdpLoop f1 m d off = mdpLoop f2 m d off := mdpLoop_fuel f1 f2 m d off hm ho h1 h2

/-! Non-vacuity: error and success paths are inhabited, with spare capacity full of foreign bytes. -/

example : decodeRmcp RMCP.fresh [6,0,1] [9,9,9,9,9,9,9,9] = .err "rmcp" := by decide

example : decodeRmcp RMCP.fresh [6,0,0xff,0x86, 0xAA] [0xEE] =
    .ok ({ contents := [6,0,0xff,0x86], payload := [0xAA], version := 6, sequence := 255, ack := true, cls := 6 }, false) := by
  decide

example : decodeAsfView ASF.fresh [0,0,0x11,0xbe,0x40,7,0,16, 1,2] [9] =
    .ok ({ contents := [0,0,0x11,0xbe,0x40,7,0,16], payload := [1,2], enterprise := 4542, typ := 0x40, tag := 7,
           length := 16 }, false) := by decide

/-- the case the property is about: the header announces 3 extension bytes, 2 are present, the CAPACITY
    (6 + 10) would cover them: an error, not a read of foreign bytes -/
example : decodeAgueView AGUE.fresh [0x23, 4, 0, 1, 7, 7] [9,9,9,9,9,9,9,9,9,9] = .err "ague" := by decide

example : decodeAgueView AGUE.fresh [0xA2, 41, 0x80, 1, 7, 8, 0x60] [9] =
    .ok ({ version := 2, c := true, protocol := 41, flags := 0x8001, extensions := [7,8], data := [0x60] }, false) := by
  decide

end Gp.C19.Rmcp
