import Gp.Lemmas.Layers.Arp
/-
  C19 (engine `larp`) — the ARP, Loopback and ERSPAN II decoders return errors, not panics.

  Model: `Gp/Model/Layers/Arp.lean` — `ARP.decodeFromBytes`, `Loopback.decodeFromBytes`,
  `ERSPANII.decodeFromBytes` transcribe the three DecodeFromBytes methods with Go panic semantics for
  every index and slice expression (a slice `s[a:b]` panics iff ¬(a ≤ b ∧ b ≤ cap), an index iff
  i ≥ len), for an input slice of ANY capacity (`GSlice.tail` = the foreign bytes between len and
  cap).  `decodeARPFn`/`decodeLoopbackFn`/`decodeERSPANIIFn` are the functions registered for
  NewPacket, `dlpDecodeLayers` the DecodingLayerParser loop over these three layers.
  Only property-level theorems here; helpers are in `Gp/Lemmas/Layers/Arp.lean`.
-/
namespace Gp.C19.Arp
open Gp Gp.Arp

/-- Direct `(*ARP).DecodeFromBytes` never panics: any receiver state, any bytes — in particular any
    HwAddressSize/ProtAddressSize announced by the packet —, any capacity, any foreign bytes behind
    the input. -/
theorem decode_no_panic_arp (old : ARP) (d : GSlice) (k : PanicKind) :
    old.decodeFromBytes d ≠ .panic k := by
  by_cases h : d.len < 8
  · rw [ARP.decode_short old d h]; exact fun h => nomatch h
  · rw [ARP.decode_long old d (by omega)]; exact fun h => nomatch h

/-- The same in the shape asked for by the brief (`cap = |data| + |foreign|`). -/
theorem decode_no_panic (old : ARP) (data foreign : Bytes) (k : PanicKind) :
    decodeArp old data foreign ≠ .panic k := by
  unfold decodeArp
  have := decode_no_panic_arp old { vis := data, tail := foreign }
  split
  · split <;> exact fun h => nomatch h
  · exact fun h => nomatch h
  · rename_i k' hk; exact absurd hk (this k')

/-- Direct `(*Loopback).DecodeFromBytes` never panics (either byte order, any 32-bit family value). -/
theorem decode_no_panic_loopback (old : Loopback) (d : GSlice) (k : PanicKind) :
    old.decodeFromBytes d ≠ .panic k := by
  by_cases h : d.len < 4
  · rw [Loopback.decode_short old d h]; exact fun h => nomatch h
  · rw [Loopback.decode_long old d (by omega)]; exact fun h => nomatch h

theorem decode_no_panic_loopback_view (old : Loopback) (data foreign : Bytes) (k : PanicKind) :
    decodeLoopbackView old data foreign ≠ .panic k := by
  unfold decodeLoopbackView
  have := decode_no_panic_loopback old { vis := data, tail := foreign }
  split
  · split <;> exact fun h => nomatch h
  · exact fun h => nomatch h
  · rename_i k' hk; exact absurd hk (this k')

/-- Direct `(*ERSPANII).DecodeFromBytes` never panics. -/
theorem decode_no_panic_erspan2 (old : ERSPANII) (d : GSlice) (k : PanicKind) :
    old.decodeFromBytes d ≠ .panic k := by
  by_cases h : d.len < 8
  · rw [ERSPANII.decode_short old d h]; exact fun h => nomatch h
  · rw [ERSPANII.decode_long old d (by omega)]; exact fun h => nomatch h

theorem decode_no_panic_erspan2_view (old : ERSPANII) (data foreign : Bytes) (k : PanicKind) :
    decodeErspan2View old data foreign ≠ .panic k := by
  unfold decodeErspan2View
  have := decode_no_panic_erspan2 old { vis := data, tail := foreign }
  split
  · split <;> exact fun h => nomatch h
  · exact fun h => nomatch h
  · rename_i k' hk; exact absurd hk (this k')

/-- The decoder function registered for `LayerTypeARP` (NewPacket with SkipDecodeRecovery) never
    panics, whatever the capacity of the packet buffer (copying, NoCopy, Pool). -/
theorem decodeARP_no_panic (d : GSlice) (k : PanicKind) : decodeARPFn d ≠ .panic k := by
  unfold decodeARPFn
  by_cases h : d.len < 8
  · rw [ARP.decode_short _ d h, Res.bind_ok]; exact fun h => nomatch h
  · rw [ARP.decode_long _ d (by omega), Res.bind_ok]; exact fun h => nomatch h

/-- The decoder function registered for `LayerTypeLoopback` never panics. -/
theorem decodeLoopback_no_panic (d : GSlice) (k : PanicKind) : decodeLoopbackFn d ≠ .panic k := by
  unfold decodeLoopbackFn
  by_cases h : d.len < 4
  · rw [Loopback.decode_short _ d h, Res.bind_ok]
    simp only [pure]
    split <;> exact fun h => nomatch h
  · rw [Loopback.decode_long _ d (by omega), Res.bind_ok]
    simp only [pure]
    split <;> exact fun h => nomatch h

/-- The decoder function registered for `LayerTypeERSPANII` never panics. -/
theorem decodeERSPANII_no_panic (d : GSlice) (k : PanicKind) : decodeERSPANIIFn d ≠ .panic k := by
  unfold decodeERSPANIIFn
  by_cases h : d.len < 8
  · rw [ERSPANII.decode_short _ d h, Res.bind_ok]; exact fun h => nomatch h
  · rw [ERSPANII.decode_long _ d (by omega), Res.bind_ok]; exact fun h => nomatch h

/-- Progress (what makes packet decoding and the parser loop terminate): a successfully decoded ARP
    layer hands on a payload at least 8 bytes shorter than its input … -/
theorem arp_payload_shorter (old : ARP) (d : GSlice) (o : DecOut ARP)
    (h : old.decodeFromBytes d = .ok o) (he : o.err = false) :
    o.layer.payload.length + 8 ≤ d.len := by
  by_cases hs : d.len < 8
  · rw [ARP.decode_short old d hs] at h; cases h; cases he
  · rw [ARP.decode_long old d (by omega)] at h
    cases h
    exact arpDecSpec_payload_le old d.vis he

/-- … a Loopback header one exactly 4 bytes shorter … -/
theorem loopback_payload_shorter (old : Loopback) (d : GSlice) (o : DecOut Loopback)
    (h : old.decodeFromBytes d = .ok o) (he : o.err = false) :
    o.layer.payload.length + 4 ≤ d.len := by
  by_cases hs : d.len < 4
  · rw [Loopback.decode_short old d hs] at h; cases h; cases he
  · rw [Loopback.decode_long old d (by omega)] at h
    cases h
    exact loDecSpec_payload_le old d.vis (by unfold GSlice.len at hs; omega) he

/-- … and an ERSPAN II header one 8 bytes shorter. -/
theorem erspan2_payload_shorter (old : ERSPANII) (d : GSlice) (o : DecOut ERSPANII)
    (h : old.decodeFromBytes d = .ok o) (he : o.err = false) :
    o.layer.payload.length + 8 ≤ d.len := by
  by_cases hs : d.len < 8
  · rw [ERSPANII.decode_short old d hs] at h; cases h; cases he
  · rw [ERSPANII.decode_long old d (by omega)] at h
    cases h
    exact erDecSpec_payload_le d.vis (by unfold GSlice.len at hs; omega)

/-- `DecodingLayerParser.DecodeLayers` over {ARP, Loopback, ERSPANII} with IgnorePanic (panics let
    through) never panics: any first type, any state of the three re-used layer objects, any bytes,
    any capacity. -/
theorem dlp_no_panic (arp : ARP) (lo : Loopback) (er : ERSPANII) (first : Nat) (d : GSlice) (k : PanicKind) :
    dlpDecodeLayers arp lo er first d ≠ .panic k := dlpLoop_no_panic _ _ _ _ k

/-- Termination ("bounded time"): the three DecodeFromBytes methods are loop-free (Lean's own
    termination check of the model — the only recursion is the structural `copyAddrs`/`dlpLoop`);
    the parser loop is fuel-bounded recursion, and the fuel `|data| + 1` used by `dlpDecodeLayers`
    suffices — every larger amount gives the same run, because every iteration consumes at least
    4 bytes (`arp_payload_shorter`, `loopback_payload_shorter`, `erspan2_payload_shorter`). -/
theorem dlp_fuel_suffices (fuel : Nat) (st : DlpState) (typ : Nat) (d : GSlice) (h : d.len < fuel) :
    dlpLoop fuel st typ d = dlpLoop (d.len + 1) st typ d :=
  dlpLoop_fuel fuel (d.len + 1) st typ d h (Nat.lt_succ_self _)

/-! Non-vacuity: error and success paths are inhabited, with spare capacity full of foreign bytes.
    The second example is the case the brief asks about: the sizes announced by the packet
    (6 and 4 → 28 bytes) exceed the 12 bytes present while the CAPACITY (12 + 20) would cover them:
    an error, not a read of foreign bytes. -/

example : decodeArp ARP.fresh [0,1,8,0,6,4,0] [9,9,9,9,9,9,9,9,9,9,9,9,9,9,9,9] = .err "arp" := by decide

example : decodeArp ARP.fresh [0,1,8,0,6,4,0,1, 1,2,3,4]
    [9,9,9,9,9,9,9,9,9,9,9,9,9,9,9,9,9,9,9,9] = .err "arp" := by decide

example : decodeArp ARP.fresh [0,1,8,0,2,1,0,2, 0xA,0xB, 0xC, 0xD,0xE, 0xF, 0x77] [0xEE] =
    .ok ({ contents := [0,1,8,0,2,1,0,2, 0xA,0xB, 0xC, 0xD,0xE, 0xF], payload := [0x77],
           addrType := 1, protocol := 0x0800, hwAddressSize := 2, protAddressSize := 1, operation := 2,
           sourceHwAddress := [0xA,0xB], sourceProtAddress := [0xC], dstHwAddress := [0xD,0xE],
           dstProtAddress := [0xF] }, false) := by decide

example : decodeLoopbackView Loopback.fresh [0,0,0,30, 0x60] [] =
    .ok ({ contents := [0,0,0,30], payload := [0x60], family := 30 }, false) := by decide

example : decodeLoopbackView Loopback.fresh [2,0,0,0, 0x45] [1] =
    .ok ({ contents := [2,0,0,0], payload := [0x45], family := 2 }, false) := by decide

example : decodeLoopbackView Loopback.fresh [2,1,0,0, 0x45] [] = .err "loopback" := by decide

example : decodeErspan2View ERSPANII.fresh [0x12, 0xaa, 0x96, 0xaa, 0x15, 0x5F, 0x0F, 0x0F, 0x01] [] =
    .ok ({ contents := [0x12, 0xaa, 0x96, 0xaa, 0x15, 0x5F, 0x0F, 0x0F], payload := [1],
           isTruncated := true, version := 1, cos := 4, trunkEncap := 2, vlan := 0x2aa,
           sessionID := 0x2aa, reserved := 0x155, index := 0xF0F0F }, false) := by decide

end Gp.C19.Arp
