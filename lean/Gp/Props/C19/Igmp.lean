import Gp.Lemmas.Layers.IgmpFn
/-
  C19 (engine `ligmp`) — the IGMPv1or2, IGMP (IGMPv3), IPSecAH, IPSecESP and GTPv2 decoders return errors,
  not panics, and do not run away.

  Model: `Gp/Model/Layers/Igmp.lean` — the five DecodeFromBytes methods, the four decoder functions registered
  for NewPacket (`decodeIGMPFn` chooses the struct by type byte and length), and the DecodingLayerParser loop
  over them, WITH proposed_fixes/ligmp-1 … ligmp-5.  Every index and slice expression has Go panic semantics
  (`s[a:b]` panics iff ¬(a ≤ b ∧ b ≤ cap), `s[i]` iff i ≥ len) for an input slice of ANY capacity
  (`GSlice.tail` = the foreign bytes between len and cap).  None of the layers has a SerializeTo method or a
  flow accessor (no C06/C07/C17 part).
  Only property-level theorems here; helpers are in `Gp/Lemmas/Layers/Igmp*.lean`.
-/
namespace Gp.C19.Igmp
open Gp Gp.Igmp

/-! ## Direct DecodeFromBytes -/

/-- Direct `(*IGMPv1or2).DecodeFromBytes` never panics: any receiver state, any bytes, any capacity, any
    foreign bytes behind the input. -/
theorem decode_no_panic_igmp12 (old : IGMPv1or2) (d : GSlice) (k : PanicKind) :
    old.decodeFromBytes d ≠ .panic k := by
  rw [IGMPv1or2.decode_eq]; exact fun h => nomatch h

/-- Direct `(*IGMP).DecodeFromBytes` (IGMPv3 query / report) never panics: any source count, any record
    count, any per-record source count announced by the packet — each is compared with `len(data)` (never
    with the capacity) before the loop that slices by it runs. -/
theorem decode_no_panic (old : IGMP) (d : GSlice) (k : PanicKind) :
    old.decodeFromBytes d ≠ .panic k := by
  rw [IGMP.decode_eq]; exact fun h => nomatch h

/-- Direct `(*IPSecAH).DecodeFromBytes` never panics: any length byte (`(HeaderLength+2)*4` ∈ 8 … 1028; a value
    below 12 or above `len(data)` is an error before `data[12:ActualLength]`). -/
theorem decode_no_panic_ah (old : IPSecAH) (d : GSlice) (k : PanicKind) :
    old.decodeFromBytes d ≠ .panic k := by
  rw [IPSecAH.decode_eq]; exact fun h => nomatch h

theorem decode_no_panic_esp (old : IPSecESP) (d : GSlice) (k : PanicKind) :
    old.decodeFromBytes d ≠ .panic k := by
  rw [IPSecESP.decode_eq]; exact fun h => nomatch h

/-- Direct `(*GTPv2).DecodeFromBytes` never panics, for inputs of ANY length (with proposed_fixes/ligmp-1 the
    offsets are `int`s: before it, inputs of 64 KiB and more made `data[cIndex+4 : cIndex+4+uint16(ieLength)]`
    panic with out-of-order bounds). -/
theorem decode_no_panic_gtp2 (old : GTPv2) (d : GSlice) (k : PanicKind) :
    old.decodeFromBytes d ≠ .panic k := by
  rw [GTPv2.decode_eq]; exact fun h => nomatch h

/-! ## Termination -/

/-- The one unbounded loop inside these decoders — GTPv2's `for cIndex < dLen` over the information elements —
    is modelled as fuel-bounded recursion that reports `.err "fuel"` when the fuel runs out.  It never does:
    from every offset `c ≤ len`, with more fuel than bytes left, the loop returns (no panic, no fuel
    exhaustion) what the specification `ieSpec` says — every iteration advances the offset by at least 4.
    (Before proposed_fixes/ligmp-1 an IE header at offset 65532 announcing 65532 bytes advanced the uint16
    offset by 0 and the loop never ended.) -/
theorem ie_fuel_suffices (d : GSlice) (fuel c : Nat) (l : GTPv2) (hc : c ≤ d.len) (hf : d.len - c < fuel) :
    ieLoop d fuel c l = .ok (ieSpec d.vis fuel c l) := ieLoop_eq d fuel c l hc hf

example : ∃ d : GSlice, ∃ c fuel, c ≤ d.len ∧ d.len - c < fuel ∧ c < d.len :=
  ⟨{ vis := [1, 0, 1, 0, 9], tail := [] }, 0, 6, by decide, by decide, by decide⟩

/-- … so `GTPv2.DecodeFromBytes` (which runs the loop with `len + 1`) always returns a value: never the
    out-of-fuel marker, whatever the input. -/
theorem gtp2_decode_returns (old : GTPv2) (d : GSlice) :
    ∃ o, old.decodeFromBytes d = .ok o := ⟨_, GTPv2.decode_eq old d⟩

/-- The IGMPv3 loops are bounded by counters read from the packet (structural recursion on the count in the
    model — Lean's own termination proof); a successful report run appends exactly the announced number of
    records … -/
theorem igmp3_record_count (v : Bytes) (n ro : Nat) (l : IGMP) (h : (recSpec v n ro l).err = false) :
    (recSpec v n ro l).layer.groupRecords.length = l.groupRecords.length + n := (recSpec_count v n ro l h).1

example : (recSpec [0x22, 0, 0, 0, 0, 0, 0, 1, 1, 0, 0, 0, 224, 0, 0, 1] 1 8 IGMP.fresh).err = false := by decide

/-- … and every decoded source list has exactly the length its count field announces. -/
theorem igmp3_source_count (v : Bytes) (lo n j : Nat) : (addrs v lo n j).length = n := addrs_length v lo n j

/-- Progress (what makes packet decoding and the parser loop terminate): a successfully decoded AH header hands
    on a payload at least 12 bytes shorter than its input … -/
theorem ah_payload_shorter (old : IPSecAH) (d : GSlice) (o : DecOut IPSecAH)
    (h : old.decodeFromBytes d = .ok o) (he : o.err = false) : o.layer.payload.length + 12 ≤ d.len := by
  rw [IPSecAH.decode_eq] at h; cases h
  exact ahDecSpec_payload_le old d.vis he

example : (ahDecSpec IPSecAH.fresh [59, 1, 0, 0, 0, 0, 0, 1, 0, 0, 0, 2, 7]).err = false := by decide

/-- … and a successfully decoded GTPv2 layer has consumed its whole input (Contents = data, empty Payload):
    the IE loop runs to `len(data)`, whatever MessageLength says. -/
theorem gtp2_consumes_input (old : GTPv2) (d : GSlice) (o : DecOut GTPv2)
    (h : old.decodeFromBytes d = .ok o) (he : o.err = false) : o.layer.contents = d.vis ∧ o.layer.payload = [] := by
  rw [GTPv2.decode_eq] at h; cases h
  exact gtpDecSpec_consumes old d.vis he

example : (gtpDecSpec GTPv2.fresh [0x40, 1, 0, 9, 0, 0, 1, 0, 7, 0, 1, 0, 9]).err = false := by decide

/-! ## The registered decoder functions (NewPacket with SkipDecodeRecovery) -/

/-- `decodeIGMP` never panics, whatever the capacity of the packet buffer (copying, NoCopy, Pool): whichever of
    the two structs it chooses, or neither. -/
theorem decodeIGMP_no_panic (d : GSlice) (k : PanicKind) : decodeIGMPFn d ≠ .panic k := by
  rw [decodeIGMPFn_eq]; exact fun h => nomatch h

theorem decodeIPSecAH_no_panic (d : GSlice) (k : PanicKind) : decodeIPSecAHFn d ≠ .panic k := by
  rw [decodeIPSecAHFn_eq]; exact fun h => nomatch h

theorem decodeIPSecESP_no_panic (d : GSlice) (k : PanicKind) : decodeIPSecESPFn d ≠ .panic k := by
  rw [decodeIPSecESPFn_eq]; exact fun h => nomatch h

theorem decodeGTPv2_no_panic (d : GSlice) (k : PanicKind) : decodeGTPv2Fn d ≠ .panic k := by
  rw [decodeGTPv2Fn_eq]; exact fun h => nomatch h

/-! ## DecodingLayerParser with IgnorePanic -/

/-- The parser loop over {IGMP or IGMPv1or2, IPSecAH, IPSecESP, GTPv2} never panics: from any first type, with
    the layer objects in ANY state (left by earlier packets), for any bytes and capacity. -/
theorem dlp_no_panic (useV3 : Bool) (st : DlpState) (first : Nat) (d : GSlice) (k : PanicKind) :
    dlpDecodeLayers useV3 st first d ≠ .panic k := dlpLoop_no_panic useV3 _ _ _ _ k

end Gp.C19.Igmp
