import Gp.Lemmas.Layers.Bfd
/-
  C19 (engine `lbfd`) — the BFD control packet decoder returns errors, not panics.

  Model: `Gp/Model/Layers/Bfd.lean` — `BFD.decodeFromBytes` transcribes `(*BFD).DecodeFromBytes`
  (layers/bfd.go, WITH the proposed fix lbfd-1) with Go panic semantics for every index and slice
  expression (a slice `s[a:b]` panics iff ¬(a ≤ b ∧ b ≤ cap), `s[a:]` iff a > len, an index iff
  i ≥ len), for an input slice of ANY capacity (`GSlice.tail` = the foreign bytes between len and
  cap).  `decodeBFDFn` is the function registered for NewPacket, `dlpDecodeLayers` the
  DecodingLayerParser over one BFD object.  Only property-level theorems here; helpers are in
  `Gp/Lemmas/Layers/Bfd.lean`.

  The code before lbfd-1 violates the property: `prefix_decode_panic_counterexample`.
-/
namespace Gp.C19.Bfd
open Gp Gp.Bfd

/-- Direct `(*BFD).DecodeFromBytes` never panics: any receiver state, any bytes — in particular any
    Length byte, any flag bits, any authentication type and any number of bytes behind the
    mandatory section —, any capacity, any foreign bytes behind the input. -/
theorem decode_no_panic_bfd (old : BFD) (d : GSlice) (k : PanicKind) :
    old.decodeFromBytes d ≠ .panic k := by
  rw [BFD.decode_eq old d]; exact fun h => nomatch h

/-- The same in the shape asked for by the brief (`cap = |data| + |foreign|`). -/
theorem decode_no_panic (old : BFD) (data foreign : Bytes) (k : PanicKind) :
    decodeBfd old data foreign ≠ .panic k := by
  unfold decodeBfd
  have := decode_no_panic_bfd old { vis := data, tail := foreign }
  split
  · split <;> exact fun h => nomatch h
  · exact fun h => nomatch h
  · rename_i k' hk; exact absurd hk (this k')

/-- The decoder function registered for `LayerTypeBFD` (NewPacket with SkipDecodeRecovery) never
    panics, whatever the capacity of the packet buffer (copying, NoCopy, Pool). -/
theorem decodeBFD_no_panic (d : GSlice) (k : PanicKind) : decodeBFDFn d ≠ .panic k := by
  unfold decodeBFDFn
  rw [BFD.decode_eq _ d, Res.bind_ok]
  generalize (if d.len < 24 then _ else _ : DecOut BFD) = o
  by_cases he : o.err = true
  · simp only [he, if_true, pure]; exact fun h => nomatch h
  · simp only [he, pure]; exact fun h => nomatch h

/-- `DecodingLayerParser.DecodeLayers` over {BFD} with IgnorePanic (panics let through) never
    panics: any first type, any state of the re-used layer object, any bytes, any capacity. -/
theorem dlp_no_panic (bfd : BFD) (first : Nat) (d : GSlice) (k : PanicKind) :
    dlpDecodeLayers bfd first d ≠ .panic k := by
  unfold dlpDecodeLayers
  simp only
  split
  · rw [BFD.decode_eq bfd d]
    generalize (if d.len < 24 then _ else _ : DecOut BFD) = o
    by_cases he : o.err = true
    · simp only [he, if_true]; exact fun h => nomatch h
    · simp only [he]; exact fun h => nomatch h
  · split <;> exact fun h => nomatch h

/-- Termination ("bounded time"): DecodeFromBytes, decodeBFD and the parser run over {BFD} are
    loop-free (the model has no recursion at all — Lean's own termination check), and nothing follows
    a BFD layer: a successfully decoded layer hands on an EMPTY payload (the parser loop stops at
    `len(data) == 0`; `decodeBFD` calls no NextDecoder), and its Contents are the whole input. -/
theorem decoded_payload_empty (old : BFD) (d : GSlice) (o : DecOut BFD)
    (h : old.decodeFromBytes d = .ok o) (he : o.err = false) :
    o.layer.layerPayload = [] ∧ o.layer.contents = d.vis ∧ o.layer.nextLayerType = LayerTypeZero := by
  rw [BFD.decode_eq old d] at h
  by_cases hs : d.len < 24
  · rw [if_pos hs] at h; cases h; cases he
  · rw [if_neg hs] at h
    cases h
    exact ⟨(bfdDecSpec_base old d.vis he).2, (bfdDecSpec_base old d.vis he).1, rfl⟩

/-- The code BEFORE lbfd-1 (no `len(data) < 5` check in the keyed branches) violates the property:
    a 27-byte control packet with the A bit, a matching Length byte and a Keyed MD5 section of 3
    bytes makes `data[5:]` panic ("slice bounds out of range [5:0]") — with cap = len and equally
    with spare capacity behind the input. -/
theorem prefix_decode_panic_counterexample :
    ¬ (∀ (old : BFD) (d : GSlice) (k : PanicKind),
        old.decodeWith { Fix.all with checkAuthLen := false } d ≠ .panic k) := by
  intro h
  exact h BFD.fresh ⟨[0x20, 0xc4, 3, 27, 0,0,0,1, 0,0,0,2, 0,0,0,3, 0,0,0,4, 0,0,0,5, 2, 3, 1], [9, 9, 9, 9, 9, 9, 9, 9]⟩
    .slice (by decide)

/-! Non-vacuity: error and success paths are inhabited, with spare capacity full of foreign bytes.
    The second example is the case of lbfd-1 on the fixed code: an error with the truncation flag,
    not a read of the foreign bytes although the CAPACITY would cover `data[1:5]`. -/

example : decodeBfd BFD.fresh [0x20, 0xc0, 3, 24, 0,0,0,1, 0,0,0,2, 0,0,0,3, 0,0,0,4, 0,0,0] [9, 9, 9] = .err "bfd" := by decide

example : BFD.fresh.decodeFromBytes
    ⟨[0x20, 0xc4, 3, 27, 0,0,0,1, 0,0,0,2, 0,0,0,3, 0,0,0,4, 0,0,0,5, 2, 3, 1], [9, 9, 9, 9, 9, 9, 9, 9]⟩ =
    .ok { layer := { BFD.fresh with
                       contents := [0x20, 0xc4, 3, 27, 0,0,0,1, 0,0,0,2, 0,0,0,3, 0,0,0,4, 0,0,0,5, 2, 3, 1],
                                   version := 1, state := 3, authPresent := true, detectMultiplier := 3,
                                   myDiscriminator := 1, yourDiscriminator := 2, desiredMinTxInterval := 3,
                                   requiredMinRxInterval := 4, requiredMinEchoRxInterval := 5,
                                   authHeader := some { authType := 2, keyID := 1, sequenceNumber := 0, data := [] } },
          trunc := true, err := true } := by decide

example : decodeBfd BFD.fresh
    [0x20, 0xc4, 3, 35, 0,0,0,1, 0,0,0,2, 0,0,0,3, 0,0,0,4, 0,0,0,5, 4, 11, 7, 0, 0,0,1,0, 0xaa, 0xbb, 0xcc] [0xEE] =
    .ok ({ BFD.fresh with
             contents := [0x20, 0xc4, 3, 35, 0,0,0,1, 0,0,0,2, 0,0,0,3, 0,0,0,4, 0,0,0,5, 4, 11, 7, 0, 0,0,1,0, 0xaa, 0xbb, 0xcc],
                          version := 1, state := 3, authPresent := true, detectMultiplier := 3,
                          myDiscriminator := 1, yourDiscriminator := 2, desiredMinTxInterval := 3,
                          requiredMinRxInterval := 4, requiredMinEchoRxInterval := 5,
                          authHeader := some { authType := 4, keyID := 7, sequenceNumber := 256, data := [0xaa, 0xbb, 0xcc] } },
         false) := by decide

end Gp.C19.Bfd
