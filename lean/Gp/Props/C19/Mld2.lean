import Gp.Lemmas.Layers.Mld2
/-
  C19 (engine `lmld2`) — the MLDv2 query / report decoders return errors, not panics.

  Model: `Gp/Model/Layers/Mld2.lean` — `Query.decodeFromBytes` / `Report.decodeFromBytes` /
  `Rec.decode` transcribe the DecodeFromBytes methods of layers/mldv2.go (with fixes lmld2-1/2) with
  Go panic semantics for every index and slice expression, for an input slice of ANY capacity
  (`GSlice.tail` = the foreign bytes between len and cap).  `decodeQueryFn` / `decodeReportFn` are
  the functions registered for NewPacket.  Only property-level theorems here; helpers are in
  `Gp/Lemmas/Layers/Mld2.lean`.
-/
namespace Gp.C19.Mld2
open Gp Gp.Mld Gp.Mld2

/-- Direct `DecodeFromBytes` of the MLDv2 query never panics: any receiver state, any bytes, any
    capacity, any foreign bytes behind the input — in particular any NumberOfSources against any
    number of remaining bytes. -/
theorem query_decode_no_panic_slice (old : Query) (d : GSlice) (k : PanicKind) :
    old.decodeFromBytes d ≠ .panic k := by
  rw [Query.decode_spec]; exact fun h => nomatch h

/-- The same for the report (any NumberOfMulticastAddressRecords, record N, AuxDataLen). -/
theorem report_decode_no_panic_slice (old : Report) (d : GSlice) (k : PanicKind) :
    old.decodeFromBytes d ≠ .panic k := by
  rw [Report.decode_spec]; exact fun h => nomatch h

/-- In the shape asked for by the brief (`cap = |data| + |foreign|`). -/
theorem decode_no_panic (oldq : Query) (oldr : Report) (data foreign : Bytes) (k : PanicKind) :
    decodeQuery oldq data foreign ≠ .panic k ∧ decodeReport oldr data foreign ≠ .panic k := by
  unfold decodeQuery decodeReport
  rw [Query.decode_spec, Report.decode_spec]
  simp only
  constructor <;> (split <;> exact fun h => nomatch h)

/-- A single multicast address record (the report's inner decoder) never panics either. -/
theorem record_decode_no_panic (d : GSlice) (k : PanicKind) : Rec.decode d ≠ .panic k := by
  rw [Rec.decode_spec]; exact fun h => nomatch h

/-- The decoder functions registered for LayerTypeMLDv2MulticastListenerQuery / …Report (NewPacket
    with SkipDecodeRecovery) never panic, whatever the capacity of the packet buffer. -/
theorem decodeFn_no_panic (d : GSlice) (k : PanicKind) :
    decodeQueryFn d ≠ .panic k ∧ decodeReportFn d ≠ .panic k := by
  unfold decodeQueryFn decodeReportFn
  rw [Query.decode_spec, Report.decode_spec, Res.bind_ok, Res.bind_ok]
  exact ⟨(fun h => nomatch h), fun h => (nomatch h)⟩

/-- A short input is an *error* with the truncation flag and an untouched receiver, never a read of
    the foreign bytes, whatever the capacity. -/
theorem decode_short_is_error (oldq : Query) (oldr : Report) (data foreign : Bytes) :
    (data.length < 24 → oldq.decodeFromBytes { vis := data, tail := foreign } =
        .ok { layer := oldq, trunc := true, err := true }) ∧
    (data.length < 4 → oldr.decodeFromBytes { vis := data, tail := foreign } =
        .ok { layer := oldr, trunc := true, err := true }) := by
  constructor
  · intro h; rw [Query.decode_spec]; simp only [queryDecSpec, if_pos h]
  · intro h; rw [Report.decode_spec]; simp only [reportDecSpec, if_pos h]

/-- Termination ("bounded time", `decode_terminates`): the loops of the model are structural
    recursion on the announced count (Lean's own termination check: `srcLoop` runs at most
    NumberOfSources ≤ 65535 iterations, `recLoop` at most NumberOfMulticastAddressRecords), and every
    record-loop iteration that does not end the loop consumes at least 20 bytes and never more than
    it was given — so `begin` never leaves the data (`data[begin:]` cannot panic). -/
theorem record_consumes (v : Bytes) (h : (recDecSpec v).err = false) :
    20 ≤ (recDecSpec v).read ∧ (recDecSpec v).read ≤ v.length := recDecSpec_read v h

/-! Non-vacuity: success and error paths are inhabited, with spare capacity full of foreign bytes.
    24 visible header bytes announcing 1 source while only the CAPACITY holds 16 more bytes: an error
    (truncated), not a read of foreign memory. -/
example :
    Query.fresh.decodeFromBytes
      { vis := [0,10, 0,0, 0xff,2,0,0,0,0,0,0,0,0,0,0,0,0,0,1, 0x0a, 60, 0,1],
        tail := List.replicate 16 0xee } =
      .ok { layer := { Query.fresh with mrc := 10, addr := [0xff,2,0,0,0,0,0,0,0,0,0,0,0,0,0,1], s := true, qrv := 2,
                                        qqic := 60, n := 1 },
            trunc := true, err := true } := by decide

example :
    (Report.fresh.decodeFromBytes
      { vis := [0,0, 0,1, 1, 1, 0,0, 0xff,2,0,0,0,0,0,0,0,0,0,0,0,0,0,1, 9,9,9,9, 7], tail := [1,2,3] }) =
      .ok { layer := { contents := [0,0, 0,1, 1, 1, 0,0, 0xff,2,0,0,0,0,0,0,0,0,0,0,0,0,0,1, 9,9,9,9], payload := [7],
                       nrec := 1,
                       recs := [{ typ := 1, auxLen := 1, n := 0, addr := [0xff,2,0,0,0,0,0,0,0,0,0,0,0,0,0,1],
                                  srcs := [], aux := [9,9,9,9] }] },
            trunc := false, err := false } := by decide

end Gp.C19.Mld2
