/-
C19 (T-tie for ALL decoders): generated min-length verification conditions.

`Gp/Gen/BoundsVCs.lean` is regenerated from the repository's current source on every run of
`./check` by `extract/cmd/x-facts`.  For every decoder function and `DecodeFromBytes` method of
package layers it lists, for each constant index `x[c]` / slice `x[a:b]` / `binary.…UintN(x[a:])`
on a `[]byte` variable `x` that has not been reassigned, the access together with the lower bound
`minLen` of `len(x)` that the dominating guards `if len(x) < K { … return }` establish.
`holds` is `c < minLen` (index) resp. `b ≤ minLen` (slice): the access cannot be out of range.

The obligation below is re-checked by the kernel against what the code says NOW: deleting or
weakening a length guard, or adding an unguarded constant access, makes a VC not hold and
`bounds_ok` fails (the engine `all` then runs the candidate input attached to the VC).
`knownBad` are the accesses that are genuinely unguarded in the tree and recorded as known
findings; accesses the pass cannot classify (`unclassifiedCount`) are NOT claimed.
-/
import Gp.Gen.BoundsVCs

namespace Gp.C19.Facts
open Gp.Gen.BoundsVCs

/-- Every classified constant-bounds access of every decoder body is dominated by a sufficient
    length guard, or is a recorded known finding. -/
theorem bounds_ok : ∀ v ∈ boundsVCs, v.holds = true ∨ v.id ∈ knownBad := by decide +kernel

/-- Non-vacuity: the analysis classifies accesses (the list is not empty) and most of them hold
    outright. -/
theorem bounds_nonvacuous :
    classifiedCount = boundsVCs.length ∧ 400 ≤ (boundsVCs.filter (·.holds)).length := by decide +kernel

/-- `knownBad` is not a blanket excuse: every listed id is the id of a VC that really fails. -/
theorem knownBad_all_fail :
    ∀ k ∈ knownBad, ∃ v ∈ boundsVCs.filter (fun v => !v.holds), v.id = k := by decide +kernel

end Gp.C19.Facts
