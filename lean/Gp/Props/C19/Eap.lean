import Gp.Lemmas.Layers.EapDlp
/-
  C19 (engine `leap`) — the EAP, EAPOL and EAPOL-Key decoders return errors, not panics.

  Model: `Gp/Model/Layers/Eap.lean` — `EAP.decodeFromBytes`, `EAPOL.decodeFromBytes`,
  `EAPOLKey.decodeFromBytes` transcribe the three DecodeFromBytes methods with Go panic semantics for
  every index and slice expression (a slice `s[a:b]` panics iff ¬(a ≤ b ∧ b ≤ cap), an index iff
  i ≥ len), for an input slice of ANY capacity (`GSlice.tail` = the foreign bytes between len and
  cap).  `decodeEAPFn`/`decodeEAPOLFn`/`decodeEAPOLKeyFn` are the functions registered for
  NewPacket, `dlpDecodeLayers` the DecodingLayerParser loop over {EAPOL, EAP} (`*EAPOLKey` is not a
  gopacket.DecodingLayer).  `decodeWith false` is the code before patches leap-2 / leap-3: the
  no-panic statements hold for it too.
  Only property-level theorems here; helpers are in `Gp/Lemmas/Layers/Eap*.lean`.
-/
namespace Gp.C19.Eap
open Gp Gp.Eap

/-- Direct `(*EAP).DecodeFromBytes` never panics: any receiver state, any bytes — in particular any
    Length announced by the packet (< 4, = 4, > len(data), > 4 with nothing behind the header) —, any
    capacity, any foreign bytes behind the input; before and after patch leap-2. -/
theorem decode_no_panic_eap (bounded : Bool) (old : EAP) (d : GSlice) (k : PanicKind) :
    EAP.decodeWith bounded old d ≠ .panic k := by
  by_cases h : d.len < 4
  · rw [EAP.decode_short bounded old d h]; exact fun h => nomatch h
  · rw [EAP.decode_long bounded old d (by omega)]; exact fun h => nomatch h

/-- The same in the shape asked for by the brief (`cap = |data| + |foreign|`). -/
theorem decode_no_panic (old : EAP) (data foreign : Bytes) (k : PanicKind) :
    decodeEap old data foreign ≠ .panic k := by
  unfold decodeEap EAP.decodeFromBytes
  have := decode_no_panic_eap true old { vis := data, tail := foreign }
  split
  · split <;> exact fun h => nomatch h
  · exact fun h => nomatch h
  · rename_i k' hk; exact absurd hk (this k')

/-- Direct `(*EAPOL).DecodeFromBytes` never panics. -/
theorem decode_no_panic_eapol (old : EAPOL) (d : GSlice) (k : PanicKind) :
    old.decodeFromBytes d ≠ .panic k := by
  by_cases h : d.len < 4
  · rw [EAPOL.decode_short old d h]; exact fun h => nomatch h
  · rw [EAPOL.decode_long old d (by omega)]; exact fun h => nomatch h

theorem decode_no_panic_eapol_view (old : EAPOL) (data foreign : Bytes) (k : PanicKind) :
    decodeEapolView old data foreign ≠ .panic k := by
  unfold decodeEapolView
  have := decode_no_panic_eapol old { vis := data, tail := foreign }
  split
  · split <;> exact fun h => nomatch h
  · exact fun h => nomatch h
  · rename_i k' hk; exact absurd hk (this k')

/-- Direct `(*EAPOLKey).DecodeFromBytes` never panics: any KeyDataLength against any remaining length
    (the check is against the LENGTH, so spare capacity is never read), either value of the
    encrypted-key-data bit; before and after patch leap-3. -/
theorem decode_no_panic_eapolkey (resetKd : Bool) (old : EAPOLKey) (d : GSlice) (k : PanicKind) :
    EAPOLKey.decodeWith resetKd old d ≠ .panic k := by
  by_cases h : d.len < 95
  · rw [EAPOLKey.decode_short resetKd old d h]; exact fun h => nomatch h
  · rw [EAPOLKey.decode_long resetKd old d (by omega)]; exact fun h => nomatch h

theorem decode_no_panic_eapolkey_view (old : EAPOLKey) (data foreign : Bytes) (k : PanicKind) :
    decodeEapolKeyView old data foreign ≠ .panic k := by
  unfold decodeEapolKeyView EAPOLKey.decodeFromBytes
  have := decode_no_panic_eapolkey true old { vis := data, tail := foreign }
  split
  · split <;> exact fun h => nomatch h
  · exact fun h => nomatch h
  · rename_i k' hk; exact absurd hk (this k')

/-- The decoder function registered for `LayerTypeEAP` (NewPacket with SkipDecodeRecovery) never
    panics, whatever the capacity of the packet buffer. -/
theorem decodeEAP_no_panic (d : GSlice) (k : PanicKind) : decodeEAPFn d ≠ .panic k := by
  unfold decodeEAPFn EAP.decodeFromBytes
  by_cases h : d.len < 4
  · rw [EAP.decode_short _ _ d h, Res.bind_ok]; exact fun h => nomatch h
  · rw [EAP.decode_long _ _ d (by omega), Res.bind_ok]; exact fun h => nomatch h

/-- The decoder function registered for `LayerTypeEAPOL` never panics. -/
theorem decodeEAPOL_no_panic (d : GSlice) (k : PanicKind) : decodeEAPOLFn d ≠ .panic k := by
  unfold decodeEAPOLFn
  by_cases h : d.len < 4
  · rw [EAPOL.decode_short _ d h, Res.bind_ok]; exact fun h => nomatch h
  · rw [EAPOL.decode_long _ d (by omega), Res.bind_ok]; exact fun h => nomatch h

/-- The decoder function registered for `LayerTypeEAPOLKey` never panics. -/
theorem decodeEAPOLKey_no_panic (d : GSlice) (k : PanicKind) : decodeEAPOLKeyFn d ≠ .panic k := by
  unfold decodeEAPOLKeyFn EAPOLKey.decodeFromBytes
  by_cases h : d.len < 95
  · rw [EAPOLKey.decode_short _ _ d h, Res.bind_ok]; exact fun h => nomatch h
  · rw [EAPOLKey.decode_long _ _ d (by omega), Res.bind_ok]; exact fun h => nomatch h

/-- Progress (what makes packet decoding and the parser loop terminate): a successfully decoded EAP
    layer hands on a payload at least 4 bytes shorter than its input … -/
theorem eap_payload_shorter (bounded : Bool) (old : EAP) (d : GSlice) (o : DecOut EAP)
    (h : EAP.decodeWith bounded old d = .ok o) (he : o.err = false) :
    o.layer.payload.length + 4 ≤ d.len := by
  by_cases hs : d.len < 4
  · rw [EAP.decode_short bounded old d hs] at h; cases h; cases he
  · rw [EAP.decode_long bounded old d (by omega)] at h
    cases h
    exact eapDecSpec_payload_le bounded old d.vis he

/-- … an EAPOL header one exactly 4 bytes shorter … -/
theorem eapol_payload_shorter (old : EAPOL) (d : GSlice) (o : DecOut EAPOL)
    (h : old.decodeFromBytes d = .ok o) (he : o.err = false) :
    o.layer.payload.length + 4 ≤ d.len := by
  by_cases hs : d.len < 4
  · rw [EAPOL.decode_short old d hs] at h; cases h; cases he
  · rw [EAPOL.decode_long old d (by omega)] at h
    cases h
    exact eapolDecSpec_payload_le d.vis (by unfold GSlice.len at hs; omega)

/-- … and an EAPOL-Key frame one at least 95 bytes shorter. -/
theorem eapolkey_payload_shorter (resetKd : Bool) (old : EAPOLKey) (d : GSlice) (o : DecOut EAPOLKey)
    (h : EAPOLKey.decodeWith resetKd old d = .ok o) (he : o.err = false) :
    o.layer.payload.length + 95 ≤ d.len := by
  by_cases hs : d.len < 95
  · rw [EAPOLKey.decode_short resetKd old d hs] at h; cases h; cases he
  · rw [EAPOLKey.decode_long resetKd old d (by omega)] at h
    cases h
    exact keyDecSpec_payload_le resetKd old d.vis (by unfold GSlice.len at hs; omega) he

/-- `DecodingLayerParser.DecodeLayers` over {EAPOL, EAP} with IgnorePanic (panics let through) never
    panics: any first type, any state of the two re-used layer objects, any bytes, any capacity. -/
theorem dlp_no_panic (eapol : EAPOL) (eap : EAP) (first : Nat) (d : GSlice) (k : PanicKind) :
    dlpDecodeLayers eapol eap first d ≠ .panic k := dlpLoop_no_panic _ _ _ _ k

/-- Termination ("bounded time"): the three DecodeFromBytes methods are loop-free (Lean's own
    termination check of the model — the only recursion is the structural `dlpLoop`); the parser loop
    is fuel-bounded recursion, and the fuel `|data| + 1` used by `dlpDecodeLayers` suffices — every
    larger amount gives the same run, because every iteration consumes at least 4 bytes
    (`eap_payload_shorter`, `eapol_payload_shorter`). -/
theorem dlp_fuel_suffices (fuel : Nat) (st : DlpState) (typ : Nat) (d : GSlice) (h : d.len < fuel) :
    dlpLoop fuel st typ d = dlpLoop (d.len + 1) st typ d :=
  dlpLoop_fuel fuel (d.len + 1) st typ d h (Nat.lt_succ_self _)

/-! Non-vacuity: error and success paths are inhabited, with spare capacity full of foreign bytes.
    The second example is the case the brief asks about: the Length announced by the packet (16)
    exceeds the 5 bytes present while the CAPACITY (5 + 20) would cover it: an error, not a read of
    foreign bytes. -/

example : decodeEap EAP.fresh [1, 7, 0] [9,9,9,9,9,9,9,9] = .err "eap" := by decide

example : decodeEap EAP.fresh [1, 7, 0, 16, 1]
    [9,9,9,9,9,9,9,9,9,9,9,9,9,9,9,9,9,9,9,9] = .err "eap" := by decide

example : decodeEap EAP.fresh [1, 7, 0, 3, 1] [] = .err "eap" := by decide

example : decodeEap EAP.fresh [2, 9, 0, 8, 1, 0x62, 0x6f, 0x62, 0, 0, 0] [0xEE] =
    .ok ({ contents := [2, 9, 0, 8, 1, 0x62, 0x6f, 0x62], payload := [0, 0, 0], code := 2, id := 9,
           length := 8, typ := 1, typeData := [0x62, 0x6f, 0x62] }, false) := by decide

example : decodeEap EAP.fresh [3, 9, 0, 4, 0xAA] [] =
    .ok ({ contents := [3, 9, 0, 4], payload := [0xAA], code := 3, id := 9, length := 4, typ := 0,
           typeData := [] }, false) := by decide

example : decodeEapolView EAPOL.fresh [2, 3, 0, 117, 0x45] [1] =
    .ok ({ contents := [2, 3, 0, 117], payload := [0x45], version := 2, typ := 3, length := 117 }, false) := by
  decide

example : decodeEapolKeyView EAPOLKey.fresh (List.replicate 94 0) [1, 2, 3] = .err "eapolkey" := by decide

end Gp.C19.Eap
