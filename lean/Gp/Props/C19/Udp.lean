import Gp.Model.Layers.Udp
namespace Gp.C19.Udp
end Gp.C19.Udp
