import Gp.Lemmas.Layers.Udp
/-
  C19 for layers/udp.go (engine `ludp`): the UDP decoder returns errors, never panics, on
  every byte string, for every old layer value and EVERY capacity / foreign bytes behind the
  slice (direct DecodeFromBytes, the NewPacket decode function, the parser path which calls the
  same DecodeFromBytes).  Termination: the model is a non-recursive total function (udp.go has
  no loop), so Lean's definitional check is the termination proof; `decode_terminates` states
  the consequence that every input has a (non-panic) result.
-/
namespace Gp.C19.Udp
open Gp Gp.Udp

/-- Direct `(*UDP).DecodeFromBytes` never panics: any old layer, any data, any spare capacity. -/
theorem decode_no_panic (old : Layer) (data foreign : Bytes) (k : PanicKind) :
    decodeFromBytes old { data := data, foreign := foreign } ≠ .panic k := by
  rw [decode_eq]; intro h; cases h

/-- Same for the `Res (Layer × Bool)` view. -/
theorem decodeUdp_no_panic (old : Layer) (data foreign : Bytes) (k : PanicKind) :
    decodeUdp old data foreign ≠ .panic k := by
  unfold decodeUdp; rw [decode_eq]
  dsimp only; split <;> (intro h; cases h)

/-- `decodeUDP` as registered for LayerTypeUDP (NewPacket with SkipDecodeRecovery) never panics. -/
theorem decodeUDP_no_panic (ov : Overrides) (data foreign : Bytes) (k : PanicKind) :
    decodeUDP ov { data := data, foreign := foreign } ≠ .panic k := by
  unfold decodeUDP; rw [decode_eq]
  simp only [bind, Res.bind]
  split <;> (intro h; cases h)

/-- Every call returns: a result exists and it is `ok` (an error return is the `err` flag). -/
theorem decode_terminates (old : Layer) (data foreign : Bytes) :
    ∃ o, decodeFromBytes old { data := data, foreign := foreign } = .ok o :=
  ⟨_, decode_eq old data foreign⟩

/-- Malformed input is reported as an error, never silently accepted: fewer than 8 bytes, or a
    Length field in 1..7. -/
theorem decode_short_is_error (old : Layer) (data foreign : Bytes) (h : data.length < 8) :
    decodeFromBytes old { data := data, foreign := foreign } = .ok { layer := old, trunc := true, err := true } := by
  simp [decodeFromBytes, GoSlice.len, h]

/-- non-vacuity / regression inputs: the shapes that tempt an out-of-bounds read -/
example : decodeUdp Layer.fresh [0, 53, 0, 53, 0xff, 0xff, 0, 0] [] =
    .ok ({ srcPort := 53, dstPort := 53, length := 65535, checksum := 0, sPort := [0, 53], dPort := [0, 53],
           contents := [0, 53, 0, 53, 0xff, 0xff, 0, 0], payload := [], pseudo := .none }, true) := by decide
example : (decodeUdp Layer.fresh [0, 53, 0, 53, 0, 7, 0, 0, 1] [9, 9, 9]).isErr = true := by decide
example : (decodeUdp Layer.fresh [1, 2, 3] [4, 5, 6, 7, 8, 9]).isErr = true := by decide

end Gp.C19.Udp
