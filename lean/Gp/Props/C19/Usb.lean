import Gp.Lemmas.Layers.Usb
/-
  C19 for engine `lusb` (layers/usb.go): the in-place decoders of USB, USBRequestBlockSetup, USBControl,
  USBInterrupt, USBBulk, the registered decoder functions and the packets NewPacket builds from them
  never panic — for every receiver state, every byte string, every capacity and every content of the
  foreign bytes between len and cap — and cannot run away (no loops; every step consumes its header).

  None of the five types implements gopacket.DecodingLayer (no CanDecode): the "layer parser that lets
  panics through" clause has no instance here.
-/
namespace Gp.C19.Usb
open Gp Gp.Usb

/-- `(*USB).DecodeFromBytes` never panics: any receiver, any visible bytes, any capacity / foreign bytes. -/
theorem decode_no_panic_usb (old : USB) (d : GSlice) (k : PanicKind) : old.decodeFromBytes d ≠ .panic k := by
  rw [USB.decode_eq]; intro h; cases h

/-- The view of the engine brief: `decodeUsb old data foreign ≠ panic`. -/
theorem decode_no_panic (old : USB) (data foreign : Bytes) (k : PanicKind) : decodeUsb old data foreign ≠ .panic k := by
  unfold decodeUsb
  rw [USB.decode_eq]
  dsimp only
  split <;> (intro h; cases h)

theorem decode_no_panic_setup (old : Setup) (d : GSlice) (k : PanicKind) : old.decodeFromBytes d ≠ .panic k := by
  rw [Setup.decode_eq]; intro h; cases h

theorem decode_no_panic_setup_view (old : Setup) (data foreign : Bytes) (k : PanicKind) :
    decodeSetup old data foreign ≠ .panic k := by
  unfold decodeSetup
  rw [Setup.decode_eq]
  dsimp only
  split <;> (intro h; cases h)

/-- USBControl / USBInterrupt / USBBulk: `m.Contents = data` cannot panic (and never fails). -/
theorem decode_no_panic_raw (old : Raw) (d : GSlice) :
    ∃ o, old.decodeFromBytes d = .ok o ∧ o.err = false ∧ o.trunc = false :=
  ⟨_, rfl, rfl, rfl⟩

/-- The registered decoder functions (`decodeUSB`, `decodeUSBRequestBlockSetup`, `decodeUSBControl`, …). -/
theorem decodeUSB_no_panic (d : GSlice) (k : PanicKind) : decodeUSBFn d ≠ .panic k := by
  unfold decodeUSBFn
  rw [USB.decode_eq, Res.bind_ok]
  intro h; cases h

theorem decodeSetup_no_panic (d : GSlice) (k : PanicKind) : decodeSetupFn d ≠ .panic k := by
  unfold decodeSetupFn
  rw [Setup.decode_eq, Res.bind_ok]
  intro h; cases h

theorem decodeRaw_no_panic (t : Nat) (d : GSlice) (k : PanicKind) : decodeRawFn t d ≠ .panic k := by
  unfold decodeRawFn
  rw [Raw.decode_eq, Res.bind_ok]
  intro h; cases h

/-- NewPacket with SkipDecodeRecovery: the whole chain USB → Setup / Control / Interrupt / Bulk → Payload,
    the inner decoders running on a sub-slice of the packet buffer (same foreign tail). -/
theorem packet_no_panic (d : GSlice) (k : PanicKind) : packetUSB d ≠ .panic k := by
  rw [packetUSB_eq]; intro h; cases h

theorem packet_no_panic_setup (d : GSlice) (k : PanicKind) : packetSetup d ≠ .panic k := by
  rw [packetSetup_eq]; intro h; cases h

theorem packet_no_panic_raw (t : Nat) (d : GSlice) (k : PanicKind) : packetRaw t d ≠ .panic k := by
  rw [packetRaw_eq]; intro h; cases h

/-- Progress: a successfully decoded USB header consumed its 40 bytes (no decoder is ever handed
    more bytes than its predecessor got).  The hypothesis `len < 2^32` is needed: the payload offset
    `uint32(len(data)) - UrbDataLength` is 32-bit arithmetic, so for a record of 4 GiB or more the
    payload may start inside the header (still no panic: `decode_no_panic_usb` has no such hypothesis). -/
theorem usb_payload_shorter (old : USB) (d : GSlice) (o : DecOut USB)
    (h : old.decodeFromBytes d = .ok o) (he : o.err = false) (hs : d.len < 2 ^ 32) :
    o.layer.payload.length + 40 ≤ d.len ∧ o.layer.contents.length = 40 := by
  rw [USB.decode_eq] at h
  cases h
  unfold usbDecSpec at he ⊢
  unfold GSlice.len at hs ⊢
  by_cases hl : d.vis.length < 40
  · rw [if_pos hl] at he; cases he
  · rw [if_neg hl] at he ⊢
    have hc : (usbHdr old d.vis).contents.length = 40 := by
      simp only [usbHdr, List.length_take]; omega
    have hp : (usbHdr old d.vis).payload.length + 40 ≤ d.vis.length := by
      simp only [usbHdr, List.length_drop]; omega
    by_cases h14 : ((byteAt d.vis 14).toNat == 0) = true
    · rw [if_pos h14]; exact ⟨hp, hc⟩
    · rw [if_neg h14] at he ⊢
      by_cases h15 : ((byteAt d.vis 15).toNat == 0) = true
      · rw [if_pos h15] at he ⊢
        by_cases hd : leAt d.vis 36 4 > (d.vis.length - 40) % 2 ^ 32
        · rw [if_pos hd] at he; cases he
        · rw [if_neg hd]
          refine ⟨?_, hc⟩
          simp only [List.length_drop]
          have h4 : leAt d.vis 36 4 < 2 ^ 32 := by have := leAt_lt d.vis 36 4; simpa using this
          unfold usbPayOff
          omega
      · rw [if_neg h15]; exact ⟨hp, hc⟩

/-- Non-vacuity: a 48-byte data record (data flag 0, UrbDataLength 0) decodes without error. -/
example : ∃ o, USB.fresh.decodeFromBytes { vis := List.replicate 14 1 ++ [1, 0] ++ List.replicate 20 1 ++ [0, 0, 0, 0] ++ List.replicate 8 9, tail := [7] } = .ok o ∧
    o.err = false ∧ o.layer.payload = [] :=
  ⟨_, USB.decode_eq _ _, by decide, by decide⟩

theorem setup_payload_shorter (old : Setup) (d : GSlice) (o : DecOut Setup)
    (h : old.decodeFromBytes d = .ok o) (he : o.err = false) :
    o.layer.payload.length + 8 = d.len ∧ o.layer.contents.length = 8 := by
  rw [Setup.decode_eq] at h
  cases h
  unfold setupDecSpec at he ⊢
  unfold GSlice.len
  by_cases hl : d.vis.length < 8
  · rw [if_pos hl] at he; cases he
  · rw [if_neg hl]
    simp only [setupLayer, List.length_drop, List.length_take]
    omega

/-- decode_terminates: the model has no loop and no fuel at all (Lean's structural termination of
    non-recursive definitions); a packet has at most three layers (USB, the transfer layer or the
    setup packet, Payload / DecodeFailure). -/
theorem packet_at_most_three_layers (d : GSlice) (p : Pkt) (h : packetUSB d = .ok p) : p.layers.length ≤ 3 := by
  rw [packetUSB_eq] at h
  cases h
  unfold packetUSBSpec
  simp only
  split
  · simp
  · simp only [List.length_cons]
    split
    · simp [Pkt.empty]
    · split
      · unfold nextSetupSpec
        split
        · simp [Pkt.empty]
        · split
          · simp
          · simp only [List.length_cons]
            unfold nextPayload
            split <;> simp [Pkt.empty]
      · unfold nextRawSpec
        split <;> simp [Pkt.empty]

/-- Non-vacuity: spare capacity that WOULD hold a full header does not make a short record decodable
    and is never read (the length checks are against len, every read stays below 40). -/
example : decodeUsb USB.fresh (List.replicate 39 0) (List.replicate 60 0xAA) = .err "usb" := by decide

/-- A data record whose 32-bit data length exceeds the bytes present (the input of all-19): an error. -/
example : decodeUsb USB.fresh (List.replicate 14 1 ++ [45, 0] ++ List.replicate 20 1 ++ [0xff, 0xff, 0xff, 0xff] ++ [1, 2, 3])
    [9, 9, 9, 9] = .err "usb" := by decide

end Gp.C19.Usb
