import Gp.Lemmas.Layers.SllDlp
/-
  C19 (engine `lsll`) — the LinuxSLL, LinuxSLL2, EtherIP, UDPLite and RUDP decoders return errors,
  not panics.

  Model: `Gp/Model/Layers/Sll.lean`.  `LinuxSLL.decodeFromBytes`, `LinuxSLL2.decodeFromBytes`,
  `EtherIP.decodeFromBytes` transcribe the three DecodeFromBytes methods; `decodeLinuxSLLFn`,
  `decodeLinuxSLL2Fn`, `decodeEtherIPFn`, `decodeUDPLite`, `decodeRUDP` the five decoder functions
  registered for NewPacket (UDPLite and RUDP have NO in-place decode method: the registered function is
  all there is); `dlpDecodeLayers` the DecodingLayerParser loop over the three DecodingLayers.  Every
  index and slice expression has Go panic semantics (`s[a:b]` panics iff ¬(a ≤ b ∧ b ≤ cap), `s[i]`
  iff i ≥ len) for an input slice of ANY capacity (`GSlice.tail` = the foreign bytes between len and
  cap).  None of the five layers has a SerializeTo method (no C06/C07 part).
  Only property-level theorems here; helpers are in `Gp/Lemmas/Layers/Sll*.lean`.
-/
namespace Gp.C19.Sll
open Gp Gp.Sll

/-! ## Direct DecodeFromBytes -/

/-- Direct `(*LinuxSLL).DecodeFromBytes` never panics: any receiver state, any bytes — in particular
    any 16-bit address length announced by the packet (with proposed_fixes/all-10 an AddrLen above 8
    is an error; before it `data[6:AddrLen+6]` was sliced unchecked) —, any capacity, any foreign
    bytes behind the input. -/
theorem decode_no_panic_sll (old : LinuxSLL) (d : GSlice) (k : PanicKind) :
    old.decodeFromBytes d ≠ .panic k := by
  rw [LinuxSLL.decode_eq]; exact fun h => nomatch h

/-- The same in the shape asked for by the brief (`cap = |data| + |foreign|`). -/
theorem decode_no_panic (old : LinuxSLL) (data foreign : Bytes) (k : PanicKind) :
    decodeSll old data foreign ≠ .panic k := by
  unfold decodeSll
  rw [LinuxSLL.decode_eq]
  simp only
  split <;> exact fun h => nomatch h

/-- Direct `(*LinuxSLL2).DecodeFromBytes` never panics (with proposed_fixes/all-11: `Addr[:AddrLength]`
    is only evaluated for AddrLength ≤ 8). -/
theorem decode_no_panic_sll2 (old : LinuxSLL2) (d : GSlice) (k : PanicKind) :
    old.decodeFromBytes d ≠ .panic k := by
  rw [LinuxSLL2.decode_eq]; exact fun h => nomatch h

theorem decode_no_panic_sll2_view (old : LinuxSLL2) (data foreign : Bytes) (k : PanicKind) :
    decodeSll2 old data foreign ≠ .panic k := by
  unfold decodeSll2
  rw [LinuxSLL2.decode_eq]
  simp only
  split <;> exact fun h => nomatch h

/-- Direct `(*EtherIP).DecodeFromBytes` never panics (with proposed_fixes/all-6). -/
theorem decode_no_panic_etherip (old : EtherIP) (d : GSlice) (k : PanicKind) :
    old.decodeFromBytes d ≠ .panic k := by
  rw [EtherIP.decode_eq]; exact fun h => nomatch h

theorem decode_no_panic_etherip_view (old : EtherIP) (data foreign : Bytes) (k : PanicKind) :
    decodeEtherip old data foreign ≠ .panic k := by
  unfold decodeEtherip
  rw [EtherIP.decode_eq]
  simp only
  split <;> exact fun h => nomatch h

/-! ## The registered decoder functions (NewPacket with SkipDecodeRecovery) -/

/-- The decoder function registered for `LayerTypeLinuxSLL` never panics, whatever the capacity of the
    packet buffer (copying, NoCopy, Pool). -/
theorem decodeLinuxSLL_no_panic (d : GSlice) (k : PanicKind) : decodeLinuxSLLFn d ≠ .panic k := by
  unfold decodeLinuxSLLFn
  rw [LinuxSLL.decode_eq, Res.bind_ok]
  simp only [pure]
  split <;> exact fun h => nomatch h

theorem decodeLinuxSLL2_no_panic (d : GSlice) (k : PanicKind) : decodeLinuxSLL2Fn d ≠ .panic k := by
  unfold decodeLinuxSLL2Fn
  rw [LinuxSLL2.decode_eq, Res.bind_ok]
  simp only [pure]
  split <;> exact fun h => nomatch h

theorem decodeEtherIP_no_panic (d : GSlice) (k : PanicKind) : decodeEtherIPFn d ≠ .panic k := by
  unfold decodeEtherIPFn
  rw [EtherIP.decode_eq, Res.bind_ok]
  exact fun h => nomatch h

/-- `decodeUDPLite` never panics (with proposed_fixes/all-18: inputs below 8 bytes are an error). -/
theorem decodeUDPLite_no_panic (d : GSlice) (k : PanicKind) : decodeUDPLite d ≠ .panic k := by
  rw [decodeUDPLite_eq]; exact fun h => nomatch h

/-- `decodeRUDP` never panics: any header length byte (`data[1]`, in 16-bit words: 0 … 510 bytes), any
    16-bit data length, any flag set — the SYN part is read only from a variable header area of exactly
    6 bytes, the EACK loop only over one whose length is a multiple of 4, `r.SeqsReceivedOK[i/4]` stays
    inside the slice made for it, and neither length taken from the packet is ever compared with the
    capacity instead of the length. -/
theorem decodeRUDP_no_panic (d : GSlice) (k : PanicKind) : decodeRUDP d ≠ .panic k := by
  rw [decodeRUDP_eq]; exact fun h => nomatch h

/-- The same for the `decode : data → Res (Layer × behaviour)` views (`cap = |data| + |foreign|`). -/
theorem decode_no_panic_udplite (data foreign : Bytes) (k : PanicKind) : decodeUdplite data foreign ≠ .panic k := by
  unfold decodeUdplite viewFn
  rw [decodeUDPLite_eq]
  rcases udpliteSpec data with ⟨b, _ | l⟩ <;> exact fun h => nomatch h

theorem decode_no_panic_rudp (data foreign : Bytes) (k : PanicKind) : decodeRudp data foreign ≠ .panic k := by
  unfold decodeRudp viewFn
  rw [decodeRUDP_eq]
  rcases rudpSpec data with ⟨b, _ | l⟩ <;> exact fun h => nomatch h

/-! ## Termination -/

/-- The one loop inside these decoders — RUDP's `for i := 0; i < len(headerData); i += 4` — is modelled as
    fuel-bounded recursion that reports `.err "fuel"` when the fuel runs out.  It never does: over a
    variable header area whose length is a multiple of 4, EVERY amount of fuel above `len/4` gives the
    same result, the list of the consecutive 32-bit words — no panic, no error (each iteration consumes
    4 bytes).  `decodeRUDP` uses `len + 1`. -/
theorem eack_fuel_suffices (hd : GSlice) (h4 : hd.len % 4 = 0) (fuel : Nat) (hf : hd.len / 4 < fuel) :
    eackLoop hd fuel 0 (List.replicate (hd.len / 4) 0) = .ok (eackSeqs hd.vis) := by
  have hn : hd.len = 4 * (hd.len / 4) := by omega
  have := eackLoop_ok hd (hd.len / 4) hn (hd.len / 4) 0 fuel (List.replicate (hd.len / 4) 0)
    (by omega) (List.length_replicate) hf
  rw [Nat.mul_zero] at this
  rw [this, eackFill_all hd.vis (hd.len / 4) rfl]

/-- … and an EACK header yields exactly `len/4` sequence numbers. -/
theorem eack_count (hd : Bytes) : (eackSeqs hd).length = hd.length / 4 := by
  unfold eackSeqs; rw [List.length_map, List.length_range]

/-- Progress (what makes packet decoding and the parser loop terminate): a successfully decoded
    LinuxSLL layer hands on a payload exactly 16 bytes shorter than its input … -/
theorem sll_payload_shorter (old : LinuxSLL) (d : GSlice) (o : DecOut LinuxSLL)
    (h : old.decodeFromBytes d = .ok o) (he : o.err = false) :
    o.layer.payload.length + 16 ≤ d.len := by
  rw [LinuxSLL.decode_eq] at h; cases h
  exact sllDecSpec_payload_le old d.vis he

/-- … a LinuxSLL2 layer one 20 bytes shorter … -/
theorem sll2_payload_shorter (old : LinuxSLL2) (d : GSlice) (o : DecOut LinuxSLL2)
    (h : old.decodeFromBytes d = .ok o) (he : o.err = false) :
    o.layer.payload.length + 20 ≤ d.len := by
  rw [LinuxSLL2.decode_eq] at h; cases h
  exact sll2DecSpec_payload_le old d.vis he

/-- … an EtherIP header one 2 bytes shorter … -/
theorem etherip_payload_shorter (old : EtherIP) (d : GSlice) (o : DecOut EtherIP)
    (h : old.decodeFromBytes d = .ok o) (he : o.err = false) :
    o.layer.payload.length + 2 ≤ d.len := by
  rw [EtherIP.decode_eq] at h; cases h
  exact eipDecSpec_payload_le old d.vis he

/-- … UDPLite one 8 bytes shorter … -/
theorem udplite_payload_shorter (d : GSlice) (b : Beh) (l : UDPLite)
    (h : decodeUDPLite d = .ok (b, some l)) : l.payload.length + 8 = d.len := by
  rw [decodeUDPLite_eq] at h
  unfold udpliteSpec at h
  by_cases hs : d.vis.length < 8
  · rw [if_pos hs] at h; cases h
  · rw [if_neg hs] at h; cases h
    simp only [udpliteLayer, List.length_drop, GSlice.len]; omega

/-- … and an RUDP segment one at least 18 bytes shorter (the payload is cut at DataLength). -/
theorem rudp_payload_shorter (d : GSlice) (b : Beh) (l : RUDP)
    (h : decodeRUDP d = .ok (b, some l)) : l.payload.length + 18 ≤ d.len := by
  rw [decodeRUDP_eq] at h
  unfold rudpSpec at h
  have hb : (rudpBody d.vis).payload.length + 18 ≤ d.len ∨ (byteAt d.vis 1).toNat < 9 ∨ d.vis.length < rudpEnd d.vis := by
    by_cases h9 : (byteAt d.vis 1).toNat < 9
    · exact Or.inr (Or.inl h9)
    · by_cases he : d.vis.length < rudpEnd d.vis
      · exact Or.inr (Or.inr he)
      · refine Or.inl ?_
        simp only [rudpBody, List.length_take, List.length_drop, GSlice.len]
        unfold rudpEnd rudpHlen at he
        unfold rudpHlen
        omega
  repeat' split at h
  all_goals first
    | (cases h; done)
    | (cases h
       rcases hb with hb | hb | hb
       · exact hb
       · omega
       · omega)

/-! ## The parser -/

/-- `DecodingLayerParser.DecodeLayers` over {LinuxSLL, LinuxSLL2, EtherIP} with IgnorePanic (panics let
    through) never panics: any first type, any state of the three re-used layer objects (including the
    half-updated ones an "address length exceeds" error leaves), any bytes, any capacity. -/
theorem dlp_no_panic (sll : LinuxSLL) (sll2 : LinuxSLL2) (e : EtherIP) (first : Nat) (d : GSlice) (k : PanicKind) :
    dlpDecodeLayers sll sll2 e first d ≠ .panic k := dlpLoop_no_panic _ _ _ _ k

/-- Termination ("bounded time"): the DecodeFromBytes methods are loop-free (Lean's own termination
    check of the model); the parser loop is fuel-bounded recursion, and the fuel `|data| + 1` used by
    `dlpDecodeLayers` suffices — every larger amount gives the same run, because every iteration
    consumes at least 2 bytes (`sll_payload_shorter`, `sll2_payload_shorter`, `etherip_payload_shorter`). -/
theorem dlp_fuel_suffices (fuel : Nat) (st : DlpState) (typ : Nat) (d : GSlice) (h : d.len < fuel) :
    dlpLoop fuel st typ d = dlpLoop (d.len + 1) st typ d :=
  dlpLoop_fuel fuel (d.len + 1) st typ d h (Nat.lt_succ_self _)

/-! Non-vacuity: error and success paths are inhabited, with spare capacity full of foreign bytes.
    The SLL examples are the case the brief asks about: an address length of 9 (and of 0x0106, whose
    low byte looks harmless) against 16 header bytes followed by spare CAPACITY that would cover the
    address: an error, not a read of foreign bytes. -/

example : decodeSll LinuxSLL.fresh [0,0, 0,1, 0,9, 1,2,3,4,5,6,7,8, 8,0] [9,9,9,9,9,9,9,9,9,9,9,9] = .err "sll" := by decide
example : decodeSll LinuxSLL.fresh [0,0, 0,1, 1,6, 1,2,3,4,5,6,7,8, 8,0] [9,9,9,9,9,9,9,9,9,9,9,9] = .err "sll" := by decide

example : decodeSll LinuxSLL.fresh [0,4, 0,1, 0,6, 1,2,3,4,5,6,0,0, 8,0, 0x45] [0xEE] =
    .ok ({ contents := [0,4, 0,1, 0,6, 1,2,3,4,5,6,0,0, 8,0], payload := [0x45], packetType := 4, addrLen := 6,
           addr := [1,2,3,4,5,6], ethernetType := 0x0800, addrType := 1 }, false) := by decide

example : decodeSll2 LinuxSLL2.fresh [8,0, 0,0, 0,0,0,2, 0,1, 4, 9, 1,2,3,4,5,6,7,8] [1,1,1,1] = .err "sll2" := by decide

example : decodeSll2 LinuxSLL2.fresh [8,0, 0,0, 0,0,0,2, 0,1, 4, 6, 1,2,3,4,5,6,7,8, 0x45] [] =
    .ok ({ contents := [8,0, 0,0, 0,0,0,2, 0,1, 4, 6, 1,2,3,4,5,6,7,8], payload := [0x45], protocolType := 0x0800,
           interfaceIndex := 2, arpHardwareType := 1, packetType := 4, addrLength := 6, addr := [1,2,3,4,5,6] }, false) := by
  decide

example : decodeEtherip EtherIP.fresh [0x30] [0, 1] = .err "etherip" := by decide
example : decodeEtherip EtherIP.fresh [0x3a, 0xbc, 7] [] =
    .ok ({ contents := [0x3a, 0xbc], payload := [7], version := 3, reserved := 0xabc }, false) := by decide

example : decodeUdplite [0,53, 0,54, 0,8, 0xab] [0xcd, 1, 2] = .err "udplite" := by decide

/-- RUDP: EACK with two sequence numbers; header length 13 words = 26 bytes, data length 1. -/
example :
    (match decodeRudp [0x61, 13, 7, 9, 0,1, 0,0,0,1, 0,0,0,2, 0,0,0,3, 0,0,1,0, 0,0,2,0, 0xaa, 0xbb] [0xcc] with
     | .ok (l, _) => some (l.headerEACK, l.payload, l.variableHeaderArea.length, l.eack, l.syn)
     | _ => none) = some (some [256, 512], [0xaa], 8, true, false) := by decide

/-- RUDP: the header length (20 words = 40 bytes) exceeds the 18 bytes present while the capacity covers it. -/
example : decodeRudp [0x40, 20, 7, 9, 0,0, 0,0,0,1, 0,0,0,2, 0,0,0,3]
    [0,0,0,0,0,0,0,0,0,0,0,0,0,0,0,0,0,0,0,0,0,0,0,0,0,0,0,0,0,0] = .err "rudp" := by decide

end Gp.C19.Sll
