import Gp.Lemmas.Layers.TcpDecode
/-
  C19 (TCP part): the TCP decoder returns errors, not panics, even with recovery off.

  Model: Gp/Model/Layers/Tcp.lean — `decode v old data foreign` is (*TCP).DecodeFromBytes on
  `data` sitting in a buffer whose spare capacity holds `foreign`; `decodeTCP` is the decoder
  registered for NewPacket.  `Variant.fixed` is the code with proposed_fixes/ltcp-1 applied
  (length checks in the MPTCP branch), `Variant.orig` the pinned code.
-/
namespace Gp.C19.Tcp
open Gp Gp.Tcp

/-- Direct DecodeFromBytes never panics: any old layer value, any bytes, any capacity and any
    foreign bytes behind the data. -/
theorem decode_no_panic (old : Layer) (data foreign : Bytes) (k : PanicKind) :
    decode Variant.fixed old data foreign ≠ .panic k :=
  (sim_decodeFromBytes old data foreign foreign).no_panic k

/-- The registered decoder (NewPacket with SkipDecodeRecovery, DecodingLayerParser with
    IgnorePanic reach the same DecodeFromBytes) never panics. -/
theorem decodeTCP_no_panic (dsad : Bool) (data foreign : Bytes) (k : PanicKind) :
    decodeTCP Variant.fixed dsad ⟨data, foreign⟩ ≠ .panic k := by
  unfold decodeTCP
  have h := decode_no_panic fresh data foreign
  unfold decode at h
  generalize decodeFromBytes Variant.fixed fresh ⟨data, foreign⟩ = r at h
  cases r with
  | ok o => intro hk; cases hk
  | err e => intro hk; cases hk
  | panic k' => exact absurd rfl (h k')

/-- Termination ("no running away"): the option loop is structurally recursive on its fuel;
    the fuel `len(options area)` handed to it by DecodeFromBytes is never exhausted — any larger
    fuel gives the same result — because every iteration consumes at least one byte. -/
theorem decode_terminates (l : OptSt) (data : Sl) (extra : Nat) :
    optLoop Variant.fixed (data.vis.length + extra) l data = optLoop Variant.fixed data.vis.length l data :=
  optLoop_fuel _ _ l data (by omega) (Nat.le_refl _)

/-- Running out of fuel (the model's stand-in for a loop that does not terminate) is reported as
    `.panic .explicit`; it does not happen. -/
theorem decode_never_out_of_fuel (old : Layer) (data foreign : Bytes) :
    decode Variant.fixed old data foreign ≠ .panic .explicit :=
  decode_no_panic old data foreign .explicit

/-- TCP header with data offset 6 whose last option byte is kind 30 (MPTCP). -/
def mptcpAtEnd : Bytes :=
  [0x30, 0x39, 0xd4, 0x31, 0xde, 0xad, 0xbe, 0xef, 0, 0, 0, 0, 0x60, 0x02, 0, 0, 0, 0, 0, 0, 1, 1, 1, 0x1e]

/-- The pinned code (no length checks in the MPTCP branch) DOES panic: `data[1]` on a
    one-byte remainder.  Found on the real code by the monitor as ltcp:panic:layers/tcp.go:349. -/
theorem decode_no_panic_orig_counterexample :
    ¬ ∀ (old : Layer) (data foreign : Bytes) (k : PanicKind), decode Variant.orig old data foreign ≠ .panic k := by
  intro h
  exact h fresh mptcpAtEnd [] .index (by decide)

/-- non-vacuity: the fixed decoder turns that input into an error (truncated), and decodes a
    well-formed MPTCP option -/
example : (decode Variant.fixed fresh mptcpAtEnd []).isOk = true := by decide
example : (decode Variant.fixed fresh
    [0x30, 0x39, 0xd4, 0x31, 0xde, 0xad, 0xbe, 0xef, 0, 0, 0, 0, 0x60, 0x02, 0, 0, 0, 0, 0, 0, 0x1e, 4, 1, 0]
    [0xaa]).isOk = true := by decide

end Gp.C19.Tcp
