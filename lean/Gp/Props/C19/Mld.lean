import Gp.Lemmas.Layers.Mld
/-
  C19 (engine `lmld`) — the MLDv1 query / report / done decoders return errors, not panics.

  Model: `Gp/Model/Layers/Mld.lean` — `decodeFromBytes k` transcribes the DecodeFromBytes method of
  the three wrapper types of `MLDv1Message` (the query type's override included) with Go panic
  semantics for every index and slice expression (a slice `s[a:b]` panics iff ¬(a ≤ b ∧ b ≤ cap), an
  index iff i ≥ len), for an input slice of ANY capacity (`GSlice.tail` = the foreign bytes between
  len and cap).  `decodeMLDv1Fn k` are the three functions registered for NewPacket,
  `Icmp6.decodeFromBytes`/`Icmp6.nextLayerType` the ICMPv6 header that selects them, and
  `dlpDecodeLayers` the DecodingLayerParser loop over {ICMPv6, query, report, done}.
  Only property-level theorems here; helpers are in `Gp/Lemmas/Layers/Mld.lean`.
-/
namespace Gp.C19.Mld
open Gp Gp.Mld

/-- Direct `DecodeFromBytes` of each of the three MLDv1 message types never panics: any receiver
    state, any bytes, any capacity, any foreign bytes behind the input. -/
theorem decode_no_panic_slice (kind : Kind) (old : Msg) (d : GSlice) (k : PanicKind) :
    decodeFromBytes kind old d ≠ .panic k := by
  rw [decode_spec]; exact fun h => nomatch h

/-- The same in the shape asked for by the brief (`cap = |data| + |foreign|`). -/
theorem decode_no_panic (kind : Kind) (old : Msg) (data foreign : Bytes) (k : PanicKind) :
    decodeMld kind old data foreign ≠ .panic k := by
  unfold decodeMld
  rw [decode_spec]
  simp only
  split <;> exact fun h => nomatch h

/-- A malformed (short) input is an *error* with the truncation flag, never a panic and never a
    read of the foreign bytes: fewer than 20 visible bytes give `.err`, whatever the capacity. -/
theorem decode_short_is_error (kind : Kind) (old : Msg) (data foreign : Bytes) (h : data.length < 20) :
    decodeMld kind old data foreign = .err "mld" ∧
    decodeFromBytes kind old { vis := data, tail := foreign } = .ok { layer := old, trunc := true, err := true } := by
  unfold decodeMld
  rw [decode_spec]
  simp only [msgDecSpec, if_pos h, if_true, and_self]

/-- The decoder functions registered for LayerTypeMLDv1MulticastListenerQuery / …Report / …Done
    (NewPacket with SkipDecodeRecovery) never panic, whatever the capacity of the packet buffer
    (copying, NoCopy, Pool). -/
theorem decodeMLDv1_no_panic (kind : Kind) (d : GSlice) (k : PanicKind) : decodeMLDv1Fn kind d ≠ .panic k := by
  unfold decodeMLDv1Fn
  rw [decode_spec, Res.bind_ok]; exact fun h => nomatch h

/-- The ICMPv6 header decoder in front (the glue that selects the MLD layers) never panics. -/
theorem decodeICMPv6_no_panic (d : GSlice) (k : PanicKind) : decodeICMPv6Fn d ≠ .panic k := by
  unfold decodeICMPv6Fn
  rw [Icmp6.decode_spec, Res.bind_ok]; exact fun h => nomatch h

/-- `DecodingLayerParser.DecodeLayers` over {ICMPv6, query, report, done} with IgnorePanic (panics
    let through) never panics: any first type, any state of the four re-used layer objects, any
    bytes, any capacity. -/
theorem dlp_no_panic (ic : Icmp6) (q r dn : Msg) (first : Nat) (d : GSlice) (k : PanicKind) :
    dlpDecodeLayers ic q r dn first d ≠ .panic k := dlpLoop_no_panic _ _ _ k

/-- Termination ("bounded time", `decode_terminates`): the DecodeFromBytes methods are loop-free
    (Lean's own termination check of the model); the parser loop is fuel-bounded recursion, and the
    fuel 2 used by `dlpDecodeLayers` suffices — every larger amount gives the same run and the run
    never reports "out of fuel" (code 9) — because ICMPv6 is never a *next* type and the MLDv1
    layers announce no next layer. -/
theorem dlp_fuel_suffices (fuel : Nat) (h : 2 ≤ fuel) (st : DlpState) (typ : Nat) (d : GSlice) :
    dlpLoop fuel st typ d = dlpLoop 2 st typ d ∧
    ∃ st' code, dlpLoop 2 st typ d = .ok (st', code) ∧ code ≠ 9 :=
  dlpLoop_fuel fuel h st typ d

/-- A decoded MLDv1 message ends the packet: no decoder follows, whatever the payload
    (`NextLayerType` = LayerTypeZero makes `decodingLayerDecoder` return nil without NextDecoder). -/
theorem mld_is_last_layer (kind : Kind) (d : GSlice) (b : Beh) (l : Option Msg)
    (h : decodeMLDv1Fn kind d = .ok (b, l)) : b.tail = .done ∨ b.tail = .fail := by
  unfold decodeMLDv1Fn at h
  rw [decode_spec, Res.bind_ok] at h
  simp only [pure, decodingLayerDecoder, Msg.nextLayerType] at h
  split at h
  · cases h; exact Or.inr rfl
  · simp only [if_true] at h; cases h; exact Or.inl rfl

/-! Non-vacuity: error and success paths are inhabited, with spare capacity full of foreign bytes.
    The first example is the case the brief asks about: 19 visible bytes while the CAPACITY (19 + 8)
    would cover `data[4:20]`: an error, not a read of foreign bytes. -/

example : decodeMld .report Msg.fresh
    [0x27,0x10,0,0, 0xff,2,0,0,0,0,0,0,0,0,0x0d,0xb8,0x11,0x22,0x33] [0x44,9,9,9,9,9,9,9] = .err "mld" := by decide

example : decodeMld .query Msg.fresh
    [0x27,0x10,0,0, 0xff,2,0,0,0,0,0,0,0,0,0x0d,0xb8,0x11,0x22,0x33,0x44, 0xaa] [0xee] =
    .ok ({ contents := [0x27,0x10,0,0, 0xff,2,0,0,0,0,0,0,0,0,0x0d,0xb8,0x11,0x22,0x33,0x44],
           payload := [0xaa], maximumResponseDelay := 10000000000,
           multicastAddress := [0xff,2,0,0,0,0,0,0,0,0,0x0d,0xb8,0x11,0x22,0x33,0x44] }, false) := by decide

example : (dlpDecodeLayers Icmp6.fresh Msg.fresh Msg.fresh Msg.fresh LayerTypeICMPv6
    { vis := [131,0,0x12,0x34, 0,1,0,0, 0xff,2,0,0,0,0,0,0,0,0,0,0,0,0,0,1], tail := [] }).isOk = true := by decide

end Gp.C19.Mld
