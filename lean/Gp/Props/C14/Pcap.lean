import Gp.Lemmas.Pcap
/-
  C14 (classic pcap part) — capture files round-trip; a truncated file yields a true prefix.

  Model: `Gp/Model/Pcap.lean` (transcription of pcapgo/write.go and pcapgo/read.go; constants
  regenerated from the source into `Gp/Gen/Pcap.lean`).  Property theorems only; the
  definitions occurring in the statements live in `Gp/Lemmas/Pcap.lean`:

    WfPkt snaplen p  :=  p.caplen = |p.data| ≤ p.len < 2^32 ∧ p.caplen ≤ snaplen ∧ p.sec < 2^32 ∧ p.nsec < 10^9
    inputs ps        :   the (CaptureInfo, data) arguments of the WritePacket calls
    truncTs nanos p  :   p with its timestamp truncated to the file's resolution (µs unless nanos)
    whole j ps       :   number of leading records of `ps` that fit entirely into `j` bytes
    readFile gz zc s :   NewReader, then ReadPacketData / ZeroCopyReadPacketData (zc) until the first
                         call that returns no packet: (link type, snaplen, ns?) × packets × final outcome
    gz               :   compress/gzip as an arbitrary function (irrelevant here: the magic is not gzip's)
-/
namespace Gp.C14.Pcap
open Gp Gp.Pcap

/-- Round trip (µs and ns writer, copying and zero-copy reads): every well-formed packet
    sequence written after WriteFileHeader is read back as the same sequence — same data,
    capture length, length, timestamps truncated to the file's resolution — with the same link
    type, snap length and resolution, followed by a clean io.EOF. -/
theorem pcap_roundtrip (gz : Stream → Option Stream) (zc nanos : Bool) (snaplen lt : Nat) (ps : List Pkt)
    (hs : snaplen < 4294967296) (hl : lt < 65536) (hwf : ∀ p ∈ ps, WfPkt snaplen p) :
    readFile gz zc { data := writeFile nanos snaplen lt (inputs ps), fail := false } =
      (some (lt, snaplen, nanos), ps.map (truncTs nanos), .stop .eof) := by
  have h := readFile_written_cut gz zc nanos snaplen lt ps false
    (writeFile nanos snaplen lt (inputs ps)).length hs hl hwf
  rw [List.take_length] at h
  have hlen := writeFile_length nanos snaplen lt ps hwf
  rw [if_pos (by omega)] at h
  obtain ⟨w1, w2⟩ := whole_all nanos ps ((writeFile nanos snaplen lt (inputs ps)).length - 24) (by omega)
  rw [h, w1, w2]
  simp [List.take_of_length_le]

/-- The hypotheses of `pcap_roundtrip` are satisfiable by a non-trivial sequence: an empty packet,
    a truncated capture, boundary timestamps. -/
example : ∀ p ∈ [({ sec := 0, nsec := 0, caplen := 0, len := 0, data := [] } : Pkt),
                 { sec := 4294967295, nsec := 999999999, caplen := 3, len := 1500, data := [1, 2, 3] },
                 { sec := 1556002892, nsec := 831815001, caplen := 2, len := 2, data := [0xde, 0xad] }],
    WfPkt 3 p := by decide

/-- The writer accepts exactly the packets with CaptureLength = len(data) ≤ Length, and for a
    well-formed sequence its output is the 24-byte header followed by the 16-byte record
    headers and the data, nothing else. -/
theorem pcap_write_layout (nanos : Bool) (snaplen lt : Nat) (ps : List Pkt) (hwf : ∀ p ∈ ps, WfPkt snaplen p) :
    writeFile nanos snaplen lt (inputs ps) = fileHeader nanos snaplen lt ++ encAll nanos ps ∧
    (writePackets nanos (inputs ps)).2 = ps.map (fun _ => true) ∧
    (writeFile nanos snaplen lt (inputs ps)).length = 24 + (ps.map (fun p => 16 + p.data.length)).sum := by
  refine ⟨?_, ?_, ?_⟩
  · unfold writeFile; rw [writePackets_wf nanos snaplen ps hwf]
  · rw [writePackets_wf nanos snaplen ps hwf]
  · rw [writeFile_length nanos snaplen lt ps hwf, encAll_length]

/-- Crash points: the file cut at EVERY byte offset `k` (then io.EOF).  Inside the file header
    NewReader fails with io.EOF / io.ErrUnexpectedEOF and no packet is returned; otherwise the
    reader returns exactly the first `whole (k - 24) ps` packets, unaltered, and then io.EOF or
    io.ErrUnexpectedEOF — never an error of its own, never a panic, never a partial packet. -/
theorem pcap_prefix (gz : Stream → Option Stream) (zc nanos : Bool) (snaplen lt : Nat) (ps : List Pkt) (k : Nat)
    (hs : snaplen < 4294967296) (hl : lt < 65536) (hwf : ∀ p ∈ ps, WfPkt snaplen p) :
    ∃ e, (e = Stop.eof ∨ e = Stop.ueof) ∧
      readFile gz zc { data := (writeFile nanos snaplen lt (inputs ps)).take k, fail := false } =
        (if 24 ≤ k then some (lt, snaplen, nanos) else none,
         (ps.map (truncTs nanos)).take (whole (k - 24) ps), .stop e) := by
  rw [readFile_written_cut gz zc nanos snaplen lt ps false k hs hl hwf]
  by_cases hk : 24 ≤ k
  · exact ⟨prefixEnd false (k - 24) ps, prefixEnd_cases _ _, by simp [hk]⟩
  · refine ⟨headerEnd false k, ?_, ?_⟩
    · unfold headerEnd; simp only [Bool.false_eq_true, if_false]; split <;> simp
    · have : whole (k - 24) ps = 0 := by
        have : k - 24 = 0 := by omega
        rw [this]; cases ps <;> simp [whole]
      simp [hk, this]

/-- `whole j ps` is what the property calls "the packets wholly contained in the prefix": that
    many records fit into the `j` bytes after the file header and one more does not. -/
theorem pcap_whole_spec (nanos : Bool) (j : Nat) (ps : List Pkt) :
    whole j ps ≤ ps.length ∧
    (encAll nanos (ps.take (whole j ps))).length ≤ j ∧
    (whole j ps < ps.length → j < (encAll nanos (ps.take (whole j ps + 1))).length) :=
  ⟨whole_le j ps, whole_spec nanos j ps⟩

/-- The same cut followed by a read error of the underlying stream instead of io.EOF (the
    writing process died and the medium fails): same packets, then that error. -/
theorem pcap_prefix_ioerr (gz : Stream → Option Stream) (zc nanos : Bool) (snaplen lt : Nat) (ps : List Pkt) (k : Nat)
    (hs : snaplen < 4294967296) (hl : lt < 65536) (hwf : ∀ p ∈ ps, WfPkt snaplen p) :
    readFile gz zc { data := (writeFile nanos snaplen lt (inputs ps)).take k, fail := true } =
      (if 24 ≤ k then some (lt, snaplen, nanos) else none,
       (ps.map (truncTs nanos)).take (whole (k - 24) ps), .stop .ioerr) := by
  rw [readFile_written_cut gz zc nanos snaplen lt ps true k hs hl hwf]
  by_cases hk : 24 ≤ k
  · simp [hk, prefixEnd_fail]
  · have : whole (k - 24) ps = 0 := by
      have : k - 24 = 0 := by omega
      rw [this]; cases ps <;> simp [whole]
    simp [hk, this, headerEnd]

/-- Copying and zero-copy calls are interchangeable on EVERY stream (valid or not): a whole-file
    read returns the same header, packets and final outcome. -/
theorem zero_copy_same (gz : Stream → Option Stream) (s : Stream) :
    readFile gz true s = readFile gz false s := by
  unfold readFile
  split
  · rfl
  · rename_i r al _
    rw [readAll_mode true false r.s.data.length r r (Nat.le_refl _) ⟨rfl, rfl, rfl, rfl, rfl⟩]

/-- …and so are arbitrary mixtures: two call sequences of the same length started in the same
    reader state produce the same outcomes, call by call. -/
theorem zero_copy_same_calls (r : Reader) (ms1 ms2 : List Bool) (h : ms1.length = ms2.length) :
    outs r ms1 = outs r ms2 :=
  outs_mode ms1 ms2 r r h ⟨rfl, rfl, rfl, rfl, rfl⟩

end Gp.C14.Pcap
