import Gp.Model.PcapNgWrite
import Gp.Model.PcapNgMem
namespace Gp.C14.PcapNg
end Gp.C14.PcapNg
