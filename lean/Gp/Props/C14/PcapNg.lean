import Gp.Lemmas.PcapNgPrefix
import Gp.Lemmas.PcapNgRT9
/-
  C14 (pcapng part) — capture files round-trip; a truncated file yields a true prefix of packets.

  Models: `Gp/Model/PcapNg.lean` (NgReader), `Gp/Model/PcapNgWrite.lean` (NgWriter), `Gp/Model/PcapNgMem.lean`
  (where the data bytes of the copying / zero-copy call live).  Definitions used in the statements
  (Gp/Lemmas/PcapNgPrefix.lean, PcapNgRT3/4/6/8/9.lean):

    readFile cfg inp   : NewNgReader on `inp`, then calls until the first one that fails:
                         (packets, final error, final reader)                       [Gp/Model/PcapNg.lean]
    readFileE cfg inp  : the same, every packet paired with the offset of `inp` reached when it was returned,
                         plus the offset reached by the failing call
    ShortE e           : e is io.EOF, io.ErrUnexpectedEOF, or an error wrapping one of them (`werr`: the reader
                         wraps read errors inside name-resolution / decryption-secrets blocks with fmt.Errorf %v)
    isGzip inp         : the input starts with the gzip magic (then it is handed to compress/gzip: not modelled)
    writeFile f        : bytes written by NewNgWriterInterface(f.sect, f.if0) + the calls `f.items` + Flush, and the
                         number of calls that returned an error                     [Gp/Model/PcapNgWrite.lean]
    WfFile cfg f       : strings/option values shorter than 2^16, numbers within their fields, every block shorter
                         than 2^32, every call accepted by the writer; packets on interfaces of another link type than
                         the first one only if the reader skips them silently (WantMixedLinkType on, or
                         ErrorOnMismatchingLinkType off); no WriteInterfaceStats calls (see `ng_roundtrip_full`)
    expect cfg lt ifs its : the packets the reader returns: one per WritePacketWithOptions call on an interface it
                         returns packets of (all with WantMixedLinkType, else those with the first link type `lt`), `expPkt`
    expPkt             : interface, CaptureLength = |data|, Length, data as written; options `normOpts opts` (numbers
                         reduced to the width of their Go types: identity on in-range values, `normOpts_canon`);
                         time `tsRead tsoff ts` = written time + TimestampOffset seconds (`tsRead_eq`)
    idealPkt/idealAll  : the packets exactly as written (what the property demands)
-/
namespace Gp.C14.PcapNg
open Gp Gp.PcapNg Gp.Gen.PcapNg

/-! ## truncation -/

/-- `readFileE` is `readFile` with offsets: same packets, same final error, same final reader. -/
theorem ng_offsets_erase (cfg : Cfg) (inp : Bytes) :
    (readFileE cfg inp).1.map Prod.fst = (readFile cfg inp).1 ∧ (readFileE cfg inp).2.1 = (readFile cfg inp).2.1 ∧
    (readFileE cfg inp).2.2.2 = (readFile cfg inp).2.2 :=
  readFileE_erase cfg inp

/-- Crash points, for ANY input (in particular any written file) cut at ANY offset `k`: the reader returns
    exactly the packets of the complete read that were completed at an offset ≤ k — unaltered, none invented,
    a prefix of the complete sequence — and then
      * the same final outcome at the same offset, if the complete read stopped at an offset ≤ k, or else
      * io.EOF / io.ErrUnexpectedEOF, or an error wrapping one of them — the latter only if the complete read
        went through a block in which the reader wraps its read errors (`nWrap` counts those reads). -/
theorem ng_prefix (cfg : Cfg) (inp : Bytes) (k : Nat) (hg : ¬ isGzip inp) :
    (readFileE cfg (inp.take k)).1 = (readFileE cfg inp).1.filter (fun x => decide (x.2 ≤ k)) ∧
    (∃ m, (readFileE cfg (inp.take k)).1 = (readFileE cfg inp).1.take m) ∧
    (((readFileE cfg inp).2.2.1 ≤ k ∧ (readFileE cfg (inp.take k)).2.1 = (readFileE cfg inp).2.1 ∧
        (readFileE cfg (inp.take k)).2.2.1 = (readFileE cfg inp).2.2.1) ∨
     (k < (readFileE cfg inp).2.2.1 ∧ ShortE (readFileE cfg (inp.take k)).2.1 ∧
        ((readFileE cfg (inp.take k)).2.1 = .werr → 0 < (readFileE cfg inp).2.2.2.w.nWrap))) := by
  have h := readFileE_cut cfg inp k hg
  obtain ⟨m, hm⟩ := readFileE_filter_take cfg inp k
  exact ⟨h.1, ⟨m, by rw [h.1, hm]⟩, h.2⟩

/-- The same in terms of `readFile`: the packets read from the first `k` bytes are a prefix of the packets
    read from the whole input, and the final error is the complete read's or a (possibly wrapped) EOF. -/
theorem ng_prefix_packets (cfg : Cfg) (inp : Bytes) (k : Nat) (hg : ¬ isGzip inp) :
    (∃ m, (readFile cfg (inp.take k)).1 = (readFile cfg inp).1.take m) ∧
    ((readFile cfg (inp.take k)).2.1 = (readFile cfg inp).2.1 ∨ ShortE (readFile cfg (inp.take k)).2.1) := by
  have h := ng_prefix cfg inp k hg
  obtain ⟨m, hm⟩ := h.2.1
  have e1 := readFileE_erase cfg inp
  have e2 := readFileE_erase cfg (inp.take k)
  refine ⟨⟨m, ?_⟩, ?_⟩
  · rw [← e2.1, ← e1.1, hm, List.map_take]
  · rw [← e2.2.1, ← e1.2.1]
    rcases h.2.2 with h3 | h3
    · exact Or.inl h3.2.1
    · exact Or.inr h3.2.1

/-- `ng_prefix` is not vacuous: the cut of a file (section header, interface, one enhanced packet with 2 data
    bytes, ending at offset 84) inside the packet block returns no packet and io.ErrUnexpectedEOF. -/
example : (readFile {} (List.take 80 [0x0a, 0x0d, 0x0d, 0x0a, 28, 0, 0, 0, 0x4d, 0x3c, 0x2b, 0x1a, 1, 0, 0, 0,
      0xff, 0xff, 0xff, 0xff, 0xff, 0xff, 0xff, 0xff, 28, 0, 0, 0,
      1, 0, 0, 0, 20, 0, 0, 0, 1, 0, 0, 0, 0, 0, 0, 0, 20, 0, 0, 0,
      6, 0, 0, 0, 36, 0, 0, 0, 0, 0, 0, 0, 0, 0, 0, 0, 1, 0, 0, 0, 2, 0, 0, 0, 2, 0, 0, 0, 0xde, 0xad, 0, 0,
      36, 0, 0, 0])).2.1 = Err.ueof := by decide

/-! ## round trip -/

/-- Round trip, for EVERY well-formed file and reader options: the writer accepts every call, and NewNgReader +
    ReadPacketData(WithOptions) / ZeroCopyReadPacketData(WithOptions) until the first failure return exactly one
    packet per WritePacketWithOptions call on an interface whose packets the reader returns (all of them with
    WantMixedLinkType, else those with the first interface's link type; the others are skipped), in order (`expect`),
    then a clean io.EOF with all input consumed and no
    wrapped error; the reader's section info is the written one, its interfaces are the written ones (name,
    comment, description, filter, OS, link type, snap length, TimestampOffset, resolution 9 — empty strings stay
    empty), its link type is the first interface's (unless WantMixedLinkType). -/
theorem ng_roundtrip (cfg : Cfg) (f : FileSpec) (hw : WfFile cfg f) :
    (writeFile f).2 = 0 ∧
    ∃ rf, readFile cfg (writeFile f).1 = (expect cfg f.if0.linkType [f.if0] f.items, .eof, rf) ∧
      rf.s.sect = f.sect ∧ rf.s.ifaces = (finalIfs [f.if0] f.items).map ifaceOf ∧
      rf.s.linkType = (if cfg.mixed then 0 else f.if0.linkType) ∧ rf.w.inp = [] ∧ rf.w.nWrap = 0 := by
  obtain ⟨h0, rf, h1, h2, h3, h4⟩ := readFile_written cfg f hw
  exact ⟨h0, rf, h1, congrArg Core.sect h2, congrArg Core.ifaces h2, congrArg Core.linkType h2, h3, h4⟩

/-- `ng_roundtrip` is not vacuous: a file with section strings (one empty), an interface with options, a second
    interface of ANOTHER link type (its packet is skipped by this reader), packets with comments (one empty, lengths
    not multiple of 4), flags, hashes, drop count, packet id, queue, verdicts and a secrets block is well-formed. -/
example : WfFile {}
    { sect := { app := [97, 98, 99], comment := [], hardware := [104], os := [111, 115] },
      if0 := { name := [101, 116, 104, 48], descr := [100], filter := [102], linkType := 1, tsoff := 0, snaplen := 65535 },
      items := [.pkt 0 1500000000123456789 60 [1, 2, 3] { comments := [[], [99, 111, 109]], flags := some ⟨1, 4, 32, 65536⟩, hashes := [(2, [1, 2, 3, 4])], dropCount := some 7, packetId := some 9, queue := some 1, verdicts := [(0, [5])] },
                .iface { name := [98], linkType := 105 },
                .dsb DSB_SECRETS_TYPE_TLS [1, 2, 3, 4, 5],
                .pkt 1 0 0 [] {}] } := by
  refine ⟨by decide, by decide, ⟨by decide, by decide, by decide, by decide, by decide, by decide, by decide, by decide⟩,
    by decide, ?_⟩
  refine ⟨⟨_, rfl, Or.inr (Or.inl rfl)⟩, by decide, by decide, by decide, ⟨by decide, by decide, by decide⟩, by decide, ?_⟩
  refine ⟨⟨by decide, by decide, by decide, by decide, by decide, by decide, by decide, by decide⟩, by decide, ?_⟩
  refine ⟨by decide, by decide, ?_⟩
  exact ⟨⟨_, rfl, Or.inr (Or.inr rfl)⟩, by decide, by decide, by decide, ⟨by decide, by decide, by decide⟩, by decide, trivial⟩

/-- What a returned packet is: interface, lengths and data exactly as written; options with every number reduced
    to the width of its Go type (comments — including empty ones — hashes, verdicts byte for byte); time =
    `tsRead` of the interface's TimestampOffset and the written UnixNano. -/
theorem ng_roundtrip_packet (cfg : Cfg) (sp : IfaceSpec) (iface : Nat) (ts : Int) (len : Nat) (data : Bytes) (opts : PktOpts) :
    (expPkt cfg sp iface ts len data opts).data = data ∧
    (expPkt cfg sp iface ts len data opts).ci.caplen = data.length ∧
    (expPkt cfg sp iface ts len data opts).ci.len = len ∧
    (expPkt cfg sp iface ts len data opts).ci.iface = iface ∧
    (expPkt cfg sp iface ts len data opts).ancil = (if cfg.mixed then some sp.linkType else none) ∧
    (expPkt cfg sp iface ts len data opts).opts.comments = opts.comments ∧
    (expPkt cfg sp iface ts len data opts).opts = normOpts opts ∧
    (expPkt cfg sp iface ts len data opts).ci.ts = tsRead sp.tsoff ts := by
  simp only [expPkt, normOpts, and_self]

/-- Option values within the width of their Go types read back unchanged. -/
theorem ng_roundtrip_options (o : PktOpts) (h : CanonOpts o) : normOpts o = o := normOpts_canon o h

/-- Timestamps: a written time `ts` (UnixNano, a non-negative int64) reads back as `ts` plus the interface's
    TimestampOffset in SECONDS (as long as that fits an int64) — the written time itself iff the offset is 0. -/
theorem ng_roundtrip_time (tsoff : Nat) (ts : Int) (h0 : 0 ≤ ts) (h1 : ts < 9223372036854775808)
    (h2 : ts / 1000000000 + tsoff < 9223372036854775808) :
    tsRead tsoff ts = ⟨ts / 1000000000 + tsoff, ts % 1000000000⟩ ∧ (tsoff = 0 → tsRead tsoff ts = timeOfNanos ts) := by
  refine ⟨tsRead_eq tsoff ts h0 h1 h2, fun h => ?_⟩
  subst h
  exact tsRead_zero ts h0 h1

/-- The round trip is the identity — the packets exactly as written — when no interface has a TimestampOffset,
    the times are non-negative int64 values and the option values are within their types. -/
theorem ng_roundtrip_identity (cfg : Cfg) (f : FileSpec) (hw : WfFile cfg f) (hoff : f.if0.tsoff = 0)
    (hp : PlainItems f.items) :
    ∃ rf, readFile cfg (writeFile f).1 = (idealAll cfg f.if0.linkType [f.if0] f.items, .eof, rf) := by
  obtain ⟨_, rf, h1, _⟩ := ng_roundtrip cfg f hw
  refine ⟨rf, ?_⟩
  rw [h1, expect_ideal cfg f.if0.linkType f.items [f.if0] (fun sp hsp => by simp only [List.mem_singleton] at hsp; rw [hsp]; exact hoff) hp]

/-- The full property as stated in C14: every well-formed file — WriteInterfaceStats calls included (`WfFileAll`) —
    reads back exactly as written (`idealAll`), then io.EOF.  It is FALSE for the code as it is: see
    `ng_roundtrip_tsoffset_counterexample`.  Proved: `ng_roundtrip` (what is read back, always, for files without
    WriteInterfaceStats calls) and `ng_roundtrip_identity` (identity without TimestampOffset).  Missing from the proved
    part (covered by the correspondence run and the monitors only): files with WriteInterfaceStats blocks. -/
def ng_roundtrip_full : Prop :=
  ∀ (cfg : Cfg) (f : FileSpec), WfFileAll cfg f →
    ∃ rf, readFile cfg (writeFile f).1 = (idealAll cfg f.if0.linkType [f.if0] f.items, .eof, rf)

/-- `ng_roundtrip_full` restricted to what is proved: the conclusion of the full property under the explicit hypotheses
    that exclude the TimestampOffset defect (`tsoff = 0` for the first interface, `PlainItems` for the added ones;
    `PlainItems` also bounds times and option numbers to their Go types) and the unproved part (`WfFile`: no
    WriteInterfaceStats calls). -/
theorem ng_roundtrip_partial (cfg : Cfg) (f : FileSpec) (hw : WfFile cfg f) (hoff : f.if0.tsoff = 0)
    (hp : PlainItems f.items) :
    ∃ rf, readFile cfg (writeFile f).1 = (idealAll cfg f.if0.linkType [f.if0] f.items, .eof, rf) :=
  ng_roundtrip_identity cfg f hw hoff hp

/-- the extra hypotheses of `ng_roundtrip_partial` are satisfiable by a non-trivial item list: a packet with an empty
    comment and flags, a second interface, a packet on it. -/
example : PlainItems [.pkt 0 1500000000123456789 60 [1, 2, 3] { comments := [[]], flags := some ⟨1, 4, 32, 65536⟩ },
    .iface { name := [98], linkType := 105 }, .pkt 1 0 0 [] {}] := by
  refine ⟨by decide, by decide, ⟨?_, ?_, ?_, ?_, ?_, ?_⟩, rfl, by decide, by decide, ⟨?_, ?_, ?_, ?_, ?_, ?_⟩, trivial⟩
  · intro f h; cases h; decide
  · intro h hh; cases hh
  · intro h hh; cases hh
  · intro v h; cases h
  · intro v h; cases h
  · intro v h; cases h
  · intro f h; cases h
  · intro h hh; cases hh
  · intro h hh; cases hh
  · intro v h; cases h
  · intro v h; cases h
  · intro v h; cases h

/-- The defect: with NgInterface.TimestampOffset ≠ 0 the packets do NOT read back as written (the writer stores the
    absolute time AND the if_tsoffset option, the reader adds the offset) — one interface with offset 1 s, one
    empty packet at time 0 reads back at time 1 s. -/
theorem ng_roundtrip_tsoffset_counterexample : ¬ ng_roundtrip_full := by
  intro h
  have hw : WfFile {} { if0 := { tsoff := 1 }, items := [.pkt 0 0 0 [] {}] } := by
    refine ⟨by decide, by decide, ⟨by decide, by decide, by decide, by decide, by decide, by decide, by decide, by decide⟩,
      by decide, ?_⟩
    exact ⟨⟨_, rfl, Or.inr (Or.inl rfl)⟩, by decide, by decide, by decide, ⟨by decide, by decide, by decide⟩, by decide, trivial⟩
  obtain ⟨rf, h1⟩ := h {} _ (wfFileAll_of_wf hw)
  obtain ⟨_, rf', h2, _⟩ := ng_roundtrip {} _ hw
  rw [h2] at h1
  have h3 : expect {} 1 [{ tsoff := 1 }] [.pkt 0 0 0 [] {}] = idealAll {} 1 [{ tsoff := 1 }] [.pkt 0 0 0 [] {}] :=
    congrArg Prod.fst h1
  exact absurd h3 (by decide)

/-! ## truncated written files -/

/-- Crash points of a WRITTEN file: cut at any offset `k`, the reader returns a prefix of the written packets
    (exactly those completed at an offset ≤ k) and then io.EOF or io.ErrUnexpectedEOF — never an error of its own,
    never a wrapped one, never an altered or invented packet. -/
theorem ng_prefix_written (cfg : Cfg) (f : FileSpec) (hw : WfFile cfg f) (k : Nat) :
    (∃ m, (readFile cfg ((writeFile f).1.take k)).1 = (expect cfg f.if0.linkType [f.if0] f.items).take m) ∧
    ((readFile cfg ((writeFile f).1.take k)).2.1 = .eof ∨ (readFile cfg ((writeFile f).1.take k)).2.1 = .ueof) := by
  obtain ⟨_, rf, h1, _, _, _, _, hnw⟩ := ng_roundtrip cfg f hw
  have hg : ¬ isGzip (writeFile f).1 := written_not_gzip f
  have hp := ng_prefix cfg (writeFile f).1 k hg
  have e1 := readFileE_erase cfg (writeFile f).1
  have e2 := readFileE_erase cfg ((writeFile f).1.take k)
  rw [h1] at e1
  obtain ⟨m, hm⟩ := hp.2.1
  refine ⟨⟨m, ?_⟩, ?_⟩
  · rw [← e2.1, hm, List.map_take, e1.1]
  · rw [← e2.2.1]
    rcases hp.2.2 with h3 | h3
    · left; rw [h3.2.1, e1.2.1]
    · obtain ⟨_, hs, hwr⟩ := h3
      rcases hs with h | h | h
      · exact Or.inl h
      · exact Or.inr h
      · have := hwr h
        rw [e1.2.2, hnw] at this
        exact absurd this (Nat.lt_irrefl 0)

/-! ## copying and zero-copy calls -/

/-- Copying and zero-copy calls run the same reader program (the model has one `readPacket` for both: outcome,
    packet fields and options are identical by construction); they differ only in where the data bytes live.  For a
    data read that completed, the slice handed to the caller holds exactly the bytes the stream delivered — for the
    copying call (fresh buffer, grown incrementally) and for the zero-copy call (reused / pre-allocated packet
    buffer), whatever stale contents the reused buffer had. -/
theorem zero_copy_same (m m' : Mem) (n : Nat) (got : Bytes) (snap : Nat) (hg : got.length = n) :
    (memStep true m (.data n got snap)).view = some got ∧ (memStep false m' (.data n got snap)).view = some got :=
  ⟨memStep_view true m n got snap hg, memStep_view false m' n got snap hg⟩

/-- The zero-copy call allocates nothing once its packet buffer is large enough. -/
theorem zero_copy_reuses (m : Mem) (b : Bytes) (n : Nat) (got : Bytes) (snap : Nat) (hb : m.pbuf = some b) (h : n ≤ b.length) :
    (memStep true m (.data n got snap)).allocs = [] :=
  memStep_zero_reuse m b n got snap hb h

end Gp.C14.PcapNg
