import Gp.Lemmas.Pcap
/-
  C15 (classic pcap part) — the reader is safe on arbitrary and hostile input.

  Model: `Gp/Model/Pcap.lean` (pcapgo/read.go).  A stream is its bytes plus a terminal
  condition (io.EOF, or a read error of the underlying reader); `gz` is compress/gzip as an
  ARBITRARY function from the input to the decompressed stream (or rejection), so the theorems
  hold whatever gzip delivers — including a stream that ends in a decompression error.
  `StepSafe r st` (Gp/Lemmas/Pcap.lean) says for one call started in state `r`:
    no panic · a returned packet has |data| = CaptureLength ≤ Length, CaptureLength ≤ snap length,
    the data are the next CaptureLength bytes of the input after the 16-byte record header and
    exactly 16 + CaptureLength bytes were consumed · every allocation request ≤ the snap length
    (declared in the file header or set with SetSnaplen) · the remaining input never grows.
  Not modelled (explored by the adapter at run time): how the stream splits into Read calls.
-/
namespace Gp.C15.Pcap
open Gp Gp.Pcap

/-- NewReader on ANY byte stream: never panics; on success it has allocated only the bufio buffer
    and the 24-byte header buffer, holds a snap length < 2^32 and no packet buffer, and is
    positioned 24 bytes into the (plain or decompressed) stream. -/
theorem pcap_open_safe (gz : Stream → Option Stream) (s : Stream) :
    (∀ k, openReader gz s ≠ .fail (.panic k)) ∧
    (∀ r al, openReader gz s = .ok r al →
      al = [4096, 24] ∧ r.bufCap = 0 ∧ r.snaplen < 4294967296 ∧
      ∃ src, (src = s ∨ gz s = some src) ∧ r.s.data = src.data.drop 24 ∧ 24 ≤ src.data.length ∧ r.s.fail = src.fail) :=
  openReader_safe gz s

/-- One ReadPacketData / ZeroCopyReadPacketData call from ANY reader state on ANY remaining input. -/
theorem pcap_read_step_safe (zc : Bool) (r : Reader) : StepSafe r (read zc r) := read_safe zc r

/-- Every call of every call sequence (copying and zero-copy calls mixed, SetSnaplen in between)
    on every stream is safe, and works on a suffix of the opened stream. -/
theorem pcap_read_safe (gz : Stream → Option Stream) (s : Stream) (r : Reader) (al : List Nat) (ops : List Op)
    (h : openReader gz s = .ok r al) :
    ∀ x ∈ steps r ops, StepSafe x.1 x.2 ∧ x.1.s.data.length ≤ r.s.data.length ∧ x.1.s.fail = r.s.fail :=
  fun x hx => steps_safe ops r x hx

/-- `pcap_read_safe` is not vacuous: a little-endian µs header (snap length 0x0000ffff) opens. -/
example : openReader noGz
    { data := [0xd4, 0xc3, 0xb2, 0xa1, 2, 0, 4, 0, 0, 0, 0, 0, 0, 0, 0, 0, 0xff, 0xff, 0, 0, 1, 0, 0, 0, 9, 9, 9], fail := false }
    = .ok { s := { data := [9, 9, 9], fail := false }, bigEndian := false, nanoFactor := 1000, snaplen := 65535,
            linkType := 1, bufCap := 0 } [4096, 24] := by decide

/-- No hang: reading until the first non-packet outcome terminates (the function is total) and
    returns at most one packet per 16 bytes of input. -/
theorem pcap_read_terminates (zc : Bool) (r : Reader) : 16 * (readAll zc r).1.length ≤ r.s.data.length :=
  readAll_count zc r.s.data.length r (Nat.le_refl _)

/-- A read error of the underlying stream surfaces as that error: on a failing stream no call
    reports io.EOF or io.ErrUnexpectedEOF, and reading to the end finishes with the stream's
    error (or an error of the reader's own on the way), never with a panic. -/
theorem pcap_ioerr_surfaces (zc : Bool) (r : Reader) (hf : r.s.fail = true) :
    (∀ k, (read zc r).out = .stop k → k = .ioerr) ∧
    ((readAll zc r).2 = .stop .ioerr ∨ (readAll zc r).2 = .err) :=
  ⟨read_fail_kind zc r hf, readAll_fail zc r.s.data.length r (Nat.le_refl _) hf⟩

end Gp.C15.Pcap
