import Gp.Lemmas.PcapNgCalls
import Gp.Lemmas.PcapNgTrunc
/-
  C15 (pcapng part) — the pcapng reader is safe on arbitrary and hostile input.

  Model: `Gp/Model/PcapNg.lean` (pcapgo/ngread.go, ngread_nrb.go, ngread_dsb.go, pcapng.go with the
  fixes pcapng-1…6), written in the `Prog` language of `Gp/Model/PcapNgProg.lean`; allocation
  behaviour in `Gp/Model/PcapNgMem.lean`.  Go panics (index, divide by zero) are outcomes
  `Err.panic k` of the model; loops are fuel-bounded and running out of fuel is the outcome
  `Err.hang`.  All theorems quantify over ALL byte strings, reader options and call sequences.

    openReader cfg inp : NewNgReader on the bytes `inp`
    readPacket r       : one ReadPacketData(WithOptions) / ZeroCopyReadPacketData(WithOptions) call (the two
                         differ only in where the data bytes live, which PcapNgMem.lean interprets)
    nthCall r n        : the (n+1)-th call when the caller keeps calling whatever earlier calls returned
    PktOK p            : |p.data| = p.ci.caplen ≤ p.ci.len
    EvOK avail e       : the memory event `e` is backed by a stream that had `avail` bytes left
    allocBound avail   : 2 * avail + ngMaxPrealloc

  Not modelled (explored by the adapter at run time): how the stream splits into Read calls, injected
  I/O errors (the model's stream ends with EOF only — see `ng_short_read_surfaces` for what is proved),
  gzip-wrapped streams (handed to compress/gzip).
-/
namespace Gp.C15.PcapNg
open Gp Gp.PcapNg Gp.Gen.PcapNg

/-- No panic: NewNgReader on ANY bytes with ANY options does not panic, and if it returns a reader then
    EVERY call of EVERY call sequence on it (copying and zero-copy calls, calls after errors) does not
    panic either — no index out of range, no divide by zero in convertTime (if_tsresol), no slice bounds. -/
theorem ng_read_safe (cfg : Cfg) (inp : Bytes) :
    (∀ k s w, openReader cfg inp ≠ .fail (.panic k) s w) ∧
    (∀ s w, openReader cfg inp = .ok () s w → ∀ n k s' w', nthCall ⟨s, w⟩ n ≠ .fail (.panic k) s' w') := by
  have ho := openReader_ok cfg inp
  constructor
  · intro k s w h
    rw [h] at ho
    cases ho.2
  · intro s w h n k s' w' hn
    rw [h] at ho
    have := nthCall_ok n ⟨s, w⟩ ho
    rw [hn] at this
    cases this.2

/-- `ng_read_safe` is not vacuous: a section header followed by an interface description opens. -/
example : (openReader {} [0x0a, 0x0d, 0x0d, 0x0a, 28, 0, 0, 0, 0x4d, 0x3c, 0x2b, 0x1a, 1, 0, 0, 0,
      0xff, 0xff, 0xff, 0xff, 0xff, 0xff, 0xff, 0xff, 28, 0, 0, 0,
      1, 0, 0, 0, 20, 0, 0, 0, 1, 0, 0, 0, 0, 0, 0, 0, 20, 0, 0, 0]).isOk = true := by decide

/-- Every packet returned by any call of any call sequence has |data| = CaptureLength ≤ Length. -/
theorem ng_packet_lengths (cfg : Cfg) (inp : Bytes) (s : S) (w : Strm) (h : openReader cfg inp = .ok () s w)
    (n : Nat) (p : Pkt) (s' : S) (w' : Strm) (hn : nthCall ⟨s, w⟩ n = .ok p s' w') :
    p.data.length = p.ci.caplen ∧ p.ci.caplen ≤ p.ci.len := by
  have ho := openReader_ok cfg inp
  rw [h] at ho
  have := nthCall_ok n ⟨s, w⟩ ho
  rw [hn] at this
  exact this.2

/-- No hang: the fuel "bytes left + 1" always suffices — neither NewNgReader nor any call from ANY reader
    state ever runs a loop out of fuel (every loop iteration that continues has consumed input); a call
    that returns a packet has consumed at least 8 bytes, no call un-reads input; hence reading until
    the first failure returns at most |input| / 8 packets and ends with a genuine error. -/
theorem ng_read_terminates (cfg : Cfg) (inp : Bytes) (r : Rd) :
    (openReader cfg inp).isHang = false ∧
    (readPacket r).isHang = false ∧
    (∀ p s w, readPacket r = .ok p s w → w.inp.length + 8 ≤ r.w.inp.length) ∧
    (readPacket r).w.inp.length ≤ r.w.inp.length ∧
    (readAll r).2.1 ≠ .hang ∧ 8 * (readAll r).1.length ≤ r.w.inp.length :=
  ⟨openReader_nohang cfg inp, readPacket_nohang r, fun _ _ _ h => readPacket_consumes h, readPacket_len_le r,
   (readAllF_spec _ r (Nat.lt_succ_self _)).1, (readAllF_spec _ r (Nat.lt_succ_self _)).2⟩

/-- Allocation: every memory event of a call (and of NewNgReader) is backed by the stream — what it
    delivered was present — and every allocation request the reader derives from these events, for the
    copying (`zero = false`) and the zero-copy call, from ANY buffer state `m`, is at most
    2 × (bytes present) + ngMaxPrealloc (1 MiB; it also caps the pre-allocation of the declared snap
    length), whatever capture / secrets / option / record lengths the input declares. -/
theorem ng_alloc_bounded (cfg : Cfg) (inp : Bytes) (r : Rd) (zero : Bool) (m : Mem) :
    (∀ e ∈ (readPacket r).w.ev, EvOK r.w.inp.length e) ∧
    (∀ a ∈ (memRun zero m (readPacket r).w.ev).2, a ≤ allocBound r.w.inp.length) ∧
    (∀ e ∈ (openReader cfg inp).w.ev, EvOK inp.length e) ∧
    (∀ a ∈ (memRun zero m (openReader cfg inp).w.ev).2, a ≤ allocBound inp.length) :=
  ⟨readPacket_events_ok r, memRun_allocs zero _ _ m (readPacket_events_ok r),
   openReader_events_ok cfg inp, memRun_allocs zero _ _ m (openReader_events_ok cfg inp)⟩

/-- the bound of `ng_alloc_bounded` is the named constant of the source -/
theorem ng_alloc_bound_const (avail : Nat) : allocBound avail = 2 * avail + 1048576 := rfl

/-- A short read surfaces as an error of the call: if a call needed more than the `k` bytes that are
    left of a truncated stream, it returns no packet but fails — with io.EOF, io.ErrUnexpectedEOF or an
    error wrapping one of them (and then the complete run wrapped an error too) — having consumed
    everything; if it did not need more, it returns exactly what it returns on the complete stream. -/
theorem ng_short_read_surfaces (f : Nat) (s : S) (w : Strm) (k : Nat) :
    TruncSpec (run f readPacketP s w) w k (run f readPacketP s (w.trunc k)) :=
  run_trunc f readPacketP s w k

end Gp.C15.PcapNg
