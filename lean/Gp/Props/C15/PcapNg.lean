import Gp.Model.PcapNgWrite
import Gp.Model.PcapNgMem
namespace Gp.C15.PcapNg
end Gp.C15.PcapNg
