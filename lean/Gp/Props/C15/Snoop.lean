import Gp.Lemmas.Snoop
/-
  C15 (snoop part) — the snoop reader is safe on arbitrary and hostile input.

  Model: `Gp/Model/Snoop.lean` = pcapgo/snoop.go AFTER proposed_fixes/pcap-1-snoop-record-length
  (the unfixed code computes the pad from the original length and allocates `caplen + pad`
  unchecked: it panics on every truncated capture and on short record lengths, and allocates up
  to 4 GiB for a large record length — reproduced by engine `snoop` on the unfixed tree).
  `StepSafe r st` (Gp/Lemmas/Snoop.lean) says for one call started in state `r`:
    no panic · a returned packet has |data| = CaptureLength ≤ Length, CaptureLength ≤ maxCaptureLen
    (4096), the data are the CaptureLength bytes following the 24-byte record header, and at least
    24 + CaptureLength bytes were consumed · every allocation request is ≤ maxCaptureLen or is the
    constant 8 KiB scratch block of io.Discard · the remaining input never grows.
-/
namespace Gp.C15.Snoop
open Gp Gp.Snoop
open Gp.Pcap (Stream Stop)

/-- NewSnoopReader on ANY byte stream: never panics; on success a 16-byte buffer was allocated,
    the link type code is ≤ 10 and the reader is positioned 16 bytes into the stream. -/
theorem snoop_open_safe (s : Stream) :
    (∀ k, openReader s ≠ .fail (.panic k)) ∧
    (∀ r al, openReader s = .ok r al →
      al = [16] ∧ r.bufCap = 0 ∧ r.linkType ≤ 10 ∧ r.s.data = s.data.drop 16 ∧ 16 ≤ s.data.length ∧ r.s.fail = s.fail) :=
  openReader_safe s

/-- One ReadPacketData / ZeroCopyReadPacketData call from ANY reader state on ANY remaining input. -/
theorem snoop_read_step_safe (zc : Bool) (r : Reader) : StepSafe r (read zc r) := read_safe zc r

/-- Every call of every sequence of copying / zero-copy calls on every stream is safe and works on
    a suffix of the opened stream. -/
theorem snoop_read_safe (s : Stream) (r : Reader) (al : List Nat) (ms : List Bool) (h : openReader s = .ok r al) :
    ∀ x ∈ steps r ms, StepSafe x.1 x.2 ∧ x.1.s.data.length ≤ r.s.data.length ∧ x.1.s.fail = r.s.fail :=
  fun x hx => steps_safe ms r x hx

/-- Not vacuous, and the case the unfixed code panics on: a truncated capture (original length
    1500, included length 3, record length 28 = 24 + 3 + 1 pad byte) is returned intact and the
    pad is skipped. -/
example :
    (read false { s := { data := [0, 0, 5, 220, 0, 0, 0, 3, 0, 0, 0, 28, 0, 0, 0, 0, 0, 0, 0, 100, 0, 0, 0, 5,
                                  0xaa, 0xbb, 0xcc, 0, 7, 7], fail := false }, linkType := 4, bufCap := 0 }) =
      { r := { s := { data := [7, 7], fail := false }, linkType := 4, bufCap := 0 },
        out := .pkt { sec := 100, nsec := 5000, caplen := 3, len := 1500, data := [0xaa, 0xbb, 0xcc] },
        alloc := [3, 8192] } := by decide

/-- A record length smaller than header + data is an error, not a negative `make`. -/
example :
    (read true { s := { data := [0, 0, 0, 3, 0, 0, 0, 3, 0, 0, 0, 10, 0, 0, 0, 0, 0, 0, 0, 100, 0, 0, 0, 5,
                                 0xaa, 0xbb, 0xcc], fail := false }, linkType := 4, bufCap := 0 }).out = .err := by decide

/-- The safety above is not bought by rejecting everything: a well-formed RFC 1761 record — data,
    any pad, and in particular a TRUNCATED capture (`data.length < orig`, the case on which the
    unfixed code panics) — is returned as its packet (µs → ns), the pad is skipped and the
    stream is left at the next record.  (`Rec`, `WfRec`, `encRec`: Gp/Lemmas/Snoop.lean.) -/
theorem snoop_reads_record (zc : Bool) (lt cap : Nat) (rc : Rec) (rest : Bytes) (f : Bool) (h : WfRec rc) :
    let r : Reader := { s := { data := encRec rc ++ rest, fail := f }, linkType := lt, bufCap := cap }
    (read zc r).out = .pkt { sec := rc.sec, nsec := rc.usec * 1000, caplen := rc.data.length, len := rc.orig, data := rc.data } ∧
    (read zc r).r.s = { data := rest, fail := f } ∧ (read zc r).r.linkType = lt :=
  read_encRec zc lt cap rc rest f h

example : WfRec { orig := 1500, drops := 0, sec := 100, usec := 5, data := [0xaa, 0xbb, 0xcc], pad := [0] } := by decide

/-- No hang: reading until the first non-packet outcome terminates (the function is total) and
    returns at most one packet per 24 bytes of input. -/
theorem snoop_read_terminates (zc : Bool) (r : Reader) : 24 * (readAll zc r).1.length ≤ r.s.data.length :=
  readAll_count zc r.s.data.length r (Nat.le_refl _)

/-- A read error of the underlying stream surfaces as that error, never as end-of-file or a panic. -/
theorem snoop_ioerr_surfaces (zc : Bool) (r : Reader) (hf : r.s.fail = true) :
    (∀ k, (read zc r).out = .stop k → k = .ioerr) ∧
    ((readAll zc r).2 = .stop .ioerr ∨ (readAll zc r).2 = .err) :=
  ⟨read_fail_kind zc r hf, readAll_fail zc r.s.data.length r (Nat.le_refl _) hf⟩

end Gp.C15.Snoop
