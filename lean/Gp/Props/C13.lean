import Gp.Lemmas.Frag4Dgram
import Gp.Lemmas.Frag4Discard
import Gp.Lemmas.Frag6Run
/-
  C13 — IP defragmentation returns the original datagram exactly once, or nothing.

  Models: `Gp/Model/Frag4.lean` (ip4defrag) and `Gp/Model/Frag6.lean` (ip6defrag), of the code
  with proposed_fixes/frag-1 … frag-7 applied; constants from the generated `Gp/Gen/Frag.lean`.
  Property theorems only; helper lemmas and the definitions used in the statements live in
  `Gp/Lemmas/Frag4*.lean`, `Gp/Lemmas/Frag6*.lean`:

    Dgram / Piece        a datagram key (src,dst,id) and a partition of its payload into pieces,
                         each piece travelling with its own header length and options
    Dgram.wf             ≥ 2 pieces; every piece non-empty, header ≥ 20 bytes, header + whole payload
                         ≤ 65535; every piece but the last a multiple of 8 bytes
    Dgram.frags          the fragments an honest sender emits (offset, MF, Length = 4·IHL + |piece|)
    Adm F K j tmin op    `op` is admissible while fragment `j` is missing: a fragment with key K is a
                         member of F other than j with time stamp ≥ tmin (duplicates allowed); a
                         fragment of any other key is arbitrary (also hostile); a DiscardOlderThan
                         has a cut-off ≤ tmin
    offered k ops        the fragments with key k offered in the history `ops`
    run st ops           final state and the list of outputs of a history
-/
namespace Gp.C13
open Gp Gp.Frag4

/-! ## 1. Unfragmented packets pass through unchanged -/

/-- A packet with DF set, or with MF clear and offset 0, is returned as is and nothing is stored,
    in every state. -/
theorem frag4_passthrough (st : State) (f : Frag) (t : Int)
    (h : f.df = true ∨ (f.mf = false ∧ f.off = 0)) : defrag st f t = (st, .out f) := by
  have : dontDefrag f = true := by
    unfold dontDefrag
    rcases h with h | ⟨h1, h2⟩
    · simp [h]
    · simp [h1, h2]
  unfold defrag
  simp only [this, if_true]

example : ∃ f : Frag, (f.df = true ∨ (f.mf = false ∧ f.off = 0)) ∧ f.payload ≠ [] :=
  ⟨{ src := 1, dst := 2, id := 3, ihl := 5, flags := 0, off := 0, length := 21, payload := [7], opts := [] },
   by decide, by decide⟩

/-! ## 2. Honest fragments: nothing until the last missing one, then the datagram, exactly once -/

/-- The emitted fragments really are a partition of the payload under the datagram's key, and each
    is self-consistent, non-empty, accepted by the security checks and not "unfragmented". -/
theorem frag4_partition (D : Dgram) (hD : D.wf) :
    D.frags.flatMap (·.payload) = D.payload ∧ D.frags.length = D.pieces.length ∧
    ∀ g ∈ D.frags, g.key = D.key ∧ g.length = g.ihl * 4 + g.payload.length ∧ 0 < g.payload.length ∧
      securityChecks g = true ∧ dontDefrag g = false := by
  obtain ⟨fam, hkey, hpay, hlen⟩ := dgram_family D hD
  refine ⟨hpay, hlen, fun g hg => ?_⟩
  obtain ⟨_, ⟨hc, _⟩, hpos, _, hsec, hdd, _⟩ := fam.good g hg
  exact ⟨hkey g hg, by omega, hpos, hsec, hdd⟩

/-- **Reassembly.**  For every well-formed datagram `D` (payload ≤ 65515, header lengths ≥ 20 that
    fit, any 8-byte-aligned partition, per-fragment options), every state in which `D`'s key is
    not stored, every history `pre` in which the fragments of `D` other than `j` arrive in any
    order, any number of times, interleaved with arbitrary traffic of other keys and harmless
    discards: every fragment of `D` in `pre` is answered `none`; when the last missing
    fragment `j` then arrives the answer is a datagram with `D`'s payload, byte for byte, the
    header of `j`, fragmentation fields cleared and `Length = 4·IHL + |payload|`; and the key is
    forgotten again (so the hypothesis `hfresh` holds again: exactly once). -/
theorem frag4_reassembles (D : Dgram) (hD : D.wf) (st : State) (hfresh : st.lookup D.key = none)
    (pre : List Op) (j : Frag) (hj : j ∈ D.frags) (tmin tj : Int)
    (hadm : ∀ op ∈ pre, Adm D.frags D.key j tmin op)
    (hcov : ∀ g ∈ D.frags, g ≠ j → ∃ t, Op.inp g t ∈ pre) :
    (∀ (i : Nat) (f : Frag) (t : Int), pre[i]? = some (Op.inp f t) → f.key = D.key →
        (run st pre).2[i]? = some (Out.reply Reply.none)) ∧
    (defrag (run st pre).1 j tj).2 =
        Reply.out { j with length := j.ihl * 4 + D.payload.length, flags := 0, off := 0, payload := D.payload } ∧
    (defrag (run st pre).1 j tj).1.lookup D.key = none := by
  obtain ⟨fam, hkey, hpay, _⟩ := dgram_family D hD
  have h0 : j ∉ offered D.key ([] : List Op) := by simp [offered]
  obtain ⟨inv, hnj, hnone⟩ := ginv_run fam hkey j hj tmin pre [] st h0 hadm (ginv_init _ _ tmin st hfresh)
  simp only [List.nil_append] at inv hnj
  have hcov' : ∀ g ∈ D.frags, g ≠ j → g ∈ offered D.key pre := by
    intro g hg hne
    obtain ⟨t, ht⟩ := hcov g hg hne
    exact mem_offered D.key pre g t ht (hkey g hg)
  have hc := complete_step fam hkey j hj tmin pre (run st pre).1 tj hnj hcov' inv
  rw [hpay] at hc
  refine ⟨hnone, by rw [hc], by rw [hc]; exact lookup_erase_self _ _⟩

/-- Non-vacuity: a 20-byte payload cut 8+8+4 with header lengths 24/20/20, delivered
    third, first (twice), then second, with a foreign fragment and an old discard in between. -/
def exD : Dgram :=
  { src := 1, dst := 2, id := 3,
    pieces := [⟨6, [1, 1, 1, 1], [10, 11, 12, 13, 14, 15, 16, 17]⟩,
               ⟨5, [], [20, 21, 22, 23, 24, 25, 26, 27]⟩, ⟨5, [], [30, 31, 32, 33]⟩] }

example : exD.wf := by
  refine ⟨by decide, ?_⟩
  simp [exD, Dgram.payload, PiecesOk]

example :
    (run {} [.inp (mkFrag exD 16 ⟨5, [], [30, 31, 32, 33]⟩ false) 10,
             .inp (mkFrag exD 0 ⟨6, [1, 1, 1, 1], [10, 11, 12, 13, 14, 15, 16, 17]⟩ true) 11,
             .inp { src := 9, dst := 9, id := 9, ihl := 5, flags := 1, off := 0, length := 28,
                    payload := [0, 0, 0, 0, 0, 0, 0, 0], opts := [] } 11,
             .discard 5,
             .inp (mkFrag exD 0 ⟨6, [1, 1, 1, 1], [10, 11, 12, 13, 14, 15, 16, 17]⟩ true) 12,
             .inp (mkFrag exD 8 ⟨5, [], [20, 21, 22, 23, 24, 25, 26, 27]⟩ true) 13]).2
    = [.reply .none, .reply .none, .reply .none, .count 0, .reply .none,
       .reply (.out { src := 1, dst := 2, id := 3, ihl := 5, flags := 0, off := 0, length := 40,
                      payload := [10, 11, 12, 13, 14, 15, 16, 17, 20, 21, 22, 23, 24, 25, 26, 27, 30, 31, 32, 33],
                      opts := [] })] := by decide

/-! ## 3. Safety for arbitrary (hostile) histories -/

/-- **Safety.**  After ANY history (overlaps, holes, oversize, tiny, truncated or inconsistent
    fragments, more than the list cap, discards), if a fragment `f` (not a passed-through packet)
    makes the defragmenter return a datagram `d`, then every byte of `d`'s payload was placed at
    exactly that offset by some fragment with `f`'s key that was offered in the history (or `f`
    itself) and had passed the security checks.  Any other answer is `none` or `err`. -/
theorem frag4_safe (ops : List Op) (f : Frag) (t : Int) (d : Frag) (hfrag : dontDefrag f = false)
    (hout : (defrag (run {} ops).1 f t).2 = .out d) :
    ∀ (i : Nat) (b : UInt8), d.payload[i]? = some b →
      ∃ g ∈ offered f.key (ops ++ [.inp f t]), securityChecks g = true ∧
        g.off * 8 ≤ i ∧ g.payload[i - g.off * 8]? = some b := by
  have hprov : Prov ops (run {} ops).1 := by
    have := prov_run ops [] {} prov_empty
    simpa using this
  intro i b hb
  obtain ⟨g, ⟨hsec, hg⟩, hle, hpl⟩ := (defrag_safe ops _ f t hprov).2 hfrag d hout i b hb
  obtain ⟨_, hbo, _, _⟩ := sec_facts g hsec
  rw [hbo] at hle hpl
  exact ⟨g, hg, hsec, hle, hpl⟩

/-- The defragmenter never panics, whatever it is fed. -/
theorem frag4_no_panic (ops : List Op) (f : Frag) (t : Int) (k : PanicKind) :
    (defrag (run {} ops).1 f t).2 ≠ .panic k := by
  have hprov : Prov ops (run {} ops).1 := by
    have := prov_run ops [] {} prov_empty
    simpa using this
  exact (defrag_safe ops _ f t hprov).1 k

/-- Non-vacuity: a hostile set (A[0,16) and B[8,24) overlap, hole [24,32), C[32,40) last) makes the
    counters agree, build runs through the overlap branch and reports the hole; the honest
    example of section 2 shows the `out` case of `frag4_safe`. -/
example :
    (run {} [.inp { src := 1, dst := 2, id := 7, ihl := 5, flags := 1, off := 0, length := 36,
                    payload := List.replicate 16 1, opts := [] } 1,
             .inp { src := 1, dst := 2, id := 7, ihl := 5, flags := 1, off := 1, length := 36,
                    payload := List.replicate 16 2, opts := [] } 1,
             .inp { src := 1, dst := 2, id := 7, ihl := 5, flags := 0, off := 4, length := 28,
                    payload := List.replicate 8 3, opts := [] } 1]).2
    = [.reply .none, .reply .none, .reply .err] := by decide

/-! ## 4. Age-based discard -/

/-- **Discard.**  In every reachable state, DiscardOlderThan(t) forgets exactly the partial
    datagrams whose last activity is before `t`, keeps all others unchanged, and returns the
    number of entries it forgot. -/
theorem frag4_discard (ops : List Op) (t : Int) (k : Key) :
    (discard (run {} ops).1 t).1.lookup k =
      (match (run {} ops).1.lookup k with
       | some fl => if fl.lastSeen < t then none else some fl
       | none => none) ∧
    (discard (run {} ops).1 t).2 =
      ((run {} ops).1.flows.filter (fun p => decide (p.2.lastSeen < t))).length :=
  ⟨discard_lookup _ (wf_run ops {} wf_empty) t k, discard_count _ t⟩

/-- "Last activity": a stored (non-duplicate) fragment stamps its list with its time stamp. -/
theorem frag4_lastSeen (fl : FL) (f : Frag) (t : Int) :
    (fl.insert f t).1.lastSeen = t ∨ (place fl f = none ∧ (fl.insert f t).1 = fl) := by
  cases hp : place fl f with
  | none => right; rw [insert_none _ _ _ hp]; exact ⟨rfl, rfl⟩
  | some l => left; rw [insert_some _ _ _ l hp]; rfl

example :
    (run {} [.inp { src := 1, dst := 2, id := 7, ihl := 5, flags := 1, off := 0, length := 28,
                    payload := List.replicate 8 1, opts := [] } 100,
             .inp { src := 1, dst := 2, id := 8, ihl := 5, flags := 1, off := 0, length := 28,
                    payload := List.replicate 8 1, opts := [] } 200,
             .discard 150, .discard 150, .discard 1000]).2
    = [.reply .none, .reply .none, .count 1, .count 0, .count 1] := by decide

/-! ## 5. IPv6 -/

open Gp.Frag6 in
/-- **IPv6 reassembly.**  For every payload of at most 65535 bytes cut at any 8-byte boundaries
    (one piece included: an atomic fragment), from a state in which the Identification is not
    stored: the fragments other than `j` in any order, any number of times, interleaved with
    calls for other Identifications, are all answered `none`; the call that delivers the last
    missing fragment `j` returns the datagram with the original payload, the header recorded
    with the offset-0 fragment and the next-header value of the last piece. -/
theorem frag6_reassembles (D : Dgram6) (hD : D.wf) (st : Frag6.State) (hfresh : st.lookup D.id = none)
    (pre : List In6) (j : Frag6) (hj : j ∈ D.frags) (last : In6)
    (hlast : last.id = D.id ∧ norm last.src last.dst last.x = j)
    (hadm : ∀ i ∈ pre, Adm6 D j i)
    (hcov : ∀ g ∈ D.frags, g ≠ j → ∃ i ∈ pre, i.id = D.id ∧ norm i.src i.dst i.x = g) :
    (∀ (n : Nat) (i : In6), pre[n]? = some i → i.id = D.id → (run6 st pre).2[n]? = some Frag6.Reply.none) ∧
    (step6 (run6 st pre).1 last).2 = Frag6.Reply.out D.src D.dst (lastNh D.pieces) D.payload := by
  have h0 : j ∉ offered6 D.id ([] : List In6) := by simp [offered6]
  obtain ⟨inv, _, hnone⟩ := ginv6_run D hD j hj pre [] st h0 hadm (ginv6_init D st hfresh)
  simp only [List.nil_append] at inv
  refine ⟨hnone, complete6 D hD j hj pre _ last hlast.1 hlast.2 ?_ inv⟩
  intro g hg hne
  obtain ⟨i, hi, hid, hx⟩ := hcov g hg hne
  rw [← hx]
  exact mem_offered6 D.id pre i hi hid

open Gp.Frag6 in
/-- The stored fragments of `D` partition its payload. -/
theorem frag6_partition (D : Dgram6) (hD : D.wf) :
    (gather D.frags).1 = D.payload ∧ D.frags.length = D.pieces.length := by
  obtain ⟨hne, hok, hlen⟩ := hD
  unfold Dgram6.payload at hlen
  rw [payload6_length] at hlen
  refine ⟨by rw [Dgram6.frags, (walk_gather_full D D.pieces 0 hne rfl hok (by omega)).2]; rfl, ?_⟩
  unfold Dgram6.frags
  generalize 0 = s
  induction D.pieces generalizing s with
  | nil => rfl
  | cons p r ih => simp [mkFrags6, ih]

open Gp.Frag6 in
/-- Non-vacuity: 20 bytes cut 8+8+4 delivered last, first, (first again), middle; and an atomic
    fragment, returned at once. -/
example :
    (run6 {} [⟨1, 2, 77, { hdr := none, off := 2, payload := [30, 31, 32, 33], more := false, nh := 17 }⟩,
              ⟨1, 2, 77, { hdr := none, off := 0, payload := [10, 11, 12, 13, 14, 15, 16, 17], more := true, nh := 17 }⟩,
              ⟨1, 2, 77, { hdr := none, off := 0, payload := [10, 11, 12, 13, 14, 15, 16, 17], more := true, nh := 17 }⟩,
              ⟨1, 2, 77, { hdr := none, off := 1, payload := [20, 21, 22, 23, 24, 25, 26, 27], more := true, nh := 17 }⟩,
              ⟨5, 6, 78, { hdr := none, off := 0, payload := [1, 2, 3], more := false, nh := 6 }⟩]).2
    = [.none, .none, .none,
       .out 1 2 17 [10, 11, 12, 13, 14, 15, 16, 17, 20, 21, 22, 23, 24, 25, 26, 27, 30, 31, 32, 33],
       .out 5 6 6 [1, 2, 3]] := by decide

end Gp.C13
