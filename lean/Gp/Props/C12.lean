import Gp.Lemmas.PoolAsm
/-
  C12 — Assemblers sharing one stream pool are safe under every interleaving.

  The theorems quantify over EVERY thread-program assignment `progs : Tid → List Op` (any number of
  assembler goroutines, any number of packets / FlushAll calls per goroutine, any keys) and EVERY
  reachable state of the LTS of Gp/Model/PoolAsm.lean (tcpassembly) and Gp/Model/PoolReasm.lean
  (reassembly), i.e. every interleaving at the granularity of the lock-delimited atomic segments.
  The models are tied to the real code by the controlled-scheduler correspondence run of engine `pool`.
-/
namespace Gp.C12
open Gp.Pool

/-! ## tcpassembly (classic) -/
namespace Asm
open Gp.Pool.Asm

/-- map_unique: the pool's map never holds two entries for one key. -/
theorem map_unique (progs : Tid → List Op) (s : State) (h : (sys progs).Reachable s) :
    (KMap.keys s.conns).Nodup :=
  keys_nodup_reachable progs s h

/-- Mutex invariant: `c.mu` is owned by thread `t` exactly when `t` is inside a callback of `c`
    (`cb`) or between `closed = true` and the removal from the pool (`rm`). -/
theorem mutex_owner (progs : Tid → List Op) (s : State) (h : (sys progs).Reachable s) (c : CId) (t : Tid) :
    (s.obj c).mu = some t ↔ (∃ f, (s.thr t).pc = .cb c f) ∨ (s.thr t).pc = .rm c := by
  rw [(invA_reachable progs s h).mu_iff c t]
  cases hpc : (s.thr t).pc <;> simp [PC.holds]
  all_goals exact fun e => e ▸ rfl

/-- callbacks_exclusive: two threads are never inside a callback segment of the same connection object. -/
theorem callbacks_exclusive (progs : Tid → List Op) (s : State) (h : (sys progs).Reachable s)
    (t1 t2 : Tid) (c : CId) (f1 f2 : Bool)
    (h1 : (s.thr t1).pc = .cb c f1) (h2 : (s.thr t2).pc = .cb c f2) : t1 = t2 := by
  have hi := invA_reachable progs s h
  have e1 := (hi.mu_iff c t1).2 (by simp [h1])
  have e2 := (hi.mu_iff c t2).2 (by simp [h2])
  rw [e1] at e2; exact Option.some.inj e2

/-- no_panic: neither `panic("why?")` (nil stream in sendToConnection) nor a nil-stream dereference in
    closeConnection is reachable: no thread ever enters the `panicked` state. -/
theorem no_panic (progs : Tid → List Op) (s : State) (h : (sys progs).Reachable s) (t : Tid) :
    (s.thr t).pc ≠ .panicked :=
  (invA_reachable progs s h).no_panic t

/-- Lock order: a thread that owns a connection mutex is never waiting for (another) connection mutex;
    the only lock it may still take is the pool lock (pc `rm`), which is never held at a scheduling point. -/
theorem lock_order (progs : Tid → List Op) (s : State) (h : (sys progs).Reachable s) (c c' : CId) (t : Tid)
    (hm : (s.obj c).mu = some t) : (s.thr t).pc ≠ .lock c' := by
  have := ((invA_reachable progs s h).mu_iff c t).1 hm
  intro e; simp [e] at this

/-- no_deadlock: in every reachable state, every unfinished thread can either move, or waits for a
    connection mutex whose owner can move.  In particular, if some thread is unfinished, some thread can move. -/
theorem no_deadlock (progs : Tid → List Op) (s : State) (h : (sys progs).Reachable s) (t : Tid)
    (hnd : (s.thr t).done = false) :
    step s t ≠ none ∨ ∃ c t', (s.thr t).pc = .lock c ∧ (s.obj c).mu = some t' ∧ step s t' ≠ none :=
  progress (invA_reachable progs s h) t hnd

theorem no_deadlock' (progs : Tid → List Op) (s : State) (h : (sys progs).Reachable s)
    (hnd : ∃ t, (s.thr t).done = false) : ∃ t', step s t' ≠ none := by
  obtain ⟨t, ht⟩ := hnd
  rcases no_deadlock progs s h t ht with h1 | ⟨_, t', _, _, h2⟩
  · exact ⟨t, h1⟩
  · exact ⟨t', h2⟩

end Asm
end Gp.C12
