import Gp.Lemmas.PoolAsmU
import Gp.Lemmas.PoolReasmU
import Gp.Lemmas.PoolReasmX
/-
  C12 — Assemblers sharing one stream pool are safe under every interleaving.

  The theorems quantify over EVERY thread-program assignment `progs : Tid → List Op` (any number of
  assembler goroutines, any number of packets / FlushAll / FlushWithOptions (FlushOlderThan,
  FlushCloseOlderThan) calls per goroutine, any keys, any timestamps) and EVERY reachable state of the
  LTS of Gp/Model/PoolAsm.lean (tcpassembly) and Gp/Model/PoolReasm.lean (reassembly), i.e. every
  interleaving at the granularity of the lock-delimited atomic segments.
  The models are tied to the real code by the controlled-scheduler correspondence run of engine `pool`.
-/
namespace Gp.C12
open Gp.Pool

/-! ## tcpassembly (classic) -/
namespace Asm
open Gp.Pool.Asm

/-- map_unique: the pool's map never holds two entries for one key. -/
theorem map_unique (progs : Tid → List Op) (s : State) (h : (sys progs).Reachable s) :
    (KMap.keys s.conns).Nodup :=
  keys_nodup_reachable progs s h

/-- Mutex invariant: `c.mu` is owned by thread `t` exactly when `t` is inside a callback of `c`
    (`cb`) or between `closed = true` and the removal from the pool (`rm`). -/
theorem mutex_owner (progs : Tid → List Op) (s : State) (h : (sys progs).Reachable s) (c : CId) (t : Tid) :
    (s.obj c).mu = some t ↔ (∃ f, (s.thr t).pc = .cb c f) ∨ (s.thr t).pc = .rm c := by
  rw [(invA_reachable progs s h).mu_iff c t]
  cases hpc : (s.thr t).pc <;> simp [PC.holds]
  all_goals exact fun e => e ▸ rfl

/-- callbacks_exclusive: two threads are never inside a callback segment of the same connection object. -/
theorem callbacks_exclusive (progs : Tid → List Op) (s : State) (h : (sys progs).Reachable s)
    (t1 t2 : Tid) (c : CId) (f1 f2 : Bool)
    (h1 : (s.thr t1).pc = .cb c f1) (h2 : (s.thr t2).pc = .cb c f2) : t1 = t2 := by
  have hi := invA_reachable progs s h
  have e1 := (hi.mu_iff c t1).2 (by simp [h1])
  have e2 := (hi.mu_iff c t2).2 (by simp [h2])
  rw [e1] at e2; exact Option.some.inj e2

/-- no_panic: neither `panic("why?")` (nil stream in sendToConnection) nor a nil-stream dereference in
    closeConnection is reachable: no thread ever enters the `panicked` state. -/
theorem no_panic (progs : Tid → List Op) (s : State) (h : (sys progs).Reachable s) (t : Tid) :
    (s.thr t).pc ≠ .panicked :=
  (invA_reachable progs s h).no_panic t

/-- Lock order: a thread that owns a connection mutex is never waiting for (another) connection mutex;
    the only lock it may still take is the pool lock (pc `rm`), which is never held at a scheduling point. -/
theorem lock_order (progs : Tid → List Op) (s : State) (h : (sys progs).Reachable s) (c c' : CId) (t : Tid)
    (hm : (s.obj c).mu = some t) : (s.thr t).pc ≠ .lock c' := by
  have := ((invA_reachable progs s h).mu_iff c t).1 hm
  intro e; simp [e] at this

/-- no_deadlock: in every reachable state, every unfinished thread can either move, or waits for a
    connection mutex whose owner can move.  In particular, if some thread is unfinished, some thread can move. -/
theorem no_deadlock (progs : Tid → List Op) (s : State) (h : (sys progs).Reachable s) (t : Tid)
    (hnd : (s.thr t).done = false) :
    step s t ≠ none ∨ ∃ c t', (s.thr t).pc = .lock c ∧ (s.obj c).mu = some t' ∧ step s t' ≠ none :=
  progress (invA_reachable progs s h) t hnd

theorem no_deadlock' (progs : Tid → List Op) (s : State) (h : (sys progs).Reachable s)
    (hnd : ∃ t, (s.thr t).done = false) : ∃ t', step s t' ≠ none := by
  obtain ⟨t, ht⟩ := hnd
  rcases no_deadlock progs s h t ht with h1 | ⟨_, t', _, _, h2⟩
  · exact ⟨t, h1⟩
  · exact ⟨t', h2⟩

/-! ### What is FALSE of tcpassembly as written: stale pointers to recycled connection objects -/

/-- right_stream at full strength: in every reachable state every delivered/queued packet went to a
    stream created for its own key.  FALSE for the code as written (see the counterexample). -/
def right_stream_full : Prop :=
  ∀ (progs : Tid → List Op) (s : State), (sys progs).Reachable s → RightStream s

/-- Goroutine 0 assembles a SYN of key 0a; goroutine 1 runs FlushAll, then assembles a SYN of key 0b. -/
def cxProgs : Tid → List Op
  | 0 => [.pkt ⟨0, false⟩ .syn]
  | 1 => [.flush, .pkt ⟨0, true⟩ .syn]
  | _ => []

/-- 0 creates the connection for 0a and stops before `conn.mu.Lock()`; 1's FlushAll closes it and
    returns it to `free`; 1 then creates the connection for 0b, which recycles the object (`reset`
    clears `closed`); 0 locks the object, sees `closed == false` and delivers 0a's packet to 0b's stream. -/
def cxSched : List Tid := [0, 0, 1, 1, 1, 1, 1, 0]

theorem right_stream_counterexample : ¬ right_stream_full := by
  intro h
  have hr := Sys.reachable_run (sys cxProgs) .init cxSched
  have h1 := (h cxProgs _ hr).1 1 0 0 ⟨0, false⟩ 1 (by decide)
  revert h1; decide

/-- right_stream_partial: along every execution in which no connection object is recycled while another
    goroutine still points to it (`NoStale`: the precise negation of the defect), every delivered and every
    queued packet goes to a stream created for its own key — for any number of goroutines and packets. -/
theorem right_stream_partial (progs : Tid → List Op) (s : State) (h : (sys progs).ReachableR NoStale s) :
    RightStream s := by
  have hi := invN_reachableR progs s h
  exact ⟨fun sid t i k n hm => (hi.rs1 sid t i k n hm).2, fun sid t i k hm => (hi.rs2 sid t i k hm).2⟩

/-- The hypothesis of the partial theorems is satisfiable by a non-trivial run: two goroutines on the same
    key, one creates the connection, both deliver, the FIN closes, completes and removes it. -/
example : ∃ s, (sys (fun t => if t = 0 then [.pkt ⟨0, false⟩ .syn, .pkt ⟨0, false⟩ .fin] else if t = 1 then [.pkt ⟨0, false⟩ .syn] else [])).ReachableR NoStale s
    ∧ Ev.deliv 0 1 0 ⟨0, false⟩ 1 ∈ s.log ∧ Ev.complete 0 0 ∈ s.log ∧ s.conns = [] := by
  refine ⟨Sys.runG (sys _) noRecycleB (sys _).init [0, 0, 0, 1, 0, 1, 1, 0, 0, 0, 0],
    Sys.reachableR_runG (sys _) noRecycleB noStale_of_noRecycleB .init _, ?_, ?_, ?_⟩
  all_goals decide

/-- kept_stream_completed_once at full strength.  FALSE for the code as written. -/
def kept_stream_completed_once_full : Prop :=
  ∀ (progs : Tid → List Op) (s : State), (sys progs).Reachable s → KeptOnce s

/-- Four goroutines.  0: SYN of 1a, SYN of 0a, FIN of 0a;  1: SYN of 1a;  2: SYN of 0a;  3: FIN of 0a. -/
def cx2Progs : Tid → List Op
  | 0 => [.pkt ⟨1, false⟩ .syn, .pkt ⟨0, false⟩ .syn, .pkt ⟨0, false⟩ .fin]
  | 1 => [.pkt ⟨1, false⟩ .syn]
  | 2 => [.pkt ⟨0, false⟩ .syn]
  | 3 => [.pkt ⟨0, false⟩ .fin]
  | _ => []

/-- 3 creates 0a's connection object; 2 and 0 look it up (stale pointers to be); 1 misses 1a under the read
    lock; 0 creates 1a's connection; 3's FIN closes 0a's object and frees it; 1's double-checked insert pops
    that object, resets it for 1a and DROPS it (1a already has an entry); through their stale pointers 2
    then 0 deliver to the dropped object, 0's FIN closes it and `remove` deletes `conns[1a]` — the entry of
    the live connection created by 0, whose stream (2) is now unreachable: never completed, not even by FlushAll. -/
def cx2Sched : List Tid := [3, 3, 2, 1, 0, 0, 0, 0, 0, 0, 0, 3, 3, 0, 3, 1, 2, 2, 1, 1, 0, 0, 0]

theorem kept_stream_completed_once_counterexample : ¬ kept_stream_completed_once_full := by
  intro h
  have hr := Sys.reachable_run (sys cx2Progs) .init cx2Sched
  obtain ⟨c, h1, _⟩ := (h cx2Progs _ hr 2 (by decide)).2 (by decide)
  have h2 : ((sys cx2Progs).run (sys cx2Progs).init cx2Sched).conns.get
      (((sys cx2Progs).run (sys cx2Progs).init cx2Sched).skey 2) = none := by decide
  rw [h2] at h1; cases h1

/-- kept_stream_completed_once_partial: without stale recycling, every kept stream is completed at most
    once and, until then, stays attached to an open connection that the pool holds under the stream's key. -/
theorem kept_stream_completed_once_partial (progs : Tid → List Op) (s : State)
    (h : (sys progs).ReachableR NoStale s) : KeptOnce s := by
  have hi := invN_reachableR progs s h
  intro sid hk
  exact ⟨hi.b5 sid, hi.n7 sid hk⟩

/-- Without stale recycling a thread that is about to lock a connection holds a pointer to the object of
    its own key (the stale-pointer condition itself, as an invariant). -/
theorem pointer_key_partial (progs : Tid → List Op) (s : State) (h : (sys progs).ReachableR NoStale s)
    (t : Tid) (c : CId) (k : Key) (kind : Kind) (rest : List Op)
    (hpc : (s.thr t).pc = .lock c) (hsn : (s.thr t).snap = none) (hp : (s.thr t).prog = .pkt k kind :: rest) :
    (s.obj c).key = k := by
  have := (invN_reachableR progs s h).n4 t c hpc hsn
  rw [hp, headKey_pkt] at this
  exact (Option.some.inj this).symm

/-! ### Stream lifecycle under Flush* — UNCONDITIONAL (no `NoStale` hypothesis) -/

/-- no_callback_after_complete: in every reachable state, for every Reassembled callback recorded in the
    log (an Assemble delivery `deliv` or a FlushAll / FlushWithOptions delivery `fdeliv`) on a stream
    `sid`, the part of the log BEFORE it contains no ReassemblyComplete of `sid` (`s.log` is newest
    first: `l2` is what happened earlier).  Holds for every interleaving, stale recycling included:
    the flusher's `if conn.closed {Unlock; continue}` and the assembler's retry loop see `closed`,
    which is set together with the completion and cleared only by `reset`, which installs a new stream. -/
theorem no_callback_after_complete (progs : Tid → List Op) (s : State) (h : (sys progs).Reachable s) :
    NoCallbackAfterComplete s :=
  logOK_split (invU_reachable progs s h).u8

/-- completed_at_most_once: no stream — kept or dropped, reached through a stale pointer or not — is
    ever completed twice. -/
theorem completed_at_most_once (progs : Tid → List Op) (s : State) (h : (sys progs).Reachable s) (sid : SId) :
    ncomp s.log sid ≤ 1 :=
  (invU_reachable progs s h).u5 sid

/-- ReassemblyComplete and `closed` go together: a stream that has been completed is attached to closed
    connection objects only (so nothing can be delivered to it or queued for it any more). -/
theorem completed_stream_closed (progs : Tid → List Op) (s : State) (h : (sys progs).Reachable s)
    (c : CId) (sid : SId) (hc : c < s.nextC) (hst : (s.obj c).stream = some sid) (hn : ncomp s.log sid ≠ 0) :
    (s.obj c).closed = true := by
  cases hcl : (s.obj c).closed with
  | true => rfl
  | false => exact absurd ((invU_reachable progs s h).u4 c sid hc hst hcl) hn

/-- The schedule of the seeded change C12-m2 on the model: goroutine 0 assembles SYN, an out-of-order
    FIN segment (queued behind a gap, seen at time 1) and an in-order RST of key 0a; goroutine 1 calls
    FlushWithOptions{T: 9}: it snapshots the pool BEFORE the RST closes the connection and locks the
    connection AFTER.  The model (the code as it is) leaves the closed connection alone: one completion,
    nothing after it — although the queued page is still linked (`lq = [1]`) and older than T. -/
def m2Progs : Tid → List Op
  | 0 => [.pkt ⟨0, false⟩ .syn, .pkt ⟨0, false⟩ (.late 1), .pkt ⟨0, false⟩ .rst]
  | 1 => [.flushold 9 0]
  | _ => []

def m2Sched : List Tid := [0, 0, 0, 0, 0, 0, 1, 0, 0, 0, 0, 1, 1]

example : ((sys m2Progs).run (sys m2Progs).init m2Sched).log =
      [.complete 0 0, .deliv 0 0 2 ⟨0, false⟩ 1, .queue 0 0 1 ⟨0, false⟩, .deliv 0 0 0 ⟨0, false⟩ 1, .new 0 ⟨0, false⟩ 0]
    ∧ (((sys m2Progs).run (sys m2Progs).init m2Sched).obj 0).lq = [1]
    ∧ (((sys m2Progs).run (sys m2Progs).init m2Sched).thr 1).done = true := by decide

/-- the hypotheses of `completed_stream_closed` hold in the final state of that run (object 0, stream 0) -/
example : 0 < ((sys m2Progs).run (sys m2Progs).init m2Sched).nextC
    ∧ (((sys m2Progs).run (sys m2Progs).init m2Sched).obj 0).stream = some 0
    ∧ ncomp ((sys m2Progs).run (sys m2Progs).init m2Sched).log 0 ≠ 0 := by decide

/-- … and when the flusher comes first it releases the queued segment and completes the stream itself
    (the RST then finds no connection): the lifecycle theorems are about non-trivial histories. -/
example : ((sys m2Progs).run (sys m2Progs).init [0, 0, 0, 0, 0, 0, 1, 1, 1, 1, 0, 0]).log =
      [.complete 0 1, .fdeliv 0 1 0 1, .queue 0 0 1 ⟨0, false⟩, .deliv 0 0 0 ⟨0, false⟩ 1, .new 0 ⟨0, false⟩ 0] := by decide

end Asm
/-! ## reassembly -/
namespace Reasm
open Gp.Pool.Reasm

/-- map_unique: one entry per key, and the two directions of a connection are never both keys of the
    map: both directions attach to ONE entry however their first packets race (holds with and without
    the fix: upstream panics instead of inserting). -/
theorem map_unique (fixed : Bool) (progs : Tid → List Op) (s : State) (h : (sys fixed progs).Reachable s) :
    (KMap.keys s.conns).Nodup ∧ ∀ k, s.conns.get k ≠ none → s.conns.get k.rev = none :=
  ⟨keys_nodup_reachable fixed progs s h, oneDir_reachable fixed progs s h⟩

/-- no_panic at full strength for the code AS WRITTEN upstream (`fixed = false`). -/
def no_panic_upstream_full : Prop :=
  ∀ (progs : Tid → List Op) (s : State), (sys false progs).Reachable s → ∀ t, (s.thr t).pc ≠ .panicked

/-- Two assemblers, the first packets (SYN) of the two directions of one new connection. -/
def cxProgs : Tid → List Op
  | 0 => [.pkt ⟨0, false⟩ .syn]
  | 1 => [.pkt ⟨0, true⟩ .syn]
  | _ => []

/-- Both miss under the read lock; 0 inserts under the write lock; 1's double-check finds the entry
    through the reversed key: `panic("FIXME: other dir added in the meantime...")`. -/
theorem no_panic_upstream_counterexample : ¬ no_panic_upstream_full := by
  intro h
  have hr := Sys.reachable_run (sys false cxProgs) .init [0, 1, 0, 1]
  have h1 := h cxProgs _ hr 1
  revert h1; decide

/-- With proposed_fixes/pool-1 (`fixed = true`) the same schedule attaches both directions to one entry. -/
example : ((Sys.runStrict (sys true cxProgs) (sys true cxProgs).init [0, 1, 0, 1]).map
    (fun s => (s.conns.length, decide ((s.thr 1).pc = .lock 0 true)))) = some (1, true) := by decide

/-- Mutex invariant (fixed pool). -/
theorem mutex_owner (progs : Tid → List Op) (s : State) (h : (sys true progs).Reachable s) (c : CId) (t : Tid) :
    (s.obj c).mu = some t ↔ (∃ hb f, (s.thr t).pc = .cb c hb f) ∨ (∃ cont, (s.thr t).pc = .rm c cont) := by
  rw [(invA_reachable progs s h).mu_iff c t]
  cases hpc : (s.thr t).pc <;> simp [PC.holds]
  all_goals exact fun e => e ▸ rfl

/-- callbacks_exclusive: two threads are never inside a callback segment of the same connection object
    (both halves share the connection mutex and the Stream). -/
theorem callbacks_exclusive (progs : Tid → List Op) (s : State) (h : (sys true progs).Reachable s)
    (t1 t2 : Tid) (c : CId) (hb1 hb2 f1 f2 : Bool)
    (h1 : (s.thr t1).pc = .cb c hb1 f1) (h2 : (s.thr t2).pc = .cb c hb2 f2) : t1 = t2 := by
  have hi := invA_reachable progs s h
  have e1 := (hi.mu_iff c t1).2 (by simp [h1])
  have e2 := (hi.mu_iff c t2).2 (by simp [h2])
  rw [e1] at e2; exact Option.some.inj e2

/-- no_panic (fixed pool): the FIXME panic is gone and no nil stream is ever dereferenced. -/
theorem no_panic (progs : Tid → List Op) (s : State) (h : (sys true progs).Reachable s) (t : Tid) :
    (s.thr t).pc ≠ .panicked :=
  (invA_reachable progs s h).no_panic t

theorem lock_order (progs : Tid → List Op) (s : State) (h : (sys true progs).Reachable s) (c c' : CId) (hb : Bool) (t : Tid)
    (hm : (s.obj c).mu = some t) : (s.thr t).pc ≠ .lock c' hb := by
  have := ((invA_reachable progs s h).mu_iff c t).1 hm
  intro e; simp [e] at this

/-- no_deadlock (fixed pool). -/
theorem no_deadlock (progs : Tid → List Op) (s : State) (h : (sys true progs).Reachable s) (t : Tid)
    (hnd : (s.thr t).done = false) :
    step true s t ≠ none ∨ ∃ c hb t', (s.thr t).pc = .lock c hb ∧ (s.obj c).mu = some t' ∧ step true s t' ≠ none :=
  progress (invA_reachable progs s h) t hnd

theorem no_deadlock' (progs : Tid → List Op) (s : State) (h : (sys true progs).Reachable s)
    (hnd : ∃ t, (s.thr t).done = false) : ∃ t', step true s t' ≠ none := by
  obtain ⟨t, ht⟩ := hnd
  rcases no_deadlock progs s h t ht with h1 | ⟨_, _, t', _, _, h2⟩
  · exact ⟨t, h1⟩
  · exact ⟨t', h2⟩

/-! ### What is FALSE of reassembly (also after the fix): stale pointers to recycled connection objects -/

def right_stream_full : Prop :=
  ∀ (progs : Tid → List Op) (s : State), (sys true progs).Reachable s → RightStream s

/-- Goroutine 1 looks the connection of pair 0 up and stops before `conn.mu.Lock()`; goroutine 0's
    FlushAll closes and removes it, then 0 creates the connection of pair 1, recycling the object. -/
def cx2Progs : Tid → List Op
  | 0 => [.pkt ⟨0, false⟩ .syn, .flush, .pkt ⟨1, false⟩ .syn]
  | 1 => [.pkt ⟨0, false⟩ .syn]
  | _ => []

def cx2Sched : List Tid := [0, 0, 0, 0, 1, 0, 0, 0, 0, 0, 1]

theorem right_stream_counterexample : ¬ right_stream_full := by
  intro h
  have hr := Sys.reachable_run (sys true cx2Progs) .init cx2Sched
  have h1 := (h cx2Progs _ hr).1 1 1 0 ⟨0, false⟩ 1 (by decide)
  revert h1; decide

/-- right_stream_partial (fixed pool): without stale recycling (and without the foreign remove of
    FlushWithOptions, see below) every delivered packet goes to the stream created for (one direction of)
    its own connection. -/
theorem right_stream_partial (progs : Tid → List Op) (s : State) (h : (sys true progs).ReachableR Clean s) :
    RightStream s := by
  have hi := invN_reachableR progs s h
  exact ⟨fun sid t i k n hm => (hi.rs1 sid t i k n hm).2, fun sid t i k hm => (hi.rs2 sid t i k hm).2⟩

/-- Non-vacuity: both directions of a connection race (the former FIXME schedule), attach to one entry,
    both deliver to the same stream, the two FINs close both halves, the stream is completed, the entry removed. -/
example : ∃ s, (sys true (fun t => if t = 0 then [.pkt ⟨0, false⟩ .fin] else if t = 1 then [.pkt ⟨0, true⟩ .fin] else [])).ReachableR Clean s
    ∧ Ev.deliv 0 0 0 ⟨0, false⟩ 1 ∈ s.log ∧ Ev.deliv 0 1 0 ⟨0, true⟩ 1 ∈ s.log ∧ Ev.complete 0 1 ∈ s.log ∧ s.conns = [] := by
  refine ⟨Sys.runG (sys true _) noRecycleB (sys true _).init [0, 1, 0, 1, 0, 0, 1, 1, 1],
    Sys.reachableR_runG (sys true _) noRecycleB clean_of_noRecycleB .init _, ?_, ?_, ?_, ?_⟩
  all_goals decide

/-- Non-vacuity with FlushWithOptions: an out-of-order segment is queued on each half, FlushWithOptions{T: 2, TC: 0}
    releases only the older one (closing its half), FlushCloseOlderThan(9) releases the other, completes the
    stream, removes the connection (nested) and its second, un-nested remove finds nothing. -/
example : ∃ s, (sys true (fun t => if t = 0 then [.pkt ⟨0, false⟩ (.late 1), .pkt ⟨0, true⟩ (.late 3)] else if t = 1 then [.flushold 2 0, .flushold 9 9] else [])).ReachableR Clean s
    ∧ s.log = [.complete 0 1, .fdeliv 0 1 1 1, .fdeliv 0 1 0 1, .queue 0 0 1 ⟨0, true⟩, .accept 0 0 1, .queue 0 0 0 ⟨0, false⟩, .accept 0 0 0, .new 0 ⟨0, false⟩ 0]
    ∧ s.conns = [] ∧ s.free = [0] ∧ (s.thr 1).done = true := by
  refine ⟨Sys.runG (sys true _) noRecycleB (sys true _).init [0, 0, 0, 0, 0, 1, 1, 1, 1, 1, 1, 1, 1, 1],
    Sys.reachableR_runG (sys true _) noRecycleB clean_of_noRecycleB .init _, ?_, ?_, ?_, ?_⟩
  all_goals decide

/-- kept_stream_completed_once at full strength.  FALSE (also after the fix). -/
def kept_stream_completed_once_full : Prop :=
  ∀ (progs : Tid → List Op) (s : State), (sys true progs).Reachable s → KeptOnce s

/-- 0: SYN 1a, SYN 0a, FIN 0a, FIN 0b;  1: SYN 1a;  2: FIN 0a;  3: FIN 0b. -/
def cx3Progs : Tid → List Op
  | 0 => [.pkt ⟨1, false⟩ .syn, .pkt ⟨0, false⟩ .syn, .pkt ⟨0, false⟩ .fin, .pkt ⟨0, true⟩ .fin]
  | 1 => [.pkt ⟨1, false⟩ .syn]
  | 2 => [.pkt ⟨0, false⟩ .fin]
  | 3 => [.pkt ⟨0, true⟩ .fin]
  | _ => []

/-- 1 misses pair 1 under the read lock; 0 creates pair 1's and pair 0's connections; 2 and 3 look pair 0's
    object up (one half each) and stop before `conn.mu.Lock()`; 0's two FINs close and free it; 1's
    double-checked insert pops it, resets it for pair 1 and drops it; 2 and 3 close its two halves through
    their stale pointers, and `remove` deletes `conns[1a]` — pair 1's LIVE entry, whose stream (1) is lost. -/
def cx3Sched : List Tid := [1, 0, 0, 0, 0, 0, 0, 0, 0, 2, 3, 0, 0, 0, 0, 0, 0, 0, 1, 2, 2, 3, 3, 3]

theorem kept_stream_completed_once_counterexample : ¬ kept_stream_completed_once_full := by
  intro h
  have hr := Sys.reachable_run (sys true cx3Progs) .init cx3Sched
  obtain ⟨c, h1, _⟩ := (h cx3Progs _ hr 1 (by decide)).2 (by decide)
  have h2 : ((sys true cx3Progs).run (sys true cx3Progs).init cx3Sched).conns.get
      (((sys true cx3Progs).run (sys true cx3Progs).init cx3Sched).skey 1) = none := by decide
  rw [h2] at h1; cases h1

/-- The SECOND way reassembly loses a kept stream (not a stale POINTER use: no callback, no lock goes
    through an old pointer): FlushWithOptions calls `remove(conn)` once more AFTER `conn.mu.Unlock()`, and
    `remove` only tests that SOME entry is stored under `conn.key`.  Goroutine 1 (FlushCloseOlderThan)
    closes and removes the idle connection of 0a and stops before that second remove; goroutine 0's next
    packet re-creates the connection of 0a (here the freed object is recycled for it); the second remove
    deletes the NEW connection's entry and puts its object on `free`: stream 1 is kept, never completed,
    and no Flush* can reach it any more. -/
def cx4Progs : Tid → List Op
  | 0 => [.pkt ⟨0, false⟩ .syn, .pkt ⟨0, false⟩ (.late 1), .pkt ⟨0, false⟩ .fin]
  | 1 => [.flushold 9 9]
  | _ => []

def cx4Sched : List Tid := [0, 0, 1, 0, 0, 1, 1, 0, 0, 0, 0, 0, 1, 0, 0, 0, 0, 0]

theorem flush_remove_counterexample : ¬ kept_stream_completed_once_full := by
  intro h
  have hr := Sys.reachable_run (sys true cx4Progs) .init cx4Sched
  obtain ⟨c, h1, _⟩ := (h cx4Progs _ hr 1 (by decide)).2 (by decide)
  have h2 : ((sys true cx4Progs).run (sys true cx4Progs).init cx4Sched).conns.get
      (((sys true cx4Progs).run (sys true cx4Progs).init cx4Sched).skey 1) = none := by decide
  rw [h2] at h1; cases h1

/-- `NoStale` ALONE does not save reassembly: kept_stream_completed_once restricted to executions without
    stale recycling is still false. -/
def kept_stream_completed_once_nostale : Prop :=
  ∀ (progs : Tid → List Op) (s : State), (sys true progs).ReachableR NoStale s → KeptOnce s

/-- A flusher and ONE assembler.  1: SYN 0a, SYN 1a, FINs of 0a/0b, FINs of 1a/1b, SYN 0a;  0: FlushCloseOlderThan. -/
def cx5Progs : Tid → List Op
  | 0 => [.flushold 9 9]
  | 1 => [.pkt ⟨0, false⟩ .syn, .pkt ⟨1, false⟩ .syn, .pkt ⟨0, false⟩ .fin, .pkt ⟨0, true⟩ .fin,
          .pkt ⟨1, false⟩ .fin, .pkt ⟨1, true⟩ .fin, .pkt ⟨0, false⟩ .syn]
  | _ => []

/-- 1 creates pair 0's connection (object 0); 0 snapshots the pool and stops before `conn.mu.Lock()`; 1 creates
    pair 1's connection (a FRESH object 1), closes pair 0 (free = [0]), closes pair 1 (free = [1, 0]) and
    re-creates pair 0's connection from object 1 — nobody points to object 1, no step is a stale recycling;
    0 now visits object 0: both halves closed and idle ⇒ `remove(conn)` after the Unlock ⇒ `conns[0a]` exists
    (it is object 1's entry) ⇒ deleted; object 0 is pushed on `free` a second time.  Stream 2 is lost. -/
def cx5Sched : List Tid := [1, 1, 1, 1, 0, 1, 1, 1, 1, 1, 1, 1, 1, 1, 1, 1, 1, 1, 1, 1, 1, 1, 1, 1, 1, 1, 1, 1, 1, 1, 1, 1, 0, 0]

theorem foreign_remove_nostale_counterexample : ¬ kept_stream_completed_once_nostale := by
  intro h
  have hidle : ∀ t, 2 ≤ t → cx5Progs t = [] := by
    intro t ht
    match t, ht with
    | t + 2, _ => rfl
  have hr : (sys true cx5Progs).ReachableR NoStale (Sys.runG (sys true cx5Progs) (noStaleB 2) (sys true cx5Progs).init cx5Sched) :=
    Sys.reachableR_runG_inv (sys true cx5Progs) (noStaleB 2) (Idle 2)
      (fun _ _ _ hI hs => idle_step hI hs) (fun s t hI hb => noStale_of_noStaleB 2 s t hI hb)
      .init (idle_init 2 cx5Progs hidle) cx5Sched
  obtain ⟨c, h1, _⟩ := (h cx5Progs _ hr 2 (by decide)).2 (by decide)
  have h2 : (Sys.runG (sys true cx5Progs) (noStaleB 2) (sys true cx5Progs).init cx5Sched).conns.get
      ((Sys.runG (sys true cx5Progs) (noStaleB 2) (sys true cx5Progs).init cx5Sched).skey 2) = none := by decide
  rw [h2] at h1; cases h1

/-- … and the free list then holds object 0 twice. -/
example : (Sys.runG (sys true cx5Progs) (noStaleB 2) (sys true cx5Progs).init cx5Sched).free = [0, 0] := by decide

/-- kept_stream_completed_once_partial (fixed pool): along every execution with neither a stale recycling
    nor a foreign remove (`Clean`: the precise negations of the two defects) every kept stream is completed
    at most once and, until then, attached to an open connection stored under its key. -/
theorem kept_stream_completed_once_partial (progs : Tid → List Op) (s : State)
    (h : (sys true progs).ReachableR Clean s) : KeptOnce s := by
  have hi := invN_reachableR progs s h
  intro sid hk
  exact ⟨hi.b5 sid, hi.n7 sid hk⟩

/-- Without stale recycling the half pointers a thread took before `conn.mu.Lock()` belong to its own key. -/
theorem pointer_key_partial (progs : Tid → List Op) (s : State) (h : (sys true progs).ReachableR Clean s)
    (t : Tid) (c : CId) (hb : Bool) (k : Key) (kind : Kind) (rest : List Op)
    (hpc : (s.thr t).pc = .lock c hb) (hsn : (s.thr t).snap = none) (hp : (s.thr t).prog = .pkt k kind :: rest) :
    halfKey (s.obj c).key hb = k := by
  have := (invN_reachableR progs s h).n4 t c hb hpc hsn
  rw [hp, headKey_pkt] at this
  exact (Option.some.inj this).symm

/-! ### Stream lifecycle under Flush* — UNCONDITIONAL (fixed pool; no `Clean` hypothesis) -/

/-- no_callback_after_complete: for every ReassembledSG callback recorded in the log (`deliv` from
    AssembleWithContext, `fdeliv` from FlushAll / FlushWithOptions) on a stream `sid`, the earlier part
    `l2` of the log contains no ReassemblyComplete of `sid`.  (NOT claimed for `Accept`: AssembleWithContext
    calls `half.stream.Accept` before it tests `half.closed`, so a goroutine that looked a connection up
    before it was completed still calls Accept on the completed stream; the model has that event.) -/
theorem no_callback_after_complete (progs : Tid → List Op) (s : State) (h : (sys true progs).Reachable s) :
    NoCallbackAfterComplete s :=
  logOK_split (invU_reachable progs s h).u8

/-- completed_at_most_once: no stream is ever completed twice — also along executions with stale
    recycling, foreign removes and objects that sit on `free` twice. -/
theorem completed_at_most_once (progs : Tid → List Op) (s : State) (h : (sys true progs).Reachable s) (sid : SId) :
    ncomp s.log sid ≤ 1 :=
  (invU_reachable progs s h).u5 sid

/-- A completed stream is attached only to connection objects whose halves are both closed. -/
theorem completed_stream_closed (progs : Tid → List Op) (s : State) (h : (sys true progs).Reachable s)
    (c : CId) (sid : SId) (hc : c < s.nextC) (hst : (s.obj c).stream = some sid) (hn : ncomp s.log sid ≠ 0) :
    (s.obj c).both = true := by
  cases hcl : (s.obj c).both with
  | true => rfl
  | false => exact absurd ((invU_reachable progs s h).u4 c sid hc hst hcl) hn

/-- The Accept-after-complete history mentioned above (goroutine 1 looks the connection up, goroutine 0's
    FlushAll completes it, goroutine 1 locks it: Accept on the completed stream, packet dropped). -/
def accProgs : Tid → List Op
  | 0 => [.pkt ⟨0, false⟩ .syn, .flush]
  | 1 => [.pkt ⟨0, false⟩ .syn]
  | _ => []

example : ((sys true accProgs).run (sys true accProgs).init [0, 0, 0, 0, 1, 0, 0, 0, 1]).log =
    [.accept 0 1 0, .complete 0 0, .deliv 0 0 0 ⟨0, false⟩ 1, .accept 0 0 0, .new 0 ⟨0, false⟩ 0] := by decide

/-- the hypotheses of `completed_stream_closed` hold in the final state of that run -/
example : 0 < ((sys true accProgs).run (sys true accProgs).init [0, 0, 0, 0, 1, 0, 0, 0, 1]).nextC
    ∧ (((sys true accProgs).run (sys true accProgs).init [0, 0, 0, 0, 1, 0, 0, 0, 1]).obj 0).stream = some 0
    ∧ ncomp ((sys true accProgs).run (sys true accProgs).init [0, 0, 0, 0, 1, 0, 0, 0, 1]).log 0 ≠ 0 := by decide

end Reasm

end Gp.C12
