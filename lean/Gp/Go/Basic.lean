/-
  Go semantics shared by all models (DESIGN.md §3).
  Core Lean only: no Mathlib import may appear in Gp/Go, Gp/Gen, Gp/Model or Driver.
-/
namespace Gp

/-- Kinds of run-time panic a model can exhibit (DESIGN §3.1). -/
inductive PanicKind where
  | index        -- index out of range
  | slice        -- slice bounds out of range
  | nilDeref     -- nil pointer dereference
  | divZero      -- integer divide by zero
  | makeNeg      -- make with negative / huge length
  | explicit     -- explicit panic(...) in the source
  deriving Repr, DecidableEq, Inhabited

def PanicKind.toString : PanicKind → String
  | .index => "index" | .slice => "slice" | .nilDeref => "nil" | .divZero => "div0"
  | .makeNeg => "make" | .explicit => "explicit"

/-- Outcome of a Go call that may return an error or panic. -/
inductive Res (α : Type) where
  | ok    (a : α)
  | err   (k : String)
  | panic (k : PanicKind)
  deriving Repr, DecidableEq, Inhabited

namespace Res
def bind {α β} (r : Res α) (f : α → Res β) : Res β :=
  match r with
  | .ok a => f a
  | .err k => .err k
  | .panic k => .panic k
instance : Monad Res where
  pure := .ok
  bind := bind
def isPanic {α} : Res α → Bool | .panic _ => true | _ => false
def isOk {α} : Res α → Bool | .ok _ => true | _ => false
def isErr {α} : Res α → Bool | .err _ => true | _ => false
@[simp] theorem bind_ok {α β} (a : α) (f : α → Res β) : (Res.ok a >>= f) = f a := rfl
@[simp] theorem bind_err {α β} (k) (f : α → Res β) : ((Res.err k : Res α) >>= f) = .err k := rfl
@[simp] theorem bind_panic {α β} (k) (f : α → Res β) : ((Res.panic k : Res α) >>= f) = .panic k := rfl
end Res

abbrev Bytes := List UInt8

/-- Big-endian reads used by the codecs (binary.BigEndian.UintNN). Caller guarantees length. -/
def be16 (a b : UInt8) : Nat := a.toNat * 256 + b.toNat
def be32 (a b c d : UInt8) : Nat := ((a.toNat * 256 + b.toNat) * 256 + c.toNat) * 256 + d.toNat

def u8 (n : Nat) : UInt8 := UInt8.ofNat (n % 256)

def putBe16 (n : Nat) : Bytes := [u8 (n / 256), u8 n]
def putBe32 (n : Nat) : Bytes := [u8 (n / 16777216), u8 (n / 65536), u8 (n / 256), u8 n]
def putLe16 (n : Nat) : Bytes := [u8 n, u8 (n / 256)]
def putLe32 (n : Nat) : Bytes := [u8 n, u8 (n / 256), u8 (n / 65536), u8 (n / 16777216)]

/-- Go `s[a:b]` on a list standing for a slice with `cap = len` (copying decode path). -/
def sliceLen (s : Bytes) (a b : Nat) : Res Bytes :=
  if a ≤ b ∧ b ≤ s.length then .ok ((s.drop a).take (b - a)) else .panic .slice

def index (s : Bytes) (i : Nat) : Res UInt8 :=
  match s[i]? with
  | some b => .ok b
  | none => .panic .index

end Gp
