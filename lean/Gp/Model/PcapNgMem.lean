import Gp.Model.PcapNg
/-
  Memory behaviour of the pcapng reader (with fixes pcapng-5/6): what is allocated, and where the
  packet bytes live, as a function of the `MemEv` events emitted by the reader model.

  * `r.currentOption.value` : reused while the new length is below its capacity (initially 1024),
    else `make([]byte, length)`;
  * `readData(buf, length)` : reuse `buf` if non-nil and large enough, else allocate
    min(length, ngMaxPrealloc) and double while data arrives;
  * ReadPacketData passes nil, ZeroCopyReadPacketData passes r.packetBuf (pre-allocating the
    interface's snap length if that is ≥ the capture length and ≤ ngMaxPrealloc) and keeps the
    larger buffer.
  Buffers are modelled with their full contents (length = capacity), so that "the zero-copy call
  returns the same bytes" is a statement about stale buffer contents, not a definition.
-/
namespace Gp.PcapNg
open Gp.Gen.PcapNg

def zerosM (n : Nat) : Bytes := List.replicate n 0

structure Mem where
  vcap : Nat := 1024            -- cap(r.currentOption.value)
  pbuf : Option Bytes := none   -- r.packetBuf: none = nil, some b with b.length = cap
  deriving DecidableEq, Repr, Inhabited

/-- the loop of readData: `buf` (length = its size) holds `have` bytes; returns the final buffer,
    whether all `n` bytes arrived, and the allocation requests made -/
def growLoop (n : Nat) (got : Bytes) : Nat → Bytes → Nat → List Nat → Bytes × Bool × List Nat
  | 0, buf, _, al => (buf, false, al)
  | f + 1, buf, hv, al =>
    let want := buf.length - hv
    let chunk := (got.drop hv).take want
    let buf' := buf.take hv ++ chunk ++ buf.drop (hv + chunk.length)
    if chunk.length < want then (buf', false, al)
    else
      let hv' := buf'.length
      if hv' = n then (buf', true, al)
      else
        let size := if n - hv' > hv' then 2 * hv' else n
        growLoop n got f (buf' ++ zerosM (size - hv')) hv' (al ++ [size])

/-- readData(buf, n) fed with the bytes `got` the stream delivers: (buffer returned, complete?, allocations) -/
def readDataMem (buf : Option Bytes) (n : Nat) (got : Bytes) : Bytes × Bool × List Nat :=
  match buf with
  | some b =>
    if b.length ≥ n then
      let w := got.take n
      (w ++ b.drop w.length, decide (w.length = n), [])
    else
      let size := if n > ngMaxPrealloc then ngMaxPrealloc else n
      growLoop n got (n + 1) (zerosM size) 0 [size]
  | none =>
    let size := if n > ngMaxPrealloc then ngMaxPrealloc else n
    growLoop n got (n + 1) (zerosM size) 0 [size]

structure MemOut where
  mem    : Mem
  allocs : List Nat := []
  view   : Option Bytes := none   -- the `data` slice handed to the caller (packet data events that complete)
  deriving DecidableEq, Repr, Inhabited

/-- cap(r.packetBuf) -/
def Mem.pcap (m : Mem) : Nat := match m.pbuf with | some b => b.length | none => 0

/-- ZeroCopyReadPacketData before readData: pre-allocate the interface's snap length if the packet buffer is
    too small, the snap length is large enough and not above ngMaxPrealloc: (r.packetBuf, allocation requests) -/
def preallocZ (m : Mem) (n snap : Nat) : Option Bytes × List Nat :=
  if m.pcap < n ∧ snap ≥ n ∧ snap ≤ ngMaxPrealloc then (some (zerosM snap), [snap]) else (m.pbuf, [])

/-- ZeroCopyReadPacketData after readData returned `buf`: `if cap(data) > cap(r.packetBuf) { r.packetBuf = data[:cap(data)] }`;
    if readData reused r.packetBuf, `data` aliases it -/
def keepBuf (pb : Option Bytes) (n : Nat) (buf : Bytes) : Option Bytes :=
  let cap1 := match pb with | some b => b.length | none => 0
  if buf.length > cap1 then some buf else
    match pb with
    | some b => if b.length ≥ n then some buf else pb
    | none => pb

/-- effect of one event; `zero` = ZeroCopyReadPacketData* was called -/
def memStep (zero : Bool) (m : Mem) : MemEv → MemOut
  | .opt len =>
    if len < m.vcap then { mem := m } else { mem := { m with vcap := len }, allocs := [len] }
  | .name len => { mem := m, allocs := [len] }
  | .dsb n got => { mem := m, allocs := (readDataMem none n got).2.2 }
  | .data n got snap =>
    if zero then
      let pa := preallocZ m n snap
      let rd := readDataMem pa.1 n got
      { mem := { m with pbuf := keepBuf pa.1 n rd.1 }, allocs := pa.2 ++ rd.2.2,
        view := if rd.2.1 then some (rd.1.take n) else none }
    else
      let rd := readDataMem none n got
      { mem := m, allocs := rd.2.2, view := if rd.2.1 then some (rd.1.take n) else none }

/-- run a list of events (one reader call) -/
def memRun (zero : Bool) : Mem → List MemEv → Mem × List Nat
  | m, [] => (m, [])
  | m, e :: es =>
    let o := memStep zero m e
    let (m', al) := memRun zero o.mem es
    (m', o.allocs ++ al)

end Gp.PcapNg
