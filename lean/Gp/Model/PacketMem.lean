/-
  Where a packet's bytes live (engine `pkt`, property C04): model of NewPacket's data handling
  (packet.go:725-744), of pooledPacket.Dispose (packet.go:253-260) and of the block pool
  `poolPackedPool` (packet.go:28-36).

  * `Heap`: buffers (backing arrays) addressed by index; a slice is a `View` (buf, off, len).
  * `newData`: NewPacket's first half — alias the caller's buffer (NoCopy), copy into a pooled
    block (Pool ∧ len ≤ maximumMTU; the block is resliced to len) or copy into a fresh buffer.
    `maximumMTU` is GENERATED from packet.go on every run (Gp/Gen/Pkt.lean).
  * `PoolSys`: labelled transition system of any number of goroutines issuing New/Dispose against
    one pool; sync.Pool = bag with ARBITRARY choice on Get (an element of the bag, or a brand-new
    block — sync.Pool may drop cached items at any time); Get and Put are atomic (trusted:
    sync.Pool's contract).

  Core Lean only.
-/
import Gp.Go.Basic
import Gp.Gen.Pkt
import Gp.Model.Packet

namespace Gp.PktMem

open Gp.Pkt

abbrev BufId := Nat

structure View where
  buf : BufId
  off : Nat
  len : Nat
  deriving DecidableEq, Repr

/-- Backing arrays; a buffer's list length is its capacity. -/
structure Heap where
  bufs : List Bytes
  deriving DecidableEq, Repr

def Heap.fresh (h : Heap) : BufId := h.bufs.length

/-- `make([]byte, n)` with given initial contents: a buffer no existing view points into. -/
def Heap.alloc (h : Heap) (b : Bytes) : Heap × BufId := ({ bufs := h.bufs ++ [b] }, h.bufs.length)

/-- Read a view; `none` if the buffer does not exist or the window exceeds its capacity
    (Go: slice bounds out of range). -/
def Heap.read (h : Heap) (v : View) : Option Bytes :=
  match h.bufs[v.buf]? with
  | none => none
  | some b => if v.off + v.len ≤ b.length then some ((b.drop v.off).take v.len) else none

/-- `buf[i] = x` for a whole window: `copy(dst, src)`; no-op on a missing buffer. -/
def overwrite (b : Bytes) (off : Nat) (src : Bytes) : Bytes :=
  b.take off ++ src.take (b.length - off) ++ b.drop (off + src.length)

def Heap.write (h : Heap) (buf : BufId) (off : Nat) (src : Bytes) : Heap :=
  match h.bufs[buf]? with
  | none => h
  | some b => { bufs := h.bufs.set buf (overwrite b off src) }

inductive MemKind where
  | copy | alias | pool
  deriving DecidableEq, Repr

/-- Which branch of packet.go:726-744 is taken. -/
def memKind (noCopy pool : Bool) (len : Nat) : MemKind :=
  if noCopy then .alias
  else if pool && decide (len ≤ Gp.Gen.Pkt.maximumMTU) then .pool
  else .copy

/-- What `poolPackedPool.Get()` returns: a block already in the heap (chosen by the scheduler /
    runtime), or a new one from `New` (`make([]byte, maximumMTU)`, zeroed). -/
inductive GetChoice where
  | cached (b : BufId)
  | brandNew
  deriving DecidableEq, Repr

/-- NewPacket's data handling.  `src` is the caller's slice.  Returns the new heap, the view
    that becomes `packet.data`, and the pooled block if any.  `none` only if `src` is not a valid
    slice or the chosen pooled block is not a block of at least `len` bytes. -/
def newData (h : Heap) (noCopy pool : Bool) (src : View) (g : GetChoice) : Option (Heap × View × Option BufId) :=
  match h.read src with
  | none => none
  | some bytes =>
    match memKind noCopy pool src.len with
    | .alias => some (h, src, none)
    | .copy =>
      let (h', b) := h.alloc bytes
      some (h', { buf := b, off := 0, len := src.len }, none)
    | .pool =>
      match g with
      | .brandNew =>
        let (h', b) := h.alloc (bytes ++ List.replicate (Gp.Gen.Pkt.maximumMTU - src.len) 0)
        some (h', { buf := b, off := 0, len := src.len }, some b)
      | .cached b =>
        match h.bufs[b]? with
        | none => none
        | some blk =>
          if src.len ≤ blk.length then
            some (h.write b 0 bytes, { buf := b, off := 0, len := src.len }, some b)
          else none

/-- Bytes of a window (offset, length) of the packet data, as the layer accessors return them. -/
def window (data : Bytes) (off len : Nat) : Bytes := (data.drop off).take len

/-- Everything one can read out of a decoded packet: the decoded structure (fixed at decode time)
    and, through the current heap, Data() and every layer's contents/payload bytes. -/
structure Obs where
  pkt    : Pkt
  data   : Option Bytes
  slices : Option (List (Bytes × Bytes))
  deriving DecidableEq, Repr

def observe (h : Heap) (dv : View) (p : Pkt) : Obs :=
  let d := h.read dv
  { pkt := p, data := d,
    slices := d.map (fun bytes => p.layers.map (fun l => (window bytes l.coff l.clen, window bytes l.poff l.payLen))) }

/-! ### The pool as a transition system -/

structure Live where
  pid   : Nat
  blk   : BufId
  bytes : Bytes          -- what was decoded (the packet's data at creation)
  deriving DecidableEq, Repr

/-- State: block contents, the bag of cached blocks, live (undisposed) pooled packets. -/
structure PoolSt where
  blocks : List Bytes
  bag    : List BufId
  live   : List Live
  nextPid : Nat
  deriving DecidableEq, Repr

def PoolSt.init : PoolSt := { blocks := [], bag := [], live := [], nextPid := 0 }

/-- Operations a goroutine can issue.  `new bytes g`: NewPacket(bytes, …, Pool) with
    len ≤ maximumMTU, the pool answering `g`.  `dispose pid`: Dispose of packet `pid`.
    `drop b`: the runtime silently drops cached block b (GC clears sync.Pool). -/
inductive PoolOp where
  | new (bytes : Bytes) (g : GetChoice)
  | dispose (pid : Nat)
  | drop (b : BufId)
  deriving DecidableEq, Repr

/-- One atomic step by goroutine `tid` (the thread id does not influence the step: any goroutine
    may run any operation at any time — all interleavings).  `none` = operation not enabled:
    Get can only return a block that is in the bag; Dispose is only legal on a live packet
    (i.e. each packet is disposed AT MOST ONCE — see `double_dispose_aliases`). -/
def poolStep (s : PoolSt) (_tid : Nat) (op : PoolOp) : Option PoolSt :=
  match op with
  | .new bytes g =>
    if bytes.length ≤ Gp.Gen.Pkt.maximumMTU then
      match g with
      | .brandNew =>
        let b := s.blocks.length
        some { s with blocks := s.blocks ++ [bytes ++ List.replicate (Gp.Gen.Pkt.maximumMTU - bytes.length) 0],
                      live := { pid := s.nextPid, blk := b, bytes := bytes } :: s.live, nextPid := s.nextPid + 1 }
      | .cached b =>
        if b ∈ s.bag then
          match s.blocks[b]? with
          | none => none
          | some blk =>
            some { s with blocks := s.blocks.set b (overwrite blk 0 bytes), bag := s.bag.erase b,
                          live := { pid := s.nextPid, blk := b, bytes := bytes } :: s.live, nextPid := s.nextPid + 1 }
        else none
    else none
  | .dispose pid =>
    match s.live.find? (fun l => l.pid == pid) with
    | none => none
    | some l => some { s with bag := l.blk :: s.bag, live := s.live.filter (fun x => x.pid != pid) }
  | .drop b =>
    if b ∈ s.bag then some { s with bag := s.bag.erase b } else none

/-- Reachable states: any sequence of enabled steps by any goroutines. -/
inductive Reachable : PoolSt → Prop where
  | init : Reachable PoolSt.init
  | step {s s' : PoolSt} (tid : Nat) (op : PoolOp) : Reachable s → poolStep s tid op = some s' → Reachable s'

/-- The same system WITHOUT the at-most-once rule: Dispose may be repeated (the disposed packet
    object still holds its block pointer, packet.go:258-260).  Used only to show the rule is needed. -/
def poolStepUnsafe (s : PoolSt) (tid : Nat) (op : PoolOp) (stale : Option BufId) : Option PoolSt :=
  match op, stale with
  | .dispose _, some b => some { s with bag := b :: s.bag }
  | _, _ => poolStep s tid op

end Gp.PktMem
