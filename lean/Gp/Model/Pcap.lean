import Gp.Go.Basic
import Gp.Gen.Pcap
import Gp.Model.PcapStream
/-
  Model of the classic pcap writer (pcapgo/write.go: NewWriter, NewWriterNanos,
  WriteFileHeader, writePacketHeader, WritePacket) and reader (pcapgo/read.go: NewReader,
  readHeader, readPacketHeader, ReadPacketData, ZeroCopyReadPacketData, SetSnaplen).

  All constants (magic numbers, version, time scalers) are the ones regenerated from the
  source into `Gp/Gen/Pcap.lean`.  `int` is 64 bit (so `int(uint32)` is the value itself).
-/
namespace Gp.Pcap
open Gp.Gen.Pcap

/-! ## Writer -/

/-- `gopacket.CaptureInfo` + the fields of `time.Time` the writer looks at
    (`t.Unix()`, `t.Nanosecond()` which Go keeps in `[0, 10^9)`). -/
structure CI where
  sec    : Int
  nsec   : Nat
  caplen : Int
  len    : Int
  deriving Repr, DecidableEq

/-- Go conversion `uint32(x)` of an `int`/`int64`. -/
def u32OfInt (x : Int) : Nat := (x % 4294967296).toNat

def zeros (n : Nat) : Bytes := List.replicate n 0

/-- `tsScaler` of `NewWriter` (`nanos = false`) / `NewWriterNanos`. -/
def tsScaler (nanos : Bool) : Nat := if nanos then nanosPerNano else nanosPerMicro

/-- WriteFileHeader(snaplen uint32, linktype layers.LinkType /* uint16 */). -/
def fileHeader (nanos : Bool) (snaplen linktype : Nat) : Bytes :=
  putLe32 (if tsScaler nanos = nanosPerMicro then magicMicroseconds else magicNanoseconds)
    ++ putLe16 versionMajor ++ putLe16 versionMinor ++ zeros 8
    ++ putLe32 snaplen ++ putLe32 linktype

/-- writePacketHeader (the `t.IsZero()` → `time.Now()` substitution is outside the model). -/
def packetHeader (nanos : Bool) (ci : CI) : Bytes :=
  putLe32 (u32OfInt ci.sec) ++ putLe32 (ci.nsec / tsScaler nanos)
    ++ putLe32 (u32OfInt ci.caplen) ++ putLe32 (u32OfInt ci.len)

/-- WritePacket: `none` = an error was returned and nothing was written. -/
def writePacket (nanos : Bool) (ci : CI) (data : Bytes) : Option Bytes :=
  if ci.caplen ≠ (data.length : Int) then none
  else if ci.caplen > ci.len then none
  else some (packetHeader nanos ci ++ data)

/-- Output of a sequence of WritePacket calls (failed calls write nothing) and their results. -/
def writePackets (nanos : Bool) : List (CI × Bytes) → Bytes × List Bool
  | [] => ([], [])
  | (ci, d) :: rest =>
    let (bs, oks) := writePackets nanos rest
    match writePacket nanos ci d with
    | some b => (b ++ bs, true :: oks)
    | none => (bs, false :: oks)

def writeFile (nanos : Bool) (snaplen linktype : Nat) (ps : List (CI × Bytes)) : Bytes :=
  fileHeader nanos snaplen linktype ++ (writePackets nanos ps).1

/-! ## Reader -/

/-- What a successful read returns: `ci.Timestamp` as (`Unix()`, `Nanosecond()`),
    `ci.CaptureLength`, `ci.Length`, and the data. -/
structure Pkt where
  sec    : Nat
  nsec   : Nat
  caplen : Nat
  len    : Nat
  data   : Bytes
  deriving Repr, DecidableEq

inductive Out where
  | pkt   (p : Pkt)        -- err == nil
  | stop  (k : Stop)       -- io.EOF / io.ErrUnexpectedEOF / error of the underlying reader
  | err                    -- an error produced by the pcap reader itself
  | panic (k : PanicKind)
  deriving Repr, DecidableEq

structure Reader where
  s          : Stream
  bigEndian  : Bool
  nanoFactor : Nat      -- nanoSecsFactor: 1 or 1000
  snaplen    : Nat
  linkType   : Nat
  bufCap     : Nat      -- cap(r.packetBuf)
  deriving Repr, DecidableEq

/-- Result of opening a reader. -/
inductive Open where
  | ok   (r : Reader) (alloc : List Nat)
  | fail (o : Out)
  deriving Repr, DecidableEq

/-- readHeader after the gzip decision: 24 bytes, magic (four cases in source order),
    version, snaplen, link type (`layers.LinkType` is a uint16). -/
def readHeader (s : Stream) : Open :=
  match readFull s 24 with
  | .stop k _ => .fail (.stop k)
  | .got [m0, m1, m2, m3, v0, v1, w0, w1, _, _, _, _, _, _, _, _, s0, s1, s2, s3, l0, l1, l2, l3] s' =>
    let magic := rd32 false m0 m1 m2 m3
    let mk (be : Bool) (factor : Nat) : Open :=
      if rd16 be v0 v1 ≠ versionMajor then .fail .err
      else if rd16 be w0 w1 ≠ versionMinor then .fail .err
      else .ok { s := s', bigEndian := be, nanoFactor := factor,
                 snaplen := rd32 be s0 s1 s2 s3, linkType := rd32 be l0 l1 l2 l3 % 65536,
                 bufCap := 0 } [4096, 24]
    if magic = magicNanoseconds then mk false 1
    else if magic = magicNanosecondsBigendian then mk true 1
    else if magic = magicMicroseconds then mk false 1000
    else if magic = magicMicrosecondsBigendian then mk true 1000
    else .fail .err
  | .got _ _ => .fail (.panic .index)

/-- NewReader.  `gz` stands for `compress/gzip` (trusted, not modelled): the stream delivered
    by `gzip.NewReader` on this input, `none` when it rejects the gzip header.
    `bufio.Reader.Peek(2)` fails with the stream's terminal condition when fewer than two
    bytes arrive (io.EOF even for a single byte). -/
def openReader (gz : Stream → Option Stream) (s : Stream) : Open :=
  match s.data with
  | g1 :: g2 :: _ =>
    if g1.toNat = magicGzip1 ∧ g2.toNat = magicGzip2 then
      match gz s with
      | some s' => readHeader s'
      | none => .fail .err
    else readHeader s
  | _ => .fail (.stop (if s.fail then .ioerr else .eof))

/-- No gzip support needed (the input does not start with the gzip magic, or the caller
    passes the already decompressed stream). -/
def noGz : Stream → Option Stream := fun _ => none

structure Step where
  r     : Reader
  out   : Out
  alloc : List Nat
  deriving Repr, DecidableEq

/-- The buffer the data is read into: a fresh `make([]byte, caplen)` (copying call), or the
    reused `r.packetBuf`, reallocated to `max(snaplen, caplen)` when its capacity is too small.
    Result: new `cap(r.packetBuf)` and the allocation requests. -/
def bufFor (zc : Bool) (r : Reader) (caplen : Nat) : Nat × List Nat :=
  if zc then
    if r.bufCap < caplen then
      let n := if r.snaplen < caplen then caplen else r.snaplen
      (n, [n])
    else (r.bufCap, [])
  else (r.bufCap, [caplen])

/-- Second half of Read/ZeroCopyReadPacketData, after the header checks: get the buffer,
    `io.ReadFull` the data.  `r.s` is the stream after the record header. -/
def readData (zc : Bool) (r : Reader) (sec frac caplen len : Nat) : Step :=
  let ba := bufFor zc r caplen
  let r2 := { r with bufCap := ba.1 }
  if zc ∧ ba.1 < caplen then { r := r2, out := .panic .slice, alloc := ba.2 }  -- r.packetBuf[:caplen]
  else
    match readFull r.s caplen with
    | .stop k s'' => { r := { r2 with s := s'' }, out := .stop k, alloc := ba.2 }
    | .got d s'' =>
      let t := normTime sec frac
      { r := { r2 with s := s'' },
        out := .pkt { sec := t.1, nsec := t.2, caplen := caplen, len := len, data := d },
        alloc := ba.2 }

/-- ReadPacketData (`zc = false`) / ZeroCopyReadPacketData (`zc = true`). -/
def read (zc : Bool) (r : Reader) : Step :=
  -- readPacketHeader
  match readFull r.s 16 with
  | .stop k s' => { r := { r with s := s' }, out := .stop k, alloc := [] }
  | .got [t0, t1, t2, t3, u0, u1, u2, u3, c0, c1, c2, c3, n0, n1, n2, n3] s' =>
    let be := r.bigEndian
    let sec := rd32 be t0 t1 t2 t3
    let frac := (rd32 be u0 u1 u2 u3 * r.nanoFactor) % 4294967296   -- uint32 multiplication
    let caplen := rd32 be c0 c1 c2 c3
    let len := rd32 be n0 n1 n2 n3
    let r1 := { r with s := s' }
    if caplen > r.snaplen then { r := r1, out := .err, alloc := [] }
    else if caplen > len then { r := r1, out := .err, alloc := [] }
    else readData zc r1 sec frac caplen len
  | .got _ s' => { r := { r with s := s' }, out := .panic .index, alloc := [] }

def setSnaplen (r : Reader) (n : Nat) : Reader := { r with snaplen := n }

theorem readData_pkt_le (zc : Bool) (r : Reader) (sec frac caplen len : Nat) (p : Pkt)
    (h : (readData zc r sec frac caplen len).out = .pkt p) :
    (readData zc r sec frac caplen len).r.s.data.length ≤ r.s.data.length := by
  revert h
  unfold readData
  dsimp only
  split
  · intro h; cases h
  · split
    · intro h; cases h
    · rename_i d s'' hd
      have h2 := (readFull_got hd).1
      intro _
      dsimp only
      omega

/-- A call that returns a packet consumed at least the 16-byte record header. -/
theorem read_pkt_lt (zc : Bool) (r : Reader) (p : Pkt) (h : (read zc r).out = .pkt p) :
    (read zc r).r.s.data.length < r.s.data.length := by
  revert h
  unfold read
  split
  · intro h; cases h
  · rename_i s' h16
    have h1 := (readFull_got h16).1
    dsimp only
    split
    · intro h; cases h
    · split
      · intro h; cases h
      · intro h
        have := readData_pkt_le _ _ _ _ _ _ _ h
        dsimp only at this
        omega
  · intro h; cases h

/-- Read until the first call that does not return a packet: the packets and that outcome. -/
def readAll (zc : Bool) (r : Reader) : List Pkt × Out :=
  match _h : (read zc r).out with
  | .pkt p =>
    let rest := readAll zc (read zc r).r
    (p :: rest.1, rest.2)
  | o => ([], o)
termination_by r.s.data.length
decreasing_by exact read_pkt_lt zc r p (by assumption)

/-- Open and read everything: header info (link type, snaplen, ns-resolution?) if any,
    the packets, the final outcome. -/
def readFile (gz : Stream → Option Stream) (zc : Bool) (s : Stream) :
    Option (Nat × Nat × Bool) × List Pkt × Out :=
  match openReader gz s with
  | .fail o => (none, [], o)
  | .ok r _ =>
    let res := readAll zc r
    (some (r.linkType, r.snaplen, r.nanoFactor == 1), res.1, res.2)

/-- Reader operations for arbitrary call sequences. -/
inductive Op where
  | read (zc : Bool)
  | setSnaplen (n : Nat)
  deriving Repr, DecidableEq

/-- Apply an operation; `SetSnaplen` produces no step record. -/
def apply (r : Reader) : Op → Reader × Option Step
  | .read zc => let st := read zc r; (st.r, some st)
  | .setSnaplen n => (setSnaplen r n, none)

/-- The state after a sequence of calls. -/
def run (r : Reader) : List Op → Reader
  | [] => r
  | op :: ops => run (apply r op).1 ops

end Gp.Pcap
