/-
  Executable model of ip6defrag/defrag.go (engine `frag6`, property C13).  Core Lean only.

  Modelled: IPv6Defragmenter.DefragIPv6 (sorted insert with duplicate drop, completeness walk,
  payload rebuild) and DiscardOlderThan for cut-offs that are earlier / later than every stored
  entry (entries are stamped with time.Now() inside the package).
  The model is of the code WITH proposed_fixes/frag-7 applied (a first fragment that is
  already a complete datagram is returned instead of being parked).
  Reproduced as is: the map is keyed by the Identification alone, and an entry is NOT removed
  when its datagram has been returned (later duplicates return it again).
-/
import Gp.Go.Basic

namespace Gp.Frag6

/-- `fragment`: `hdr` is the `ipv6` pointer, recorded only for offset 0 (src,dst stand for it). -/
structure Frag6 where
  hdr : Option (Nat × Nat)
  off : Nat                -- FragmentOffset (uint16, 8-byte units)
  payload : Bytes
  more : Bool
  nh : Nat
  deriving DecidableEq, Repr, Inhabited

def u16 (n : Nat) : Nat := n % 65536

/-- The insertion loop over the linked list (head first): equal offset → dropped,
    smaller → inserted before, end of list → appended. -/
def ins (x : Frag6) : List Frag6 → List Frag6
  | [] => [x]
  | g :: t =>
    if x.off = g.off then g :: t
    else if x.off < g.off then x :: g :: t
    else g :: ins x t

/-- `f.offset+uint16(len(f.payload)/8)` -/
def Frag6.nextOff (g : Frag6) : Nat := u16 (g.off + u16 (g.payload.length / 8))

/-- The completeness walk from the head. -/
def walk : List Frag6 → Bool
  | [] => false
  | [g] => !g.more
  | g :: h :: t => if !g.more then true else if g.nextOff ≠ h.off then false else walk (h :: t)

/-- Payload and next-header gathered along the chain up to the first fragment without `more`. -/
def gather : List Frag6 → Bytes × Nat
  | [] => ([], 0)
  | [g] => (g.payload, g.nh)
  | g :: h :: t => if !g.more then (g.payload, g.nh) else
      let (b, n) := gather (h :: t); (g.payload ++ b, n)

inductive Reply where
  | none
  | out (src dst nh : Nat) (payload : Bytes)
  | panic (k : PanicKind)
  deriving DecidableEq, Repr, Inhabited

structure State where
  flows : List (Nat × List Frag6) := []
  deriving Repr, Inhabited

def State.lookup (st : State) (id : Nat) : Option (List Frag6) :=
  match st.flows.find? (fun p => decide (p.1 = id)) with
  | some p => some p.2
  | none => none

def State.set (st : State) (id : Nat) (l : List Frag6) : State :=
  { flows := (id, l) :: st.flows.filter (fun p => !decide (p.1 = id)) }

/-- The part of DefragIPv6 after the list has been updated. -/
def finish (l : List Frag6) : Reply :=
  match l with
  | [] => .none
  | h :: _ =>
    if h.off ≠ 0 then .none
    else if !walk l then .none
    else
      let (b, n) := gather l
      match h.hdr with
      | some (s, d) => .out s d n b
      | none => .panic .nilDeref          -- f.ipv6.TrafficClass with f.ipv6 == nil

/-- The `fragment` record DefragIPv6 creates: the header pointer is kept only for offset 0. -/
def norm (src dst : Nat) (x : Frag6) : Frag6 :=
  { x with hdr := if x.off = 0 then some (src, dst) else none }

/-- The list stored for an Identification (`[]` when there is no entry). -/
def State.chain (st : State) (id : Nat) : List Frag6 :=
  match st.lookup id with
  | some l => l
  | none => []

/-- DefragIPv6(ipv6, fg): `src dst` stand for the *layers.IPv6 passed along.
    (`ins x [] = [x]` is the "first fragment for this Identification" branch.) -/
def defrag (st : State) (src dst id : Nat) (x : Frag6) : State × Reply :=
  let l := ins (norm src dst x) (st.chain id)
  (st.set id l, finish l)

/-- DiscardOlderThan with a cut-off later than every entry (`future = true`) or earlier. -/
def discard (st : State) (future : Bool) : State × Nat :=
  if future then ({}, st.flows.length) else (st, 0)

end Gp.Frag6
