import Gp.Go.Basic
/-
  Model of gopacket's default SerializeBuffer (writer.go: serializeBuffer,
  NewSerializeBufferExpectedSize, Bytes, PrependBytes, AppendBytes, Clear, Layers,
  PushLayer) and of SerializeLayers.

  `mem` is the *whole* backing array (length = capacity), `len` is `len(w.data)`.
  A slice handed out by Prepend/Append is a `Win`: it aliases the backing array
  that was current when it was returned (`gen`); after a reallocation it is stale
  and writes through it no longer reach the buffer (they go to the old array).
-/
namespace Gp.SBuf

structure SBuf where
  mem       : List UInt8
  len       : Nat
  start     : Nat
  prepended : Nat
  appended  : Nat
  layers    : List Int
  gen       : Nat
  deriving Repr, DecidableEq

structure Win where
  gen : Nat
  off : Nat
  n   : Nat
  deriving Repr, DecidableEq

def zeros (n : Nat) : List UInt8 := List.replicate n 0

/-- NewSerializeBufferExpectedSize(pre, app); NewSerializeBuffer() is `new 0 0`. -/
def new (pre app : Nat) : SBuf :=
  { mem := zeros (pre + app), len := pre, start := pre, prepended := pre, appended := app,
    layers := [], gen := 0 }

def cap (b : SBuf) : Nat := b.mem.length

/-- `w.Bytes()` = `w.data[w.start:]`. -/
def contents (b : SBuf) : List UInt8 := (b.mem.drop b.start).take (b.len - b.start)

/-- writer.go PrependBytes (num ≥ 0; the `num < 0` panic is outside the model: `n : Nat`). -/
def prepend (b : SBuf) (n : Nat) : SBuf × Win :=
  let b1 :=
    if b.start < n then
      let toPrepend := if b.prepended < n then n else b.prepended
      let newStart := b.start + toPrepend
      -- newData := make([]byte, cap+toPrepend); copy(newData[newStart:], w.data[w.start:])
      let newMem := zeros newStart ++ contents b ++ zeros (cap b + toPrepend - newStart - (b.len - b.start))
      { b with mem := newMem, len := toPrepend + b.len, start := newStart,
               prepended := b.prepended + toPrepend, gen := b.gen + 1 }
    else b
  let b2 := { b1 with start := b1.start - n }
  (b2, { gen := b2.gen, off := b2.start, n := n })

/-- writer.go AppendBytes. -/
def append (b : SBuf) (n : Nat) : SBuf × Win :=
  let b1 :=
    if cap b - b.len < n then
      let toAppend := if b.appended < n then n else b.appended
      -- newData := make([]byte, cap+toAppend); copy(newData[w.start:], w.data[w.start:])
      let newMem := zeros b.start ++ contents b ++ zeros (cap b + toAppend - b.start - (b.len - b.start))
      { b with mem := newMem, appended := b.appended + toAppend, gen := b.gen + 1 }
    else b
  let b2 := { b1 with len := b1.len + n }
  (b2, { gen := b2.gen, off := b.len, n := n })

/-- writer.go Clear. -/
def clear (b : SBuf) : SBuf :=
  { b with start := b.prepended, len := b.prepended, layers := [] }

def pushLayer (b : SBuf) (t : Int) : SBuf := { b with layers := b.layers ++ [t] }

/-- The caller stores `v` at index `i` of a previously returned slice.  Go panics when
    `i ≥ len(slice)`; a stale slice writes to the old array (no effect on the buffer). -/
def write (b : SBuf) (w : Win) (i : Nat) (v : UInt8) : Res SBuf :=
  if i < w.n then
    if w.gen = b.gen then .ok { b with mem := b.mem.set (w.off + i) v } else .ok b
  else .panic .index

/-- Fill a whole window with the bytes `vs` (|vs| = w.n), as every serializer must. -/
def fill (b : SBuf) (w : Win) (vs : List UInt8) : SBuf :=
  if w.gen = b.gen then
    { b with mem := b.mem.take w.off ++ vs ++ b.mem.drop (w.off + vs.length) }
  else b

/-- Operations of the abstract history (`fill`-style prepend/append, clear, push). -/
inductive Op where
  | prepend (vs : List UInt8)
  | append  (vs : List UInt8)
  | clear
  | push (t : Int)
  deriving Repr, DecidableEq

def step (b : SBuf) : Op → SBuf
  | .prepend vs => let (b', w) := prepend b vs.length; fill b' w vs
  | .append vs  => let (b', w) := append b vs.length; fill b' w vs
  | .clear      => clear b
  | .push t     => pushLayer b t

def run (b : SBuf) (ops : List Op) : SBuf := ops.foldl step b

/-- The abstract specification: what the buffer must contain after a history. -/
def specStep (s : List UInt8 × List Int) : Op → List UInt8 × List Int
  | .prepend vs => (vs ++ s.1, s.2)
  | .append vs  => (s.1 ++ vs, s.2)
  | .clear      => ([], [])
  | .push t     => (s.1, s.2 ++ [t])

def spec (ops : List Op) : List UInt8 × List Int := ops.foldl specStep ([], [])

/-- A serializer, as SerializeLayers sees it: a layer type and a function on the buffer
    that may fail.  A *prepend-only* serializer prepends its header bytes. -/
structure Ser where
  typ : Int
  hdr : List UInt8 → List UInt8   -- header bytes as a function of the current payload
  ok  : List UInt8 → Bool         -- `false` = SerializeTo returns an error

/-- writer.go SerializeLayers for prepend-only serializers: clear, then innermost first. -/
def serializeLayers (b : SBuf) (ls : List Ser) : Res SBuf :=
  let rec go (b : SBuf) : List Ser → Res SBuf
    | [] => .ok b
    | l :: rest =>   -- `rest` are the layers *outside* l; list is given innermost-first here
      if l.ok (contents b) then
        go (step (step b (.prepend (l.hdr (contents b)))) (.push l.typ)) rest
      else .err "serialize"
  go (clear b) ls.reverse

/-- SerializeLayers together with what is observable while it runs: the `Layers()` list each serializer
    finds when its SerializeTo is called (innermost serializer first) and the buffer as SerializeLayers
    leaves it — also when it returns an error (the failing serializer's PushLayer never happens). -/
def serializeLayersObs (b : SBuf) (ls : List Ser) : Res Unit × SBuf × List (List Int) :=
  let rec go (b : SBuf) (obs : List (List Int)) : List Ser → Res Unit × SBuf × List (List Int)
    | [] => (.ok (), b, obs)
    | l :: rest =>
      if l.ok (contents b) then
        go (step (step b (.prepend (l.hdr (contents b)))) (.push l.typ)) (obs ++ [b.layers]) rest
      else (.err "serialize", b, obs ++ [b.layers])
  go (clear b) [] ls.reverse

end Gp.SBuf
