import Gp.Go.Basic
import Gp.Gen.PcapNg
/-
  (part 1 of the pcapng reader model: values, reader state, the `Prog` language and its interpreter)

  Executable model of the pcapng READER of /repo/pcapgo (ngread.go, ngread_nrb.go,
  ngread_dsb.go, pcapng.go) — with the proposed fixes pcapng-1 … pcapng-6 applied
  (see /verif/proposed_fixes and notes/pcapng.md).

  * input: the remaining bytes of the stream (`St.inp`); bufio/io chunking is not modelled
    (the reader only uses readBytes = "read exactly n or fail", Discard, ReadBytes(0), Peek(2));
  * the reader is written in a small deep-embedded language `Prog` (pure / bind / `act` = a step on
    the reader state `S` that cannot see the stream / `io` = one of nine stream primitives / `iter`
    = a Go loop) interpreted by `run`; properties that hold for EVERY program (input is only ever
    consumed; a truncated stream gives the same results up to the cut and then EOF/unexpected EOF;
    fuel monotonicity) are proved once, by induction on `Prog` (Gp/Lemmas/PcapNgProg.lean);
  * outcomes: `Out.ok a s w` / `Out.fail e s w` — the state after a failure is kept, because
    a caller may keep calling a reader after an error;
  * unsigned 32 bit wrap of `currentBlock.length` is modelled (`sub32`);
  * every loop of the Go code is an instance of `iter` (fuel-bounded; running out of fuel
    is the distinguished failure `Err.hang`, proved unreachable in Gp/Lemmas/PcapNg*.lean);
  * memory behaviour (allocation requests, the reused zero-copy buffer) is a function of the
    `MemEv` events the reader emits; it is modelled in Gp/Model/PcapNgMem.lean.

  Block type codes, option codes, magic numbers come from Gp/Gen/PcapNg.lean, which is
  regenerated from the source on every run.
-/
namespace Gp.PcapNg
open Gp.Gen.PcapNg

/-! ## Values -/

inductive Err where
  | eof    -- io.EOF
  | ueof   -- io.ErrUnexpectedEOF (identical error value)
  | err    -- any other error
  | werr   -- an error created with fmt.Errorf("…%v", io.ErrUnexpectedEOF / io.EOF): *not* an EOF value
  | gzip   -- the stream starts with the gzip magic: handed to compress/gzip (outside the model)
  | hang   -- model artefact: loop fuel exhausted (proved unreachable)
  | panic (k : PanicKind)
  deriving DecidableEq, Repr, Inhabited

/-- Observable part of a time.Time: (t.Unix(), t.Nanosecond()). -/
structure Time where
  sec  : Int
  nsec : Int
  deriving DecidableEq, Repr, Inhabited

/-- time.Time{} -/
def Time.zero : Time := ⟨-62135596800, 0⟩

def wrapI64 (x : Int) : Int := (x + 9223372036854775808) % 18446744073709551616 - 9223372036854775808

/-- time.Unix(sec, nsec) followed by .Unix()/.Nanosecond() (int64 arithmetic wraps). -/
def timeUnix (sec nsec : Int) : Time :=
  if nsec < 0 ∨ nsec ≥ 1000000000 then
    let n := Int.tdiv nsec 1000000000
    let sec := wrapI64 (sec + n)
    let nsec := nsec - n * 1000000000
    if nsec < 0 then ⟨wrapI64 (sec - 1), nsec + 1000000000⟩ else ⟨sec, nsec⟩
  else ⟨sec, nsec⟩

structure Stats where
  lastUpdate : Time := Time.zero
  startTime  : Time := Time.zero
  endTime    : Time := Time.zero
  comment    : Bytes := []
  received   : Nat := 0
  dropped    : Nat := 0
  deriving DecidableEq, Repr, Inhabited

/-- ngEmptyStatistics -/
def Stats.empty : Stats := { received := NgNoValue64, dropped := NgNoValue64 }

structure Iface where
  name    : Bytes := []
  comment : Bytes := []
  descr   : Bytes := []
  filter  : Bytes := []
  os      : Bytes := []
  linkType : Nat := 0
  tsres   : Nat := 0
  tsoff   : Nat := 0
  snaplen : Nat := 0
  stats   : Stats := {}
  secondMask : Nat := 0
  scaleUp    : Nat := 0
  scaleDown  : Nat := 0
  deriving DecidableEq, Repr, Inhabited

structure Section where
  hardware : Bytes := []
  os       : Bytes := []
  app      : Bytes := []
  comment  : Bytes := []
  deriving DecidableEq, Repr, Inhabited

structure Flags where
  dir : Nat
  rcv : Nat
  fcs : Nat
  lle : Nat
  deriving DecidableEq, Repr, Inhabited

structure PktOpts where
  comments  : List Bytes := []
  flags     : Option Flags := none
  hashes    : List (Nat × Bytes) := []
  dropCount : Option Nat := none
  packetId  : Option Nat := none
  queue     : Option Nat := none
  verdicts  : List (Nat × Bytes) := []
  deriving DecidableEq, Repr, Inhabited

/-- gopacket.CaptureInfo as filled by readPacketHeader (+ ancillary link type, + the snap length of the interface). -/
structure CapInfo where
  iface  : Nat := 0
  ts     : Time := Time.zero
  caplen : Nat := 0
  len    : Nat := 0
  deriving DecidableEq, Repr, Inhabited

structure Pkt where
  ci    : CapInfo
  ancil : Option Nat     -- ci.AncillaryData[0] (link type) iff WantMixedLinkType
  data  : Bytes
  opts  : PktOpts
  deriving DecidableEq, Repr, Inhabited

/-- NgReaderOptions (callbacks are not modelled: nil). -/
structure Cfg where
  mixed       : Bool := false   -- WantMixedLinkType
  errMismatch : Bool := false   -- ErrorOnMismatchingLinkType
  skipUnknown : Bool := false   -- SkipUnknownVersion
  deriving DecidableEq, Repr, Inhabited

structure NameRec where
  addrLen : Nat
  names   : List Bytes
  deriving DecidableEq, Repr, Inhabited

/-- Memory-relevant events (interpreted by Gp/Model/PcapNgMem.lean). -/
inductive MemEv where
  | opt  (len : Nat)                          -- a non-empty option value of `len` bytes was requested
  | data (n : Nat) (got : Bytes) (snaplen : Nat)   -- packet data: n bytes requested, `got` delivered by the stream
  | dsb  (n : Nat) (got : Bytes)              -- decryption secrets payload
  | name (len : Nat)                          -- bufio ReadBytes(0) returned / accumulated `len` bytes
  deriving DecidableEq, Repr, Inhabited

def MemEv.present : MemEv → Nat
  | .opt l => l
  | .data _ g _ => g.length
  | .dsb _ g => g.length
  | .name l => l

/-- the reader state without the stream (fields of NgReader + locals that live across loop iterations) -/
structure S where
  cfg  : Cfg := {}
  be   : Bool := false
  sect : Section := {}
  linkType   : Nat := 0
  firstFound : Bool := false
  ifaces : List Iface := []
  blkTyp : Nat := 0
  blkLen : Nat := 0             -- currentBlock.length (uint32)
  optCode : Nat := 0
  optVal  : Bytes := []
  ci      : CapInfo := {}
  names   : List NameRec := []
  nSecrets : Nat := 0
  -- locals of the Go functions
  curSec  : Section := {}
  curIf   : Iface := {}
  curOpts : PktOpts := {}
  isbId   : Nat := 0
  nrLen   : Int := 0
  nrAddr  : Nat := 0
  nrNames : List Bytes := []
  deriving Repr, Inhabited

/-- the stream: bytes left, plus two logs that only the stream primitives write -/
structure Strm where
  inp   : Bytes
  ev    : List MemEv := []     -- memory events of the current call
  nWrap : Nat := 0             -- ghost: number of reads whose EOF error gets wrapped with %v
  deriving Repr, Inhabited

inductive Out (α : Type) where
  | ok   (a : α) (s : S) (w : Strm)
  | fail (e : Err) (s : S) (w : Strm)
  deriving Inhabited

def Out.s {α} : Out α → S
  | .ok _ s _ => s
  | .fail _ s _ => s

def Out.w {α} : Out α → Strm
  | .ok _ _ w => w
  | .fail _ _ w => w

/-- position of the first 0 byte -/
def findZero : Bytes → Option Nat
  | [] => none
  | b :: r => if b = 0 then some 0 else (findZero r).map (· + 1)

/-- the stream primitives of NgReader -/
inductive Prim : Type → Type where
  | rd     (n : Nat) : Prim Bytes         -- r.readBytes(buf[:n]): n bytes or io.ErrUnexpectedEOF
  | rd0    (n : Nat) : Prim Bytes         -- the same at the start of a block: io.EOF if nothing is left
  | rdW    (n : Nat) : Prim Bytes         -- readBytes whose error is wrapped by the caller (fmt.Errorf %v)
  | rdOpt  (n : Nat) : Prim Bytes         -- option value (length is a uint16): memory event, then readBytes
  | rdData (n snap : Nat) : Prim Bytes    -- packet data through readData: memory event, then n bytes or ErrUnexpectedEOF
  | rdDsb  (n : Nat) : Prim Bytes         -- secrets payload through readData, error wrapped
  | skip   (n : Nat) : Prim Unit          -- bufio Discard(n): io.ErrUnexpectedEOF if short
  | skipW  (n : Nat) : Prim Unit          -- the same, error wrapped by the caller
  | line0  : Prim Bytes                   -- bufio ReadBytes(0), error wrapped by the caller

def takeN (n : Nat) (short : Err) (w : Strm) : Except Err Bytes × Strm :=
  if n ≤ w.inp.length then (.ok (w.inp.take n), { w with inp := w.inp.drop n })
  else (.error short, { w with inp := [] })

def Prim.run {α} : Prim α → Strm → Except Err α × Strm
  | .rd n, w => takeN n .ueof w
  | .rd0 n, w =>
    if n ≤ w.inp.length then (.ok (w.inp.take n), { w with inp := w.inp.drop n })
    else if w.inp.isEmpty then (.error .eof, w)
    else (.error .ueof, { w with inp := [] })
  | .rdW n, w => takeN n .werr { w with nWrap := w.nWrap + 1 }
  | .rdOpt n, w => takeN (n % 65536) .ueof { w with ev := w.ev ++ [.opt (n % 65536)] }
  | .rdData n snap, w => takeN n .ueof { w with ev := w.ev ++ [.data n (w.inp.take n) snap] }
  | .rdDsb n, w => takeN n .werr { w with ev := w.ev ++ [.dsb n (w.inp.take n)], nWrap := w.nWrap + 1 }
  | .skip n, w =>
    if n ≤ w.inp.length then (.ok (), { w with inp := w.inp.drop n }) else (.error .ueof, { w with inp := [] })
  | .skipW n, w =>
    if n ≤ w.inp.length then (.ok (), { w with inp := w.inp.drop n, nWrap := w.nWrap + 1 })
    else (.error .werr, { w with inp := [], nWrap := w.nWrap + 1 })
  | .line0, w =>
    match findZero w.inp with
    | some p => (.ok (w.inp.take (p + 1)),
        { w with inp := w.inp.drop (p + 1), nWrap := w.nWrap + 1, ev := w.ev ++ [.name (p + 1)] })
    | none => (.error .werr, { w with inp := [], nWrap := w.nWrap + 1, ev := w.ev ++ [.name w.inp.length] })

inductive Step (α : Type) where
  | again
  | done (a : α)

/-- reader programs -/
inductive Prog : Type → Type 1 where
  | pure {α} (a : α) : Prog α
  | bind {α β} (m : Prog α) (g : α → Prog β) : Prog β
  | act  {α} (f : S → Except Err α × S) : Prog α     -- a step on the reader state; cannot see the stream
  | io   {α} (p : Prim α) : Prog α
  | iter {α} (body : Prog (Step α)) : Prog α          -- `for { body }`

instance : Monad Prog where
  pure := Prog.pure
  bind := Prog.bind

/-- a loop with at most `fuel` iterations; running out of fuel is the failure `Err.hang` -/
def runIter {α} (rb : S → Strm → Out (Step α)) : Nat → S → Strm → Out α
  | 0, s, w => .fail .hang s w
  | f + 1, s, w =>
    match rb s w with
    | .ok .again s' w' => runIter rb f s' w'
    | .ok (.done a) s' w' => .ok a s' w'
    | .fail e s' w' => .fail e s' w'

def run {α} (fuel : Nat) : Prog α → S → Strm → Out α
  | .pure a, s, w => .ok a s w
  | .bind m g, s, w =>
    match run fuel m s w with
    | .ok a s' w' => run fuel (g a) s' w'
    | .fail e s' w' => .fail e s' w'
  | .act f, s, w =>
    match f s with
    | (.ok a, s') => .ok a s' w
    | (.error e, s') => .fail e s' w
  | .io p, s, w =>
    match p.run w with
    | (.ok a, w') => .ok a s w'
    | (.error e, w') => .fail e s w'
  | .iter body, s, w => runIter (run fuel body) fuel s w

def failM {α} (e : Err) : Prog α := .act fun s => (.error e, s)
def getS : Prog S := .act fun s => (.ok s, s)
def modS (f : S → S) : Prog Unit := .act fun s => (.ok (), f s)
def rd (n : Nat) : Prog Bytes := .io (.rd n)
def rdW (n : Nat) : Prog Bytes := .io (.rdW n)

/-! ## Integers -/

def leNat : Bytes → Nat
  | [] => 0
  | b :: r => b.toNat + 256 * leNat r

def beNat (b : Bytes) : Nat := leNat b.reverse

/-- r.getUint16/32/64 on a slice of exactly 2/4/8 bytes -/
def getU (be : Bool) (b : Bytes) : Nat := if be then beNat b else leNat b

def two32 : Nat := 4294967296
def two64 : Nat := 18446744073709551616

/-- uint32 subtraction `a -= uint32(b)`.  (Literal first: `Nat.add` recurses on its second argument, so with
    the literal second a definitional-equality check on an open term would peel 2^32 successors.) -/
def sub32 (a b : Nat) : Nat := (two32 + a - b % two32) % two32

def toI64 (n : Nat) : Int := wrapI64 (Int.ofNat n)

def decBlk (n : Nat) : Prog Unit := modS fun s => { s with blkLen := sub32 s.blkLen n }

/-- r.discard(length): skip and, on success, decrement currentBlock.length -/
def discard (n : Nat) : Prog Unit := do
  Prog.io (.skip n)
  decBlk n

/-- r.discard whose error is wrapped by the caller -/
def discardW (n : Nat) : Prog Unit := do
  Prog.io (.skipW n)
  decBlk n

/-- r.discard(int(r.currentBlock.length)) -/
def discardBlock : Prog Unit := do
  let s ← getS
  discard s.blkLen

end Gp.PcapNg
