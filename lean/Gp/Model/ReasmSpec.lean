import Gp.Model.ReasmPool
/-
  Specification vocabulary for C09/C11 (reassembly): histories of one half connection, what it means
  for a segment to be consistent with a sender stream, and what a stream may observe (`Rep`).
  Core Lean only (definitions; the theorems are in Gp/Props/C09.lean, Gp/Props/C11/Reasm.lean).
-/
namespace Gp.Reasm
open Gp

/-- `S[o : o+n]` -/
def slice (S : List UInt8) (o n : Nat) : List UInt8 := (S.drop o).take n

/-- The chunk `bytes`, whose first byte has sequence number `seq`, is a piece of the sender stream `S`
    whose first byte has (unbounded) sequence number `b`. -/
def At (S : List UInt8) (b seq : Int) (bytes : List UInt8) : Prop :=
  ∃ o : Nat, seq = b + o ∧ o + bytes.length ≤ S.length ∧ bytes = slice S o bytes.length

/-- effective sequence number of the first payload byte (the SYN flag occupies one number) -/
def Seg.dataSeq (p : Seg) : Int := if p.syn then p.seq + 1 else p.seq

/-- A segment is consistent with sender stream `S` and initial sequence number `i` (offset space:
    sequence numbers are NOT reduced modulo 2^32 here; `Seg.wrap` does that). -/
def SegOK (S : List UInt8) (i : Int) (p : Seg) : Prop :=
  (p.syn = true → p.seq = i ∧ p.fin = false) ∧ At S (i + 1) p.dataSeq p.bytes ∧
  (p.fin = true → p.dataSeq + p.bytes.length = i + 1 + S.length)

/-- the same segment as it appears on the wire -/
def Seg.wrap (p : Seg) : Seg := { p with seq := p.seq % 4294967296 }

/-- Operations on ONE half connection.  `cfg`/`used` are the assembler options and the page-cache
    counter at the time of the call: arbitrary (they depend on the other connections). -/
inductive HOp where
  | seg (p : Seg) (acc : Nat) (keep : KeepRule) (cfg : Cfg) (used : Int)
  | skipFlush (keep : KeepRule) (used : Int)
  | flushClose (t tc connLastSeen : Int) (keep : KeepRule) (used : Int)
  | flushAll (keep : KeepRule) (used : Int)
  deriving Repr, DecidableEq, Inhabited

def hstep (A : Arith) (h : Half) : HOp → Res Out
  | .seg p acc keep cfg used => assemble A cfg h used p acc keep
  | .skipFlush keep used => if h.closed then .ok { half := h, used := used, sgs := [] } else skipFlush A h used keep
  | .flushClose t tc ls keep used => flushClose A h used t tc ls keep
  | .flushAll keep used => flushAllHalf A h used keep

/-- run a history, collecting every ScatterGather handed to the stream -/
def hrun (A : Arith) : Half → List HOp → Res (Half × List SG)
  | h, [] => .ok (h, [])
  | h, op :: rest =>
    match hstep A h op with
    | .ok o =>
      match hrun A o.half rest with
      | .ok (h', sgs) => .ok (h', o.sgs ++ sgs)
      | .err k => .err k
      | .panic k => .panic k
    | .err k => .err k
    | .panic k => .panic k

/-- a history whose segments are consistent with `S`, `i` and whose streams never force a start -/
def HOp.OK (S : List UInt8) (i : Int) : HOp → Prop
  | .seg p acc _ _ _ => SegOK S i p ∧ acc ≤ 1
  | _ => True

def HOp.wrap : HOp → HOp
  | .seg p acc keep cfg used => .seg p.wrap acc keep cfg used
  | op => op

/-- number of bytes the stream asked to keep with its answer to `g` -/
def keptCount (g : SG) : Nat :=
  let total := g.saved.length + g.new.length
  if 0 ≤ g.keep ∧ g.keep ≤ total then total - g.keep.toNat else 0

/-- What the stream knows about its position in the sender's byte stream. -/
inductive Pos where
  | closed                          -- the direction is finished
  | unknown                         -- nothing delivered yet and the start was not seen
  | at (pos : Nat) (kept : Nat)     -- next new byte is S[pos]; the stream kept `kept` bytes
  deriving Repr, DecidableEq

/-- `g` is a legal ScatterGather in state `a`; `p` is the offset in `S` of its first new byte. -/
def Emit (S : List UInt8) (a : Pos) (g : SG) (p : Nat) : Prop :=
  g.new = slice S p g.new.length ∧ p + g.new.length ≤ S.length ∧
  g.saved.length ≤ p ∧ g.saved = slice S (p - g.saved.length) g.saved.length ∧
  match a with
  | .closed => False
  | .unknown => g.saved = [] ∧ (g.skip = -1 ∨ (g.skip = 0 ∧ p = 0))
  | .at pos k => 0 ≤ g.skip ∧ p = pos + g.skip.toNat ∧ (g.skip = 0 → g.saved.length = k) ∧ (g.skip ≠ 0 → g.saved = [])

/-- `Rep S a sgs a'`: handing the ScatterGathers `sgs` to a stream that is in state `a` is a correct
    presentation of the sender stream `S` and leaves the stream in state `a'`:
    new bytes are exactly `S[p : p+n]` with `p` = previous position + announced skip (nothing duplicated,
    reordered, altered or invented), the saved bytes are the bytes of `S` directly in front of them and are
    as many as the stream asked to keep, skip = -1 only while the position is unknown. -/
inductive Rep (S : List UInt8) : Pos → List SG → Pos → Prop where
  | nil (a : Pos) : Rep S a [] a
  | shut (a : Pos) : Rep S a [] .closed
  | sg {a : Pos} {g : SG} {p : Nat} {rest : List SG} {a' : Pos} :
      Emit S a g p → Rep S (.at (p + g.new.length) (keptCount g)) rest a' → Rep S a (g :: rest) a'
  | last {a : Pos} {g : SG} {p : Nat} : Emit S a g p → g.fin = true → Rep S a [g] .closed

def newBytes (sgs : List SG) : List UInt8 := (sgs.map (fun g => g.new)).flatten

/-- The replay of the property text: starting at stream offset `pos`, for every ScatterGather
    `pos += skip; new = S[pos : pos+|new|]; pos += |new|`. -/
def Replay (S : List UInt8) : Nat → List SG → Prop
  | _, [] => True
  | pos, g :: rest =>
    0 ≤ g.skip ∧ g.new = slice S (pos + g.skip.toNat) g.new.length ∧
    pos + g.skip.toNat + g.new.length ≤ S.length ∧
    Replay S (pos + g.skip.toNat + g.new.length) rest

/-! ### completeness (C09) -/

/-- Hypotheses of the completeness theorem on one operation: a segment consistent with `S`, `i` that the stream
    accepts, no page limit configured; RST only at the end of the sender's stream and not together with SYN
    (an RST in the middle legitimately aborts the direction). -/
def HOp.Plain (S : List UInt8) (i : Int) : HOp → Prop
  | .seg p acc _ cfg _ => SegOK S i p ∧ acc = 1 ∧ cfg.maxPer ≤ 0 ∧ cfg.maxTotal ≤ 0 ∧
      (p.rst = true → p.syn = false ∧ p.dataSeq + p.bytes.length = i + 1 + S.length)
  | _ => False

/-- Hypotheses of the no-loss theorem on one operation: any flush step; a segment consistent with `S`, `i` that the
    stream accepts (any page limit); RST only at the end of the sender's stream and not together with SYN. -/
def HOp.Fed (S : List UInt8) (i : Int) : HOp → Prop
  | .seg p acc _ _ _ => SegOK S i p ∧ acc = 1 ∧
      (p.rst = true → p.syn = false ∧ p.dataSeq + p.bytes.length = i + 1 + S.length)
  | _ => True

def HOp.isSyn : HOp → Bool
  | .seg p _ _ _ _ => p.syn
  | _ => false

/-- the operation is a segment whose payload contains the byte with (unbounded) sequence number `x` -/
def HOp.carries (x : Int) : HOp → Prop
  | .seg p _ _ _ _ => p.dataSeq ≤ x ∧ x < p.dataSeq + p.bytes.length
  | _ => False

/-! ### pool level (C11) -/

/-- run a whole history on the pool -/
def run (A : Arith) : St → List Op → Res (St × List Ev)
  | st, [] => .ok (st, [])
  | st, op :: rest =>
    match step A st op with
    | .ok rp =>
      match run A rp.st rest with
      | .ok (st', evs) => .ok (st', rp.evs ++ evs)
      | .err k => .err k
      | .panic k => .panic k
    | .err k => .err k
    | .panic k => .panic k


/-- Life of ONE stream as its callbacks show it. -/
inductive Life where
  | fresh      -- StreamFactory.New was not called for it (yet)
  | alive      -- created, ReassemblyComplete not called yet
  | done       -- ReassemblyComplete was called
  deriving Repr, DecidableEq, Inhabited

/-- does the callback concern stream `sid` (creation, data or completion)? -/
def Ev.mentions (sid : Nat) : Ev → Bool
  | .created _ s => decide (s = sid)
  | .sg _ s _ _ => decide (s = sid)
  | .done _ s _ => decide (s = sid)

/-- The only legal callback order for a stream: `New`, then `ReassembledSG`*, then `ReassemblyComplete` once,
    then nothing.  `none` = the callback is illegal in state `l` (data or a second completion after the
    completion, anything before the creation, a second creation). -/
def lifeStep (sid : Nat) (l : Life) (e : Ev) : Option Life :=
  if e.mentions sid then
    match l, e with
    | .fresh, .created _ _ => some .alive
    | .alive, .sg _ _ _ _ => some .alive
    | .alive, .done _ _ _ => some .done
    | _, _ => none
  else some l

/-- run the callbacks `evs` through the life-cycle automaton of stream `sid` -/
def life (sid : Nat) : Life → List Ev → Option Life
  | l, [] => some l
  | l, e :: rest =>
    match lifeStep sid l e with
    | some l' => life sid l' rest
    | none => none

/-- number of `ReassemblyComplete` calls on stream `sid` -/
def doneCount (sid : Nat) (evs : List Ev) : Nat :=
  (evs.filter (fun e => match e with | .done _ s _ => decide (s = sid) | _ => false)).length

/-- number of `StreamFactory.New` calls that produced stream `sid` -/
def createdCount (sid : Nat) (evs : List Ev) : Nat :=
  (evs.filter (fun e => match e with | .created _ s => decide (s = sid) | _ => false)).length

/-- both directions of the connection are closed -/
def Conn.done (c : Conn) : Bool := c.c2s.closed && c.s2c.closed

def Life.ofDone (b : Bool) : Life := if b then .done else .alive

/-! ### age-based flush (C11) -/

/-- pages that follow sequence number `last` without a gap (what `addContiguous` takes) -/
def Contig (A : Arith) : Int → List Page → Prop
  | _, [] => True
  | last, p :: rest => A.diff last p.seq = 0 ∧ Contig A (A.add last p.bytes.length) rest

/-- One ReassembledSG call made by an age-based flush with cut-off `T`: its new bytes are the bytes of the queued
    pages `grp`; the first of them was seen before `T`, the others follow it without a gap. -/
def OldGroup (A : Arith) (T : Int) (grp : List Page) (g : SG) : Prop :=
  ∃ p run, grp = p :: run ∧ p.seen < T ∧ Contig A (A.add p.seq p.bytes.length) run ∧
    g.new = (grp.map (fun q => q.bytes)).flatten

/-- `g` hands over a block `grp` of the queue `q` that is an old group -/
def GroupIn (A : Arith) (T : Int) (q : List Page) (g : SG) : Prop :=
  ∃ pre grp post, q = pre ++ grp ++ post ∧ OldGroup A T grp g

/-- the first queued page (the one a flush looks at) was not seen before `T` -/
def HeadNotOld (T : Int) : List Page → Prop
  | [] => True
  | p :: _ => ¬ p.seen < T

/-- the queue is oldest-first: no page is queued in front of a page seen earlier -/
def SeenSorted (q : List Page) : Prop := q.Pairwise (fun a b => a.seen ≤ b.seen)

end Gp.Reasm
