import Gp.Model.ReasmPool
/-
  Specification vocabulary for C09/C11 (reassembly): histories of one half connection, what it means
  for a segment to be consistent with a sender stream, and what a stream may observe (`Rep`).
  Core Lean only (definitions; the theorems are in Gp/Props/C09.lean, Gp/Props/C11/Reasm.lean).
-/
namespace Gp.Reasm
open Gp

/-- `S[o : o+n]` -/
def slice (S : List UInt8) (o n : Nat) : List UInt8 := (S.drop o).take n

/-- The chunk `bytes`, whose first byte has sequence number `seq`, is a piece of the sender stream `S`
    whose first byte has (unbounded) sequence number `b`. -/
def At (S : List UInt8) (b seq : Int) (bytes : List UInt8) : Prop :=
  ∃ o : Nat, seq = b + o ∧ o + bytes.length ≤ S.length ∧ bytes = slice S o bytes.length

/-- effective sequence number of the first payload byte (the SYN flag occupies one number) -/
def Seg.dataSeq (p : Seg) : Int := if p.syn then p.seq + 1 else p.seq

/-- A segment is consistent with sender stream `S` and initial sequence number `i` (offset space:
    sequence numbers are NOT reduced modulo 2^32 here; `Seg.wrap` does that). -/
def SegOK (S : List UInt8) (i : Int) (p : Seg) : Prop :=
  (p.syn = true → p.seq = i ∧ p.fin = false) ∧ At S (i + 1) p.dataSeq p.bytes ∧
  (p.fin = true → p.dataSeq + p.bytes.length = i + 1 + S.length)

/-- the same segment as it appears on the wire -/
def Seg.wrap (p : Seg) : Seg := { p with seq := p.seq % 4294967296 }

/-- Operations on ONE half connection.  `cfg`/`used` are the assembler options and the page-cache
    counter at the time of the call: arbitrary (they depend on the other connections). -/
inductive HOp where
  | seg (p : Seg) (acc : Nat) (keep : KeepRule) (cfg : Cfg) (used : Int)
  | skipFlush (keep : KeepRule) (used : Int)
  | flushClose (t tc connLastSeen : Int) (keep : KeepRule) (used : Int)
  | flushAll (keep : KeepRule) (used : Int)
  deriving Repr, DecidableEq, Inhabited

def hstep (A : Arith) (h : Half) : HOp → Res Out
  | .seg p acc keep cfg used => assemble A cfg h used p acc keep
  | .skipFlush keep used => if h.closed then .ok { half := h, used := used, sgs := [] } else skipFlush A h used keep
  | .flushClose t tc ls keep used => flushClose A h used t tc ls keep
  | .flushAll keep used => flushAllHalf A h used keep

/-- run a history, collecting every ScatterGather handed to the stream -/
def hrun (A : Arith) : Half → List HOp → Res (Half × List SG)
  | h, [] => .ok (h, [])
  | h, op :: rest =>
    match hstep A h op with
    | .ok o =>
      match hrun A o.half rest with
      | .ok (h', sgs) => .ok (h', o.sgs ++ sgs)
      | .err k => .err k
      | .panic k => .panic k
    | .err k => .err k
    | .panic k => .panic k

/-- a history whose segments are consistent with `S`, `i` and whose streams never force a start -/
def HOp.OK (S : List UInt8) (i : Int) : HOp → Prop
  | .seg p acc _ _ _ => SegOK S i p ∧ acc ≤ 1
  | _ => True

def HOp.wrap : HOp → HOp
  | .seg p acc keep cfg used => .seg p.wrap acc keep cfg used
  | op => op

/-- number of bytes the stream asked to keep with its answer to `g` -/
def keptCount (g : SG) : Nat :=
  let total := g.saved.length + g.new.length
  if 0 ≤ g.keep ∧ g.keep ≤ total then total - g.keep.toNat else 0

/-- What the stream knows about its position in the sender's byte stream. -/
inductive Pos where
  | closed                          -- the direction is finished
  | unknown                         -- nothing delivered yet and the start was not seen
  | at (pos : Nat) (kept : Nat)     -- next new byte is S[pos]; the stream kept `kept` bytes
  deriving Repr, DecidableEq

/-- `g` is a legal ScatterGather in state `a`; `p` is the offset in `S` of its first new byte. -/
def Emit (S : List UInt8) (a : Pos) (g : SG) (p : Nat) : Prop :=
  g.new = slice S p g.new.length ∧ p + g.new.length ≤ S.length ∧
  g.saved.length ≤ p ∧ g.saved = slice S (p - g.saved.length) g.saved.length ∧
  match a with
  | .closed => False
  | .unknown => g.saved = [] ∧ (g.skip = -1 ∨ (g.skip = 0 ∧ p = 0))
  | .at pos k => 0 ≤ g.skip ∧ p = pos + g.skip.toNat ∧ (g.skip = 0 → g.saved.length = k) ∧ (g.skip ≠ 0 → g.saved = [])

/-- `Rep S a sgs a'`: handing the ScatterGathers `sgs` to a stream that is in state `a` is a correct
    presentation of the sender stream `S` and leaves the stream in state `a'`:
    new bytes are exactly `S[p : p+n]` with `p` = previous position + announced skip (nothing duplicated,
    reordered, altered or invented), the saved bytes are the bytes of `S` directly in front of them and are
    as many as the stream asked to keep, skip = -1 only while the position is unknown. -/
inductive Rep (S : List UInt8) : Pos → List SG → Pos → Prop where
  | nil (a : Pos) : Rep S a [] a
  | shut (a : Pos) : Rep S a [] .closed
  | sg {a : Pos} {g : SG} {p : Nat} {rest : List SG} {a' : Pos} :
      Emit S a g p → Rep S (.at (p + g.new.length) (keptCount g)) rest a' → Rep S a (g :: rest) a'
  | last {a : Pos} {g : SG} {p : Nat} : Emit S a g p → g.fin = true → Rep S a [g] .closed

def newBytes (sgs : List SG) : List UInt8 := (sgs.map (fun g => g.new)).flatten

/-- The replay of the property text: starting at stream offset `pos`, for every ScatterGather
    `pos += skip; new = S[pos : pos+|new|]; pos += |new|`. -/
def Replay (S : List UInt8) : Nat → List SG → Prop
  | _, [] => True
  | pos, g :: rest =>
    0 ≤ g.skip ∧ g.new = slice S (pos + g.skip.toNat) g.new.length ∧
    pos + g.skip.toNat + g.new.length ≤ S.length ∧
    Replay S (pos + g.skip.toNat + g.new.length) rest

/-! ### pool level (C11) -/

/-- run a whole history on the pool -/
def run (A : Arith) : St → List Op → Res (St × List Ev)
  | st, [] => .ok (st, [])
  | st, op :: rest =>
    match step A st op with
    | .ok rp =>
      match run A rp.st rest with
      | .ok (st', evs) => .ok (st', rp.evs ++ evs)
      | .err k => .err k
      | .panic k => .panic k
    | .err k => .err k
    | .panic k => .panic k


/-- Scan the callbacks that concern stream `sid`.  State: "ReassemblyComplete was already called".
    `none` = a ReassembledSG or a second ReassemblyComplete arrived after the completion. -/
def lifeScan (sid : Nat) : Bool → List Ev → Option Bool
  | b, [] => some b
  | b, .created _ _ :: rest => lifeScan sid b rest
  | b, .sg _ s _ _ :: rest => if s = sid then (if b then none else lifeScan sid b rest) else lifeScan sid b rest
  | b, .done _ s _ :: rest => if s = sid then (if b then none else lifeScan sid true rest) else lifeScan sid b rest

def doneCount (sid : Nat) (evs : List Ev) : Nat :=
  (evs.filter (fun e => match e with | .done _ s _ => s = sid | _ => false)).length

def findSid (sid : Nat) : List Conn → Option Conn
  | [] => none
  | c :: rest => if c.sid = sid then some c else findSid sid rest

def Conn.done (c : Conn) : Bool := c.c2s.closed && c.s2c.closed

/-- stream `sid` has been created and its connection is finished (both directions closed, or already removed) -/
def doneOpt : Option Conn → Bool
  | some c => c.done
  | none => true

def completed (st : St) (sid : Nat) : Bool :=
  decide (sid < st.nextSid) && doneOpt (findSid sid st.conns)

end Gp.Reasm
