import Gp.Go.Basic
import Gp.Gen.Cksum
/-
  Internet checksum helpers (checksum.go ComputeChecksum / reduceChecksum / FoldChecksum,
  layers/tcpip.go pseudoheaderChecksum / computeChecksum).

  `fold` calls the definition REGENERATED from checksum.go (Gp/Gen/Cksum.lean).

  `compute` models ComputeChecksum AFTER the fix proposed_fixes/cksum-2-sum-carries: the sum is
  accumulated in a uint64 (`sum64`, wrapping modulo 2^64 exactly as Go would) and carries beyond 32
  bits are added back in by `reduce` (checksum.go reduceChecksum; Gp/Props/C08 proves
  `reduce_matches_source`: `reduce` equals the definition regenerated from the source).  For every
  input whose running sum stays below 2^32 (all inputs shorter than 128 KiB, i.e. everything but IPv6
  jumbograms) this is bit-for-bit the value of the old uint32 accumulator, which is kept as
  `compute32` (the pre-fix code) for the regression theorem `compute32_wraps_witness`.

  Shared API used by the layer models (`W32 compute fold pseudo4 pseudo6 l4sum`); the theorems
  about it are in Gp/Props/C08.  Core Lean only.
-/
namespace Gp.Cksum

def W32 : Nat := 4294967296
def W64 : Nat := 18446744073709551616

/-- The accumulation loop of checksum.go ComputeChecksum: big-endian 16-bit words (an odd trailing
    byte is the high byte of a last word) added into a uint64. -/
def sum64 : Bytes → Nat → Nat
  | a :: b :: rest, s => sum64 rest ((((s + a.toNat * 256) % W64) + b.toNat) % W64)
  | [a], s => (s + a.toNat * 256) % W64
  | [], s => s

/-- loop of checksum.go reduceChecksum: `for sum > 0xffffffff { sum = (sum >> 16) + (sum & 0xffff) }`
    on a uint64, fuel-bounded (C08.reduce_fuel_suffices). -/
def reduceLoop : Nat → Nat → Nat
  | 0, s => s
  | fuel + 1, s =>
    if s > 4294967295 then reduceLoop fuel ((s / 65536 + s % 65536) % W64) else s

/-- checksum.go reduceChecksum(sum uint64) uint32. -/
def reduce (s : Nat) : Nat := reduceLoop 4 s % W32

/-- checksum.go ComputeChecksum(data, csum). -/
def compute (data : Bytes) (c : Nat) : Nat := reduce (sum64 data c)

/-- checksum.go ComputeChecksum as it was BEFORE the fix: the same words added into a uint32
    (carries out of bit 31 are dropped).  Not used by any model; kept for
    C08.compute32_wraps_witness. -/
def compute32 : Bytes → Nat → Nat
  | a :: b :: rest, c => compute32 rest ((((c + a.toNat * 256) % W32) + b.toNat) % W32)
  | [a], c => (c + a.toNat * 256) % W32
  | [], c => c

/-- checksum.go FoldChecksum (generated definition, on a uint32 value). -/
def fold (c : Nat) : Nat := (Gp.Gen.Cksum.foldChecksum (Int.ofNat c)).toNat

/-- layers/tcpip.go (*IPv4).pseudoheaderChecksum, for 4-byte addresses. -/
def pseudo4 (src dst : Bytes) : Nat :=
  match src, dst with
  | [s0, s1, s2, s3], [d0, d1, d2, d3] =>
    let c := ((s0.toNat + s2.toNat) * 256) % W32
    let c := (c + (s1.toNat + s3.toNat)) % W32
    let c := (c + ((d0.toNat + d2.toNat) * 256) % W32) % W32
    (c + (d1.toNat + d3.toNat)) % W32
  | _, _ => 0

/-- layers/tcpip.go (*IPv6).pseudoheaderChecksum, for 16-byte addresses (loop i += 2). -/
def pseudo6 : Bytes → Bytes → Nat → Nat
  | s0 :: s1 :: ss, d0 :: d1 :: ds, c =>
    let c := (c + s0.toNat * 256) % W32
    let c := (c + s1.toNat) % W32
    let c := (c + d0.toNat * 256) % W32
    let c := (c + d1.toNat) % W32
    pseudo6 ss ds c
  | _, _, c => c

/-- the accumulator handed to ComputeChecksum by layers/tcpip.go computeChecksum:
    pseudo-header sum + protocol + the two 16-bit halves of uint32(len). -/
def l4init (pseudo : Nat) (proto : Nat) (len : Nat) : Nat :=
  let length := len % W32
  let c := (pseudo + proto) % W32
  let c := (c + length % 65536) % W32
  (c + length / 65536) % W32

/-- layers/tcpip.go computeChecksum: pseudo-header sum + protocol + length words + data. -/
def l4sum (pseudo : Nat) (proto : Nat) (headerAndPayload : Bytes) : Nat :=
  let length := headerAndPayload.length % W32
  let c := (pseudo + proto) % W32
  let c := (c + length % 65536) % W32
  let c := (c + length / 65536) % W32
  compute headerAndPayload c

/-! ### Specification side (RFC 1071), written independently of the code above -/

/-- plain (unbounded) sum of the big-endian 16-bit words of `data`; an odd trailing byte is padded
    with a zero byte on the right (RFC 1071 §4.1). -/
def wordsum : Bytes → Nat
  | a :: b :: rest => a.toNat * 256 + b.toNat + wordsum rest
  | [a] => a.toNat * 256
  | [] => 0

/-- the 16-bit words of `data` (odd trailing byte padded with zero) -/
def words : Bytes → List Nat
  | a :: b :: rest => (a.toNat * 256 + b.toNat) :: words rest
  | [a] => [a.toNat * 256]
  | [] => []

/-- 16-bit one's-complement addition: add, and add the carry out of bit 15 back in (end-around carry) -/
def ocAdd (a b : Nat) : Nat := if a + b ≥ 65536 then a + b - 65535 else a + b

/-- one's-complement sum of a list of 16-bit words -/
def ocSum (ws : List Nat) : Nat := ws.foldl ocAdd 0

/-- RFC 1071 Internet checksum of a byte string: the complement of the one's-complement sum -/
def rfc1071 (data : Bytes) : Nat := 65535 - ocSum (words data)

/-- the one's-complement representative of a natural number: 0 for 0, otherwise the value in
    1..65535 congruent to it modulo 65535 (so multiples of 65535 are 0xffff, "negative zero") -/
def ocRep (n : Nat) : Nat := if n = 0 then 0 else (n - 1) % 65535 + 1

end Gp.Cksum
