import Gp.Go.Basic
import Gp.Gen.Cksum
/-
  Internet checksum helpers (checksum.go ComputeChecksum / FoldChecksum, layers/tcpip.go
  pseudoheaderChecksum / computeChecksum).  `fold` calls the definition REGENERATED from
  checksum.go (Gp/Gen/Cksum.lean).  The uint32 accumulator wraps modulo 2^32 exactly as in Go.
  Shared API used by the layer models; the theorems about it are in Gp/Props/C08.
-/
namespace Gp.Cksum

def W32 : Nat := 4294967296

/-- checksum.go ComputeChecksum(data, csum): big-endian 16-bit words added into a uint32. -/
def compute : Bytes → Nat → Nat
  | a :: b :: rest, c => compute rest ((((c + a.toNat * 256) % W32) + b.toNat) % W32)
  | [a], c => (c + a.toNat * 256) % W32
  | [], c => c

/-- checksum.go FoldChecksum (generated definition, on a uint32 value). -/
def fold (c : Nat) : Nat := (Gp.Gen.Cksum.foldChecksum (Int.ofNat c)).toNat

/-- layers/tcpip.go (*IPv4).pseudoheaderChecksum, for 4-byte addresses. -/
def pseudo4 (src dst : Bytes) : Nat :=
  match src, dst with
  | [s0, s1, s2, s3], [d0, d1, d2, d3] =>
    let c := ((s0.toNat + s2.toNat) * 256) % W32
    let c := (c + (s1.toNat + s3.toNat)) % W32
    let c := (c + ((d0.toNat + d2.toNat) * 256) % W32) % W32
    (c + (d1.toNat + d3.toNat)) % W32
  | _, _ => 0

/-- layers/tcpip.go (*IPv6).pseudoheaderChecksum, for 16-byte addresses (loop i += 2). -/
def pseudo6 : Bytes → Bytes → Nat → Nat
  | s0 :: s1 :: ss, d0 :: d1 :: ds, c =>
    let c := (c + s0.toNat * 256) % W32
    let c := (c + s1.toNat) % W32
    let c := (c + d0.toNat * 256) % W32
    let c := (c + d1.toNat) % W32
    pseudo6 ss ds c
  | _, _, c => c

/-- layers/tcpip.go computeChecksum: pseudo-header sum + protocol + length words + data. -/
def l4sum (pseudo : Nat) (proto : Nat) (headerAndPayload : Bytes) : Nat :=
  let length := headerAndPayload.length % W32
  let c := (pseudo + proto) % W32
  let c := (c + length % 65536) % W32
  let c := (c + length / 65536) % W32
  compute headerAndPayload c

end Gp.Cksum
