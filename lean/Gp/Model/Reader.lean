import Gp.Go.Basic
/-
  Model of tcpassembly/tcpreader/reader.go (ReaderStream) for property C20 — core Lean only.

  The model is of the code WITH the two proposed fixes
    proposed_fixes/rdr-1-close-ack.diff        (Close acknowledges an outstanding batch first)
    proposed_fixes/rdr-2-loss-empty-slice.diff (stripEmpty keeps an empty slice whose gap is unreported)
  (`stepOld` at the end keeps the original Close for the documented deadlock).

  Two goroutines over two unbuffered channels (DESIGN §3.6):

    assembler:  for each batch b:  Reassembled(b)  =  [initiated?]  reassembled <- b ;  <-done
                then ReassemblyComplete()          =  close(reassembled) ; close(done)
    consumer :  a program of  Read(n) | Read(n+1)-until-EOF | Close()

  A thread's program counter names the channel operation it is about to perform; one step of a
  thread is that channel operation followed by the thread-local code up to the next channel
  operation (or the end of the call).  Rendezvous: a send and a receive on the same open channel
  fire together (`joint`, the same successor whichever of the two threads is scheduled); a
  receive on a closed channel returns the zero value / ok=false; a send on a closed channel and a
  close of a closed channel panic.  All ReaderStream fields except the two channels are touched
  by the consumer goroutine only (`initiated` is read-only after NewReaderStream).
-/
namespace Gp.Reader

/-- tcpassembly.Reassembly, the two fields ReaderStream looks at. -/
structure Slice where
  bytes : List UInt8
  skip  : Int
  deriving DecidableEq, Repr, Inhabited

abbrev Batch := List Slice

/-- Consumer calls.  `rd n false` = one `Read` with an `n`-byte buffer (n may be 0);
    `rd n true` = `Read` with an `(n+1)`-byte buffer repeated until it returns io.EOF
    (DiscardBytesToEOF: DataLost errors are skipped); `close` = `Close()`. -/
inductive COp where
  | rd (n : Nat) (loop : Bool)
  | close
  deriving DecidableEq, Repr

/-- What one `Read` call returned: `data bs` = (len bs, nil) with those bytes, `eof` = (0, io.EOF),
    `lost` = (0, DataLost). -/
inductive Obs where
  | data (bs : List UInt8)
  | eof
  | lost
  deriving DecidableEq, Repr

inductive APc where
  | send       -- in Reassembled, at `r.reassembled <- reassembly` (after the `initiated` check)
  | waitDone   -- in Reassembled, at `<-r.done`
  | closeR     -- in ReassemblyComplete, at `close(r.reassembled)`
  | closeD     -- in ReassemblyComplete, at `close(r.done)`
  | fin        -- returned from ReassemblyComplete
  | panicked
  deriving DecidableEq, Repr

inductive CPc where
  | idle                            -- between calls
  | rdSend (n : Nat) (loop : Bool)  -- in Read, at `r.done <- true`
  | rdRecv (n : Nat) (loop : Bool)  -- in Read, at `<-r.reassembled`
  | clAck                           -- in Close, at the acknowledgement added by fix rdr-1
  | clRecv                          -- in Close, at `<-r.reassembled`
  | clSend                          -- in Close, at `r.done <- true`
  | panicked
  deriving DecidableEq, Repr

inductive Tid where
  | asm
  | cons
  deriving DecidableEq, Repr

structure State where
  -- ReaderStream (reader.go:107-116)
  lossErrors   : Bool
  current      : List Slice
  closed       : Bool
  lossReported : Bool
  first        : Bool
  initiated    : Bool
  -- the two channels: only whether they have been closed (they are unbuffered)
  rClosed      : Bool
  dClosed      : Bool
  -- assembler goroutine: batches not yet handed over, program counter
  apc          : APc
  aprog        : List Batch
  -- consumer goroutine: calls not yet started, program counter, results of the Reads so far
  cpc          : CPc
  cprog        : List COp
  out          : List Obs
  deriving DecidableEq, Repr

/-- `r.LossErrors && !r.lossReported && current.Skip != 0` (reader.go:189 and fix rdr-2). -/
def unreported (le lr : Bool) (s : Slice) : Bool := le && !lr && (s.skip != 0)

/-- stripEmpty (reader.go:154-159, with fix rdr-2): returns the new `current` and `lossReported`. -/
def stripEmpty (le : Bool) : List Slice → Bool → List Slice × Bool
  | [], lr => ([], lr)
  | s :: rest, lr =>
    if s.bytes = [] then
      if unreported le lr s then (s :: rest, lr)     -- fix rdr-2: keep it, Read reports the gap
      else stripEmpty le rest false
    else (s :: rest, lr)

/-- Read after its receive loop (reader.go:187-197): result, new `current`, new `lossReported`.
    `copy(p, current.Bytes)` with `len p = n` copies `min n len` bytes. -/
def readTail (le : Bool) (n : Nat) (cur : List Slice) (lr : Bool) : Obs × List Slice × Bool :=
  match cur with
  | s :: rest =>
    if unreported le lr s then (.lost, s :: rest, true)
    else (.data (s.bytes.take n), { s with bytes := s.bytes.drop n } :: rest, lr)
  | [] => (.eof, [], lr)

/-- Buffer length of the Read issued by `rd n loop`. -/
def bufSize (n : Nat) (loop : Bool) : Nat := if loop then n + 1 else n

/-- The end of a Read call: record the result; a read-until-EOF call is re-queued unless EOF. -/
def finishRead (s : State) (n : Nat) (l : Bool) : State :=
  let r := readTail s.lossErrors (bufSize n l) s.current s.lossReported
  { s with current := r.2.1, lossReported := r.2.2, out := s.out ++ [r.1], cpc := .idle,
           cprog := if l && r.1 != .eof then .rd n true :: s.cprog else s.cprog }

/-- Head of Read's loop `for !r.closed && len(r.current) == 0` (reader.go:175-180): either go to
    the next channel operation or fall out of the loop and finish. -/
def readLoop (s : State) (n : Nat) (l : Bool) : State :=
  if !s.closed && s.current.isEmpty then
    if s.first then { s with first := false, cpc := .rdRecv n l }
    else { s with cpc := .rdSend n l }
  else finishRead s n l

def asmNext : List Batch → APc
  | [] => .closeR
  | _ :: _ => .send

/-- The consumer starts its next call (thread-local code up to the first channel operation). -/
def startOp (s : State) (op : COp) (rest : List COp) : State :=
  match op with
  | .rd n l =>
    if !s.initiated then { s with cprog := rest, cpc := .panicked }
    else
      let r := stripEmpty s.lossErrors s.current s.lossReported
      readLoop { s with cprog := rest, current := r.1, lossReported := r.2 } n l
  | .close =>
    if !s.first && !s.closed then { s with cprog := rest, cpc := .clAck }       -- fix rdr-1
    else { s with cprog := rest, current := [], closed := true, cpc := .clRecv }

/-- Consumer half of a rendezvous on `reassembled` delivering batch `b` (ok = true). -/
def consRecv (s : State) (b : Batch) : Option State :=
  match s.cpc with
  | .rdRecv n l =>
    let r := stripEmpty s.lossErrors b s.lossReported
    some (readLoop { s with current := r.1, lossReported := r.2 } n l)
  | .clRecv => some { s with cpc := .clSend }
  | _ => none

/-- Consumer half of a rendezvous on `done`. -/
def consSent (s : State) : Option State :=
  match s.cpc with
  | .rdSend n l => some { s with cpc := .rdRecv n l }
  | .clAck => some { s with current := [], closed := true, cpc := .clRecv }
  | .clSend => some { s with cpc := .clRecv }
  | _ => none

/-- A rendezvous: the assembler's send/receive meets the consumer's receive/send (the
    assembler's half is its new program counter; the consumer's half is `consRecv`/`consSent`). -/
def joint (s : State) : Option State :=
  match s.apc with
  | .send =>
    match s.aprog with
    | [] => none
    | b :: bs =>
      if s.initiated && !s.rClosed then consRecv { s with apc := .waitDone, aprog := bs } b
      else none
  | .waitDone =>
    if !s.dClosed then consSent { s with apc := asmNext s.aprog }
    else none
  | _ => none

/-- Steps the assembler can take without a partner. -/
def soloAsm (s : State) : Option State :=
  match s.apc with
  | .send =>
    match s.aprog with
    | [] => none
    | _ :: _ =>
      if !s.initiated || s.rClosed then some { s with apc := .panicked }  -- explicit panic / send on closed
      else none
  | .waitDone => if s.dClosed then some { s with apc := asmNext s.aprog } else none
  | .closeR =>
    if s.rClosed then some { s with apc := .panicked } else some { s with rClosed := true, apc := .closeD }
  | .closeD =>
    if s.dClosed then some { s with apc := .panicked } else some { s with dClosed := true, apc := .fin }
  | .fin => none
  | .panicked => none

/-- Steps the consumer can take without a partner. -/
def soloCons (s : State) : Option State :=
  match s.cpc with
  | .idle =>
    match s.cprog with
    | [] => none
    | op :: rest => some (startOp s op rest)
  | .rdRecv n l =>
    if s.rClosed then some (readLoop { s with current := [], closed := true } n l) else none
  | .clRecv => if s.rClosed then some { s with cpc := .idle } else none
  | .rdSend _ _ => if s.dClosed then some { s with cpc := .panicked } else none
  | .clAck => if s.dClosed then some { s with cpc := .panicked } else none
  | .clSend => if s.dClosed then some { s with cpc := .panicked } else none
  | .panicked => none

/-- The labelled transition system. -/
def step (s : State) (t : Tid) : Option State :=
  match t with
  | .asm => match soloAsm s with
    | some s' => some s'
    | none => joint s
  | .cons => match soloCons s with
    | some s' => some s'
    | none => joint s

/-- `NewReaderStream()` plus the two goroutines at their first instruction. -/
def init (le : Bool) (batches : List Batch) (prog : List COp) : State :=
  { lossErrors := le, current := [], closed := false, lossReported := false, first := true,
    initiated := true, rClosed := false, dClosed := false,
    apc := asmNext batches, aprog := batches, cpc := .idle, cprog := prog, out := [] }

inductive Reachable (s0 : State) : State → Prop where
  | refl : Reachable s0 s0
  | step {s s' : State} (t : Tid) : Reachable s0 s → step s t = some s' → Reachable s0 s'

/-- No thread can move (end of a maximal execution). -/
def Stuck (s : State) : Prop := step s .asm = none ∧ step s .cons = none

/-- `n` steps lead from the first state to the second. -/
inductive Steps : State → Nat → State → Prop where
  | zero (s : State) : Steps s 0 s
  | succ {s s' s'' : State} {n : Nat} (t : Tid) : step s t = some s' → Steps s' n s'' → Steps s (n + 1) s''

/-- The calls the consumer still has to finish (the one in progress first). -/
def pending (s : State) : List COp :=
  match s.cpc with
  | .idle => s.cprog
  | .rdSend n l => .rd n l :: s.cprog
  | .rdRecv n l => .rd n l :: s.cprog
  | .clAck => .close :: s.cprog
  | .clRecv => .close :: s.cprog
  | .clSend => .close :: s.cprog
  | .panicked => s.cprog

/-! ## Termination measure -/

def weight : List Slice → Nat
  | [] => 0
  | s :: r => s.bytes.length + 2 + weight r

def weightB : List Batch → Nat
  | [] => 0
  | b :: r => weight b + weightB r

def lrBit (lr : Bool) : Nat := if lr then 0 else 1

def asmMeasure (s : State) : Nat :=
  match s.apc with
  | .send => 2 * s.aprog.length + 3
  | .waitDone => 2 * s.aprog.length + 4
  | .closeR => 2
  | .closeD => 1
  | .fin => 0
  | .panicked => 0

def idleBit (s : State) : Nat := match s.cpc with | .idle => 1 | _ => 0

/-- Strictly decreases with every step of either thread. -/
def measure (s : State) : Nat :=
  2 * (weight s.current + weightB s.aprog + lrBit s.lossReported + asmMeasure s + (pending s).length)
    + idleBit s

/-! ## The sequential reference reader: what a single-threaded consumer sees on the flat stream
    of delivered slices.  State `(stream, lossReported, closed)`. -/

abbrev Q := List Slice × Bool × Bool

def seqRead (le : Bool) (n : Nat) (q : Q) : Obs × Q :=
  if q.2.2 then (.eof, q)
  else
    let r := stripEmpty le q.1 q.2.1
    let t := readTail le n r.1 r.2
    (t.1, (t.2.1, t.2.2, r.1.isEmpty))

def qWeight (q : Q) : Nat := weight q.1 + lrBit q.2.1

theorem stripEmpty_weight (le : Bool) (st : List Slice) (lr : Bool) :
    weight (stripEmpty le st lr).1 + lrBit (stripEmpty le st lr).2 ≤ weight st + lrBit lr := by
  induction st generalizing lr with
  | nil => simp [stripEmpty]
  | cons s rest ih =>
    unfold stripEmpty
    split
    · split
      · exact Nat.le_refl _
      · have h1 := ih false
        have h2 : lrBit false = 1 := rfl
        have h3 : weight (s :: rest) = s.bytes.length + 2 + weight rest := rfl
        omega
    · exact Nat.le_refl _

/-- What stripEmpty leaves at the front is something Read can work on. -/
theorem stripEmpty_head (le : Bool) (st : List Slice) (lr : Bool) (s : Slice) (r : List Slice)
    (h : (stripEmpty le st lr).1 = s :: r) :
    s.bytes ≠ [] ∨ unreported le (stripEmpty le st lr).2 s = true := by
  induction st generalizing lr with
  | nil => simp [stripEmpty] at h
  | cons a rest ih =>
    unfold stripEmpty at h ⊢
    by_cases hb : a.bytes = []
    · by_cases hu : unreported le lr a = true
      · simp only [hb, hu, if_true] at h ⊢
        simp only [List.cons.injEq] at h
        right; rw [← h.1]; exact hu
      · simp only [hb, hu, if_true] at h ⊢
        exact ih false h
    · simp only [hb, if_false] at h ⊢
      simp only [List.cons.injEq] at h
      left; rw [← h.1]; exact hb

theorem readTail_weight (le : Bool) (n : Nat) (s : Slice) (rest : List Slice) (lr : Bool)
    (hs : s.bytes ≠ [] ∨ unreported le lr s = true) :
    weight (readTail le (n + 1) (s :: rest) lr).2.1 + lrBit (readTail le (n + 1) (s :: rest) lr).2.2
      < weight (s :: rest) + lrBit lr := by
  unfold readTail
  by_cases hu : unreported le lr s = true
  · simp only [hu, if_true]
    have hlr : lr = false := by
      unfold unreported at hu
      cases lr <;> simp at hu ⊢
    subst hlr
    show weight (s :: rest) + 0 < weight (s :: rest) + 1
    omega
  · simp only [hu]
    have hb : s.bytes ≠ [] := by
      cases hs with
      | inl h1 => exact h1
      | inr h1 => exact absurd h1 hu
    have hl : 0 < s.bytes.length := List.length_pos_iff.mpr hb
    show (s.bytes.drop (n + 1)).length + 2 + weight rest + lrBit lr
        < s.bytes.length + 2 + weight rest + lrBit lr
    rw [List.length_drop]
    omega

theorem seqRead_closed (le : Bool) (n : Nat) (q : Q) (h : q.2.2 = true) :
    seqRead le n q = (.eof, q) := by
  unfold seqRead; simp [h]

theorem seqRead_open (le : Bool) (n : Nat) (q : Q) (h : q.2.2 = false) :
    seqRead le n q =
      ((readTail le n (stripEmpty le q.1 q.2.1).1 (stripEmpty le q.1 q.2.1).2).1,
       ((readTail le n (stripEmpty le q.1 q.2.1).1 (stripEmpty le q.1 q.2.1).2).2.1,
        (readTail le n (stripEmpty le q.1 q.2.1).1 (stripEmpty le q.1 q.2.1).2).2.2,
        (stripEmpty le q.1 q.2.1).1.isEmpty)) := by
  unfold seqRead; simp [h]

/-- A Read with a non-empty buffer that does not return EOF consumes something. -/
theorem seqRead_weight (le : Bool) (n : Nat) (q : Q) (h : (seqRead le (n + 1) q).1 ≠ .eof) :
    qWeight (seqRead le (n + 1) q).2 < qWeight q := by
  cases hc : q.2.2 with
  | true => rw [seqRead_closed le _ q hc] at h; exact absurd rfl h
  | false =>
    rw [seqRead_open le _ q hc] at h ⊢
    have hw := stripEmpty_weight le q.1 q.2.1
    have hh := stripEmpty_head le q.1 q.2.1
    cases hr : (stripEmpty le q.1 q.2.1).1 with
    | nil => rw [hr] at h; exact absurd rfl h
    | cons s rest =>
      have hs := hh s rest hr
      have ht := readTail_weight le n s rest (stripEmpty le q.1 q.2.1).2 hs
      rw [hr] at hw
      simp only [qWeight]
      omega

/-- Read(n+1) until EOF on the reference reader. -/
def seqDrain (le : Bool) (n : Nat) (q : Q) : List Obs × Q :=
  if h : (seqRead le (n + 1) q).1 = .eof then ([.eof], (seqRead le (n + 1) q).2)
  else
    let rr := seqDrain le n (seqRead le (n + 1) q).2
    ((seqRead le (n + 1) q).1 :: rr.1, rr.2)
termination_by qWeight q
decreasing_by exact seqRead_weight le n q h

/-- The reference run of a whole consumer program: results of all Reads, final state. -/
def seqRun (le : Bool) : List COp → Q → List Obs × Q
  | [], q => ([], q)
  | .close :: p, q => seqRun le p ([], q.2.1, true)
  | .rd n false :: p, q =>
    let r := seqRead le n q
    let rr := seqRun le p r.2
    (r.1 :: rr.1, rr.2)
  | .rd n true :: p, q =>
    let r := seqDrain le n q
    let rr := seqRun le p r.2
    (r.1 ++ rr.1, rr.2)

/-- The consumer's observations for a delivery history and a program, by the reference reader. -/
def spec (le : Bool) (batches : List Batch) (prog : List COp) : List Obs :=
  (seqRun le prog (batches.flatten, false, false)).1

/-- Whether the reference reader ends closed (some Read saw EOF, or Close was called). -/
def specClosed (le : Bool) (batches : List Batch) (prog : List COp) : Bool :=
  (seqRun le prog (batches.flatten, false, false)).2.2.2

/-! ## One fixed fair schedule (used by the driver; `Gp.C20` shows the result does not depend
    on the schedule): the consumer moves whenever it can, otherwise the assembler. -/

def runFair : Nat → State → State
  | 0, s => s
  | fuel + 1, s =>
    match step s .cons with
    | some s' => runFair fuel s'
    | none =>
      match step s .asm with
      | some s' => runFair fuel s'
      | none => s

def runInit (le : Bool) (batches : List Batch) (prog : List COp) : State :=
  let s := init le batches prog
  runFair (measure s + 1) s

/-! ## The ORIGINAL Close (reader.go:203-212 before fix rdr-1), for the documented deadlock. -/

def startOpOld (s : State) (op : COp) (rest : List COp) : State :=
  match op with
  | .close => { s with cprog := rest, current := [], closed := true, cpc := .clRecv }
  | op => startOp s op rest

def soloConsOld (s : State) : Option State :=
  match s.cpc, s.cprog with
  | .idle, op :: rest => some (startOpOld s op rest)
  | _, _ => soloCons s

def stepOld (s : State) (t : Tid) : Option State :=
  match t with
  | .asm => step s .asm
  | .cons => match soloConsOld s with
    | some s' => some s'
    | none => joint s

end Gp.Reader
