/-
  Observer-level specification vocabulary for C10 (used in the statements of Gp/Props/C10.lean).
  Core Lean only.  Nothing here is executed by the driver.

  A sender stream is a byte list `S` plus an initial sequence number; the SYN occupies sequence
  number `isn`, byte `j` of `S` the sequence number `isn + 1 + j` (mod 2^32).
  The observer of one Stream keeps `pos : Option Nat` = how many bytes of `S` are accounted for
  (delivered or announced as skipped); `none` = nothing is known yet.
-/
import Gp.Model.Asm

namespace Gp.Asm

/-- `S[a : a+n]` -/
def slice (S : Bytes) (a n : Nat) : Bytes := (S.drop a).take n

/-- One delivered Reassembly item continues the stream correctly.
    * nothing known yet: either the item carries Start, has skip 0 and its bytes are a prefix of `S`;
      or it has skip −1 ("unknown") and its bytes are some slice of `S`;
    * otherwise: skip `k ≥ 0`, and the bytes are exactly `S[pos+k : pos+k+len]`. -/
def itemOk (S : Bytes) (pos : Option Nat) (r : Reasm) (pos' : Option Nat) : Prop :=
  match pos with
  | none =>
    (r.start = true ∧ r.skip = 0 ∧ r.bytes.length ≤ S.length ∧ r.bytes = slice S 0 r.bytes.length ∧
      pos' = some r.bytes.length) ∨
    (r.start = false ∧ r.skip = -1 ∧ ∃ q : Nat, q + r.bytes.length ≤ S.length ∧
      r.bytes = slice S q r.bytes.length ∧ pos' = some (q + r.bytes.length))
  | some p =>
    r.start = false ∧ ∃ k : Nat, r.skip = (k : Int) ∧ p + k + r.bytes.length ≤ S.length ∧
      r.bytes = slice S (p + k) r.bytes.length ∧ pos' = some (p + k + r.bytes.length)

/-- Replaying a list of items from observer state `pos` succeeds and ends in `pos'`:
    nothing duplicated, reordered, altered or invented. -/
def replay (S : Bytes) : Option Nat → List Reasm → Option Nat → Prop
  | pos, [], pos' => pos' = pos
  | pos, r :: rs, pos' => ∃ mid, itemOk S pos r mid ∧ replay S mid rs pos'

/-- all items delivered to stream `sid` of connection `key`, in order -/
def itemsOf (key sid : Nat) : List Ev → List Reasm
  | [] => []
  | .data k s items :: rest => if k = key ∧ s = sid then items ++ itemsOf key sid rest else itemsOf key sid rest
  | _ :: rest => itemsOf key sid rest

/-- all callbacks of a run, in order -/
def allEvs (outs : List OpOut) : List Ev := (outs.map (·.evs)).flatten

/-- a sender: stream bytes and initial sequence number -/
structure Sender where
  S   : Bytes
  isn : Nat

/-- A segment is consistent with the sender of its connection: a SYN sits at `isn` and carries a
    prefix of `S`; any other segment carries `S[off : off+n]` at sequence number `isn+1+off` mod 2^32;
    FIN/RST only on a segment that ends at the end of `S`. -/
def SegOk (snd : Nat → Sender) (s : Seg) : Prop :=
  let σ := snd s.key
  (if s.syn then s.seq = (σ.isn : Int) ∧ s.bytes.length ≤ σ.S.length ∧ s.bytes = slice σ.S 0 s.bytes.length ∧
      ((s.fin || s.rst) = true → s.bytes.length = σ.S.length)
   else ∃ off : Nat, s.seq = ((σ.isn : Int) + 1 + off) % 4294967296 ∧ off + s.bytes.length ≤ σ.S.length ∧
      s.bytes = slice σ.S off s.bytes.length ∧
      ((s.fin || s.rst) = true → off + s.bytes.length = σ.S.length))

def OpOk (snd : Nat → Sender) : Op → Prop
  | .seg s => SegOk snd s
  | _ => True

/-- a segment as AssembleWithTimestamp can receive it: `t.Seq` is a uint32 (no other restriction) -/
def WfOp : Op → Prop
  | .seg s => 0 ≤ s.seq ∧ s.seq < 4294967296
  | _ => True

/-- window hypothesis: every stream (with SYN and FIN) is shorter than 2^30, and ISNs are uint32 -/
def SendersOk (snd : Nat → Sender) : Prop :=
  ∀ k, (snd k).isn < 4294967296 ∧ (snd k).S.length + 2 < 1073741824

/-! ### per-stream histories (what one Stream and its connection saw), used by C10 `asm_complete`
    and the lifecycle theorems of C11 -/

/-- events in the life of one stream: created by the factory, a segment handed to its connection,
    a Reassembled call, ReassemblyComplete -/
inductive HEv where
  | created
  | fed (s : Seg)
  | got (items : List Reasm)
  | completed
  deriving Repr, DecidableEq

/-- (key, stream id, event) -/
abbrev Trace := List (Nat × Nat × HEv)

def toT : Ev → Nat × Nat × HEv
  | .new k s => (k, s, .created)
  | .data k s items => (k, s, .got items)
  | .complete k s => (k, s, .completed)

/-- history of stream `sid` of connection `key` -/
def histOf (key sid : Nat) (t : Trace) : List HEv :=
  t.filterMap (fun e => if e.1 = key ∧ e.2.1 = sid then some e.2.2 else none)

/-- AssembleWithTimestamp hands the segment to a connection (it is neither an empty packet nor a
    bare FIN/RST for an unknown connection) -/
def received (P : Pool) (s : Seg) : Bool :=
  !(!s.syn && !s.fin && !s.rst && s.bytes.isEmpty) &&
    ((lookup s.key P.conns).isSome || !(!s.syn && s.bytes.isEmpty))

/-- the callbacks of one operation, plus which stream each segment was handed to -/
def opTrace (P : Pool) : Op → OpOut → Trace
  | .seg s, out =>
    if received P s then
      match lookup s.key P.conns with
      | some c => (s.key, c.sid, .fed s) :: out.evs.map toT
      | none => (s.key, P.nextSid, .created) :: (s.key, P.nextSid, .fed s) :: (out.evs.drop 1).map toT
    else []
  | _, out => out.evs.map toT

def runTrace (A : SeqArith) : Pool → List Op → Trace
  | _, [] => []
  | P, op :: ops =>
    match step A P op with
    | .ok x => opTrace P op x.2 ++ runTrace A x.1 ops
    | _ => []

/-- all items delivered in a stream's history -/
def gotItems : List HEv → List Reasm
  | [] => []
  | .got items :: rest => items ++ gotItems rest
  | _ :: rest => gotItems rest

/-- a SYN segment was handed to the stream's connection -/
def synFed (h : List HEv) : Prop := ∃ s, HEv.fed s ∈ h ∧ s.syn = true

/-- stream offset of the first payload byte of a non-SYN segment, given the initial sequence number -/
def offW (isn : Nat) (s : Seg) : Nat := ((s.seq - (isn : Int) - 1) % 4294967296).toNat

/-- offset `x` of the sender's stream lies in the payload of segment `s` -/
def covW (isn : Nat) (s : Seg) (x : Nat) : Prop :=
  (s.syn = true ∧ x < s.bytes.length) ∨ (s.syn = false ∧ offW isn s ≤ x ∧ x < offW isn s + s.bytes.length)

/-- offset `x` was handed to the stream's connection by some segment of its history -/
def fedOffsW (isn : Nat) (h : List HEv) (x : Nat) : Prop := ∃ s, HEv.fed s ∈ h ∧ covW isn s x

end Gp.Asm
