/-
  Model of the preallocated-layer decoding machinery (engine `dlp`, property C05, parser part).

  Transcribed Go (tree WITH proposed_fixes/dlp-1 applied; fingerprints in props/parts/C05.dlp.json,
  tied by the correspondence run of harness/cmd/gp-dlp with SCRIPTED DecodingLayers):

    parser.go  DecodingLayerSparse.Put / .Decoder                 -> sparsePut / sparseLook
               DecodingLayerArray.Put  / .Decoder                 -> arrPut / arrLook
               DecodingLayerMap.Put    / .Decoder                 -> mapPut / mapLook
               DecodingLayerParser.SetDecodingLayerContainer,
               NewDecodingLayerParser, AddDecodingLayer            -> mkParser
               DecodingLayerParser.DecodeLayers, SetTruncated,
               panicToError                                        -> decodeLayers
    layers_decoder.go  LayersDecoder (the loop; its four copies are shown textually identical by the
               extractor x-dlp, Gp/Gen/Dlp.lean)                   -> loop / decodeFunc
    layers/base.go decodingLayerDecoder and the decodeX wrappers of the common stack
               (decodeIPv4/IPv6/TCP/UDP add the layer BEFORE looking at the error and do not stop
               on LayerTypeZero; decodingLayerDecoder/decodeEthernet add it after and
               decodingLayerDecoder stops on LayerTypeZero)          -> RegEntry.std … / chain
    packet.go  eagerPacket.NextDecoder, initialDecode, addFinalDecodeError,
               recoverDecodeError; layertype.go LayerType.Decode    -> chain / render

  *Layer decoders are data*: a `DLayer σ` is ANY implementation of the DecodingLayer interface over
  an object state `σ`: what DecodeFromBytes does to the object for given bytes (new state, whether it
  called df.SetTruncated, and whether it returned nil / an error / panicked) and the two accessors
  NextLayerType and LayerPayload, which read the object.  Nothing is assumed about them unless a
  theorem says so (they may keep stale state, fail, panic, return a payload that is no suffix, name
  any next type, make no progress).

  Go loops `for { … }` have no bound: the model runs on fuel and reports `diverge` when it is
  exhausted; `Gp.Parser.Progress` (every successful decode shortens the data) makes
  `data.length + 1` sufficient (proved in Lemmas/Parser.lean).

  Core Lean only.
-/
import Gp.Go.Basic

namespace Gp.Parser

/-- gopacket.LayerType is an int64 (pure notation, so that `omega` sees plain `Int`). -/
scoped notation "LType" => Int

/-! ### DecodingLayer as data -/

/-- What one call `d.DecodeFromBytes(data, df)` did. `s` = the object afterwards (on error/panic:
    whatever half-filled state it was left in), `trunc` = df.SetTruncated() was called. -/
inductive DOut (σ : Type) where
  | ok    (s : σ) (trunc : Bool)
  | err   (s : σ) (trunc : Bool)
  | panic (s : σ) (trunc : Bool) (k : PanicKind)
  deriving Repr, DecidableEq

/-- An implementation of the DecodingLayer interface (parser.go:28-46) over object states `σ`. -/
structure DLayer (σ : Type) where
  canDecode : List LType            -- d.CanDecode().LayerTypes()
  decode    : σ → Bytes → DOut σ    -- d.DecodeFromBytes(data, df)
  nextType  : σ → LType             -- d.NextLayerType()
  payload   : σ → Bytes             -- d.LayerPayload()

/-- Result of `dlc.Decoder(typ)`: a decoding-layer object (by identity), not found, or a Go panic. -/
inductive Look where
  | found (i : Nat)
  | missing
  | panic (k : PanicKind)
  deriving Repr, DecidableEq, Inhabited

/-- One `Put(d)`: the types `d.CanDecode().LayerTypes()` and the object's identity. -/
abbrev PutOp := List LType × Nat

/-! ### DecodingLayerSparse (parser.go:69-109) -/

abbrev Sparse := List (Option Nat)

/-- parser.go:78-83 -/
def sparseMax (len : Int) (ts : List LType) : Int :=
  ts.foldl (fun m t => if t > m then t else m) (len - 1)

/-- parser.go:89-91 `for _, typ := range … { dl[typ] = d }`: a negative or too large index panics. -/
def sparseAssign (dl : Sparse) : List LType → Nat → Res Sparse
  | [], _ => .ok dl
  | t :: ts, d =>
    if t < 0 ∨ (dl.length : Int) ≤ t then .panic .index
    else sparseAssign (dl.set t.toNat (some d)) ts d

/-- parser.go:77-93 -/
def sparsePut (dl : Sparse) (p : PutOp) : Res Sparse :=
  let mx := sparseMax dl.length p.1
  let extra := mx - (dl.length : Int) + 1
  let dl' := if extra > 0 then dl ++ List.replicate extra.toNat none else dl
  sparseAssign dl' p.1 p.2

/-- parser.go:101-107: `if int64(typ) < int64(len(dl)) { decoder := dl[typ]; return decoder, decoder != nil }`.
    A negative `typ` passes the test and `dl[typ]` panics. -/
def sparseLook (dl : Sparse) (t : LType) : Look :=
  if t < (dl.length : Int) then
    if t < 0 then .panic .index
    else match dl[t.toNat]? with
      | some (some d) => .found d
      | some none => .missing
      | none => .panic .index
  else .missing

/-! ### DecodingLayerArray (parser.go:111-143) -/

abbrev Arr := List (LType × Nat)

/-- parser.go:120-125: overwrite the FIRST element whose typ matches; `none` if there is none. -/
def arrReplace : Arr → LType → Nat → Option Arr
  | [], _, _ => none
  | e :: es, t, d =>
    if e.1 = t then some ((t, d) :: es)
    else match arrReplace es t d with
      | some es' => some (e :: es')
      | none => none

def arrPut1 (dl : Arr) (t : LType) (d : Nat) : Arr :=
  match arrReplace dl t d with
  | some dl' => dl'
  | none => dl ++ [(t, d)]

/-- parser.go:117-130 -/
def arrPut (dl : Arr) (p : PutOp) : Arr := p.1.foldl (fun dl t => arrPut1 dl t p.2) dl

/-- parser.go:133-140: linear scan, first match. -/
def arrLook : Arr → LType → Look
  | [], _ => .missing
  | e :: es, t => if e.1 = t then .found e.2 else arrLook es t

/-! ### DecodingLayerMap (parser.go:147-170): a Go map is a finite partial function -/

abbrev MapC := LType → Option Nat

def mapEmpty : MapC := fun _ => none

def mapPut (m : MapC) (p : PutOp) : MapC :=
  p.1.foldl (fun m t => fun x => if x = t then some p.2 else m x) m

def mapLook (m : MapC) (t : LType) : Look :=
  match m t with
  | some d => .found d
  | none => .missing

/-! ### Containers built by a Put sequence -/

/-- Put the operations one after the other; a panicking Put ends the sequence. -/
def sparseFrom (dl : Sparse) : List PutOp → Res Sparse
  | [] => .ok dl
  | p :: ps =>
    match sparsePut dl p with
    | .ok dl' => sparseFrom dl' ps
    | .err e => .err e
    | .panic k => .panic k

def sparseOf (ps : List PutOp) : Res Sparse := sparseFrom [] ps
def arrOf (ps : List PutOp) : Arr := ps.foldl arrPut []
def mapOf (ps : List PutOp) : MapC := ps.foldl mapPut mapEmpty

/-! ### The loop of LayersDecoder (layers_decoder.go:19-37, one of four identical copies) -/

/-- One completed loop iteration: `typ` was appended to `*decoded`; `st` is the object right after
    its DecodeFromBytes; `trunc` whether that call invoked df.SetTruncated. -/
structure Step (σ : Type) where
  typ   : LType
  st    : σ
  trunc : Bool
  deriving Repr, DecidableEq

/-- How the loop was left. -/
inductive Stop (σ : Type) where
  | done                                                        -- `return LayerTypeZero, nil`
  | unsupported (t : LType)                                     -- `return typ, nil`
  | err   (typ : LType) (st : σ) (trunc : Bool)                 -- `return LayerTypeZero, err`
  | panic (typ : LType) (st : σ) (trunc : Bool) (k : PanicKind) -- DecodeFromBytes panicked
  | lookPanic (t : LType) (k : PanicKind)                       -- dlc.Decoder(t) panicked
  | diverge                                                     -- fuel exhausted
  deriving Repr, DecidableEq

structure LoopRes (σ : Type) where
  store : Nat → σ          -- the decoding-layer objects afterwards
  steps : List (Step σ)    -- completed iterations, in order
  trunc : Bool             -- DecodingLayerParser.Truncated (the flag df.SetTruncated sets)
  stop  : Stop σ

def upd {σ : Type} (store : Nat → σ) (i : Nat) (s : σ) : Nat → σ := fun j => if j = i then s else store j

/-- `typ`/`i` = the loop variables `typ`/`decoder`, `data` = `data`, `tr` = the Truncated flag so far. -/
def loop {σ : Type} (cls : Nat → DLayer σ) (look : LType → Look) :
    Nat → (Nat → σ) → LType → Nat → Bytes → Bool → LoopRes σ
  | 0, store, _, _, _, tr => ⟨store, [], tr, .diverge⟩
  | n + 1, store, typ, i, data, tr =>
    match (cls i).decode (store i) data with
    | .panic s t k => ⟨upd store i s, [], tr || t, .panic typ s t k⟩
    | .err s t => ⟨upd store i s, [], tr || t, .err typ s t⟩
    | .ok s t =>
      let store' := upd store i s
      let typ' := (cls i).nextType s
      let data' := (cls i).payload s
      if data'.isEmpty then ⟨store', [⟨typ, s, t⟩], tr || t, .done⟩
      else match look typ' with
        | .missing => ⟨store', [⟨typ, s, t⟩], tr || t, .unsupported typ'⟩
        | .panic k => ⟨store', [⟨typ, s, t⟩], tr || t, .lookPanic typ' k⟩
        | .found j =>
          let r := loop cls look n store' typ' j data' (tr || t)
          { r with steps := ⟨typ, s, t⟩ :: r.steps }

/-! ### DecodingLayerParser (parser.go:180-317) -/

structure Opts where
  ignorePanic : Bool
  ignoreUnsupported : Bool
  deriving Repr, DecidableEq

/-- The parser: the container's lookup, the registered objects' implementations, `first`, and the
    decoder for `first` that LayersDecoder captured when SetDecodingLayerContainer built decodeFunc
    (layers_decoder.go:12: `firstDec, ok := dl.Decoder(first)`). -/
structure Parser (σ : Type) where
  cls      : Nat → DLayer σ
  look     : LType → Look
  first    : LType
  firstDec : Option Nat
  opts     : Opts

/-- SetDecodingLayerContainer (parser.go:225-228).  `dl.Decoder(first)` runs here, outside any
    recover: with the sparse container and a negative `first` the constructor itself panics. -/
def mkParser {σ : Type} (cls : Nat → DLayer σ) (look : LType → Look) (first : LType) (opts : Opts) :
    Res (Parser σ) :=
  match look first with
  | .panic k => .panic k
  | .found i => .ok ⟨cls, look, first, some i, opts⟩
  | .missing => .ok ⟨cls, look, first, none, opts⟩

/-- What persists between DecodeLayers calls: the layer objects, the parser's Truncated flag and the
    caller's `decoded` slice. -/
structure PState (σ : Type) where
  store     : Nat → σ
  truncated : Bool
  decoded   : List LType

/-- What DecodeLayers returned (or that a panic left it). -/
inductive Ret where
  | nil
  | unsupported (t : LType)   -- UnsupportedLayerType(t)
  | err                       -- the layer's own error
  | panicErr                  -- a panic converted to an error by panicToError
  | panic (k : PanicKind)     -- a panic propagating to the caller (IgnorePanic = true)
  | diverge
  deriving Repr, DecidableEq

/-- The DecodingLayerFunc returned by LayersDecoder, started with flag `tr`. -/
def decodeFunc {σ : Type} (p : Parser σ) (fuel : Nat) (store : Nat → σ) (data : Bytes) (tr : Bool) : LoopRes σ :=
  match p.firstDec with
  | none => ⟨store, [], tr, .unsupported p.first⟩            -- `*decoded = (*decoded)[:0]; return first, nil` (fix dlp-1)
  | some i => loop p.cls p.look fuel store p.first i data tr  -- `*decoded = (*decoded)[:0]; typ := first; decoder := firstDec; for {…}`

/-- DecodeLayers' translation of the loop exit (parser.go:291-303). -/
def retOf {σ : Type} (o : Opts) : Stop σ → Ret
  | .done => .nil
  | .unsupported t => if t = 0 then .nil else if o.ignoreUnsupported then .nil else .unsupported t
  | .err _ _ _ => .err
  | .panic _ _ _ k => if o.ignorePanic then .panic k else .panicErr
  | .lookPanic _ k => if o.ignorePanic then .panic k else .panicErr
  | .diverge => .diverge

/-- DecodeLayers (parser.go:289-303): `l.Truncated = false`, run decodeFunc, translate.  `decoded`
    is rebuilt from empty by both branches of decodeFunc, so the incoming `st.decoded` and
    `st.truncated` are not read. -/
def decodeLayers {σ : Type} (p : Parser σ) (fuel : Nat) (st : PState σ) (data : Bytes) : PState σ × Ret :=
  let r := decodeFunc p fuel st.store data false
  (⟨r.store, r.trunc, r.steps.map (·.typ)⟩, retOf p.opts r.stop)

/-- The per-layer results of one DecodeLayers call (ghost: what each DecodeFromBytes produced). -/
def decodeSteps {σ : Type} (p : Parser σ) (fuel : Nat) (st : PState σ) (data : Bytes) : List (Step σ) :=
  (decodeFunc p fuel st.store data false).steps

def decodeStop {σ : Type} (p : Parser σ) (fuel : Nat) (st : PState σ) (data : Bytes) : Stop σ :=
  (decodeFunc p fuel st.store data false).stop

/-! ### Packet decoding of the same table (NewPacket, eager) -/

/-- The decoder registered for a LayerType (layertype.go:87-98). -/
inductive RegEntry (σ : Type) where
  /-- no decoder registered, or one that only returns an error (DecodeUnknown) -/
  | none
  /-- `func decodeX(data, p) { d := &X{}; err := d.DecodeFromBytes(data, p); … }`: a FRESH object of
      implementation `c`; `addOnErr`: AddLayer happens before the error is examined (decodeIPv4,
      decodeIPv6, decodeTCP, decodeUDP) rather than after (decodingLayerDecoder, decodeEthernet);
      `zeroStops`: `if next == LayerTypeZero { return nil }` precedes NextDecoder (decodingLayerDecoder). -/
  | std (c : DLayer σ) (fresh : σ) (addOnErr zeroStops : Bool)
  /-- any other decoder: what it does is not modelled -/
  | other

/-- Outcome of one decoder invocation of the eager chain. -/
inductive AttOut (σ : Type) where
  | ok (st : σ) (trunc : Bool)
  | err (st : σ) (trunc : Bool) (kept : Bool)   -- kept: the half-filled layer is in the packet
  | panic (st : σ) (trunc : Bool) (k : PanicKind)
  | noDecoder
  | other
  | zeroStop                                   -- pseudo attempt: NextLayerType was LayerTypeZero, packet decoding stops
  | diverge
  deriving Repr, DecidableEq

/-- `typ` = the LayerType whose registered decoder was invoked. -/
structure Att (σ : Type) where
  typ : LType
  out : AttOut σ
  deriving Repr, DecidableEq

/-- initialDecode / NextDecoder chain of an eagerPacket over registry `reg`, as the list of decoder
    invocations; every invocation but the last succeeded. -/
def chain {σ : Type} (reg : LType → RegEntry σ) : Nat → LType → Bytes → List (Att σ)
  | 0, typ, _ => [⟨typ, .diverge⟩]
  | n + 1, typ, data =>
    match reg typ with
    | .none => [⟨typ, .noDecoder⟩]
    | .other => [⟨typ, .other⟩]
    | .std c fresh aoe zs =>
      match c.decode fresh data with
      | .panic s t k => [⟨typ, .panic s t k⟩]
      | .err s t => [⟨typ, .err s t aoe⟩]
      | .ok s t =>
        let next := c.nextType s
        let pay := c.payload s
        if zs && next == 0 then
          (if pay.isEmpty then [⟨typ, .ok s t⟩] else [⟨typ, .ok s t⟩, ⟨0, .zeroStop⟩])
        else if pay.isEmpty then [⟨typ, .ok s t⟩]            -- NextDecoder: `if len(d) == 0 { return nil }`
        else ⟨typ, .ok s t⟩ :: chain reg n next pay

/-- SPECIFICATION of the parser in terms of packet decoding: the longest prefix of the packet's decoder
    invocations whose types the container knows (`look` finds them) and that succeeded; the first
    invocation that is outside the set, failed or panicked says how the run ends. -/
def cut {σ : Type} (look : LType → Look) : List (Att σ) → List (Step σ) × Stop σ
  | [] => ([], .done)
  | a :: rest =>
    match look a.typ with
    | .missing => ([], .unsupported a.typ)
    | .panic k => ([], .lookPanic a.typ k)
    | .found _ =>
      match a.out with
      | .ok st tr => let r := cut look rest; (⟨a.typ, st, tr⟩ :: r.1, r.2)
      | .err st tr _ => ([], .err a.typ st tr)
      | .panic st tr k => ([], .panic a.typ st tr k)
      | .diverge => ([], .diverge)
      -- not reachable when every type in the set is registered `std` (hypothesis of the theorem)
      | .noDecoder => ([], .unsupported a.typ)
      | .other => ([], .unsupported a.typ)
      | .zeroStop => ([], .unsupported a.typ)

/-- packet.Metadata().Truncated: every decoder invocation's SetTruncated accumulates. -/
def attTrunc {σ : Type} : AttOut σ → Bool
  | .ok _ t => t
  | .err _ t _ => t
  | .panic _ t _ => t
  | _ => false

def chainTrunc {σ : Type} (as : List (Att σ)) : Bool := as.any (fun a => attTrunc a.out)

/-- One entry of Packet.Layers(). -/
inductive PItem (σ : Type) where
  | layer (typ : LType) (st : σ)     -- a layer added by a decodeX wrapper (complete or half-filled)
  | failure                          -- *gopacket.DecodeFailure
  deriving Repr, DecidableEq

/-- Result of NewPacket as far as modelled: Layers(), Metadata().Truncated, or the panic that left
    NewPacket (SkipDecodeRecovery), or divergence / an unmodelled decoder took over. -/
inductive PktRes (σ : Type) where
  | pkt (layers : List (PItem σ)) (trunc : Bool)
  | panic (k : PanicKind)
  | opaque
  | diverge
  deriving Repr, DecidableEq

def renderGo {σ : Type} (skipRecovery : Bool) : List (Att σ) → List (PItem σ) → Bool → PktRes σ
  | [], acc, tr => .pkt acc tr
  | a :: rest, acc, tr =>
    match a.out with
    | .ok st t => renderGo skipRecovery rest (acc ++ [.layer a.typ st]) (tr || t)
    | .err st t kept => .pkt (acc ++ (if kept then [.layer a.typ st] else []) ++ [.failure]) (tr || t)
    | .panic _ t k => if skipRecovery then .panic k else .pkt (acc ++ [.failure]) (tr || t)
    | .noDecoder => .pkt (acc ++ [.failure]) tr
    | .zeroStop => .pkt acc tr
    | .other => .opaque
    | .diverge => .diverge

/-- `gopacket.NewPacket(data, LayerType(first), DecodeOptions{SkipDecodeRecovery: skip})` -/
def newPacket {σ : Type} (reg : LType → RegEntry σ) (fuel : Nat) (skipRecovery : Bool) (first : LType) (data : Bytes) : PktRes σ :=
  renderGo skipRecovery (chain reg fuel first data) [] false

/-! ### Sequences of packets decoded by one parser -/

/-- Everything a caller can observe of one DecodeLayers call (plus the per-layer results). -/
structure Result (σ : Type) where
  ret       : Ret
  decoded   : List LType
  truncated : Bool
  steps     : List (Step σ)
  deriving Repr, DecidableEq

def resultOf {σ : Type} (p : Parser σ) (fuel : Nat) (st : PState σ) (data : Bytes) : Result σ :=
  let r := decodeLayers p fuel st data
  ⟨r.2, r.1.decoded, r.1.truncated, decodeSteps p fuel st data⟩

/-- Decode the packets one after the other into the SAME layer objects (and the same parser, the same
    `decoded` slice). -/
def runSeq {σ : Type} (p : Parser σ) (fuel : Nat) (st : PState σ) : List Bytes → List (Result σ)
  | [] => []
  | d :: ds => resultOf p fuel st d :: runSeq p fuel (decodeLayers p fuel st d).1 ds

/-! ### Hypotheses used by the theorems -/

/-- "DecodeFromBytes totally resets the layer" (parser.go:22-23), as far as anything observable goes. -/
def Resets {σ : Type} (c : DLayer σ) : Prop := ∀ s s' data, c.decode s data = c.decode s' data

/-- df.SetTruncated contribution of the decode attempt that ended the run (none if the run ended
    for another reason). -/
def stopTrunc {σ : Type} : Stop σ → Bool
  | .err _ _ t => t
  | .panic _ _ t _ => t
  | _ => false

/-- `firstDec` is what `look first` gives (established by mkParser / SetDecodingLayerContainer). -/
def Parser.Consistent {σ : Type} (p : Parser σ) : Prop :=
  match p.firstDec with
  | some i => p.look p.first = .found i
  | none => p.look p.first = .missing

/-- "The registered packet decoders are the standard wrapper": for every type the container knows,
    the decoder NewPacket uses is `decodeX = fresh object of the SAME implementation; DecodeFromBytes;
    AddLayer; NextDecoder(NextLayerType)` (either placement of AddLayer, with or without the
    LayerTypeZero test). -/
def StdFor {σ : Type} (cls : Nat → DLayer σ) (look : LType → Look) (reg : LType → RegEntry σ) : Prop :=
  ∀ t i, look t = .found i → ∃ c fresh aoe zs, reg t = .std c fresh aoe zs ∧
    c.decode = (cls i).decode ∧ c.nextType = (cls i).nextType ∧ c.payload = (cls i).payload

/-- Every successful decode hands on strictly fewer bytes than it got. -/
def Progress {σ : Type} (c : DLayer σ) : Prop :=
  ∀ s data s' t, c.decode s data = .ok s' t → (c.payload s').length < data.length

end Gp.Parser
