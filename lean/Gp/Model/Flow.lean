import Gp.Go.Basic
import Gp.Gen.Flow
/-
  Model of /repo/flows.go: Endpoint, Flow and their value-level API
  (NewEndpoint, NewFlow, FlowFromEndpoints, Endpoints, Src, Dst, Reverse, Raw, LessThan,
  fnvHash, Endpoint.FastHash, Flow.FastHash).  String() is out of scope.

  Go representation (flows.go:32-36, 142-146):
      type Endpoint struct { typ EndpointType; len int; raw [16]byte }
      type Flow     struct { typ EndpointType; slen, dlen int; src, dst [16]byte }
  The fixed arrays are modelled as `List UInt8` (the well-formedness predicate `WF` says the
  list has exactly `MaxEndpointSize` elements); structural `=` on the Lean structures is Go's
  `==` on the structs (field-wise comparison of typ, len(s) and the WHOLE arrays) and hence
  what decides map-key identity.  The constants MaxEndpointSize, fnvBasis, fnvPrime are
  GENERATED from the source on every run (Gp/Gen/Flow.lean).

  `EndpointType` is `int64`: `typ : Int`.  `len`, `slen`, `dlen` are Go `int`s that the API
  only ever sets to a `len(slice)`: `Nat`.
-/
namespace Gp.Flow
open Gp.Gen.Flow

structure Endpoint where
  typ : Int
  len : Nat
  raw : List UInt8
  deriving Repr, DecidableEq

structure Flow where
  typ  : Int
  slen : Nat
  dlen : Nat
  src  : List UInt8
  dst  : List UInt8
  deriving Repr, DecidableEq

/-- The zero value of `[MaxEndpointSize]byte`. -/
def zeroArr : List UInt8 := List.replicate maxEndpointSize 0

/-- Go `copy(dst[:], src)` on lists: the first `min |dst| |src|` elements are overwritten. -/
def copyInto (dst src : List UInt8) : List UInt8 :=
  src.take dst.length ++ dst.drop src.length

/-- flows.go:89 NewEndpoint.  `e` starts as the zero value; `len(raw) > MaxEndpointSize` is an
    explicit `panic(...)`. -/
def newEndpoint (typ : Int) (raw : List UInt8) : Res Endpoint :=
  if raw.length > maxEndpointSize then .panic .explicit
  else .ok { typ := typ, len := raw.length, raw := copyInto zeroArr raw }

/-- flows.go:214 NewFlow. -/
def newFlow (t : Int) (src dst : List UInt8) : Res Flow :=
  if src.length > maxEndpointSize ∨ dst.length > maxEndpointSize then .panic .explicit
  else .ok { typ := t, slen := src.length, dlen := dst.length,
             src := copyInto zeroArr src, dst := copyInto zeroArr dst }

/-- flows.go:151 FlowFromEndpoints: error on mismatched endpoint types. -/
def flowFromEndpoints (src dst : Endpoint) : Res Flow :=
  if src.typ ≠ dst.typ then .err "mismatched endpoint types"
  else .ok { typ := src.typ, slen := src.len, dlen := dst.len, src := src.raw, dst := dst.raw }

/-- flows.go:189 Endpoints. -/
def Flow.endpoints (f : Flow) : Endpoint × Endpoint :=
  ({ typ := f.typ, len := f.slen, raw := f.src }, { typ := f.typ, len := f.dlen, raw := f.dst })

/-- flows.go:194 Src. -/
def Flow.srcEp (f : Flow) : Endpoint := f.endpoints.1
/-- flows.go:200 Dst. -/
def Flow.dstEp (f : Flow) : Endpoint := f.endpoints.2

/-- flows.go:206 Reverse. -/
def Flow.reverse (f : Flow) : Flow :=
  { typ := f.typ, slen := f.dlen, dlen := f.slen, src := f.dst, dst := f.src }

/-- flows.go:43 Raw: `a.raw[:a.len]`.  (`len ≤ 16` for every well-formed value, so the Go slice
    expression cannot panic; see `Gp.C17.raw_no_panic`.) -/
def Endpoint.rawSlice (a : Endpoint) : Res (List UInt8) := sliceLen a.raw 0 a.len

/-- The address bytes of an endpoint: `a.raw[:a.len]` as a total function. -/
def Endpoint.bytes (a : Endpoint) : List UInt8 := a.raw.take a.len
def Flow.srcBytes (f : Flow) : List UInt8 := f.src.take f.slen
def Flow.dstBytes (f : Flow) : List UInt8 := f.dst.take f.dlen

/-- `bytes.Compare(a, b) < 0`: lexicographic order, a proper prefix is smaller
    (Go standard library, trusted; tied by the correspondence run). -/
def lexLt : List UInt8 → List UInt8 → Bool
  | [], [] => false
  | [], _ :: _ => true
  | _ :: _, [] => false
  | a :: as, b :: bs => a < b || (a == b && lexLt as bs)

/-- flows.go:53 LessThan: `a.typ < b.typ || (a.typ == b.typ && bytes.Compare(a.raw[:a.len], b.raw[:b.len]) < 0)`. -/
def Endpoint.lessThan (a b : Endpoint) : Bool :=
  decide (a.typ < b.typ) || (decide (a.typ = b.typ) && lexLt a.bytes b.bytes)

def two64 : Nat := 2 ^ 64

/-- `uint64(x)` for an `int64` x (two's complement). -/
def u64OfInt (x : Int) : Nat := (x % (two64 : Int)).toNat

/-- One iteration of the loop of flows.go:60 fnvHash: `h ^= uint64(s[i]); h *= fnvPrime` (uint64 wrap). -/
def fnvStep (h : Nat) (b : UInt8) : Nat := ((h ^^^ b.toNat) * fnvPrime) % two64

/-- flows.go:60 fnvHash. -/
def fnvHash (s : List UInt8) : Nat := s.foldl fnvStep fnvBasis

/-- The common tail of both FastHash functions: `h ^= uint64(typ); h *= fnvPrime`. -/
def mixTyp (h : Nat) (typ : Int) : Nat := ((h ^^^ u64OfInt typ) * fnvPrime) % two64

/-- flows.go:78 Endpoint.FastHash. -/
def Endpoint.fastHash (a : Endpoint) : Nat := mixTyp (fnvHash a.bytes) a.typ

/-- flows.go:167 Flow.FastHash: `h = fnvHash(src[:slen]) + fnvHash(dst[:dlen])` (uint64 wrap), then the tail. -/
def Flow.fastHash (f : Flow) : Nat :=
  mixTyp ((fnvHash f.srcBytes + fnvHash f.dstBytes) % two64) f.typ

/-- Representation invariant: length within the array, array of the right size, bytes beyond
    the length are zero. -/
def Endpoint.WF (e : Endpoint) : Prop :=
  e.len ≤ maxEndpointSize ∧ e.raw.length = maxEndpointSize ∧
  e.raw.drop e.len = List.replicate (maxEndpointSize - e.len) 0

def Flow.WF (f : Flow) : Prop :=
  f.slen ≤ maxEndpointSize ∧ f.dlen ≤ maxEndpointSize ∧
  f.src.length = maxEndpointSize ∧ f.dst.length = maxEndpointSize ∧
  f.src.drop f.slen = List.replicate (maxEndpointSize - f.slen) 0 ∧
  f.dst.drop f.dlen = List.replicate (maxEndpointSize - f.dlen) 0

instance (e : Endpoint) : Decidable e.WF := by unfold Endpoint.WF; exact inferInstance
instance (f : Flow) : Decidable f.WF := by unfold Flow.WF; exact inferInstance

/-- The zero values `Endpoint{}` / `Flow{}` (what a failed FlowFromEndpoints returns, and what
    `var e Endpoint` is). -/
def Endpoint.zero : Endpoint := { typ := 0, len := 0, raw := zeroArr }
def Flow.zero : Flow := { typ := 0, slen := 0, dlen := 0, src := zeroArr, dst := zeroArr }

/-- Everything a client of the package can obtain: fields are unexported, so values come only
    from the zero value and the exported API. -/
inductive Val where
  | ep (e : Endpoint)
  | fl (f : Flow)

inductive Reach : Val → Prop where
  | zeroEp : Reach (.ep Endpoint.zero)
  | zeroFl : Reach (.fl Flow.zero)
  | newEp  {t raw e} : newEndpoint t raw = .ok e → Reach (.ep e)
  | newFl  {t s d f} : newFlow t s d = .ok f → Reach (.fl f)
  | fromEps {a b f} : Reach (.ep a) → Reach (.ep b) → flowFromEndpoints a b = .ok f → Reach (.fl f)
  | src {f} : Reach (.fl f) → Reach (.ep f.srcEp)
  | dst {f} : Reach (.fl f) → Reach (.ep f.dstEp)
  | rev {f} : Reach (.fl f) → Reach (.fl f.reverse)

def Val.WF : Val → Prop
  | .ep e => e.WF
  | .fl f => f.WF

end Gp.Flow
