import Gp.Model.Reasm
/-
  Pool / connection level of the reassembly model: StreamPool (conns map keyed by flow, getConnection,
  remove), connection (two half connections, c2s = direction of the first packet), the scripted
  StreamFactory/Stream (New, ReassemblyComplete answers), AssembleWithContext, FlushWithOptions,
  FlushCloseOlderThan, FlushAll, and the completion part of closeHalfConnection.

  The Go map is an association list ordered by connection id; a flush visits connections in that order
  (Go: random map order — the connections do not influence each other during a flush, and the adapter
  groups the callbacks by connection id before comparing).
-/
namespace Gp.Reasm
open Gp

/-- The stream's answer to ReassemblyComplete (scripted by the ops file). -/
inductive CmplRule where
  | no | yes | parity      -- parity: remove iff the connection id is even
  deriving Repr, DecidableEq, Inhabited

def CmplRule.answer (r : CmplRule) (conn : Nat) : Bool :=
  match r with
  | .no => false
  | .yes => true
  | .parity => conn % 2 = 0

structure Conn where
  id       : Nat            -- flow (key)
  sid      : Nat            -- stream created by the factory for this connection
  firstDir : Bool           -- wire direction of the first packet: that half is c2s
  c2s      : Half
  s2c      : Half
  deriving Repr, DecidableEq, Inhabited

/-- Callbacks observed by the factory / the streams. -/
inductive Ev where
  | created (conn sid : Nat)
  | sg (conn sid : Nat) (dir : Bool) (g : SG)
  | done (conn sid : Nat) (ans : Bool)
  deriving Repr, DecidableEq, Inhabited

structure St where
  conns   : List Conn := []          -- the pool, ordered by id
  used    : Int := 0                 -- pageCache.used
  cfg     : Cfg := {}
  nextSid : Nat := 0
  deriving Repr, DecidableEq, Inhabited

def insertConn (c : Conn) : List Conn → List Conn
  | [] => [c]
  | d :: rest => if c.id ≤ d.id then c :: d :: rest else d :: insertConn c rest

def findConn (id : Nat) : List Conn → Option Conn
  | [] => none
  | d :: rest => if d.id = id then some d else findConn id rest

def removeConn (id : Nat) (l : List Conn) : List Conn := l.filter (fun d => d.id ≠ id)

def setConn (c : Conn) (l : List Conn) : List Conn := l.map (fun d => if d.id = c.id then c else d)

/-- `connection.reset` -/
def newConn (id sid : Nat) (dir : Bool) (ts : Int) : Conn :=
  { id := id, sid := sid, firstDir := dir,
    c2s := { lastSeen := ts }, s2c := { lastSeen := ts } }

/-- the second half of `closeHalfConnection`: when both directions are closed the stream gets
    `ReassemblyComplete`; a `true` answer removes the connection from the pool.
    Returns the events and whether the connection was removed. -/
def completion (c : Conn) (closedNow : Bool) (cmpl : CmplRule) : List Ev × Bool :=
  if closedNow ∧ c.c2s.closed ∧ c.s2c.closed then
    let ans := cmpl.answer c.id
    ([.done c.id c.sid ans], ans)
  else ([], false)

structure Reply where
  st      : St
  evs     : List Ev
  flushed : Nat := 0
  closed  : Nat := 0
  deriving Repr, DecidableEq

/-- `StreamPool.getConnection(key, false, …)`: the connection of the flow, created (with a new stream from the
    factory) when it is not in the pool. -/
def lookupConn (st : St) (id : Nat) (dir : Bool) (ts : Int) : St × Conn × List Ev :=
  match findConn id st.conns with
  | some c => (st, c, [])
  | none =>
    ({ st with conns := insertConn (newConn id st.nextSid dir ts) st.conns, nextSid := st.nextSid + 1 },
     newConn id st.nextSid dir ts, [.created id st.nextSid])

def Conn.half (c : Conn) (isC2S : Bool) : Half := if isC2S then c.c2s else c.s2c
def Conn.setHalf (c : Conn) (isC2S : Bool) (h : Half) : Conn :=
  if isC2S then { c with c2s := h } else { c with s2c := h }

/-- `AssembleWithContext` once the connection `c` (∈ st.conns) is known. -/
def opSegOn (A : Arith) (st : St) (c : Conn) (ev0 : List Ev) (dir : Bool) (p : Seg) (acc : Nat) (keep : KeepRule)
    (cmpl : CmplRule) : Res Reply :=
  let isC2S := dir == c.firstDir
  match assemble A st.cfg (c.half isC2S) st.used p acc keep with
  | .ok o =>
    let c' := c.setHalf isC2S o.half
    let evs := o.sgs.map (fun g => Ev.sg c.id c.sid (!isC2S) g)
    let cp := completion c' o.closed cmpl
    let conns := if cp.2 then removeConn c.id st.conns else setConn c' st.conns
    .ok { st := { st with conns := conns, used := o.used }, evs := ev0 ++ evs ++ cp.1 }
  | .err k => .err k
  | .panic k => .panic k

/-- `AssembleWithContext(netFlow, t, ac)`; `dir` = wire direction of the segment. -/
def opSeg (A : Arith) (st : St) (id : Nat) (dir : Bool) (p : Seg) (acc : Nat) (keep : KeepRule) (cmpl : CmplRule) :
    Res Reply :=
  let r := lookupConn st id dir p.ts
  opSegOn A r.1 r.2.1 r.2.2 dir p acc keep cmpl

def connLastSeen (c : Conn) : Int :=
  if c.c2s.lastSeen < c.s2c.lastSeen then c.s2c.lastSeen else c.c2s.lastSeen

structure ConnOut where
  conn    : Conn
  used    : Int
  evs     : List Ev
  removed : Bool
  flushed : Nat
  closed  : Nat
  deriving Repr, DecidableEq

def b2n (b : Bool) : Nat := if b then 1 else 0

/-- body of the `for _, conn := range conns` loop of `FlushWithOptions`: s2c first, then c2s. -/
def flushConn (A : Arith) (c : Conn) (used : Int) (t tc : Int) (keep : KeepRule) (cmpl : CmplRule) : Res ConnOut :=
  match flushClose A c.s2c used t tc (connLastSeen c) keep with
  | .ok o1 =>
    let c1 := { c with s2c := o1.half }
    let (cev1, rem1) := completion c1 o1.closed cmpl
    match flushClose A c1.c2s o1.used t tc (connLastSeen c1) keep with
    | .ok o2 =>
      let c2 := { c1 with c2s := o2.half }
      let (cev2, rem2) := completion c2 o2.closed cmpl
      let remove := c2.s2c.closed ∧ c2.c2s.closed ∧ c2.s2c.lastSeen < tc ∧ c2.c2s.lastSeen < tc
      .ok { conn := c2, used := o2.used,
            evs := o1.sgs.map (fun g => Ev.sg c.id c.sid true g) ++ cev1 ++
                   o2.sgs.map (fun g => Ev.sg c.id c.sid false g) ++ cev2,
            removed := rem1 ∨ rem2 ∨ remove,
            flushed := b2n o1.flushed + b2n o2.flushed, closed := b2n o1.closed + b2n o2.closed }
    | .err k => .err k
    | .panic k => .panic k
  | .err k => .err k
  | .panic k => .panic k

/-- body of the loop of `FlushAll`. -/
def flushAllConn (A : Arith) (c : Conn) (used : Int) (keep : KeepRule) (cmpl : CmplRule) : Res ConnOut :=
  match flushAllHalf A c.s2c used keep with
  | .ok o1 =>
    let c1 := { c with s2c := o1.half }
    let (cev1, rem1) := completion c1 o1.closed cmpl
    match flushAllHalf A c1.c2s o1.used keep with
    | .ok o2 =>
      let c2 := { c1 with c2s := o2.half }
      let (cev2, rem2) := completion c2 o2.closed cmpl
      .ok { conn := c2, used := o2.used,
            evs := o1.sgs.map (fun g => Ev.sg c.id c.sid true g) ++ cev1 ++
                   o2.sgs.map (fun g => Ev.sg c.id c.sid false g) ++ cev2,
            removed := rem1 ∨ rem2, flushed := 0, closed := 0 }
    | .err k => .err k
    | .panic k => .panic k
  | .err k => .err k
  | .panic k => .panic k

/-- run a per-connection body over the snapshot `conns` of the pool. -/
def overConns (f : Conn → Int → Res ConnOut) : List Conn → Int → Res (List Conn × Int × List Ev × Nat × Nat)
  | [], used => .ok ([], used, [], 0, 0)
  | c :: rest, used =>
    match f c used with
    | .ok o =>
      match overConns f rest o.used with
      | .ok (cs, u, evs, fl, cl) =>
        .ok ((if o.removed then cs else o.conn :: cs), u, o.evs ++ evs, o.flushed + fl, o.closed + cl)
      | .err k => .err k
      | .panic k => .panic k
    | .err k => .err k
    | .panic k => .panic k

def opFlush (A : Arith) (st : St) (t tc : Int) (keep : KeepRule) (cmpl : CmplRule) : Res Reply :=
  match overConns (fun c u => flushConn A c u t tc keep cmpl) st.conns st.used with
  | .ok (cs, u, evs, fl, cl) => .ok { st := { st with conns := cs, used := u }, evs := evs, flushed := fl, closed := cl }
  | .err k => .err k
  | .panic k => .panic k

def opFlushAll (A : Arith) (st : St) (keep : KeepRule) (cmpl : CmplRule) : Res Reply :=
  match overConns (fun c u => flushAllConn A c u keep cmpl) st.conns st.used with
  | .ok (cs, u, evs, _, _) =>
    .ok { st := { st with conns := cs, used := u }, evs := evs, closed := st.conns.length }
  | .err k => .err k
  | .panic k => .panic k

/-- Operations of a history. -/
inductive Op where
  | opts (maxPer maxTotal : Int)
  | seg (id : Nat) (dir : Bool) (p : Seg) (acc : Nat) (keep : KeepRule) (cmpl : CmplRule)
  | flush (t tc : Int) (keep : KeepRule) (cmpl : CmplRule)
  | flushAll (keep : KeepRule) (cmpl : CmplRule)
  deriving Repr, DecidableEq, Inhabited

def step (A : Arith) (st : St) : Op → Res Reply
  | .opts p t => .ok { st := { st with cfg := { maxPer := p, maxTotal := t } }, evs := [] }
  | .seg id dir p acc keep cmpl => opSeg A st id dir p acc keep cmpl
  | .flush t tc keep cmpl => opFlush A st t tc keep cmpl
  | .flushAll keep cmpl => opFlushAll A st keep cmpl

/-- hook observables: pages queued in open halves, pages saved (all halves of live connections). -/
def queuedPages (st : St) : Nat :=
  (st.conns.map (fun c => (if c.c2s.closed then 0 else c.c2s.queue.length) +
                          (if c.s2c.closed then 0 else c.s2c.queue.length))).sum
def savedPages (st : St) : Nat :=
  (st.conns.map (fun c => c.c2s.saved.length + c.s2c.saved.length)).sum

end Gp.Reasm
