/-
  The SCRIPTED DecodingLayer of engine `dlp` (harness/cmd/gp-dlp/script.go: type sLayer), mirrored
  statement by statement.  It is an *instance* of `Gp.Parser.DLayer` used only by the correspondence
  run (Driver/Dlp.lean): the first byte of the data it is asked to decode is an instruction saying
  what this decode does, so enumerating short byte strings enumerates decoder behaviours.

  byte b = data[0]:
     b % 4            0: ok   1: ok and assign Extra := b   2: return an error   3: panic (index)
     (b / 4) % 2      call df.SetTruncated()
     (b / 8) % 8      NextLayerType := nextTable[…]
     (b / 64) % 2     header length 1 + …
     (b / 128) % 2    trim that many bytes from the end of the payload
  empty data: SetTruncated and error.
  `sticky = false`: Extra is cleared at the start of every decode (a layer that resets);
  `sticky = true`: Extra survives unless assigned (a layer like IPv4.Padding / TCP.Multipath).

  Core Lean only.
-/
import Gp.Model.Parser

namespace Gp.Parser.Script

structure SState where
  val      : Nat := 0
  extra    : Nat := 0
  next     : LType := 0
  contents : Bytes := []
  payload  : Bytes := []
  deriving Repr, DecidableEq, Inhabited

def nextTable : List LType := [0, 1900, 1901, 1902, 1903, 1950, 3000, -7]

def nextOf (b : Nat) : LType :=
  match nextTable[(b / 8) % 8]? with
  | some t => t
  | none => 0   -- unreachable: the table has 8 entries

def sDecode (sticky : Bool) (s : SState) (data : Bytes) : DOut SState :=
  let s0 := if sticky then s else { s with extra := 0 }
  match data with
  | [] => .err s0 true
  | b8 :: _ =>
    let b := b8.toNat
    let s1 := { s0 with val := b }
    let tr := (b / 4) % 2 == 1
    match b % 4 with
    | 2 => .err s1 tr
    | 3 => .panic s1 tr .index
    | k =>
      let s2 := if k == 1 then { s1 with extra := b } else s1
      let front := min (1 + (b / 64) % 2) data.length
      let stop := max front (data.length - (b / 128) % 2)
      .ok { s2 with contents := data.take front, payload := (data.take stop).drop front, next := nextOf b } tr

def sLayer (sticky : Bool) (types : List LType) : DLayer SState :=
  { canDecode := types, decode := sDecode sticky, nextType := (·.next), payload := (·.payload) }

/-- The registry of the harness (harness/cmd/gp-dlp/script.go init): type → (sticky, addOnErr, zeroStops). -/
def regTable : List (LType × Bool × Bool × Bool) :=
  [ (1900, false, false, true),     -- decodingLayerDecoder style
    (1901, false, true,  false),    -- decodeIPv4 style
    (1902, true,  false, true),     -- a layer that keeps stale state
    (1903, false, true,  false),
    (3000, false, false, true),     -- beyond maxLayerType: ltMetaMap path
    (-7,   false, false, true) ]    -- negative: ltMetaMap path

def reg (t : LType) : RegEntry SState :=
  match regTable.find? (·.1 == t) with
  | some (_, sticky, aoe, zs) => .std (sLayer sticky [t]) {} aoe zs
  | none => .none

end Gp.Parser.Script
