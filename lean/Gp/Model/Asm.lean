/-
  Executable model of the classic assembler  /repo/tcpassembly/assembly.go  (engine `asm`, C10 / C11).

  Core Lean only.  The sequence arithmetic is a PARAMETER (`SeqArith`):
    * `wrapArith` = the definitions regenerated from the source on every run
      (`Gp.Gen.SeqAsm.difference/add`, mod 2^32) — this is what the driver executes and what the
      property theorems are about;
    * `flatArith` = plain unbounded integer arithmetic — the "offset space" twin used by the proofs
      (layer A shows both instances produce the same outputs while all live sequence numbers lie
      in an arc shorter than 2^30).
  Because both instances share this one text, the twin cannot drift from the model.

  What is modelled (Go function → definition):
    byteSpan → byteSpan;  pagesFromTCP → splitPages;  traverseConn+pushBetween → insertPos / insertPages
    addNextFromConn → popPage;  addContiguous → addContiguous;  insertIntoConn → insertIntoConn
    (with the `panic("wtf")` guard and the limit loop);  sendToConnection → send;  skipFlush → skipFlush;
    closeConnection → the `closed := true` results (pages returned to the cache);
    AssembleWithTimestamp → assembleConn/assemble;  FlushWithOptions/FlushOlderThan → flushConn/flushWith;
    FlushAll → flushAllConn/flushAll;  StreamPool.getConnection/newConnection/remove → lookup/newConn/putBack
    (connection.reset resets every field, incl. lastSeen — fix asm-3).
  The doubly linked page list first..last is a `List Page` (head = first).
  Timestamps are integers supplied by the operation.
-/
import Gp.Go.Basic
import Gp.Gen.SeqAsm

namespace Gp.Asm
open Gp

/-- Sequence arithmetic used by the model (Sequence.Difference / Sequence.Add). -/
structure SeqArith where
  diff : Int → Int → Int
  add  : Int → Int → Int

/-- The arithmetic of the real code (regenerated from assembly.go). -/
def wrapArith : SeqArith := ⟨Gp.Gen.SeqAsm.difference, Gp.Gen.SeqAsm.add⟩
/-- Offset-space twin: unbounded integers, no wrap. -/
def flatArith : SeqArith := ⟨fun s t => t - s, fun s n => s + n⟩

def invalidSeq : Int := Gp.Gen.SeqAsm.invalidSequence
def pageBytes : Nat := Gp.Gen.SeqAsm.pageBytes

/-- tcpassembly.Reassembly -/
structure Reasm where
  bytes : Bytes
  skip  : Int
  start : Bool
  fin   : Bool      -- End
  seen  : Int
  deriving Repr, DecidableEq, Inhabited

/-- tcpassembly.page (list links are the list structure) -/
structure Page where
  seq : Int
  r   : Reasm
  deriving Repr, DecidableEq, Inhabited

/-- byteSpan(expected, received, bytes) -/
def byteSpan (A : SeqArith) (expected received : Int) (bytes : Bytes) : Bytes × Int :=
  if expected = invalidSeq then (bytes, A.add received bytes.length)
  else
    let span := A.diff received expected
    if span ≤ 0 then (bytes, A.add received bytes.length)
    else if (bytes.length : Int) < span then ([], expected)
    else (bytes.drop span.toNat, A.add expected ((bytes.length : Int) - span))

/-- pagesFromTCP: split a payload starting at `seq` into pages of at most `pageBytes` bytes
    (always at least one page; only the last page carries End).  `fuel` bounds the Go `for` loop;
    `splitPages_concat`/`splitPages_len` (Lemmas) show `bytes.length + 1` suffices. -/
def splitPages (A : SeqArith) : Nat → Int → Bytes → Bool → Int → List Page
  | 0, seq, bytes, fin, ts => [⟨seq, ⟨bytes, 0, false, fin, ts⟩⟩]
  | fuel + 1, seq, bytes, fin, ts =>
    let len := min bytes.length pageBytes
    let rest := bytes.drop len
    if rest.isEmpty then [⟨seq, ⟨bytes.take len, 0, false, fin, ts⟩⟩]
    else ⟨seq, ⟨bytes.take len, 0, false, false, ts⟩⟩ :: splitPages A fuel (A.add seq len) rest fin ts

def pagesFromTCP (A : SeqArith) (seq : Int) (bytes : Bytes) (fin : Bool) (ts : Int) : List Page :=
  splitPages A (bytes.length + 1) seq bytes fin ts

/-- traverseConn: walking back from the tail while `prev.seq.Difference(seq) < 0`.
    Returns (pages up to and including `prev`, pages from `current` on). -/
def insertPos (A : SeqArith) (seq : Int) : List Page → List Page × List Page
  | [] => ([], [])
  | p :: ps =>
    let x := insertPos A seq ps
    if x.1.isEmpty && decide (A.diff p.seq seq < 0) then ([], p :: x.2) else (p :: x.1, x.2)

/-- traverseConn + pushBetween -/
def insertPages (A : SeqArith) (seq : Int) (new : List Page) (pages : List Page) : List Page :=
  let x := insertPos A seq pages
  x.1 ++ new ++ x.2

/-- addNextFromConn on first page `p`: the Reassembly appended to `ret` and the new nextSeq. -/
def popPage (A : SeqArith) (nxt : Int) (p : Page) : Reasm × Int :=
  let skip : Int :=
    if nxt = invalidSeq then -1
    else if A.diff nxt p.seq > 0 then A.diff nxt p.seq else p.r.skip
  let x := byteSpan A nxt p.seq p.r.bytes
  ({ p.r with skip := skip, bytes := x.1 }, x.2)

/-- pages released by a loop of addNextFromConn calls -/
structure Rel where
  items : List Reasm
  next  : Int
  rest  : List Page
  deriving Repr, DecidableEq

/-- addContiguous -/
def addContiguous (A : SeqArith) : Int → List Page → Rel
  | nxt, [] => ⟨[], nxt, []⟩
  | nxt, p :: ps =>
    if A.diff nxt p.seq ≤ 0 then
      let x := popPage A nxt p
      let y := addContiguous A x.2 ps
      ⟨x.1 :: y.items, y.next, y.rest⟩
    else ⟨[], nxt, p :: ps⟩

/-- AssemblerOptions -/
structure Lim where
  maxPer : Int := 0
  maxTot : Int := 0
  deriving Repr, DecidableEq

def limitHit (L : Lim) (np used : Int) : Bool :=
  (decide (L.maxPer > 0) && decide (np ≥ L.maxPer)) || (decide (L.maxTot > 0) && decide (used ≥ L.maxTot))

/-- the limit loop of insertIntoConn (`for conn.first != nil && limits reached { addNextFromConn }`) -/
def limitPops (A : SeqArith) (L : Lim) : Int → List Page → Int → Int → Rel
  | nxt, [], _, _ => ⟨[], nxt, []⟩
  | nxt, p :: ps, np, used =>
    if limitHit L np used then
      let x := popPage A nxt p
      let y := limitPops A L x.2 ps (np - 1) (used - 1)
      ⟨x.1 :: y.items, y.next, y.rest⟩
    else ⟨[], nxt, p :: ps⟩

/-- tcpassembly.connection (a live one; `closed` is reported by `Step.closed`) -/
structure Conn where
  nextSeq  : Int
  pages    : List Page
  npages   : Int          -- the counter `connection.pages`
  lastSeen : Int
  sid      : Nat          -- which Stream (number of the StreamFactory.New call)
  deriving Repr, DecidableEq

/-- effect of one call on one connection -/
structure Step where
  conn   : Conn
  closed : Bool                 -- closeConnection ran (ReassemblyComplete called, pages returned)
  used   : Int                  -- pageCache.used afterwards
  calls  : List (List Reasm)    -- the Stream.Reassembled calls, in order
  deriving Repr, DecidableEq

def lastOf {α} : α → List α → α
  | x, [] => x
  | _, y :: ys => lastOf y ys

/-- sendToConnection with `a.ret = r0 :: rs` (non-empty by construction):
    addContiguous, Reassembled, closeConnection if the last item has End. -/
def send (A : SeqArith) (c : Conn) (used : Int) (r0 : Reasm) (rs : List Reasm) : Step :=
  let rel := addContiguous A c.nextSeq c.pages
  let n : Int := rel.items.length
  let c' : Conn := { c with nextSeq := rel.next, pages := rel.rest, npages := c.npages - n }
  if (lastOf r0 (rs ++ rel.items)).fin then
    { conn := c', closed := true, used := used - n - rel.rest.length, calls := [r0 :: (rs ++ rel.items)] }
  else
    { conn := c', closed := false, used := used - n, calls := [r0 :: (rs ++ rel.items)] }

/-- skipFlush -/
def skipFlush (A : SeqArith) (c : Conn) (used : Int) : Step :=
  match c.pages with
  | [] => { conn := c, closed := true, used := used, calls := [] }
  | p :: ps =>
    let x := popPage A c.nextSeq p
    send A { c with nextSeq := x.2, pages := ps, npages := c.npages - 1 } (used - 1) x.1 []

/-- the guard `if conn.first != nil && conn.first.seq == conn.nextSeq { panic("wtf") }` -/
def wtfGuard (c : Conn) : Bool :=
  match c.pages with
  | p :: _ => decide (p.seq = c.nextSeq)
  | [] => false

/-- insertIntoConn for a payload at `seq` (already +1 for a SYN segment), followed by the
    `if len(a.ret) > 0 { sendToConnection }` of AssembleWithTimestamp. -/
def insertIntoConn (A : SeqArith) (L : Lim) (c : Conn) (used : Int)
    (seq : Int) (bytes : Bytes) (fin : Bool) (ts : Int) : Res Step :=
  if wtfGuard c then .panic .explicit
  else
    let new := pagesFromTCP A seq bytes fin ts
    let pages := insertPages A seq new c.pages
    let k : Int := new.length
    let rel := limitPops A L c.nextSeq pages (c.npages + k) (used + k)
    let n : Int := rel.items.length
    let c' : Conn := { c with nextSeq := rel.next, pages := rel.rest, npages := c.npages + k - n }
    match rel.items with
    | [] => .ok { conn := c', closed := false, used := used + k - n, calls := [] }
    | r0 :: rs => .ok (send A c' (used + k - n) r0 rs)

/-- one TCP segment as seen by AssembleWithTimestamp -/
structure Seg where
  key   : Nat
  seq   : Int
  syn   : Bool
  fin   : Bool
  rst   : Bool
  ts    : Int
  bytes : Bytes
  deriving Repr, DecidableEq

/-- sequence number of the first payload byte: `seq`, or `seq+1` for a retransmitted SYN (fix asm-2;
    the first SYN of a connection is handled by its own branch). -/
def payloadSeq (A : SeqArith) (nextSeq : Int) (s : Seg) : Int :=
  if s.syn && decide (nextSeq ≠ invalidSeq) then A.add s.seq 1 else s.seq

/-- AssembleWithTimestamp after the connection has been found and locked. -/
def assembleConn (A : SeqArith) (L : Lim) (c0 : Conn) (used : Int) (s : Seg) : Res Step :=
  let c : Conn := if c0.lastSeen < s.ts then { c0 with lastSeen := s.ts } else c0
  let fin := s.rst || s.fin
  let seq : Int := payloadSeq A c.nextSeq s
  if c.nextSeq = invalidSeq then
    if s.syn then
      let r0 : Reasm := { bytes := s.bytes, skip := 0, start := true, fin := false, seen := s.ts }
      .ok (send A { c with nextSeq := A.add seq ((s.bytes.length : Int) + 1) } used r0 [])
    else
      insertIntoConn A L c used seq s.bytes fin s.ts
  else if A.diff c.nextSeq seq > 0 then
    insertIntoConn A L c used seq s.bytes fin s.ts
  else
    let x := byteSpan A c.nextSeq seq s.bytes
    let r0 : Reasm := { bytes := x.1, skip := 0, start := false, fin := fin, seen := s.ts }
    .ok (send A { c with nextSeq := x.2 } used r0 [])

/-- The flush loop of FlushWithOptions on one connection:
    `for conn.first != nil && conn.first.Seen.Before(T) { skipFlush; if conn.closed { break } }`.
    Each iteration removes at least one page, so `pages.length` iterations suffice. -/
def flushLoop (A : SeqArith) (T : Int) : Nat → Conn → Int → List (List Reasm) → Bool → Step × Bool
  | 0, c, used, calls, fl => ({ conn := c, closed := false, used := used, calls := calls }, fl)
  | fuel + 1, c, used, calls, fl =>
    match c.pages with
    | [] => ({ conn := c, closed := false, used := used, calls := calls }, fl)
    | p :: _ =>
      if p.r.seen < T then
        let st := skipFlush A c used
        if st.closed then ({ st with calls := calls ++ st.calls }, true)
        else flushLoop A T fuel st.conn st.used (calls ++ st.calls) true
      else ({ conn := c, closed := false, used := used, calls := calls }, fl)

/-- FlushWithOptions on one (live) connection: (step, flushed). -/
def flushConn (A : SeqArith) (T : Int) (closeAll : Bool) (c : Conn) (used : Int) : Step × Bool :=
  let x := flushLoop A T c.pages.length c used [] false
  if closeAll && !x.1.closed && x.1.conn.pages.isEmpty && decide (x.1.conn.lastSeen < T) then
    ({ x.1 with closed := true }, true)
  else x

/-- FlushAll on one connection: `for !conn.closed { skipFlush }`. -/
def flushAllLoop (A : SeqArith) : Nat → Conn → Int → List (List Reasm) → Step
  | 0, c, used, calls => { conn := c, closed := false, used := used, calls := calls }
  | fuel + 1, c, used, calls =>
    let st := skipFlush A c used
    if st.closed then { st with calls := calls ++ st.calls }
    else flushAllLoop A fuel st.conn st.used (calls ++ st.calls)

def flushAllConn (A : SeqArith) (c : Conn) (used : Int) : Step :=
  flushAllLoop A (c.pages.length + 1) c used []

/-! ### The pool of connections and the assembler -/

/-- callbacks observed by the user of the package -/
inductive Ev where
  | new      (key sid : Nat)                          -- StreamFactory.New
  | data     (key sid : Nat) (items : List Reasm)     -- Stream.Reassembled
  | complete (key sid : Nat)                          -- Stream.ReassemblyComplete
  deriving Repr, DecidableEq

structure Pool where
  conns   : List (Nat × Conn) := []   -- StreamPool.conns, kept sorted by key
  used    : Int := 0                  -- pageCache.used
  lim     : Lim := {}
  nextSid : Nat := 0
  deriving Repr, DecidableEq

def lookup (k : Nat) : List (Nat × Conn) → Option Conn
  | [] => none
  | (k', c) :: rest => if k = k' then some c else lookup k rest

def remove (k : Nat) : List (Nat × Conn) → List (Nat × Conn)
  | [] => []
  | (k', c) :: rest => if k = k' then rest else (k', c) :: remove k rest

/-- insert or replace, keeping the list sorted by key -/
def upsert (k : Nat) (c : Conn) : List (Nat × Conn) → List (Nat × Conn)
  | [] => [(k, c)]
  | (k', c') :: rest =>
    if k = k' then (k, c) :: rest
    else if k < k' then (k, c) :: (k', c') :: rest
    else (k', c') :: upsert k c rest

def evsOf (k : Nat) (st : Step) : List Ev :=
  st.calls.map (Ev.data k st.conn.sid) ++ (if st.closed then [Ev.complete k st.conn.sid] else [])

/-- write the result of a step on connection `k` back (closeConnection → StreamPool.remove) -/
def putBack (P : Pool) (k : Nat) (st : Step) : Pool :=
  if st.closed then
    { P with conns := remove k P.conns, used := st.used }
  else
    { P with conns := upsert k st.conn P.conns, used := st.used }

/-- StreamPool.newConnection + connection.reset (every field is reset, so the recycled connection
    objects of StreamPool.free carry no state and are not modelled). -/
def newConn (P : Pool) (ts : Int) : Conn × Pool :=
  ({ nextSeq := invalidSeq, pages := [], npages := 0, lastSeen := ts, sid := P.nextSid },
   { P with nextSid := P.nextSid + 1 })

/-- AssembleWithTimestamp -/
def assemble (A : SeqArith) (P : Pool) (s : Seg) : Res (Pool × List Ev) :=
  if !s.syn && !s.fin && !s.rst && s.bytes.isEmpty then .ok (P, [])
  else
    match lookup s.key P.conns with
    | some c =>
      match assembleConn A P.lim c P.used s with
      | .ok st => .ok (putBack P s.key st, evsOf s.key st)
      | .err e => .err e
      | .panic k => .panic k
    | none =>
      if !s.syn && s.bytes.isEmpty then .ok (P, [])
      else
        let x := newConn P s.ts
        match assembleConn A x.2.lim x.1 x.2.used s with
        | .ok st => .ok (putBack x.2 s.key st, Ev.new s.key x.1.sid :: evsOf s.key st)
        | .err e => .err e
        | .panic k => .panic k

/-- result of a Flush* call -/
structure FlushRes where
  pool    : Pool
  evs     : List Ev
  flushed : Nat
  closed  : Nat
  deriving Repr, DecidableEq

/-- FlushWithOptions: connections are visited in key order (Go: map order; the callbacks of
    different connections are independent, the harness sorts them by key). -/
def flushWithList (A : SeqArith) (T : Int) (closeAll : Bool) : List (Nat × Conn) → FlushRes → FlushRes
  | [], acc => acc
  | (k, c) :: rest, acc =>
    let x := flushConn A T closeAll c acc.pool.used
    flushWithList A T closeAll rest
      { pool := putBack acc.pool k x.1, evs := acc.evs ++ evsOf k x.1,
        flushed := acc.flushed + (if x.2 then 1 else 0), closed := acc.closed + (if x.1.closed then 1 else 0) }

def flushWith (A : SeqArith) (P : Pool) (T : Int) (closeAll : Bool) : FlushRes :=
  flushWithList A T closeAll P.conns { pool := P, evs := [], flushed := 0, closed := 0 }

def flushAllList (A : SeqArith) : List (Nat × Conn) → FlushRes → FlushRes
  | [], acc => acc
  | (k, c) :: rest, acc =>
    let st := flushAllConn A c acc.pool.used
    flushAllList A rest
      { pool := putBack acc.pool k st, evs := acc.evs ++ evsOf k st,
        flushed := acc.flushed, closed := acc.closed + 1 }

/-- FlushAll (returns len(conns)) -/
def flushAll (A : SeqArith) (P : Pool) : FlushRes :=
  flushAllList A P.conns { pool := P, evs := [], flushed := 0, closed := 0 }

/-! ### Operations (the line protocol of engine `asm`) -/

inductive Op where
  | opt (maxPer maxTot : Int)
  | seg (s : Seg)
  | flush (T : Int) (closeAll : Bool)     -- FlushWithOptions; FlushOlderThan t = flush t true
  | flushAll
  deriving Repr, DecidableEq

/-- observable result of one operation -/
structure OpOut where
  evs : List Ev := []
  ret : Option (Nat × Nat) := none     -- (flushed, closed) of Flush*; FlushAll: (0, closed)
  deriving Repr, DecidableEq

def step (A : SeqArith) (P : Pool) : Op → Res (Pool × OpOut)
  | .opt a b => .ok ({ P with lim := ⟨a, b⟩ }, {})
  | .seg s =>
    match assemble A P s with
    | .ok x => .ok (x.1, { evs := x.2 })
    | .err e => .err e
    | .panic k => .panic k
  | .flush T ca => let r := flushWith A P T ca; .ok (r.pool, { evs := r.evs, ret := some (r.flushed, r.closed) })
  | .flushAll => let r := flushAll A P; .ok (r.pool, { evs := r.evs, ret := some (0, r.closed) })

/-- run a history; a panic stops it (Go: the connection mutex stays locked). -/
def run (A : SeqArith) : Pool → List Op → Res (Pool × List OpOut)
  | P, [] => .ok (P, [])
  | P, op :: ops =>
    match step A P op with
    | .ok x =>
      match run A x.1 ops with
      | .ok y => .ok (y.1, x.2 :: y.2)
      | .err e => .err e
      | .panic k => .panic k
    | .err e => .err e
    | .panic k => .panic k

end Gp.Asm
