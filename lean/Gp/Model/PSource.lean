import Gp.Go.Basic
/-
  Model of gopacket's PacketSource (packet.go, from ConcatFinitePacketDataSources to the end):
  ConcatFinitePacketDataSources / concat.ReadPacketData, NewPacketSource, NewZeroCopyPacketSource,
  NextPacket, packetsToChannel, Packets / PacketsCtx.

  * A data source is its *history*: the list of results its successive reads return (`Ev`).
    A read on an exhausted history does not return (the read stays "in progress").
  * Memory: the data source owns ONE buffer `Heap.src` when it is a ZeroCopyPacketDataSource
    (every read overwrites a prefix of it and returns a slice of it); an ordinary
    PacketDataSource returns a freshly allocated slice per read.  `NewPacket` copies the
    slice into a fresh buffer unless `NoCopy`.  A delivered packet is a *reference*
    (`Pkt.ref`, `Pkt.len`) into that memory, so "altered by later reads" is observable.
  * `packetsToChannel` is a labelled transition system: the producer goroutine is a program
    counter over atomic segments (`PC`), the consumer is the label `recv`, ctx cancellation
    the label `cancel`.  `select { case c <- p: … case <-ctx.Done(): … }` is the pair of
    labels `send` / `selCancel` (both enabled ⇒ either may happen, as in Go).
  * The 5 ms sleeps are timing only and are not modelled.
  * This is the code WITH proposed fix psrc-1 (NewZeroCopyPacketSource sets `zeroCopy`).
-/
namespace Gp.PSource

/-- gopacket.CaptureInfo: CaptureLength, Length; `tag` stands for Timestamp / InterfaceIndex /
    AncillaryData (opaque, only copied). -/
structure CapInfo where
  caplen : Int
  len    : Int
  tag    : Nat
  deriving DecidableEq, Repr, Inhabited

/-- The errors packetsToChannel treats as unrecoverable, in the order it tests them. -/
inductive TermKind where
  | eof | unexpectedEOF | noProgress | closedPipe | shortBuffer | ebadf | closedFile
  deriving DecidableEq, Repr, Inhabited

/-- What the code looks at in an error value: `errors.As(err,&net.Error) && Timeout()`, and
    which (if any) of the unrecoverable tests (`errors.Is … io.EOF …`, "use of closed file")
    succeeds.  Everything else about an error is irrelevant to the loop. -/
structure SrcErr where
  netTimeout : Bool
  term       : Option TermKind
  deriving DecidableEq, Repr, Inhabited

/-- One result of a data-source read. -/
inductive Ev where
  | pkt (d : Bytes) (ci : CapInfo)
  | err (e : SrcErr)
  deriving DecidableEq, Repr, Inhabited

/-- timeout: a net.Error whose Timeout() is true. -/
def Ev.timeout : Ev := .err ⟨true, none⟩
/-- temp: any other error that is not in the unrecoverable list (temporary net errors included). -/
def Ev.temp : Ev := .err ⟨false, none⟩
/-- terminal k: one of the unrecoverable errors. -/
def Ev.terminal (k : TermKind) : Ev := .err ⟨false, some k⟩

inductive Action where
  | retry | stop
  deriving DecidableEq, Repr

/-- packet.go:976-992 — the timeout test comes FIRST (an error that is both a timeout and
    wraps io.EOF is retried), then the unrecoverable list, otherwise sleep and retry. -/
def classify (e : SrcErr) : Action :=
  if e.netTimeout then .retry
  else if e.term.isSome then .stop
  else .retry

def Ev.isStop : Ev → Bool
  | .pkt _ _ => false
  | .err e => classify e == .stop

/-! ### memory -/

inductive Ref where
  | src               -- the data source's own (reused) buffer
  | own (i : Nat)     -- i-th allocated buffer
  deriving DecidableEq, Repr, Inhabited

structure Heap where
  src  : Bytes := []
  bufs : List Bytes := []
  deriving DecidableEq, Repr, Inhabited

def Heap.read (h : Heap) : Ref → Option Bytes
  | .src => some h.src
  | .own i => h.bufs[i]?

/-- make + copy: a fresh buffer holding `d`. -/
def Heap.alloc (h : Heap) (d : Bytes) : Heap × Ref :=
  ({ h with bufs := h.bufs ++ [d] }, .own h.bufs.length)

/-- A zero-copy read of `d` overwrites the first `|d|` bytes of the source buffer and leaves
    the rest as it was. -/
def overwrite (d old : Bytes) : Bytes := d ++ old.drop d.length

/-- What a decoded packet is for this property. `orig` is a ghost field: the bytes the
    packet was decoded from (not part of the Go value; used to state intactness). -/
structure Pkt where
  ref   : Ref
  len   : Nat
  orig  : Bytes
  ci    : CapInfo
  trunc : Bool
  deriving DecidableEq, Repr, Inhabited

/-- `packet.Data()` as seen NOW. -/
def view (h : Heap) (p : Pkt) : Option Bytes := (h.read p.ref).map (·.take p.len)

/-- The packet as the property speaks about it. -/
structure SPkt where
  data  : Bytes
  ci    : CapInfo
  trunc : Bool
  deriving DecidableEq, Repr, Inhabited

def Pkt.spec (p : Pkt) : SPkt := ⟨p.orig, p.ci, p.trunc⟩

/-! ### configuration -/

/-- A PacketSource value: which kind of read function it stores, the `zeroCopy` field, the
    one decode option that matters here (`NoCopy`; Lazy/Pool/… do not change any observable of
    this property), the channel capacity, and the decoder's own truncation verdict. -/
structure Cfg where
  reuse    : Bool            -- source is a ZeroCopyPacketDataSource (one reused buffer)
  zeroCopy : Bool            -- PacketSource.zeroCopy
  noCopy   : Bool            -- DecodeOptions.NoCopy
  cap      : Nat             -- cap(p.c)
  decTrunc : Bytes → Bool    -- did the decoder call SetTruncated()

/-- `const defaultPacketChannelSize = 1000` (function-local constant of PacketsCtx;
    tied by the `psrc cap` correspondence op). -/
def chanCap : Nat := 1000

/-- packet.go NewPacketSource. -/
def newPacketSource (noCopy : Bool) (dt : Bytes → Bool) : Cfg :=
  { reuse := false, zeroCopy := false, noCopy := noCopy, cap := chanCap, decTrunc := dt }

/-- packet.go NewZeroCopyPacketSource (with fix psrc-1: the flag is set). -/
def newZeroCopyPacketSource (noCopy : Bool) (dt : Bytes → Bool) : Cfg :=
  { reuse := true, zeroCopy := true, noCopy := noCopy, cap := chanCap, decTrunc := dt }

/-! ### NextPacket -/

/-- The data source returns packet bytes `d`. -/
def srcDeliver (reuse : Bool) (h : Heap) (d : Bytes) : Heap × Ref :=
  if reuse then ({ h with src := overwrite d h.src }, .src) else h.alloc d

/-- NewPacket's handling of the data slice: copy unless NoCopy. -/
def newPacketData (noCopy : Bool) (h : Heap) (r : Ref) (d : Bytes) : Heap × Ref :=
  if noCopy then (h, r) else h.alloc d

/-- Read of a packet event followed by NewPacket + metadata (packet.go:953-957). -/
def decode (cfg : Cfg) (h : Heap) (d : Bytes) (ci : CapInfo) : Heap × Pkt :=
  let (h1, r1) := srcDeliver cfg.reuse h d
  let (h2, r2) := newPacketData cfg.noCopy h1 r1 d
  (h2, { ref := r2, len := d.length, orig := d, ci := ci,
         trunc := cfg.decTrunc d || decide (ci.caplen < ci.len) })

structure Src where
  hist : List Ev
  heap : Heap := {}
  deriving Repr, Inhabited

inductive NP where
  | pkt (p : Pkt)
  | err (e : SrcErr)
  deriving DecidableEq, Repr, Inhabited

/-- PacketSource.NextPacket. `none`: the read does not return (history exhausted). -/
def nextPacket (cfg : Cfg) (s : Src) : Option (NP × Src) :=
  match s.hist with
  | [] => none
  | .err e :: h => some (.err e, { s with hist := h })
  | .pkt d ci :: h =>
    let (hp, p) := decode cfg s.heap d ci
    some (.pkt p, { hist := h, heap := hp })

/-- `n` successive NextPacket calls (stops early if a read does not return). -/
def pullN (cfg : Cfg) : Nat → Src → List NP × Src
  | 0, s => ([], s)
  | n + 1, s =>
    match nextPacket cfg s with
    | none => ([], s)
    | some (r, s1) => let (rs, s2) := pullN cfg n s1; (r :: rs, s2)

/-- What the property says the i-th pull must return. -/
inductive SRes where
  | pkt (p : SPkt)
  | err (e : SrcErr)
  deriving DecidableEq, Repr

def specOfEv (dt : Bytes → Bool) : Ev → SRes
  | .pkt d ci => .pkt ⟨d, ci, dt d || decide (ci.caplen < ci.len)⟩
  | .err e => .err e

def NP.spec : NP → SRes
  | .pkt p => .pkt p.spec
  | .err e => .err e

/-- The packets of a history, as the property speaks about them. -/
def specPkts (dt : Bytes → Bool) : List Ev → List SPkt
  | [] => []
  | .pkt d ci :: h => ⟨d, ci, dt d || decide (ci.caplen < ci.len)⟩ :: specPkts dt h
  | .err _ :: h => specPkts dt h

/-- Events strictly before the first one that stops packetsToChannel. -/
def upToStop : List Ev → List Ev
  | [] => []
  | ev :: h => if ev.isStop then [] else ev :: upToStop h

/-! ### ConcatFinitePacketDataSources -/

def SrcErr.isEOF (e : SrcErr) : Bool := e.term == some .eof
def Ev.isEOF : Ev → Bool
  | .pkt _ _ => false
  | .err e => e.isEOF

def eofEv : Ev := .terminal .eof

/-- concat.ReadPacketData (packet.go:799-809).  A *finite* inner source is the list of results
    it returns before it is exhausted; exhausted, it returns io.EOF.  The test is
    `errors.Is(err, io.EOF)`. -/
def concatRead : List (List Ev) → Ev × List (List Ev)
  | [] => (eofEv, [])
  | [] :: rest => concatRead rest
  | (ev :: s) :: rest => if ev.isEOF then concatRead rest else (ev, s :: rest)

def cutAtEOF : List Ev → List Ev
  | [] => []
  | ev :: h => if ev.isEOF then [] else ev :: cutAtEOF h

/-- The history of the concatenated source (followed by io.EOF forever). -/
def concatHist : List (List Ev) → List Ev
  | [] => []
  | s :: rest => cutAtEOF s ++ concatHist rest

def concatReadN : Nat → List (List Ev) → List Ev × List (List Ev)
  | 0, c => ([], c)
  | n + 1, c => let (ev, c1) := concatRead c; let (evs, c2) := concatReadN n c1; (ev :: evs, c2)

/-! ### packetsToChannel as a transition system -/

inductive PC where
  | check              -- at `for ctx.Err() == nil` (also after a sleep / after `continue`)
  | reading            -- inside p.NextPacket(): the data-source read is in progress
  | sending (p : Pkt)  -- at the select, holding packet p
  | closing            -- left the loop / returned: deferred close(p.c) is next
  | exited             -- goroutine gone
  deriving DecidableEq, Repr, Inhabited

structure St where
  hist      : List Ev            -- results the data source has yet to return
  past      : List Ev := []      -- ghost: results already returned, oldest first
  heap      : Heap := {}
  pc        : PC := .check
  chan      : List Pkt := []     -- buffered channel, oldest first
  closed    : Bool := false
  closes    : Nat := 0           -- ghost: number of close(p.c) executed
  cancelled : Bool := false      -- ctx.Err() != nil / ctx.Done() closed
  recvd     : List Pkt := []     -- ghost: everything the consumer(s) received, in order
  sawClose  : Bool := false      -- a receive returned "closed"
  dropped   : List Pkt := []     -- ghost: packets abandoned in the ctx.Done() branch of the select
  readsAfterCancel : Nat := 0    -- ghost: data-source reads that RETURNED after cancel
  deriving Repr, Inhabited

inductive Label where
  | check | readRet | send | selCancel | close   -- producer goroutine
  | recv                                        -- a consumer receives from the channel
  | cancel                                      -- the context is cancelled
  deriving DecidableEq, Repr

def Label.isProd : Label → Bool
  | .recv => false
  | .cancel => false
  | _ => true

def stepCheck (s : St) : Option St :=
  match s.pc with
  | .check => if s.cancelled then some { s with pc := .closing } else some { s with pc := .reading }
  | _ => none

def stepReadRet (cfg : Cfg) (s : St) : Option St :=
  match s.pc with
  | .reading =>
    match s.hist with
    | [] => none
    | ev :: h =>
      let rac := s.readsAfterCancel + (if s.cancelled then 1 else 0)
      match ev with
      | .pkt d ci =>
        let (hp, p) := decode cfg s.heap d ci
        some { s with hist := h, past := s.past ++ [ev], heap := hp, pc := .sending p, readsAfterCancel := rac }
      | .err e =>
        match classify e with
        | .retry => some { s with hist := h, past := s.past ++ [ev], pc := .check, readsAfterCancel := rac }
        | .stop => some { s with hist := h, past := s.past ++ [ev], pc := .closing, readsAfterCancel := rac }
  | _ => none

def stepSend (cfg : Cfg) (s : St) : Option St :=
  match s.pc with
  | .sending p => if s.chan.length < cfg.cap then some { s with chan := s.chan ++ [p], pc := .check } else none
  | _ => none

def stepSelCancel (s : St) : Option St :=
  match s.pc with
  | .sending p => if s.cancelled then some { s with dropped := s.dropped ++ [p], pc := .closing } else none
  | _ => none

def stepClose (s : St) : Option St :=
  match s.pc with
  | .closing => some { s with closed := true, closes := s.closes + 1, pc := .exited }
  | _ => none

def stepRecv (s : St) : Option St :=
  match s.chan with
  | p :: c => some { s with chan := c, recvd := s.recvd ++ [p] }
  | [] => if s.closed then some { s with sawClose := true } else none

def stepCancel (s : St) : Option St := some { s with cancelled := true }

def step (cfg : Cfg) (s : St) : Label → Option St
  | .check => stepCheck s
  | .readRet => stepReadRet cfg s
  | .send => stepSend cfg s
  | .selCancel => stepSelCancel s
  | .close => stepClose s
  | .recv => stepRecv s
  | .cancel => stepCancel s

/-- State right after `go p.packetsToChannel(ctx)`; `c0` = the context was already cancelled. -/
def init (h0 : List Ev) (c0 : Bool) : St := { hist := h0, cancelled := c0 }

/-- PacketsCtx (first call): the guard, then channel creation and goroutine start. -/
def packetsCtx (cfg : Cfg) (h0 : List Ev) (c0 : Bool) : Res St :=
  if cfg.noCopy && cfg.zeroCopy then .panic .explicit else .ok (init h0 c0)

inductive Reachable (cfg : Cfg) (s0 : St) : St → Prop where
  | refl : Reachable cfg s0 s0
  | step {s s' : St} (l : Label) : Reachable cfg s0 s → step cfg s l = some s' → Reachable cfg s0 s'

/-- The packet the producer holds at the select. -/
def inflight : PC → List Pkt
  | .sending p => [p]
  | _ => []

/-- Every packet decoded so far, in order. -/
def St.all (s : St) : List Pkt := s.recvd ++ s.chan ++ inflight s.pc ++ s.dropped

/-- Termination measure of the producer. -/
def pcRank : PC → Nat
  | .check => 2 | .reading => 1 | .sending _ => 3 | .closing => 1 | .exited => 0

def measure (s : St) : Nat := 4 * s.hist.length + pcRank s.pc

/-- Program counters inside the loop. -/
def running : PC → Bool
  | .check => true | .reading => true | .sending _ => true | .closing => false | .exited => false

def NoStop (l : List Ev) : Prop := ∀ ev ∈ l, ev.isStop = false

/-- Configurations in which a decoded packet does not alias a reused buffer. -/
def Stable (cfg : Cfg) : Prop := cfg.noCopy = false ∨ cfg.reuse = false

/-- Rank of the producer once the context is cancelled: at most 4 more producer steps
    (the read in progress returns; select; loop test; close). -/
def cancelRank : PC → Nat
  | .reading => 4 | .sending _ => 3 | .check => 2 | .closing => 1 | .exited => 0

/-- Run a list of labels (a schedule); `none` if some label is not enabled. -/
def runLabels (cfg : Cfg) : St → List Label → Option St
  | s, [] => some s
  | s, l :: ls => match step cfg s l with
    | none => none
    | some s' => runLabels cfg s' ls

/-- Consumer drains the channel: `n` receives. -/
def drain : Nat → St → Option St
  | 0, s => some s
  | n + 1, s => match stepRecv s with
    | none => none
    | some s' => drain n s'

/-! ### one fair schedule, for the driver (producer runs until it blocks) -/

/-- The producer's next step if any; at the select it prefers the send. -/
def prodStep (cfg : Cfg) (s : St) : Option St :=
  match s.pc with
  | .check => stepCheck s
  | .reading => stepReadRet cfg s
  | .sending _ => match stepSend cfg s with
    | some s' => some s'
    | none => stepSelCancel s
  | .closing => stepClose s
  | .exited => none

/-- Run the producer until it is at a read (before the read returns), blocked, or gone. -/
def prodUntilRead (cfg : Cfg) : Nat → St → St
  | 0, s => s
  | n + 1, s =>
    match s.pc with
    | .reading => s
    | _ => match prodStep cfg s with
      | none => s
      | some s' => prodUntilRead cfg n s'

end Gp.PSource
