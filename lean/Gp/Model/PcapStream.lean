import Gp.Go.Basic
/-
  Byte streams as seen through `io.ReadFull` (shared by the classic-pcap and snoop reader models).

  A `Stream` is what an `io.Reader` will deliver: the bytes `data`, and then a terminal
  condition that repeats for ever: `io.EOF` (`fail = false`) or some other read error
  (`fail = true`: an injected I/O error, a corrupt gzip member, ...).  How the bytes are split
  into individual `Read` calls is *not* part of the model (io.ReadFull / bufio hide it; the
  adapter explores chunkings at run time).
-/
namespace Gp.Pcap

structure Stream where
  data : Bytes
  fail : Bool
  deriving Repr, DecidableEq

/-- Outcome kinds of reader calls that did not produce a value. -/
inductive Stop where
  | eof     -- io.EOF
  | ueof    -- io.ErrUnexpectedEOF
  | ioerr   -- the underlying reader's own error
  deriving Repr, DecidableEq

/-- `io.ReadFull(r, buf)` with `len(buf) = n`. -/
inductive Rd where
  | got  (b : Bytes) (s : Stream)
  | stop (k : Stop) (s : Stream)
  deriving Repr, DecidableEq

/-- The stream after a failed read: everything was consumed, the terminal condition stays. -/
def Stream.drained (s : Stream) : Stream := { s with data := [] }

/-- io.ReadFull: `n = 0` succeeds without reading; enough bytes → exactly `n` bytes;
    otherwise all remaining bytes are consumed and the result is the stream's own error,
    `io.EOF` when nothing at all was read, `io.ErrUnexpectedEOF` after a partial read. -/
def readFull (s : Stream) (n : Nat) : Rd :=
  if n = 0 then .got [] s
  else if n ≤ s.data.length then .got (s.data.take n) { s with data := s.data.drop n }
  else .stop (if s.fail then .ioerr else if s.data.length = 0 then .eof else .ueof) s.drained

/-- `io.CopyN(io.Discard, r, n)` followed by the `io.EOF → io.ErrUnexpectedEOF` mapping of
    the (fixed) snoop reader's `skipPad`: `none` = all `n` bytes were skipped. -/
def skip (s : Stream) (n : Nat) : Option Stop × Stream :=
  if n ≤ s.data.length then (none, { s with data := s.data.drop n })
  else (some (if s.fail then .ioerr else .ueof), s.drained)

theorem readFull_got {s s' : Stream} {n : Nat} {b : Bytes} (h : readFull s n = .got b s') :
    s'.data.length + n = s.data.length ∧ b.length = n ∧ s'.fail = s.fail := by
  unfold readFull at h
  split at h
  · cases h; simp_all
  · split at h
    · cases h; simp; omega
    · cases h

theorem readFull_stop {s s' : Stream} {n : Nat} {k : Stop} (h : readFull s n = .stop k s') :
    s'.data = [] ∧ s'.fail = s.fail := by
  unfold readFull at h
  split at h
  · cases h
  · split at h
    · cases h
    · cases h; simp [Stream.drained]

/-- little-endian / big-endian 32 and 16 bit reads (encoding/binary). -/
def rd32 (be : Bool) (a b c d : UInt8) : Nat := if be then be32 a b c d else be32 d c b a
def rd16 (be : Bool) (a b : UInt8) : Nat := if be then be16 a b else be16 b a

/-- `time.Unix(sec, nsec)` normalises `nsec ≥ 10^9` into the seconds; we keep the canonical
    pair (`Unix()`, `Nanosecond()`). -/
def normTime (sec nsec : Nat) : Nat × Nat :=
  ((sec * 1000000000 + nsec) / 1000000000, (sec * 1000000000 + nsec) % 1000000000)

end Gp.Pcap
