import Gp.Go.Basic
import Gp.Gen.Effects
/-
  C02 — memory-effect model (DESIGN §3.2 "slices carry capacity", §3.4 "heap and effects",
  §3.6 "the model's per-segment effect logs are what is checked for conflicts").

  * a heap of byte buffers; a buffer is named either in the SHARED heap (reachable by every
    goroutine: the caller's input, a pool block, the data buffer and the layer objects of a packet
    that has been handed to several goroutines) or in the PRIVATE heap of the running goroutine
    (the result of a `make`/growing `append` that is never published);
  * Go slices `(buf, off, len, cap)`; `s[a:b]`, `s[a:b:c]` check the CAPACITY;
  * programs (`Prog`) are trees of memory operations: read a region, write bytes, allocate; the
    continuation receives what was read, so a program's answer is a function of what it reads;
  * `run` executes a program alone and returns answer, final heap and the EFFECT LOG;
  * `Sys.exec` executes any number of programs under an arbitrary schedule, one memory operation
    at a time (the granularity at which the Go memory model defines conflicts);
  * transcriptions of the code: `goAppend` (append(x, y...)), `newPacketData` (packet.go NewPacket,
    the three ways the packet gets its bytes), `split` (Contents = data[:h], Payload = data[h:e]),
    `pseudoheader` (layers/tcpip.go), `verify` (the five VerifyChecksum functions), and the
    read-only accessors of an eager packet.

  The shape of the two places where verification touches memory is NOT hand-written: `currentFacts`
  takes it from `Gp/Gen/Effects.lean`, regenerated from the source on every run (x-effects).
  Core Lean only.
-/
namespace Gp.Effects
open Gp

/-! ## Buffers, regions, slices -/

inductive Buf where
  | shared (i : Nat)
  | priv (i : Nat)
  deriving DecidableEq, Repr, Inhabited

def Buf.isShared : Buf → Bool
  | .shared _ => true
  | .priv _ => false

/-- `len` bytes starting at `off` inside buffer `buf`. -/
structure Region where
  buf : Buf
  off : Nat
  len : Nat
  deriving DecidableEq, Repr, Inhabited

/-- Two regions share at least one byte. -/
def Region.overlaps (a b : Region) : Prop :=
  a.buf = b.buf ∧ 0 < a.len ∧ 0 < b.len ∧ a.off < b.off + b.len ∧ b.off < a.off + a.len

instance (a b : Region) : Decidable (a.overlaps b) := by
  unfold Region.overlaps; exact inferInstance

/-- `a` lies inside `b`. -/
def Region.within (a b : Region) : Prop :=
  a.buf = b.buf ∧ b.off ≤ a.off ∧ a.off + a.len ≤ b.off + b.len

instance (a b : Region) : Decidable (a.within b) := by
  unfold Region.within; exact inferInstance

/-- A Go slice header. -/
structure Slice where
  buf : Buf
  off : Nat
  len : Nat
  cap : Nat
  deriving DecidableEq, Repr, Inhabited

/-- The bytes `s[0:len(s)]`. -/
def Slice.region (s : Slice) : Region := ⟨s.buf, s.off, s.len⟩
/-- Everything reachable through the slice: `s[0:cap(s)]`. -/
def Slice.capRegion (s : Slice) : Region := ⟨s.buf, s.off, s.cap⟩

/-- Go `s[a:b]`: panics iff `¬(a ≤ b ∧ b ≤ cap(s))` — the capacity, not the length. -/
def Slice.slice (s : Slice) (a b : Nat) : Res Slice :=
  if a ≤ b ∧ b ≤ s.cap then .ok ⟨s.buf, s.off + a, b - a, s.cap - a⟩ else .panic .slice

/-- Go `s[a:b:c]` (full slice expression): the result has capacity `c - a`. -/
def Slice.slice3 (s : Slice) (a b c : Nat) : Res Slice :=
  if a ≤ b ∧ b ≤ c ∧ c ≤ s.cap then .ok ⟨s.buf, s.off + a, b - a, c - a⟩ else .panic .slice

/-- `s[:len(s):len(s)]` for a slice with `len ≤ cap` (see `slice3_self`). -/
def Slice.capToLen (s : Slice) : Slice := { s with cap := s.len }

/-! ## Effects -/

inductive Access where
  | read (r : Region)
  | write (r : Region)
  | alloc (b : Buf) (n : Nat)
  deriving DecidableEq, Repr, Inhabited

abbrev Log := List Access

def Access.isWrite : Access → Bool
  | .write _ => true
  | _ => false

/-- The memory an access touches (an allocation touches nothing that anyone else can see). -/
def Access.touches : Access → Option Region
  | .read r => some r
  | .write r => some r
  | .alloc _ _ => none

/-- Go memory model: two accesses CONFLICT when they touch a common location of memory that both
    goroutines can reach and at least one of them is a write.  (Private buffers of different
    goroutines are different memory even when their private names coincide.) -/
def conflict (a b : Access) : Prop :=
  match a.touches, b.touches with
  | some ra, some rb => ra.buf.isShared = true ∧ ra.overlaps rb ∧ (a.isWrite = true ∨ b.isWrite = true)
  | _, _ => False

instance (a b : Access) : Decidable (conflict a b) := by
  unfold conflict; split <;> exact inferInstance

/-- The regions written by a log. -/
def writesOf : Log → List Region
  | [] => []
  | .write r :: l => r :: writesOf l
  | _ :: l => writesOf l

/-- The regions read by a log. -/
def readsOf : Log → List Region
  | [] => []
  | .read r :: l => r :: readsOf l
  | _ :: l => readsOf l

/-! ## Memory -/

/-- Buffers by index.  Reads and writes are total functions on lists; every modelled program is
    proved to stay inside its buffers (`Lemmas/Effects: …_inBounds`), so the clipping behaviour of
    `take`/`drop` outside a buffer is never exercised. -/
abbrev Mem := List Bytes

def Mem.size (m : Mem) (i : Nat) : Nat := (m.getD i []).length

def Mem.read (m : Mem) (i off len : Nat) : Bytes := ((m.getD i []).drop off).take len

/-- Overwrite `bs.length` bytes of `b` starting at `off`. -/
def splice (b : Bytes) (off : Nat) (bs : Bytes) : Bytes :=
  b.take off ++ bs ++ b.drop (off + bs.length)

def Mem.write (m : Mem) (i off : Nat) (bs : Bytes) : Mem :=
  m.set i (splice (m.getD i []) off bs)

structure Heap where
  shared : Mem
  priv : Mem
  deriving Repr, Inhabited

def Heap.size (h : Heap) : Buf → Nat
  | .shared i => h.shared.size i
  | .priv i => h.priv.size i

def Heap.read (h : Heap) (r : Region) : Bytes :=
  match r.buf with
  | .shared i => h.shared.read i r.off r.len
  | .priv i => h.priv.read i r.off r.len

def Heap.write (h : Heap) (b : Buf) (off : Nat) (bs : Bytes) : Heap :=
  match b with
  | .shared i => { h with shared := h.shared.write i off bs }
  | .priv i => { h with priv := h.priv.write i off bs }

/-- `make([]byte, n)`: a fresh zeroed buffer in the goroutine's private heap. -/
def Heap.alloc (h : Heap) (n : Nat) : Heap × Buf :=
  ({ h with priv := h.priv ++ [List.replicate n 0] }, .priv h.priv.length)

/-- The buffer exists in the heap. -/
def Heap.has (h : Heap) : Buf → Prop
  | .shared i => i < h.shared.length
  | .priv i => i < h.priv.length

/-- The region lies inside an existing buffer. -/
def Region.inBounds (r : Region) (h : Heap) : Prop := r.off + r.len ≤ h.size r.buf

/-- A well-formed slice of heap `h`: `len ≤ cap` and `[off, off+cap)` inside the buffer. -/
def Slice.wf (s : Slice) (h : Heap) : Prop := s.len ≤ s.cap ∧ s.off + s.cap ≤ h.size s.buf

instance (h : Heap) (b : Buf) : Decidable (h.has b) := by
  cases b <;> unfold Heap.has <;> exact inferInstance

instance (r : Region) (h : Heap) : Decidable (r.inBounds h) := by
  unfold Region.inBounds; exact inferInstance

instance (s : Slice) (h : Heap) : Decidable (s.wf h) := by
  unfold Slice.wf; exact inferInstance

/-! ## Programs -/

/-- A deterministic program over memory.  `read r k`: load the bytes of `r` and continue with
    `k bytes`; `write b off bs k`: store `bs` at `[off, off+|bs|)` of `b`; `alloc n k`: `make`. -/
inductive Prog (α : Type) where
  | done (a : α)
  | read (r : Region) (k : Bytes → Prog α)
  | write (b : Buf) (off : Nat) (bs : Bytes) (k : Prog α)
  | alloc (n : Nat) (k : Buf → Prog α)

namespace Prog

def bind {α β : Type} : Prog α → (α → Prog β) → Prog β
  | .done a, f => f a
  | .read r k, f => .read r (fun bs => (k bs).bind f)
  | .write b off bs k, f => .write b off bs (k.bind f)
  | .alloc n k, f => .alloc n (fun b => (k b).bind f)

/-- Run a program alone: answer, final heap, effect log. -/
def run {α : Type} : Prog α → Heap → α × Heap × Log
  | .done a, h => (a, h, [])
  | .read r k, h =>
      let x := (k (h.read r)).run h
      (x.1, x.2.1, .read r :: x.2.2)
  | .write b off bs k, h =>
      let x := k.run (h.write b off bs)
      (x.1, x.2.1, .write ⟨b, off, bs.length⟩ :: x.2.2)
  | .alloc n k, h =>
      let x := (k (h.alloc n).2).run (h.alloc n).1
      (x.1, x.2.1, .alloc (h.alloc n).2 n :: x.2.2)

def answer {α : Type} (p : Prog α) (h : Heap) : α := (p.run h).1
def final {α : Type} (p : Prog α) (h : Heap) : Heap := (p.run h).2.1
def log {α : Type} (p : Prog α) (h : Heap) : Log := (p.run h).2.2

/-- Sequence: run the programs one after the other and collect the answers. -/
def seq {α : Type} : List (Prog α) → Prog (List α)
  | [] => .done []
  | p :: ps => p.bind fun a => (seq ps).bind fun as => .done (a :: as)

end Prog

/-- Read several regions in order; the answer is what was read. -/
def readAll : List Region → Prog (List Bytes)
  | [] => .done []
  | r :: rs => .read r fun bs => (readAll rs).bind fun rest => .done (bs :: rest)

/-- The program writes nothing into shared memory when run alone from `(sh, pv)`. -/
def ROFrom {α : Type} (p : Prog α) (sh pv : Mem) : Prop :=
  ∀ r ∈ writesOf (p.log ⟨sh, pv⟩), r.buf.isShared = false

/-- Read-only on shared memory, whatever the goroutine's private heap holds. -/
def RO {α : Type} (p : Prog α) (sh : Mem) : Prop := ∀ pv, ROFrom p sh pv

/-! ## Goroutines under an arbitrary schedule -/

structure Thread (α : Type) where
  prog : Prog α
  priv : Mem

structure Sys (α : Type) where
  shared : Mem
  threads : List (Thread α)

/-- One memory operation of a goroutine: new shared heap, new thread state, the access. -/
def Thread.step {α : Type} (sh : Mem) (t : Thread α) : Option (Mem × Thread α × Access) :=
  match t.prog with
  | .done _ => none
  | .read r k => some (sh, ⟨k ((Heap.mk sh t.priv).read r), t.priv⟩, .read r)
  | .write b off bs k =>
      let h := (Heap.mk sh t.priv).write b off bs
      some (h.shared, ⟨k, h.priv⟩, .write ⟨b, off, bs.length⟩)
  | .alloc n k =>
      let x := (Heap.mk sh t.priv).alloc n
      some (x.1.shared, ⟨k x.2, x.1.priv⟩, .alloc x.2 n)

/-- Let goroutine `i` perform its next memory operation (nothing happens if it has finished or
    does not exist). -/
def Sys.step {α : Type} (s : Sys α) (i : Nat) : Sys α × Option (Nat × Access) :=
  match s.threads[i]? with
  | none => (s, none)
  | some t =>
    match t.step s.shared with
    | none => (s, none)
    | some (sh', t', a) => (⟨sh', s.threads.set i t'⟩, some (i, a))

/-- Execute a schedule (a list of goroutine indices); returns the final state and the trace of
    `(goroutine, access)` events in execution order. -/
def Sys.exec {α : Type} (s : Sys α) : List Nat → Sys α × List (Nat × Access)
  | [] => (s, [])
  | i :: is =>
      let x := s.step i
      let y := x.1.exec is
      (y.1, x.2.toList ++ y.2)

/-- What each goroutine would answer if, from here on, it ran alone. -/
def Sys.answers {α : Type} (s : Sys α) : List α :=
  s.threads.map fun t => t.prog.answer ⟨s.shared, t.priv⟩

/-- `some a` when goroutine `i` has finished with answer `a`. -/
def Sys.finished {α : Type} (s : Sys α) (i : Nat) : Option α :=
  match s.threads[i]? with
  | some ⟨.done a, _⟩ => some a
  | _ => none

/-- No two events of different goroutines conflict. -/
def NoConflict (tr : List (Nat × Access)) : Prop :=
  ∀ e₁ ∈ tr, ∀ e₂ ∈ tr, e₁.1 ≠ e₂.1 → ¬ conflict e₁.2 e₂.2

/-- Executable version (used for the concrete counterexamples). -/
def hasConflict (tr : List (Nat × Access)) : Bool :=
  tr.any fun e₁ => tr.any fun e₂ => decide (e₁.1 ≠ e₂.1) && decide (conflict e₁.2 e₂.2)

/-- Start every program with an empty private heap. -/
def Sys.start {α : Type} (sh : Mem) (ps : List (Prog α)) : Sys α :=
  ⟨sh, ps.map fun p => ⟨p, []⟩⟩

/-! ## Transcriptions -/

/-- Go `append(x, y...)` on byte slices.  Nothing to add: returns `x`, touches nothing.  Enough
    capacity: copies `y` IN PLACE into `x`'s backing array at `[off+len, off+len+|y|)` (memmove:
    source read completely, then stored).  Otherwise: allocates `len+|y|+slack` bytes (`slack` is
    the runtime's size-class rounding, arbitrary), copies both parts there. -/
def goAppend (x y : Slice) (slack : Nat) : Prog Slice :=
  if y.len = 0 then .done x
  else if x.len + y.len ≤ x.cap then
    .read y.region fun ys =>
      .write x.buf (x.off + x.len) ys (.done { x with len := x.len + y.len })
  else
    .alloc (x.len + y.len + slack) fun b =>
      .read x.region fun xs => .write b 0 xs
        (.read y.region fun ys => .write b x.len ys
          (.done ⟨b, 0, x.len + y.len, x.len + y.len + slack⟩))

/-- The decode options that decide where the packet's bytes live (packet.go DecodeOptions). -/
structure Opts where
  noCopy : Bool
  pool : Bool
  deriving DecidableEq, Repr

/-- packet.go NewPacket, lines up to the construction of the packet: `NoCopy` keeps the caller's
    slice (with the caller's capacity); `Pool` and `len ≤ maximumMTU` copies into `blk[:len]`
    where `blk` is the block handed out by the pool (any block: the theorems quantify over it),
    capacity `maximumMTU`; otherwise `make([]byte, len)` + copy, capacity = length. -/
def newPacketData (input : Slice) (o : Opts) (blk : Buf) : Prog Slice :=
  if o.noCopy then .done input
  else if o.pool ∧ input.len ≤ Gp.Gen.Effects.maximumMTU then
    .read input.region fun bs =>
      .write blk 0 bs (.done ⟨blk, 0, input.len, Gp.Gen.Effects.maximumMTU⟩)
  else
    .alloc input.len fun b =>
      .read input.region fun bs => .write b 0 bs (.done ⟨b, 0, input.len, input.len⟩)

/-- How the modelled decoders cut a layer out of their input `data`:
    `Contents = data[:h]`, `Payload = data[h:e]`
    (TCP `h = dataOffset*4, e = len`; UDP `h = 8, e = min(Length, len)`; ICMPv4 `h = 8`;
    ICMPv6 `h = 4`; GRE `h = offset`, `e = len`).  Both results keep the capacity of `data`
    minus their start: they reach to the end of the packet buffer. -/
def split (data : Slice) (h e : Nat) : Res (Slice × Slice) :=
  match data.slice 0 h, data.slice h e with
  | .ok c, .ok p => .ok (c, p)
  | _, _ => .panic .slice

inductive VKind where
  | tcp | udp | icmp4 | icmp6 | gre
  deriving DecidableEq, Repr

/-- TCP, UDP and ICMPv6 checksums cover a pseudo-header taken from the network layer. -/
def VKind.usesPseudo : VKind → Bool
  | .tcp | .udp | .icmp6 => true
  | .icmp4 | .gre => false

inductive NetKind where
  | ip4 | ip6
  deriving DecidableEq, Repr

/-- The network layer a transport layer was told to use (SetNetworkLayerForChecksum): the layer
    OBJECT `obj` (a Go struct, shared with the packet) and the address bytes `src`, `dst`, which
    are sub-slices of the packet data.  The slice headers of the fields SrcIP and DstIP occupy
    `[0,24)` and `[24,48)` of the object (the layout is immaterial; only identity matters). -/
structure NetView where
  kind : NetKind
  obj : Buf
  src : Region
  dst : Region
  deriving Repr

def NetView.hdrSrc (n : NetView) : Region := ⟨n.obj, 0, 24⟩
def NetView.hdrDst (n : NetView) : Region := ⟨n.obj, 24, 24⟩

/-- What the source says NOW about the two places where verification may write
    (regenerated: `Gp/Gen/Effects.lean`). -/
structure Facts where
  appendDst : Gp.Gen.Effects.AppendDst
  ip4PseudoWrites : Bool
  ip6PseudoWrites : Bool
  deriving Repr

def Facts.pseudoWrites (F : Facts) : NetKind → Bool
  | .ip4 => F.ip4PseudoWrites
  | .ip6 => F.ip6PseudoWrites

/-- The code as it was found: `append(l.Contents, l.Payload...)`, IPv4 pseudo-header through
    `AddressTo4` (which assigns `ip.SrcIP`, `ip.DstIP`). -/
def asWritten : Facts := ⟨.plain, true, false⟩
/-- With proposed_fixes/c02-1 and c02-2. -/
def asFixed : Facts := ⟨.capped, false, false⟩

/-- `bytes := append(X, l.Payload...)`. -/
def concat (d : Gp.Gen.Effects.AppendDst) (c p : Slice) (slack : Nat) : Prog Slice :=
  match d with
  | .capped => goAppend c.capToLen p slack
  | .plain => goAppend c p slack
  | .unknown => goAppend c p slack

/-- layers/tcpip.go pseudoheaderChecksum: load the two address slice headers (length checks of
    AddressTo4/AddressTo16), [as written for IPv4: store them back], load the address bytes. -/
def pseudoheader (writesBack : Bool) (n : NetView) : Prog (List Bytes) :=
  .read n.hdrSrc fun hs => .read n.hdrDst fun hd =>
    if writesBack then
      .write n.obj 0 hs (.write n.obj 24 hd
        (.read n.src fun s => .read n.dst fun d => .done [s, d]))
    else
      .read n.src fun s => .read n.dst fun d => .done [s, d]

/-- A decoded layer with a checksum, as far as verification is concerned. -/
structure LayerView where
  kind : VKind
  contents : Slice
  payload : Slice
  net : Option NetView
  deriving Repr

/-- `l.VerifyChecksum()` for the five layers of the anchor list.  Answer: `none` = error
    ("checksum cannot be computed without network layer"), otherwise everything the checksum is
    computed from (pseudo-header addresses, header+payload bytes) — the real result
    `{Valid, Correct, Actual}` is a function of these bytes and of immutable fields. -/
def verify (F : Facts) (L : LayerView) (slack : Nat) : Prog (Option (List Bytes)) :=
  (concat F.appendDst L.contents L.payload slack).bind fun bytes =>
    if L.kind.usesPseudo then
      match L.net with
      | none => .done none
      | some n =>
        (pseudoheader (F.pseudoWrites n.kind) n).bind fun ps =>
          .read bytes.region fun bs => .done (some (ps ++ [bs]))
    else
      .read bytes.region fun bs => .done (some [bs])

/-- The facts of the CURRENT source, per verification site. -/
def currentFacts : VKind → Facts
  | .tcp => ⟨Gp.Gen.Effects.tcpVerifyAppend, Gp.Gen.Effects.ip4PseudoWritesLayer, Gp.Gen.Effects.ip6PseudoWritesLayer⟩
  | .udp => ⟨Gp.Gen.Effects.udpVerifyAppend, Gp.Gen.Effects.ip4PseudoWritesLayer, Gp.Gen.Effects.ip6PseudoWritesLayer⟩
  | .icmp4 => ⟨Gp.Gen.Effects.icmp4VerifyAppend, Gp.Gen.Effects.ip4PseudoWritesLayer, Gp.Gen.Effects.ip6PseudoWritesLayer⟩
  | .icmp6 => ⟨Gp.Gen.Effects.icmp6VerifyAppend, Gp.Gen.Effects.ip4PseudoWritesLayer, Gp.Gen.Effects.ip6PseudoWritesLayer⟩
  | .gre => ⟨Gp.Gen.Effects.greVerifyAppend, Gp.Gen.Effects.ip4PseudoWritesLayer, Gp.Gen.Effects.ip6PseudoWritesLayer⟩

/-! ## An eager packet and its accessors -/

/-- A layer of a decoded packet: the layer object, its Contents/Payload slices (into the packet
    data), and its verification view if the layer type has a checksum of the anchored kind
    (IPv4's own header checksum only reads `Contents`: `plainChecksum`). -/
structure LayerObj where
  obj : Region
  contents : Slice
  payload : Slice
  verifiable : Option LayerView
  plainChecksum : Bool
  deriving Repr

/-- A fully decoded (eager) packet: the packet object (data slice header, layer list, the five
    special-layer pointers, metadata), its data, its layers. -/
structure PacketView where
  obj : Region
  data : Slice
  layers : List LayerObj
  deriving Repr

inductive Accessor where
  | layers | layer (t : Nat) | layerClass (c : Nat)
  | linkLayer | networkLayer | transportLayer | applicationLayer | errorLayer
  | data | metadata
  | layerContents (i : Nat) | layerPayload (i : Nat) | flow (i : Nat)
  | string | dump | layerString (i : Nat) | layerDump (i : Nat)
  | verifyChecksum (i : Nat) | verifyChecksums
  deriving DecidableEq, Repr

def LayerObj.allRegions (l : LayerObj) : List Region := [l.obj, l.contents.region, l.payload.region]

/-- `l.VerifyChecksum()` of layer `l` under facts `F`: `none` = error; a layer without checksum
    answers `some []` (it is skipped by `VerifyChecksums`). -/
def LayerObj.verifyProg (F : VKind → Facts) (slack : Nat) (l : LayerObj) : Prog (Option (List Bytes)) :=
  match l.verifiable with
  | some L => verify (F L.kind) L slack
  | none => if l.plainChecksum then (readAll [l.obj, l.contents.region]).bind fun a => .done (some a) else .done (some [])

/-- packet.go VerifyChecksums: the layers in order, stopping at the first error. -/
def verifyAll (F : VKind → Facts) (slack : Nat) : List LayerObj → Prog (Option (List Bytes))
  | [] => .done (some [])
  | l :: ls =>
    (l.verifyProg F slack).bind fun r =>
      match r with
      | none => .done none
      | some a => (verifyAll F slack ls).bind fun rest => .done (rest.map (a ++ ·))

/-- The accessors of packet.go's eagerPacket (lines 494-559) and the rendering / verification
    entry points, as programs over memory.  Every answer is (a function of) what was read.
    `Layer(t)`, `LayerClass(c)` walk the layer list inside the packet object and call the constant
    method `LayerType()`; the special-layer getters and `Metadata()`/`Data()` load one field;
    `String`/`Dump`/`LayerString`/`LayerDump` load every field of every layer (reflection) and
    the bytes; flows load the address bytes inside `Contents`. -/
def accessor (F : VKind → Facts) (slack : Nat) (p : PacketView) : Accessor → Prog (List Bytes)
  | .layers | .layer _ | .layerClass _ | .linkLayer | .networkLayer | .transportLayer
  | .applicationLayer | .errorLayer | .data | .metadata => readAll [p.obj]
  | .layerContents i | .layerPayload i =>
      match p.layers[i]? with
      | some l => readAll [p.obj, l.obj]
      | none => readAll [p.obj]
  | .flow i =>
      match p.layers[i]? with
      | some l => readAll [p.obj, l.obj, l.contents.region]
      | none => readAll [p.obj]
  | .string | .dump => readAll (p.obj :: p.data.region :: p.layers.flatMap LayerObj.allRegions)
  | .layerString i | .layerDump i =>
      match p.layers[i]? with
      | some l => readAll (p.obj :: l.allRegions)
      | none => readAll [p.obj]
  | .verifyChecksum i =>
      match p.layers[i]? with
      | some l => (readAll [p.obj]).bind fun a => (l.verifyProg F slack).bind fun b => .done (a ++ b.getD [])
      | none => readAll [p.obj]
  | .verifyChecksums =>
      (readAll [p.obj]).bind fun a => (verifyAll F slack p.layers).bind fun b => .done (a ++ b.getD [])

/-- A reader goroutine: any sequence of accessor calls. -/
def reader (F : VKind → Facts) (slack : Nat) (p : PacketView) (as : List Accessor) : Prog (List (List Bytes)) :=
  Prog.seq (as.map (accessor F slack p))

end Gp.Effects
