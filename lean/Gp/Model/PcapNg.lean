import Gp.Model.PcapNgProg
/-
  Executable model of the pcapng READER of /repo/pcapgo (ngread.go, ngread_nrb.go,
  ngread_dsb.go, pcapng.go) — with the proposed fixes pcapng-1 … pcapng-6 applied
  (see /verif/proposed_fixes and notes/pcapng.md) — written in the `Prog` language of
  Gp/Model/PcapNgProg.lean.  Each definition names the Go function (or the stretch of a Go function
  between two reads of the stream) it models: the reader alternates between stream primitives and
  pure steps on its state, `Act α = S → Except Err α × S`.
-/
namespace Gp.PcapNg
open Gp.Gen.PcapNg

abbrev Act (α : Type) := S → Except Err α × S

/-! ## Blocks and options -/

/-- readBlock, after the first 8 bytes: block type (in the current byte order) -/
def blockTypeStep (h : Bytes) : Act Bool := fun s =>
  let typ := getU s.be (h.take 4)
  (.ok (typ = ngBlockTypeSectionHeader), { s with blkTyp := typ })

/-- readBlock, section header: byte order magic `m`, then the remaining length -/
def blockMagicStep (h m : Bytes) : Act Unit := fun s =>
  if beNat m = ngByteOrderMagic then
    (.ok (), { s with be := true, blkLen := sub32 (sub32 (getU true (h.drop 4)) 8) 4 })
  else if leNat m = ngByteOrderMagic then
    (.ok (), { s with be := false, blkLen := sub32 (sub32 (getU false (h.drop 4)) 8) 4 })
  else (.error .err, s)

/-- readBlock -/
def readBlock : Prog Unit := do
  let h ← Prog.io (.rd0 8)
  let isSHB ← Prog.act (blockTypeStep h)
  if isSHB then
    let m ← rd 4
    Prog.act (blockMagicStep h m)
  else
    modS fun s => { s with blkLen := sub32 (getU s.be (h.drop 4)) 8 }

/-- readOption before reading: no space left for options ⇒ fake an end-of-options -/
def optStartStep : Act Bool := fun s =>
  if s.blkLen = 4 then (.ok false, { s with optCode := ngOptionCodeEndOfOptions }) else (.ok true, s)

/-- readOption after the 4 byte option header: `some length` = a value of that length follows -/
def optHeadStep (h : Bytes) : Act (Option Nat) := fun s =>
  let s := { s with blkLen := sub32 s.blkLen 4 }
  let code := getU s.be (h.take 2)
  let length := getU s.be (h.drop 2)
  let s := { s with optCode := code }
  if code = ngOptionCodeEndOfOptions then
    if length ≠ 0 then (.error .err, s) else (.ok none, s)
  else if length ≠ 0 then (.ok (some length), s)
  else (.ok none, { s with optVal := [] })      -- fix pcapng-2: a zero-length option has an empty value

/-- readOption -/
def readOption : Prog Unit := do
  let more ← Prog.act optStartStep
  if more then
    let h ← rd 4
    let r ← Prog.act (optHeadStep h)
    match r with
    | some length =>
      let v ← Prog.io (.rdOpt length)
      modS fun s => { s with optVal := v }
      let padding := length % 4
      if padding > 0 then discard (4 - padding) else pure ()
      decBlk length
    | none => pure ()
  else pure ()

/-- the `switch r.currentOption.code` of an option loop: end-of-options ends the loop -/
def optSwitch (handle : Nat → Bytes → Act Unit) : Act (Step Unit) := fun s =>
  if s.optCode = ngOptionCodeEndOfOptions then (.ok (.done ()), s)
  else
    match handle s.optCode s.optVal s with
    | (.ok _, s') => (.ok .again, s')
    | (.error e, s') => (.error e, s')

/-- `for { readOption(); switch code { case EndOfOptions: break; … } }` -/
def optLoop (handle : Nat → Bytes → Act Unit) : Prog Unit :=
  Prog.iter (do
    readOption
    Prog.act (optSwitch handle))

/-- section header options -/
def shbHandle (code : Nat) (v : Bytes) : Act Unit := fun s =>
  if code = ngOptionCodeComment then (.ok (), { s with curSec := { s.curSec with comment := v } })
  else if code = ngOptionCodeHardware then (.ok (), { s with curSec := { s.curSec with hardware := v } })
  else if code = ngOptionCodeOS then (.ok (), { s with curSec := { s.curSec with os := v } })
  else if code = ngOptionCodeUserApplication then (.ok (), { s with curSec := { s.curSec with app := v } })
  else (.ok (), s)

/-- interface description options (with fix pcapng-1: length checks) -/
def idbHandle (code : Nat) (v : Bytes) : Act Unit := fun s =>
  if code = ngOptionCodeInterfaceName then (.ok (), { s with curIf := { s.curIf with name := v } })
  else if code = ngOptionCodeComment then (.ok (), { s with curIf := { s.curIf with comment := v } })
  else if code = ngOptionCodeInterfaceDescription then (.ok (), { s with curIf := { s.curIf with descr := v } })
  else if code = ngOptionCodeInterfaceFilter then
    if v.length < 1 then (.error .err, s)
    else (.ok (), { s with curIf := { s.curIf with filter := v.drop 1 } })
  else if code = ngOptionCodeInterfaceOS then (.ok (), { s with curIf := { s.curIf with os := v } })
  else if code = ngOptionCodeInterfaceTimestampOffset then
    if v.length < 8 then (.error .err, s)
    else (.ok (), { s with curIf := { s.curIf with tsoff := getU s.be (v.take 8) } })
  else if code = ngOptionCodeInterfaceTimestampResolution then
    if v.length < 1 then (.error .err, s)
    else (.ok (), { s with curIf := { s.curIf with tsres := leNat (v.take 1) } })
  else (.ok (), s)

/-- `intf.secondMask *= 10` exponent times, in uint64 -/
def pow10u64 : Nat → Nat
  | 0 => 1
  | e + 1 => (pow10u64 e * 10) % two64

/-- NgResolution.Binary() -/
def resBinary (r : Nat) : Bool := r / 128 % 2 = 1

/-- NgResolution.Exponent() (generated) -/
def resExp (r : Nat) : Nat := (resExponent (Int.ofNat r)).toNat

def finishIface (i : Iface) (tsres secondMask scaleUp scaleDown : Nat) : Iface :=
  { i with tsres := tsres, secondMask := secondMask, scaleUp := scaleUp, scaleDown := scaleDown }

/-- readInterfaceDescriptor after the options: default resolution, secondMask / scaleUp / scaleDown, append
    (with fix pcapng-3: resolutions that do not fit into 64 bit are an error) -/
def idbFinishStep : Act Unit := fun s =>
  let intf := s.curIf
  let tsres := if intf.tsres = 0 then 6 else intf.tsres
  let e := resExp tsres
  if (resBinary tsres && decide (e > 63)) || (!resBinary tsres && decide (e > 19)) then (.error .err, s)
  else
    let secondMask := if resBinary tsres then (2 ^ e) % two64 else pow10u64 e
    if secondMask < 1000000000 then
      if secondMask = 0 then (.error (.panic .divZero), s)
      else (.ok (), { s with ifaces := s.ifaces ++ [finishIface intf tsres secondMask (1000000000 / secondMask) 1] })
    else
      (.ok (), { s with ifaces := s.ifaces ++ [finishIface intf tsres secondMask 1 (secondMask / 1000000000)] })

/-- readInterfaceDescriptor -/
def readIDB : Prog Unit := do
  let h ← rd 8
  modS fun s => { s with blkLen := sub32 s.blkLen 8,
                         curIf := { linkType := getU s.be (h.take 2), snaplen := getU s.be (h.drop 4) } }
  optLoop idbHandle
  discardBlock
  Prog.act idbFinishStep

/-- convertTime followed by time.Unix(...).UTC() -/
def convertTimeF (s : S) (ifaceID : Nat) (ts : Nat) : Except Err Time :=
  match s.ifaces[ifaceID]? with
  | none => .error (.panic .index)
  | some i =>
    if i.secondMask = 0 ∨ i.scaleDown = 0 then .error (.panic .divZero)
    else
      let sec := toI64 ((ts / i.secondMask + i.tsoff) % two64)
      let nsec := toI64 (((ts % i.secondMask) * i.scaleUp % two64) / i.scaleDown)
      .ok (timeUnix sec nsec)

/-- `stats.X = …` through the pointer `stats := &r.ifaces[ifaceID].Statistics` -/
def setStatsF (s : S) (f : Stats → Stats) : S :=
  { s with ifaces := s.ifaces.modify s.isbId (fun i => { i with stats := f i.stats }) }

/-- 64 bit timestamp from two 32 bit words (high word first), each in file byte order -/
def ts64 (be : Bool) (v : Bytes) : Nat := two32 * getU be (v.take 4) + getU be ((v.drop 4).take 4)

/-- interface statistics options (with fix pcapng-1) -/
def isbHandle (code : Nat) (v : Bytes) : Act Unit := fun s =>
  if code = ngOptionCodeComment then (.ok (), setStatsF s fun st => { st with comment := v })
  else if code = ngOptionCodeInterfaceStatisticsStartTime then
    if v.length < 8 then (.error .err, s)
    else match convertTimeF s s.isbId (ts64 s.be v) with
      | .ok t => (.ok (), setStatsF s fun st => { st with startTime := t })
      | .error e => (.error e, s)
  else if code = ngOptionCodeInterfaceStatisticsEndTime then
    if v.length < 8 then (.error .err, s)
    else match convertTimeF s s.isbId (ts64 s.be v) with
      | .ok t => (.ok (), setStatsF s fun st => { st with endTime := t })
      | .error e => (.error e, s)
  else if code = ngOptionCodeInterfaceStatisticsInterfaceReceived then
    if v.length < 8 then (.error .err, s)
    else (.ok (), setStatsF s fun st => { st with received := getU s.be (v.take 8) })
  else if code = ngOptionCodeInterfaceStatisticsInterfaceDropped then
    if v.length < 8 then (.error .err, s)
    else (.ok (), setStatsF s fun st => { st with dropped := getU s.be (v.take 8) })
  else (.ok (), s)

/-- readInterfaceStatistics after the 12 byte header: interface check, reset, LastUpdate -/
def isbHeadStep (h : Bytes) : Act Unit := fun s =>
  let s := { s with blkLen := sub32 s.blkLen 12 }
  let ifaceID := getU s.be (h.take 4)
  let ts := ts64 s.be (h.drop 4)
  if ifaceID ≥ s.ifaces.length then (.error .err, s)
  else
    let s := setStatsF { s with isbId := ifaceID } fun _ => Stats.empty
    match convertTimeF s ifaceID ts with
    | .ok t => (.ok (), setStatsF s fun st => { st with lastUpdate := t })
    | .error e => (.error e, s)

/-- readInterfaceStatistics (callback not modelled) -/
def readISB : Prog Unit := do
  let h ← rd 12
  Prog.act (isbHeadStep h)
  optLoop isbHandle
  discardBlock

/-- readDecryptionSecretsBlock after the 8 byte header (with fix pcapng-6: length check) -/
def dsbHeadStep (h : Bytes) : Act Nat := fun s =>
  let s := { s with blkLen := sub32 s.blkLen 8 }
  let secretsLength := getU s.be (h.drop 4)
  if secretsLength > s.blkLen then (.error .err, s) else (.ok secretsLength, s)

/-- readDecryptionSecretsBlock -/
def readDSB : Prog Unit := do
  let h ← rdW 8
  let n ← Prog.act (dsbHeadStep h)
  let _ ← Prog.io (.rdDsb n)
  modS fun s => { s with blkLen := sub32 s.blkLen n, nSecrets := s.nSecrets + 1 }

/-- bytes.Trim(b, "\x00") -/
def trimZeros (b : Bytes) : Bytes :=
  ((b.dropWhile (· = 0)).reverse.dropWhile (· = 0)).reverse

/-- the `for length > 0 { ReadBytes(0) … }` loop of readNameResolutionBlock -/
def nrbNames : Prog Unit :=
  Prog.iter (do
    let s ← getS
    if s.nrLen > 0 then
      let b ← Prog.io .line0
      modS fun s => { s with nrLen := s.nrLen - Int.ofNat b.length, nrNames := s.nrNames ++ [trimZeros b] }
      pure .again
    else pure (.done ()))

/-- what a name record header asks for -/
inductive NrKind where
  | addr (n padding : Nat)      -- read an address of n bytes, then names, then `padding`
  | skip (n : Nat)              -- unknown record: discard n bytes
  | endRec

/-- readNameResolutionBlock: the record header -/
def nrbHeadStep (h : Bytes) : Act NrKind := fun s =>
  let s := { s with blkLen := sub32 s.blkLen 4 }
  let rtype := getU s.be (h.take 2)
  let rlen := getU s.be (h.drop 2)
  let length := (minInt (Int.ofNat rlen) (Int.ofNat s.blkLen)).toNat
  let padding := (paddingBytes32b (Int.ofNat length)).toNat
  let addr : Option (Nat × Nat) :=          -- (bytes read, Addr.Len())
    if rtype = ngNameRecordIPv4 then some (4, 4)
    else if rtype = ngNameRecordIPv6 then some (16, 16)
    else if rtype = ngNameRecordEUI48 then some (6, 24)   -- newHWAddress(r.buf[:]) clones all 24 bytes
    else if rtype = ngNameRecordEUI64 then some (8, 24)
    else none
  match addr with
  | some (n, alen) =>
    -- the assignments that follow the address read do not depend on it
    (.ok (.addr n padding), { s with blkLen := sub32 s.blkLen length,
                                     nrLen := Int.ofNat length - Int.ofNat alen, nrNames := [], nrAddr := alen })
  | none =>
    if rtype = ngNameRecordEnd then (.ok .endRec, s) else (.ok (.skip (length + padding)), s)

/-- readNameResolutionBlock -/
def readNRB : Prog Unit := do
  Prog.iter (do
    let s ← getS
    if s.blkLen > 0 then
      let h ← rdW 4
      let k ← Prog.act (nrbHeadStep h)
      match k with
      | .addr n padding =>
        let _ ← rdW n
        nrbNames
        modS fun s => { s with names := s.names ++ [{ addrLen := s.nrAddr, names := s.nrNames }] }
        discard padding
        pure .again
      | .skip n =>
        discardW n
        pure .again
      | .endRec => pure (.done ())
    else pure (.done ()))
  discardBlock

/-- skipSection -/
def skipSection : Prog Unit :=
  Prog.iter (do
    readBlock
    let s ← getS
    if s.blkTyp = ngBlockTypeSectionHeader then pure (.done ())
    else
      discardBlock
      pure .again)

/-- firstInterface, after readInterfaceDescriptor: link type of the first interface of the section -/
def firstIfaceStep : Act (Step Unit) := fun s =>
  match s.ifaces[0]? with
  | none => (.error (.panic .index), s)
  | some i0 =>
    if !s.firstFound then (.ok (.done ()), { s with linkType := i0.linkType, firstFound := true })
    else if s.linkType ≠ i0.linkType then
      if s.cfg.errMismatch then (.error .err, s) else (.ok .again, s)
    else (.ok (.done ()), s)

/-- firstInterface: blocks other than interface descriptions and packets -/
def fiOther (t : Nat) : Prog Unit :=
  if t = ngBlockTypeDecryptionSecrets then readDSB
  else if t = ngBlockTypeNameResolution then readNRB
  else pure ()

/-- firstInterface -/
def firstInterface : Prog Unit :=
  Prog.iter (do
    readBlock
    let s ← getS
    let t := s.blkTyp
    if t = ngBlockTypeInterfaceDescriptor then
      readIDB
      Prog.act firstIfaceStep
    else if t = ngBlockTypePacket ∨ t = ngBlockTypeEnhancedPacket ∨ t = ngBlockTypeSimplePacket ∨ t = ngBlockTypeInterfaceStatistics then
      failM .err
    else
      fiOther t
      discardBlock
      pure .again)

/-- readSectionHeader: version check; `true` = skip this section -/
def shbVersionStep (h : Bytes) : Act Bool := fun s =>
  let s := { s with blkLen := sub32 s.blkLen 12 }
  let vMajor := getU s.be (h.take 2)
  let vMinor := getU s.be ((h.drop 2).take 2)
  if vMajor ≠ ngVersionMajor ∨ vMinor ≠ ngVersionMinor then
    if !s.cfg.skipUnknown then (.error .err, s) else (.ok true, s)
  else (.ok false, { s with curSec := {} })

/-- readSectionHeader (SectionEndCallback not modelled) -/
def readSectionHeader : Prog Unit := do
  modS fun s => { s with ifaces := [], nSecrets := 0, names := [] }
  Prog.iter (do
    let h ← rd 12
    let skipIt ← Prog.act (shbVersionStep h)
    if skipIt then
      discardBlock
      skipSection
      pure .again
    else pure (.done ()))
  optLoop shbHandle
  discardBlock
  modS fun s => { s with sect := s.curSec }
  let s ← getS
  if !s.cfg.mixed then firstInterface else pure ()

/-- EPB flags word: NgEpbFlags.FromUint32 (masks 0x3, 0x1c, 0x3e0, 0xffff0000 as arithmetic) -/
def flagsOfU32 (v : Nat) : Flags :=
  { dir := v % 4, rcv := v / 4 % 8 * 4, fcs := v / 32 % 32 * 32, lle := v / 65536 % 65536 * 65536 }

/-- enhanced packet options (with fix pcapng-1); always little endian, like the Go code -/
def pktHandle (code : Nat) (v : Bytes) : Act Unit := fun s =>
  if code = ngOptionCodeComment then (.ok (), { s with curOpts := { s.curOpts with comments := s.curOpts.comments ++ [v] } })
  else if code = ngOptionCodeEpbFlags then
    if v.length < 4 then (.error .err, s)
    else (.ok (), { s with curOpts := { s.curOpts with flags := some (flagsOfU32 (leNat (v.take 4))) } })
  else if code = ngOptionCodeEpbHash then
    if v.length < 1 then (.error .err, s)
    else (.ok (), { s with curOpts := { s.curOpts with hashes := s.curOpts.hashes ++ [(leNat (v.take 1), v.drop 1)] } })
  else if code = ngOptionCodeEpbDropCount then
    if v.length < 8 then (.error .err, s)
    else (.ok (), { s with curOpts := { s.curOpts with dropCount := some (leNat (v.take 8)) } })
  else if code = ngOptionCodeEpbPacketID then
    if v.length < 8 then (.error .err, s)
    else (.ok (), { s with curOpts := { s.curOpts with packetId := some (leNat (v.take 8)) } })
  else if code = ngOptionCodeEpbQueue then
    if v.length < 4 then (.error .err, s)
    else (.ok (), { s with curOpts := { s.curOpts with queue := some (leNat (v.take 4)) } })
  else if code = ngOptionCodeEpbVerdict then
    if v.length < 1 then (.error .err, s)
    else (.ok (), { s with curOpts := { s.curOpts with verdicts := s.curOpts.verdicts ++ [(leNat (v.take 1), v.drop 1)] } })
  else (.ok (), s)

/-- readPacketHeader: the 20 byte header of an enhanced / obsolete packet block -/
def pktHeadStep (epb : Bool) (h : Bytes) : Act Unit := fun s =>
  let s := { s with blkLen := sub32 s.blkLen 20 }
  let idx := if epb then getU s.be (h.take 4) else getU s.be (h.take 2)
  let s := { s with ci := { s.ci with iface := idx } }
  if idx ≥ s.ifaces.length then (.error .err, s)
  else
    match convertTimeF s idx (ts64 s.be (h.drop 4)) with
    | .error e => (.error e, s)
    | .ok ts =>
      (.ok (), { s with ci := { s.ci with ts := ts, caplen := getU s.be ((h.drop 12).take 4),
                                          len := getU s.be ((h.drop 16).take 4) } })

/-- readPacketHeader: the 4 byte header of a simple packet block -/
def spbHeadStep (h : Bytes) : Act Unit := fun s =>
  let s := { s with blkLen := sub32 s.blkLen 4 }
  let l := getU s.be h
  let s := { s with ci := { iface := 0, ts := Time.zero, caplen := l, len := l } }
  match s.ifaces[0]? with
  | none => (.error .err, s)
  | some i0 =>
    if i0.snaplen ≠ 0 ∧ l > i0.snaplen then (.ok (), { s with ci := { s.ci with caplen := i0.snaplen } })
    else (.ok (), s)

/-- what readPacketHeader does with a packet block once its header is parsed -/
inductive HdrKind where
  | take (ci : CapInfo) (linkType snaplen : Nat)   -- return it
  | skipIt                                          -- other link type: discard the block, look on
  | skipErr                                         -- other link type: discard the block, ErrNgLinkTypeMismatch

/-- readPacketHeader after FIND_PACKET (with fix pcapng-4: capture length checks) -/
def hdrFinishStep : Act HdrKind := fun s =>
  if s.ci.caplen > s.ci.len then (.error .err, s)
  else if s.ci.caplen > s.blkLen then (.error .err, s)
  else
    match s.ifaces[s.ci.iface]? with
    | none => (.error (.panic .index), s)
    | some i =>
      if !s.cfg.mixed then
        if i.linkType ≠ s.linkType then
          (.ok (if s.cfg.errMismatch then .skipErr else .skipIt), s)
        else (.ok (.take s.ci i.linkType i.snaplen), s)
      else (.ok (.take s.ci i.linkType i.snaplen), s)

/-- readPacketHeader, the `switch r.currentBlock.typ` after readBlock: `true` = a packet header was parsed
    (`goto FIND_PACKET` … `break FIND_PACKET`) -/
def pktBlockBody (t : Nat) : Prog Bool :=
  if t = ngBlockTypeEnhancedPacket ∨ t = ngBlockTypePacket then do
    let h ← rd 20
    Prog.act (pktHeadStep (t = ngBlockTypeEnhancedPacket) h)
    pure true
  else if t = ngBlockTypeSimplePacket then do
    let h ← rd 4
    Prog.act (spbHeadStep h)
    pure true
  else if t = ngBlockTypeInterfaceDescriptor then do readIDB; pure false
  else if t = ngBlockTypeInterfaceStatistics then do readISB; pure false
  else if t = ngBlockTypeSectionHeader then do readSectionHeader; pure false
  else if t = ngBlockTypeNameResolution then do readNRB; pure false
  else do discardBlock; pure false

/-- readPacketHeader, after the switch -/
def hdrTail (found : Bool) : Prog (Step (CapInfo × Nat × Nat)) :=
  if !found then pure .again
  else do
    let k ← Prog.act hdrFinishStep
    match k with
    | .take ci lt snap => pure (.done (ci, lt, snap))
    | .skipIt => do discardBlock; pure .again
    | .skipErr => do discardBlock; failM .err

/-- readPacketHeader; returns r.ci, the ancillary link type and the snap length of the packet's interface -/
def readPacketHeader : Prog (CapInfo × Nat × Nat) :=
  Prog.iter (do
    readBlock
    let s ← getS
    let found ← pktBlockBody s.blkTyp
    hdrTail found)

/-- `if padding > 0 { r.discard(padding) }` -/
def discardPad (padding : Nat) : Prog Unit := if padding > 0 then discard padding else pure ()

/-- readPacketOptions is only called for enhanced packet blocks -/
def pktOptsP : Prog Unit := do
  let s ← getS
  if s.blkTyp = ngBlockTypeEnhancedPacket then optLoop pktHandle else pure ()

/-- ReadPacketDataWithOptions / ZeroCopyReadPacketDataWithOptions after readPacketHeader returned `ci`, the link type and
    the snap length of the packet's interface: data, padding, options, rest of the block -/
def pktRest (ci : CapInfo) (lt snap : Nat) : Prog Pkt := do
  let data ← Prog.io (.rdData ci.caplen snap)
  modS fun s => { s with blkLen := sub32 s.blkLen ci.caplen }
  discardPad ((4 - ci.caplen % 4) % 4)
  modS fun s => { s with curOpts := {} }
  pktOptsP
  discardBlock
  let s ← getS
  pure { ci := ci, ancil := if s.cfg.mixed then some lt else none, data := data, opts := s.curOpts }

/-- ReadPacketDataWithOptions / ZeroCopyReadPacketDataWithOptions: the two differ only in where the
    data bytes are stored (see PcapNgMem.lean), which the `data` event describes. -/
def readPacketP : Prog Pkt := do
  let r ← readPacketHeader
  pktRest r.1 r.2.1 r.2.2

/-- NewNgReader after the Peek(2): the first block must be a section header -/
def openP : Prog Unit := do
  readBlock
  let s ← getS
  if s.blkTyp ≠ ngBlockTypeSectionHeader then failM .err
  else readSectionHeader

/-! ## Entry points (fuel = bytes left + 1; it always suffices: Gp/Lemmas/PcapNgSafe.lean) -/

/-- a reader between two calls -/
structure Rd where
  s : S
  w : Strm
  deriving Inhabited

/-- NewNgReader(bytes, cfg): Peek(2) for the gzip magic, then the first section header -/
def openReader (cfg : Cfg) (inp : Bytes) : Out Unit :=
  match inp with
  | [] => .fail .eof { cfg := cfg } { inp := [] }
  | [_] => .fail .ueof { cfg := cfg } { inp := [] }
  | a :: b :: _ =>
    if a.toNat = magicGzip1 ∧ b.toNat = magicGzip2 then .fail .gzip { cfg := cfg } { inp := inp }
    else run (inp.length + 1) openP { cfg := cfg } { inp := inp }

/-- one ReadPacketDataWithOptions / ZeroCopyReadPacketDataWithOptions call; the event log is per call -/
def readPacket (r : Rd) : Out Pkt := run (r.w.inp.length + 1) readPacketP r.s { r.w with ev := [] }

/-- call readPacket until it fails; returns the packets, the final error and the final reader -/
def readAllF : Nat → Rd → List Pkt × Err × Rd
  | 0, r => ([], .hang, r)
  | f + 1, r =>
    match readPacket r with
    | .ok p s w => let (ps, e, rf) := readAllF f ⟨s, w⟩; (p :: ps, e, rf)
    | .fail e s w => ([], e, ⟨s, w⟩)

def readAll (r : Rd) : List Pkt × Err × Rd := readAllF (r.w.inp.length + 1) r

/-- open + read everything -/
def readFile (cfg : Cfg) (inp : Bytes) : List Pkt × Err × Rd :=
  match openReader cfg inp with
  | .ok _ s w => readAll ⟨s, w⟩
  | .fail e s w => ([], e, ⟨s, w⟩)

end Gp.PcapNg
