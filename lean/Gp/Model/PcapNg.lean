import Gp.Go.Basic
import Gp.Gen.PcapNg
/-
  Executable model of the pcapng READER of /repo/pcapgo (ngread.go, ngread_nrb.go,
  ngread_dsb.go, pcapng.go) — with the proposed fixes pcapng-1 … pcapng-6 applied
  (see /verif/proposed_fixes and notes/pcapng.md).

  * input: the remaining bytes of the stream (`St.inp`); bufio/io chunking is not modelled
    (the reader only uses readBytes = "read exactly n or fail", Discard, ReadBytes(0), Peek(2));
  * outcomes: `Out.ok a s` / `Out.fail e s` — the state after a failure is kept, because
    a caller may keep calling a reader after an error;
  * unsigned 32 bit wrap of `currentBlock.length` is modelled (`sub32`);
  * every loop of the Go code is an instance of `iter` (fuel-bounded; running out of fuel
    is the distinguished failure `Err.hang`, proved unreachable in Gp/Lemmas/PcapNg*.lean);
  * memory behaviour (allocation requests, the reused zero-copy buffer) is a function of the
    `MemEv` events the reader emits; it is modelled in Gp/Model/PcapNgMem.lean.

  Block type codes, option codes, magic numbers come from Gp/Gen/PcapNg.lean, which is
  regenerated from the source on every run.
-/
namespace Gp.PcapNg
open Gp.Gen.PcapNg

/-! ## Values -/

inductive Err where
  | eof    -- io.EOF
  | ueof   -- io.ErrUnexpectedEOF (identical error value)
  | err    -- any other error
  | werr   -- an error created with fmt.Errorf("…%v", io.ErrUnexpectedEOF / io.EOF): *not* an EOF value
  | gzip   -- the stream starts with the gzip magic: handed to compress/gzip (outside the model)
  | hang   -- model artefact: loop fuel exhausted (proved unreachable)
  | panic (k : PanicKind)
  deriving DecidableEq, Repr, Inhabited

/-- Observable part of a time.Time: (t.Unix(), t.Nanosecond()). -/
structure Time where
  sec  : Int
  nsec : Int
  deriving DecidableEq, Repr, Inhabited

/-- time.Time{} -/
def Time.zero : Time := ⟨-62135596800, 0⟩

def wrapI64 (x : Int) : Int := (x + 9223372036854775808) % 18446744073709551616 - 9223372036854775808

/-- time.Unix(sec, nsec) followed by .Unix()/.Nanosecond() (int64 arithmetic wraps). -/
def timeUnix (sec nsec : Int) : Time :=
  if nsec < 0 ∨ nsec ≥ 1000000000 then
    let n := Int.tdiv nsec 1000000000
    let sec := wrapI64 (sec + n)
    let nsec := nsec - n * 1000000000
    if nsec < 0 then ⟨wrapI64 (sec - 1), nsec + 1000000000⟩ else ⟨sec, nsec⟩
  else ⟨sec, nsec⟩

structure Stats where
  lastUpdate : Time := Time.zero
  startTime  : Time := Time.zero
  endTime    : Time := Time.zero
  comment    : Bytes := []
  received   : Nat := NgNoValue64
  dropped    : Nat := NgNoValue64
  deriving DecidableEq, Repr, Inhabited

structure Iface where
  name    : Bytes := []
  comment : Bytes := []
  descr   : Bytes := []
  filter  : Bytes := []
  os      : Bytes := []
  linkType : Nat := 0
  tsres   : Nat := 0
  tsoff   : Nat := 0
  snaplen : Nat := 0
  stats   : Stats := {}
  secondMask : Nat := 0
  scaleUp    : Nat := 0
  scaleDown  : Nat := 0
  deriving DecidableEq, Repr, Inhabited

structure Section where
  hardware : Bytes := []
  os       : Bytes := []
  app      : Bytes := []
  comment  : Bytes := []
  deriving DecidableEq, Repr, Inhabited

structure Flags where
  dir : Nat
  rcv : Nat
  fcs : Nat
  lle : Nat
  deriving DecidableEq, Repr, Inhabited

structure PktOpts where
  comments  : List Bytes := []
  flags     : Option Flags := none
  hashes    : List (Nat × Bytes) := []
  dropCount : Option Nat := none
  packetId  : Option Nat := none
  queue     : Option Nat := none
  verdicts  : List (Nat × Bytes) := []
  deriving DecidableEq, Repr, Inhabited

/-- gopacket.CaptureInfo as filled by readPacketHeader (+ ancillary link type, + the snap length of the interface). -/
structure CapInfo where
  iface  : Nat := 0
  ts     : Time := Time.zero
  caplen : Nat := 0
  len    : Nat := 0
  deriving DecidableEq, Repr, Inhabited

structure Pkt where
  ci    : CapInfo
  ancil : Option Nat     -- ci.AncillaryData[0] (link type) iff WantMixedLinkType
  data  : Bytes
  opts  : PktOpts
  deriving DecidableEq, Repr, Inhabited

/-- NgReaderOptions (callbacks are not modelled: nil). -/
structure Cfg where
  mixed       : Bool := false   -- WantMixedLinkType
  errMismatch : Bool := false   -- ErrorOnMismatchingLinkType
  skipUnknown : Bool := false   -- SkipUnknownVersion
  deriving DecidableEq, Repr, Inhabited

structure NameRec where
  addrLen : Nat
  names   : List Bytes
  deriving DecidableEq, Repr, Inhabited

/-- Memory-relevant events (interpreted by Gp/Model/PcapNgMem.lean). -/
inductive MemEv where
  | opt  (len : Nat)                          -- a non-empty option value of `len` bytes was requested
  | data (n : Nat) (got : Bytes) (snaplen : Nat)   -- packet data: n bytes requested, `got` delivered by the stream
  | dsb  (n : Nat) (got : Bytes)              -- decryption secrets payload
  | name (len : Nat)                          -- bufio ReadBytes(0) returned / accumulated `len` bytes
  deriving DecidableEq, Repr, Inhabited

def MemEv.present : MemEv → Nat
  | .opt l => l
  | .data _ g _ => g.length
  | .dsb _ g => g.length
  | .name l => l

structure St where
  inp  : Bytes
  cfg  : Cfg := {}
  be   : Bool := false
  sect : Section := {}
  linkType   : Nat := 0
  firstFound : Bool := false
  ifaces : List Iface := []
  blkTyp : Nat := 0
  blkLen : Nat := 0             -- currentBlock.length (uint32)
  optCode : Nat := 0
  optVal  : Bytes := []
  ci      : CapInfo := {}
  names   : List NameRec := []
  nSecrets : Nat := 0
  ev     : List MemEv := []
  nWrap  : Nat := 0             -- ghost: number of reads whose EOF error is wrapped with %v
  -- locals of the Go functions that live across loop iterations
  curSec  : Section := {}
  curIf   : Iface := {}
  curOpts : PktOpts := {}
  isbId   : Nat := 0
  nrLen   : Int := 0
  nrPad   : Nat := 0
  nrAddr  : Nat := 0
  nrNames : List Bytes := []
  deriving Repr, Inhabited

/-! ## Monad -/

inductive Out (α : Type) where
  | ok   (a : α) (s : St)
  | fail (e : Err) (s : St)
  deriving Inhabited

def Out.st {α} : Out α → St
  | .ok _ s => s
  | .fail _ s => s

def M (α : Type) := St → Out α

@[inline] def M.pure {α} (a : α) : M α := fun s => .ok a s
@[inline] def M.bind {α β} (m : M α) (f : α → M β) : M β := fun s =>
  match m s with
  | .ok a s' => f a s'
  | .fail e s' => .fail e s'

instance : Monad M where
  pure := M.pure
  bind := M.bind

def failM {α} (e : Err) : M α := fun s => .fail e s
def getS : M St := fun s => .ok s s
def modS (f : St → St) : M Unit := fun s => .ok () (f s)

/-- replace the error of a failing computation (fmt.Errorf("…: %v", err)). -/
def mapErr {α} (m : M α) (f : Err → Err) : M α := fun s =>
  match m s with
  | .ok a s' => .ok a s'
  | .fail e s' => .fail (f e) s'

/-- all errors become a fresh (non-EOF) error; panics/hang stay -/
def wrapE : Err → Err
  | .panic k => .panic k
  | .hang => .hang
  | .gzip => .gzip
  | .err => .err
  | _ => .werr

inductive Step (α : Type) where
  | again
  | done (a : α)

/-- Every Go loop: run `body` until it says `done`; `fuel` bounds the number of iterations. -/
def iter {α} (body : M (Step α)) : Nat → M α
  | 0 => failM .hang
  | f + 1 => fun s =>
    match body s with
    | .ok .again s' => iter body f s'
    | .ok (.done a) s' => .ok a s'
    | .fail e s' => .fail e s'

/-! ## Integers -/

def leNat : Bytes → Nat
  | [] => 0
  | b :: r => b.toNat + 256 * leNat r

def beNat (b : Bytes) : Nat := leNat b.reverse

/-- r.getUint16/32/64 on a slice of exactly 2/4/8 bytes -/
def getU (be : Bool) (b : Bytes) : Nat := if be then beNat b else leNat b

def two32 : Nat := 4294967296
def two64 : Nat := 18446744073709551616

/-- uint32 subtraction `a -= uint32(b)` -/
def sub32 (a b : Nat) : Nat := (a + two32 - b % two32) % two32

def toI64 (n : Nat) : Int := wrapI64 (Int.ofNat n)

/-! ## Stream primitives -/

/-- r.readBytes(buf[:n]): n bytes or io.ErrUnexpectedEOF (everything left is consumed). -/
def rd (n : Nat) : M Bytes := fun s =>
  if n ≤ s.inp.length then .ok (s.inp.take n) { s with inp := s.inp.drop n }
  else .fail .ueof { s with inp := [] }

/-- readBytes at the start of a block: io.EOF if nothing at all is left. -/
def rd0 (n : Nat) : M Bytes := fun s =>
  if n ≤ s.inp.length then .ok (s.inp.take n) { s with inp := s.inp.drop n }
  else if s.inp.isEmpty then .fail .eof s
  else .fail .ueof { s with inp := [] }

/-- a read whose error is wrapped by the caller with %v (counts in the ghost `nWrap`) -/
def rdW (n : Nat) : M Bytes := fun s =>
  mapErr (rd n) wrapE { s with nWrap := s.nWrap + 1 }

/-- r.discard(length): skip and decrement currentBlock.length -/
def discard (n : Nat) : M Unit := fun s =>
  if n ≤ s.inp.length then .ok () { s with inp := s.inp.drop n, blkLen := sub32 s.blkLen n }
  else .fail .ueof { s with inp := [] }

def discardW (n : Nat) : M Unit := fun s =>
  mapErr (discard n) wrapE { s with nWrap := s.nWrap + 1 }

def discardBlock : M Unit := fun s => discard s.blkLen s

def decBlk (n : Nat) : M Unit := modS fun s => { s with blkLen := sub32 s.blkLen n }

def emit (e : MemEv) : M Unit := modS fun s => { s with ev := s.ev ++ [e] }

/-- position of the first 0 byte -/
def findZero : Bytes → Option Nat
  | [] => none
  | b :: r => if b = 0 then some 0 else (findZero r).map (· + 1)

/-- bufio.Reader.ReadBytes(0); its error is wrapped by the caller -/
def readBytes0 : M Bytes := fun s =>
  match findZero s.inp with
  | some p => .ok (s.inp.take (p + 1))
      { s with inp := s.inp.drop (p + 1), nWrap := s.nWrap + 1, ev := s.ev ++ [.name (p + 1)] }
  | none => .fail .werr { s with inp := [], nWrap := s.nWrap + 1, ev := s.ev ++ [.name s.inp.length] }

/-! ## Blocks and options -/

/-- readBlock -/
def readBlock : M Unit := do
  let h ← rd0 8
  let s ← getS
  let typ := getU s.be (h.take 4)
  modS fun s => { s with blkTyp := typ }
  if typ = ngBlockTypeSectionHeader then
    let m ← rd 4
    if beNat m = ngByteOrderMagic then
      modS fun s => { s with be := true }
    else if leNat m = ngByteOrderMagic then
      modS fun s => { s with be := false }
    else failM .err
    modS fun s => { s with blkLen := sub32 (sub32 (getU s.be (h.drop 4)) 8) 4 }
  else
    modS fun s => { s with blkLen := sub32 (getU s.be (h.drop 4)) 8 }

/-- readOption (with fix pcapng-2: a zero-length option has an empty value) -/
def readOption : M Unit := do
  let s ← getS
  if s.blkLen = 4 then
    modS fun s => { s with optCode := ngOptionCodeEndOfOptions }
  else
    let h ← rd 4
    decBlk 4
    let s ← getS
    let code := getU s.be (h.take 2)
    let length := getU s.be (h.drop 2)
    modS fun s => { s with optCode := code }
    if code = ngOptionCodeEndOfOptions then
      if length ≠ 0 then failM .err else pure ()
    else if length ≠ 0 then
      emit (.opt length)
      let v ← rd length
      modS fun s => { s with optVal := v }
      let padding := length % 4
      if padding > 0 then discard (4 - padding) else pure ()
      decBlk length
    else
      modS fun s => { s with optVal := [] }

/-- `for { readOption(); switch code { case EndOfOptions: break; … } }` -/
def optLoop (handle : Nat → Bytes → M Unit) (fuel : Nat) : M Unit :=
  iter (do
    readOption
    let s ← getS
    if s.optCode = ngOptionCodeEndOfOptions then pure (.done ())
    else
      handle s.optCode s.optVal
      pure .again) fuel

/-- section header options -/
def shbHandle (code : Nat) (v : Bytes) : M Unit :=
  if code = ngOptionCodeComment then modS fun s => { s with curSec := { s.curSec with comment := v } }
  else if code = ngOptionCodeHardware then modS fun s => { s with curSec := { s.curSec with hardware := v } }
  else if code = ngOptionCodeOS then modS fun s => { s with curSec := { s.curSec with os := v } }
  else if code = ngOptionCodeUserApplication then modS fun s => { s with curSec := { s.curSec with app := v } }
  else pure ()

/-- interface description options (with fix pcapng-1: length checks) -/
def idbHandle (code : Nat) (v : Bytes) : M Unit :=
  if code = ngOptionCodeInterfaceName then modS fun s => { s with curIf := { s.curIf with name := v } }
  else if code = ngOptionCodeComment then modS fun s => { s with curIf := { s.curIf with comment := v } }
  else if code = ngOptionCodeInterfaceDescription then modS fun s => { s with curIf := { s.curIf with descr := v } }
  else if code = ngOptionCodeInterfaceFilter then
    if v.length < 1 then failM .err
    else modS fun s => { s with curIf := { s.curIf with filter := v.drop 1 } }
  else if code = ngOptionCodeInterfaceOS then modS fun s => { s with curIf := { s.curIf with os := v } }
  else if code = ngOptionCodeInterfaceTimestampOffset then
    if v.length < 8 then failM .err
    else modS fun s => { s with curIf := { s.curIf with tsoff := getU s.be (v.take 8) } }
  else if code = ngOptionCodeInterfaceTimestampResolution then
    if v.length < 1 then failM .err
    else modS fun s => { s with curIf := { s.curIf with tsres := leNat (v.take 1) } }
  else pure ()

/-- `intf.secondMask *= 10` exponent times, in uint64 -/
def pow10u64 : Nat → Nat
  | 0 => 1
  | e + 1 => (pow10u64 e * 10) % two64

/-- NgResolution.Binary() -/
def resBinary (r : Nat) : Bool := r / 128 % 2 = 1

/-- NgResolution.Exponent() (generated) -/
def resExp (r : Nat) : Nat := (resExponent (Int.ofNat r)).toNat

def finishIface (i : Iface) (tsres secondMask scaleUp scaleDown : Nat) : Iface :=
  { i with tsres := tsres, secondMask := secondMask, scaleUp := scaleUp, scaleDown := scaleDown }

/-- readInterfaceDescriptor (with fix pcapng-3: resolutions that do not fit into 64 bit are an error) -/
def readIDB (fuel : Nat) : M Unit := do
  let h ← rd 8
  decBlk 8
  modS fun s => { s with curIf := { linkType := getU s.be (h.take 2), snaplen := getU s.be (h.drop 4) } }
  optLoop idbHandle fuel
  discardBlock
  let s ← getS
  let intf := s.curIf
  let tsres := if intf.tsres = 0 then 6 else intf.tsres
  let e := resExp tsres
  if (resBinary tsres && decide (e > 63)) || (!resBinary tsres && decide (e > 19)) then failM .err
  else
    let secondMask := if resBinary tsres then (2 ^ e) % two64 else pow10u64 e
    if secondMask < 1000000000 then
      if secondMask = 0 then failM (.panic .divZero)
      else modS fun s => { s with ifaces := s.ifaces ++ [finishIface intf tsres secondMask (1000000000 / secondMask) 1] }
    else
      modS fun s => { s with ifaces := s.ifaces ++ [finishIface intf tsres secondMask 1 (secondMask / 1000000000)] }

/-- convertTime followed by time.Unix(...).UTC() -/
def convertTime (ifaceID : Nat) (ts : Nat) : M Time := fun s =>
  match s.ifaces[ifaceID]? with
  | none => .fail (.panic .index) s
  | some i =>
    if i.secondMask = 0 ∨ i.scaleDown = 0 then .fail (.panic .divZero) s
    else
      let sec := toI64 ((ts / i.secondMask + i.tsoff) % two64)
      let nsec := toI64 (((ts % i.secondMask) * i.scaleUp % two64) / i.scaleDown)
      .ok (timeUnix sec nsec) s

def setStats (f : Stats → Stats) : M Unit := modS fun s =>
  { s with ifaces := s.ifaces.modify s.isbId (fun i => { i with stats := f i.stats }) }

/-- 64 bit timestamp from two 32 bit words (high word first), each in file byte order -/
def ts64 (be : Bool) (v : Bytes) : Nat := getU be (v.take 4) * two32 + getU be ((v.drop 4).take 4)

/-- interface statistics options (with fix pcapng-1) -/
def isbHandle (code : Nat) (v : Bytes) : M Unit :=
  if code = ngOptionCodeComment then setStats fun st => { st with comment := v }
  else if code = ngOptionCodeInterfaceStatisticsStartTime then
    if v.length < 8 then failM .err
    else do
      let s ← getS
      let t ← convertTime s.isbId (ts64 s.be v)
      setStats fun st => { st with startTime := t }
  else if code = ngOptionCodeInterfaceStatisticsEndTime then
    if v.length < 8 then failM .err
    else do
      let s ← getS
      let t ← convertTime s.isbId (ts64 s.be v)
      setStats fun st => { st with endTime := t }
  else if code = ngOptionCodeInterfaceStatisticsInterfaceReceived then
    if v.length < 8 then failM .err
    else do
      let s ← getS
      setStats fun st => { st with received := getU s.be (v.take 8) }
  else if code = ngOptionCodeInterfaceStatisticsInterfaceDropped then
    if v.length < 8 then failM .err
    else do
      let s ← getS
      setStats fun st => { st with dropped := getU s.be (v.take 8) }
  else pure ()

/-- readInterfaceStatistics (callback not modelled) -/
def readISB (fuel : Nat) : M Unit := do
  let h ← rd 12
  decBlk 12
  let s ← getS
  let ifaceID := getU s.be (h.take 4)
  let ts := ts64 s.be (h.drop 4)
  if ifaceID ≥ s.ifaces.length then failM .err
  else
    modS fun s => { s with isbId := ifaceID }
    setStats fun _ => {}
    let t ← convertTime ifaceID ts
    setStats fun st => { st with lastUpdate := t }
    optLoop isbHandle fuel
    discardBlock

/-- readDecryptionSecretsBlock (with fix pcapng-6) -/
def readDSB : M Unit := do
  let h ← rdW 8
  decBlk 8
  let s ← getS
  let secretsLength := getU s.be (h.drop 4)
  if secretsLength > s.blkLen then failM .err
  else
    let s ← getS
    let avail := s.inp.take secretsLength
    emit (.dsb secretsLength avail)
    let _ ← rdW secretsLength
    decBlk secretsLength
    modS fun s => { s with nSecrets := s.nSecrets + 1 }

/-- bytes.Trim(b, "\x00") -/
def trimZeros (b : Bytes) : Bytes :=
  ((b.dropWhile (· = 0)).reverse.dropWhile (· = 0)).reverse

/-- the `for length > 0 { ReadBytes(0) … }` loop of readNameResolutionBlock -/
def nrbNames (fuel : Nat) : M Unit :=
  iter (do
    let s ← getS
    if s.nrLen > 0 then
      let b ← readBytes0
      modS fun s => { s with nrLen := s.nrLen - Int.ofNat b.length, nrNames := s.nrNames ++ [trimZeros b] }
      pure .again
    else pure (.done ())) fuel

/-- readNameResolutionBlock -/
def readNRB (fuel : Nat) : M Unit := do
  iter (do
    let s ← getS
    if s.blkLen > 0 then
      let h ← rdW 4
      decBlk 4
      let s ← getS
      let rtype := getU s.be (h.take 2)
      let rlen := getU s.be (h.drop 2)
      let length := (minInt (Int.ofNat rlen) (Int.ofNat s.blkLen)).toNat
      let padding := (paddingBytes32b (Int.ofNat length)).toNat
      let addr : Option (Nat × Nat) :=          -- (bytes read, Addr.Len())
        if rtype = ngNameRecordIPv4 then some (4, 4)
        else if rtype = ngNameRecordIPv6 then some (16, 16)
        else if rtype = ngNameRecordEUI48 then some (6, 24)   -- newHWAddress(r.buf[:]) clones all 24 bytes
        else if rtype = ngNameRecordEUI64 then some (8, 24)
        else none
      match addr with
      | some (n, alen) =>
        let _ ← rdW n
        decBlk length
        modS fun s => { s with nrLen := Int.ofNat length - Int.ofNat alen, nrNames := [], nrAddr := alen }
        nrbNames fuel
        modS fun s => { s with names := s.names ++ [{ addrLen := s.nrAddr, names := s.nrNames }] }
        discard padding
        pure .again
      | none =>
        if rtype = ngNameRecordEnd then pure (.done ())
        else
          discardW (length + padding)
          pure .again
    else pure (.done ())) fuel
  discardBlock

/-- skipSection -/
def skipSection (fuel : Nat) : M Unit :=
  iter (do
    readBlock
    let s ← getS
    if s.blkTyp = ngBlockTypeSectionHeader then pure (.done ())
    else
      discardBlock
      pure .again) fuel

/-- firstInterface -/
def firstInterface (fuel : Nat) : M Unit :=
  iter (do
    readBlock
    let s ← getS
    let t := s.blkTyp
    if t = ngBlockTypeInterfaceDescriptor then
      readIDB fuel
      let s ← getS
      match s.ifaces[0]? with
      | none => failM (.panic .index)
      | some i0 =>
        if !s.firstFound then
          modS fun s => { s with linkType := i0.linkType, firstFound := true }
          pure (.done ())
        else if s.linkType ≠ i0.linkType then
          if s.cfg.errMismatch then failM .err else pure .again
        else pure (.done ())
    else if t = ngBlockTypePacket ∨ t = ngBlockTypeEnhancedPacket ∨ t = ngBlockTypeSimplePacket ∨ t = ngBlockTypeInterfaceStatistics then
      failM .err
    else
      if t = ngBlockTypeDecryptionSecrets then readDSB
      else if t = ngBlockTypeNameResolution then readNRB fuel
      else pure ()
      discardBlock
      pure .again) fuel

/-- readSectionHeader (SectionEndCallback not modelled) -/
def readSectionHeader (fuel : Nat) : M Unit := do
  modS fun s => { s with ifaces := [], nSecrets := 0, names := [] }
  iter (do
    let h ← rd 12
    decBlk 12
    let s ← getS
    let vMajor := getU s.be (h.take 2)
    let vMinor := getU s.be ((h.drop 2).take 2)
    if vMajor ≠ ngVersionMajor ∨ vMinor ≠ ngVersionMinor then
      if !s.cfg.skipUnknown then failM .err
      else
        discardBlock
        skipSection fuel
        pure .again
    else pure (.done ())) fuel
  modS fun s => { s with curSec := {} }
  optLoop shbHandle fuel
  discardBlock
  modS fun s => { s with sect := s.curSec }
  let s ← getS
  if !s.cfg.mixed then firstInterface fuel else pure ()

/-- EPB flags word: NgEpbFlags.FromUint32 (masks 0x3, 0x1c, 0x3e0, 0xffff0000 as arithmetic) -/
def flagsOfU32 (v : Nat) : Flags :=
  { dir := v % 4, rcv := v / 4 % 8 * 4, fcs := v / 32 % 32 * 32, lle := v / 65536 % 65536 * 65536 }

/-- enhanced packet options (with fix pcapng-1); always little endian, like the Go code -/
def pktHandle (code : Nat) (v : Bytes) : M Unit :=
  if code = ngOptionCodeComment then modS fun s => { s with curOpts := { s.curOpts with comments := s.curOpts.comments ++ [v] } }
  else if code = ngOptionCodeEpbFlags then
    if v.length < 4 then failM .err
    else modS fun s => { s with curOpts := { s.curOpts with flags := some (flagsOfU32 (leNat (v.take 4))) } }
  else if code = ngOptionCodeEpbHash then
    if v.length < 1 then failM .err
    else modS fun s => { s with curOpts := { s.curOpts with hashes := s.curOpts.hashes ++ [(leNat (v.take 1), v.drop 1)] } }
  else if code = ngOptionCodeEpbDropCount then
    if v.length < 8 then failM .err
    else modS fun s => { s with curOpts := { s.curOpts with dropCount := some (leNat (v.take 8)) } }
  else if code = ngOptionCodeEpbPacketID then
    if v.length < 8 then failM .err
    else modS fun s => { s with curOpts := { s.curOpts with packetId := some (leNat (v.take 8)) } }
  else if code = ngOptionCodeEpbQueue then
    if v.length < 4 then failM .err
    else modS fun s => { s with curOpts := { s.curOpts with queue := some (leNat (v.take 4)) } }
  else if code = ngOptionCodeEpbVerdict then
    if v.length < 1 then failM .err
    else modS fun s => { s with curOpts := { s.curOpts with verdicts := s.curOpts.verdicts ++ [(leNat (v.take 1), v.drop 1)] } }
  else pure ()

/-- readPacketHeader (with fix pcapng-4: capture length checks); returns r.ci, the ancillary link type
    and the snap length of the packet's interface -/
def readPacketHeader (fuel : Nat) : M (CapInfo × Nat × Nat) :=
  iter (do
    readBlock
    let s ← getS
    let t := s.blkTyp
    let found : Bool ←
      if t = ngBlockTypeEnhancedPacket ∨ t = ngBlockTypePacket then do
        let h ← rd 20
        decBlk 20
        let s ← getS
        let idx := if t = ngBlockTypeEnhancedPacket then getU s.be (h.take 4) else getU s.be (h.take 2)
        modS fun s => { s with ci := { s.ci with iface := idx } }
        if idx ≥ s.ifaces.length then failM .err
        else
          let ts ← convertTime idx (ts64 s.be (h.drop 4))
          modS fun s => { s with ci := { s.ci with ts := ts, caplen := getU s.be ((h.drop 12).take 4),
                                                   len := getU s.be ((h.drop 16).take 4) } }
          pure true
      else if t = ngBlockTypeSimplePacket then do
        let h ← rd 4
        decBlk 4
        let s ← getS
        let l := getU s.be h
        modS fun s => { s with ci := { iface := 0, ts := Time.zero, caplen := l, len := l } }
        match s.ifaces[0]? with
        | none => failM .err
        | some i0 =>
          if i0.snaplen ≠ 0 ∧ l > i0.snaplen then
            modS fun s => { s with ci := { s.ci with caplen := i0.snaplen } }
          else pure ()
          pure true
      else if t = ngBlockTypeInterfaceDescriptor then do readIDB fuel; pure false
      else if t = ngBlockTypeInterfaceStatistics then do readISB fuel; pure false
      else if t = ngBlockTypeSectionHeader then do readSectionHeader fuel; pure false
      else if t = ngBlockTypeNameResolution then do readNRB fuel; pure false
      else do discardBlock; pure false
    if !found then pure .again
    else
      let s ← getS
      if s.ci.caplen > s.ci.len then failM .err
      else if s.ci.caplen > s.blkLen then failM .err
      else
        match s.ifaces[s.ci.iface]? with
        | none => failM (.panic .index)
        | some i =>
          if !s.cfg.mixed then
            if i.linkType ≠ s.linkType then
              discardBlock
              if s.cfg.errMismatch then failM .err else pure .again
            else pure (.done (s.ci, i.linkType, i.snaplen))
          else pure (.done (s.ci, i.linkType, i.snaplen))) fuel

/-- ReadPacketDataWithOptions / ZeroCopyReadPacketDataWithOptions: the two differ only in where the
    data bytes are stored (see PcapNgMem.lean), which the `data` event describes. -/
def readPacketF (fuel : Nat) : M Pkt := do
  let (ci, lt, snap) ← readPacketHeader fuel
  let s ← getS
  emit (.data ci.caplen (s.inp.take ci.caplen) snap)
  let data ← rd ci.caplen
  decBlk ci.caplen
  let padding := (4 - ci.caplen % 4) % 4
  if padding > 0 then discard padding else pure ()
  modS fun s => { s with curOpts := {} }
  let s ← getS
  if s.blkTyp = ngBlockTypeEnhancedPacket then optLoop pktHandle fuel else pure ()
  discardBlock
  let s ← getS
  pure { ci := ci, ancil := if s.cfg.mixed then some lt else none, data := data, opts := s.curOpts }

/-- NewNgReader (Peek(2) for the gzip magic, first block must be a section header) -/
def openF (fuel : Nat) : M Unit := do
  let s ← getS
  match s.inp with
  | [] => failM .eof
  | [_] => fun s => .fail .ueof { s with inp := [] }
  | a :: b :: _ =>
    if a.toNat = magicGzip1 ∧ b.toNat = magicGzip2 then failM .gzip
    else
      readBlock
      let s ← getS
      if s.blkTyp ≠ ngBlockTypeSectionHeader then failM .err
      else readSectionHeader fuel

/-! ## Entry points (fuel = bytes left + 1; see Gp/Lemmas/PcapNgSafe.lean: it always suffices) -/

def initSt (cfg : Cfg) (inp : Bytes) : St := { inp := inp, cfg := cfg }

/-- NewNgReader(bytes, cfg) -/
def openReader (cfg : Cfg) (inp : Bytes) : Out Unit := openF (inp.length + 1) (initSt cfg inp)

/-- one ReadPacketDataWithOptions / ZeroCopyReadPacketDataWithOptions call; the event log is per call -/
def readPacket (s : St) : Out Pkt := readPacketF (s.inp.length + 1) { s with ev := [] }

/-- call readPacket until it fails; returns the packets, the final error and the final state -/
def readAllF : Nat → St → List Pkt × Err × St
  | 0, s => ([], .hang, s)
  | f + 1, s =>
    match readPacket s with
    | .ok p s' => let (ps, e, sf) := readAllF f s'; (p :: ps, e, sf)
    | .fail e s' => ([], e, s')

def readAll (s : St) : List Pkt × Err × St := readAllF (s.inp.length + 1) s

/-- open + read everything -/
def readFile (cfg : Cfg) (inp : Bytes) : List Pkt × Err × St :=
  match openReader cfg inp with
  | .ok _ s => readAll s
  | .fail e s => ([], e, s)

end Gp.PcapNg
