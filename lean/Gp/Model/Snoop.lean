import Gp.Go.Basic
import Gp.Gen.Pcap
import Gp.Model.PcapStream
/-
  Model of the snoop reader (pcapgo/snoop.go: NewSnoopReader, readHeader, readPacketHeader,
  ReadPacketData, ZeroCopyReadPacketData, skipPad, LinkType) — the code *after*
  proposed_fixes/pcap-1-snoop-record-length (pad derived from the included length, record
  length validated, pad bytes discarded instead of read into the packet buffer).

  `pad` is a Go `int` (64 bit): modelled as `Int`, it can be negative.
-/
namespace Gp.Snoop
open Gp.Gen.Pcap Gp.Pcap

structure Pkt where
  sec    : Nat
  nsec   : Nat
  caplen : Nat
  len    : Nat
  data   : Bytes
  deriving Repr, DecidableEq

inductive Out where
  | pkt   (p : Pkt)
  | stop  (k : Stop)
  | err
  | panic (k : PanicKind)
  deriving Repr, DecidableEq

structure Reader where
  s        : Stream
  linkType : Nat        -- header.linkType (raw code, ≤ 10)
  bufCap   : Nat        -- cap(r.packetBuf)
  deriving Repr, DecidableEq

inductive Open where
  | ok   (r : Reader) (alloc : List Nat)
  | fail (o : Out)
  deriving Repr, DecidableEq

def be64 (a b c d e f g h : UInt8) : Nat := be32 a b c d * 4294967296 + be32 e f g h

/-- NewSnoopReader / readHeader: 16 bytes, magic, version, link type ≤ 10. -/
def openReader (s : Stream) : Open :=
  match readFull s 16 with
  | .stop k _ => .fail (.stop k)
  | .got [m0, m1, m2, m3, m4, m5, m6, m7, v0, v1, v2, v3, l0, l1, l2, l3] s' =>
    if be64 m0 m1 m2 m3 m4 m5 m6 m7 ≠ snoopMagic then .fail .err
    else if be32 v0 v1 v2 v3 ≠ snoopVersion then .fail .err
    else if be32 l0 l1 l2 l3 > 10 then .fail .err
    else .ok { s := s', linkType := be32 l0 l1 l2 l3, bufCap := 0 } [16]
  | .got _ _ => .fail (.panic .index)

/-- SnoopReader.LinkType(): the map `layerTypes` has entries for 0, 2, 4, 5, 8 only. -/
def linkTypeOf (code : Nat) : Option Nat :=
  if code = 0 then some 1        -- LinkTypeEthernet
  else if code = 2 then some 6   -- LinkTypeTokenRing
  else if code = 4 then some 1   -- LinkTypeEthernet
  else if code = 5 then some 104 -- LinkTypeC_HDLC
  else if code = 8 then some 10  -- LinkTypeFDDI
  else none

structure Step where
  r     : Reader
  out   : Out
  alloc : List Nat
  deriving Repr, DecidableEq

def bufFor (zc : Bool) (r : Reader) (caplen : Nat) : Nat × List Nat :=
  if zc then
    if r.bufCap < caplen then (caplen, [caplen]) else (r.bufCap, [])
  else (r.bufCap, [caplen])

/-- After the header checks: buffer, `io.ReadFull` of the data, `skipPad`.
    `io.Discard` borrows an 8 KiB block from a pool while copying (constant). -/
def readData (zc : Bool) (r : Reader) (sec frac caplen len pad : Nat) : Step :=
  let ba := bufFor zc r caplen
  let r2 := { r with bufCap := ba.1 }
  if zc ∧ ba.1 < caplen then { r := r2, out := .panic .slice, alloc := ba.2 }  -- r.packetBuf[:caplen]
  else
    match readFull r.s caplen with
    | .stop k s'' => { r := { r2 with s := s'' }, out := .stop k, alloc := ba.2 }
    | .got d s'' =>
      let al := if pad = 0 then ba.2 else ba.2 ++ [8192]
      match skip s'' pad with
      | (some k, s3) => { r := { r2 with s := s3 }, out := .stop k, alloc := al }
      | (none, s3) =>
        let t := normTime sec frac
        { r := { r2 with s := s3 },
          out := .pkt { sec := t.1, nsec := t.2, caplen := caplen, len := len, data := d },
          alloc := al }

/-- ReadPacketData (`zc = false`) / ZeroCopyReadPacketData (`zc = true`). -/
def read (zc : Bool) (r : Reader) : Step :=
  match readFull r.s 24 with
  | .stop k s' => { r := { r with s := s' }, out := .stop k, alloc := [] }
  | .got [o0, o1, o2, o3, i0, i1, i2, i3, r0, r1, r2, r3, _, _, _, _, t0, t1, t2, t3, u0, u1, u2, u3] s' =>
    let sec := be32 t0 t1 t2 t3
    let frac := (be32 u0 u1 u2 u3 * 1000) % 4294967296     -- uint32 multiplication
    let len := be32 o0 o1 o2 o3
    let caplen := be32 i0 i1 i2 i3
    let pad : Int := (be32 r0 r1 r2 r3 : Int) - (24 + (caplen : Int))
    let r1 := { r with s := s' }
    if caplen > len then { r := r1, out := .err, alloc := [] }
    else if caplen > maxCaptureLen then { r := r1, out := .err, alloc := [] }
    else if pad < 0 then { r := r1, out := .err, alloc := [] }
    else readData zc r1 sec frac caplen len pad.toNat
  | .got _ s' => { r := { r with s := s' }, out := .panic .index, alloc := [] }

theorem skip_le (s : Stream) (n : Nat) : (skip s n).2.data.length ≤ s.data.length := by
  unfold skip
  split <;> simp [Stream.drained]

theorem readData_pkt_le (zc : Bool) (r : Reader) (sec frac caplen len pad : Nat) (p : Pkt)
    (h : (readData zc r sec frac caplen len pad).out = .pkt p) :
    (readData zc r sec frac caplen len pad).r.s.data.length ≤ r.s.data.length := by
  revert h
  unfold readData
  dsimp only
  split
  · intro h; cases h
  · split
    · intro h; cases h
    · rename_i d s'' hd
      have h2 := (readFull_got hd).1
      split
      · intro h; cases h
      · rename_i s3 hs
        have h3 := skip_le s'' pad
        rw [hs] at h3
        intro _
        dsimp only at h3 ⊢
        omega

/-- A call that returns a packet consumed at least the 24-byte record header. -/
theorem read_pkt_lt (zc : Bool) (r : Reader) (p : Pkt) (h : (read zc r).out = .pkt p) :
    (read zc r).r.s.data.length < r.s.data.length := by
  revert h
  unfold read
  split
  · intro h; cases h
  · rename_i s' h24
    have h1 := (readFull_got h24).1
    dsimp only
    split
    · intro h; cases h
    · split
      · intro h; cases h
      · split
        · intro h; cases h
        · intro h
          have := readData_pkt_le _ _ _ _ _ _ _ _ h
          dsimp only at this
          omega
  · intro h; cases h

/-- Read until the first call that does not return a packet. -/
def readAll (zc : Bool) (r : Reader) : List Pkt × Out :=
  match _h : (read zc r).out with
  | .pkt p =>
    let rest := readAll zc (read zc r).r
    (p :: rest.1, rest.2)
  | o => ([], o)
termination_by r.s.data.length
decreasing_by exact read_pkt_lt zc r p (by assumption)

/-- The n-th call (0-based) on a reader, with any choice of copying / zero-copy calls. -/
def nthRead (r : Reader) : List Bool → Bool → Step
  | [], zc => read zc r
  | z :: zs, zc => nthRead (read z r).r zs zc

end Gp.Snoop
