/-
  Model of the packet builder framework of /repo/packet.go (engine `pkt`, properties C01 C03 C04).

  Transcribed functions (fingerprinted in props/C03.json, tied by the correspondence run of
  harness/cmd/gp-pkt with SCRIPTED decoders and with traces of the real decoders):

    packet.SetTruncated/Set*Layer/SetErrorLayer/AddLayer          -> applyAct
    packet.addFinalDecodeError, packet.recoverDecodeError          -> addFinal (+ the `recover` flag)
    eagerPacket.NextDecoder, eagerPacket.initialDecode             -> eagerBeh / eagerDec / newEager
    lazyPacket.NextDecoder, lazyPacket.decodeNextLayer             -> lazyBeh / step
    lazyPacket.{LinkLayer..ErrorLayer,Layers,Layer,LayerClass,String,Dump} -> lazyAcc
    eagerPacket.{same}                                             -> evalEager

  A *decoder behaviour is data* (`Beh`): the public API accepts any gopacket.Decoder, and the only
  thing a decoder can do to the builder is call its methods and look at the value NextDecoder
  returns; so a (deterministic) decoder invocation is a finite tree of builder calls.  A decoder
  `Table` maps (decoder id, packet bytes, input window) to such a tree.  Nothing is assumed about
  tables unless a theorem says so: decoders may panic or fail anywhere, call NextDecoder in the
  middle, never add a layer, …

  Layer slices are windows (offset, length) into the packet's data (every slice a decoder hands out
  is a sub-slice of its input); a `*gopacket.DecodeFailure` has `LayerPayload() == nil`.

  Core Lean only.
-/
import Gp.Go.Basic

namespace Gp.Pkt

abbrev DecId := Nat

/-- A decoded layer: identity, LayerType, LayerContents/LayerPayload as windows into Packet.Data().
    `fail` = the object is a `*gopacket.DecodeFailure`. -/
structure Layer where
  id   : Nat
  ty   : Nat
  coff : Nat
  clen : Nat
  poff : Nat
  plen : Nat
  fail : Bool
  deriving DecidableEq, Repr, Inhabited

/-- `len(l.LayerPayload())`: a DecodeFailure has a nil payload (decode.go:136). -/
def Layer.payLen (l : Layer) : Nat := if l.fail then 0 else l.plen

/-- One call of a PacketBuilder method other than NextDecoder. -/
inductive Act where
  | add      (l : Layer)
  | setLink  (l : Layer)
  | setNet   (l : Layer)
  | setTrans (l : Layer)
  | setApp   (l : Layer)
  | setErr   (l : Layer)
  | trunc
  deriving DecidableEq, Repr

/-- What one decoder invocation does, as a tree: builder calls, then either `return nil/err`,
    a panic, or a call `NextDecoder(d)` (d = none: a nil Decoder) whose returned error selects
    the continuation (`kOk` if it returned nil, `kErr` if it returned an error).
    `return p.NextDecoder(d)` is `next d (ret false) (ret true)`. -/
inductive Beh where
  | ret   (err : Bool)
  | panic
  | act   (a : Act) (k : Beh)
  | next  (d : Option DecId) (kOk kErr : Beh)
  deriving Repr

/-- decoder id → packet data → input window (offset, length) → behaviour. -/
abbrev Table := DecId → Bytes → Nat → Nat → Beh

/-- `struct packet` (packet.go:131-152), without capture metadata. -/
structure Pkt where
  data      : Bytes
  layers    : List Layer   := []
  last      : Option Layer := none
  link      : Option Layer := none
  net       : Option Layer := none
  trans     : Option Layer := none
  app       : Option Layer := none
  failure   : Option Layer := none
  truncated : Bool         := false
  deriving DecidableEq, Repr

/-- packet.go:182 etc.: "the first call is kept and all other calls are ignored". -/
def setOnce (cur : Option Layer) (l : Layer) : Option Layer :=
  match cur with
  | none => some l
  | some c => some c

/-- packet.go:188-191 -/
def Pkt.addLayer (p : Pkt) (l : Layer) : Pkt := { p with layers := p.layers ++ [l], last := some l }

def applyAct (a : Act) (p : Pkt) : Pkt :=
  match a with
  | .add l      => p.addLayer l
  | .setLink l  => { p with link := setOnce p.link l }
  | .setNet l   => { p with net := setOnce p.net l }
  | .setTrans l => { p with trans := setOnce p.trans l }
  | .setApp l   => { p with app := setOnce p.app l }
  | .setErr l   => { p with failure := setOnce p.failure l }
  | .trunc      => { p with truncated := true }

/-- The DecodeFailure layer built by addFinalDecodeError (packet.go:234-240): its contents are the
    bytes that failed to decode (whole data if no layer yet, else the last layer's payload). -/
def failLayer (p : Pkt) : Layer :=
  match p.last with
  | none   => { id := 0, ty := 1, coff := 0, clen := p.data.length, poff := 0, plen := 0, fail := true }
  | some l => { id := 0, ty := 1, coff := l.poff, clen := l.payLen, poff := 0, plen := 0, fail := true }

/-- packet.go:234-243 addFinalDecodeError: AddLayer(fail); SetErrorLayer(fail). -/
def addFinal (p : Pkt) : Pkt :=
  let f := failLayer p
  let p1 := p.addLayer f
  { p1 with failure := setOnce p1.failure f }

/-- How a decoder invocation ends: returned (nil / error) or panicked. -/
inductive Out where
  | ret (err : Bool)
  | panic
  deriving DecidableEq, Repr

/-! ### Eager decoding (packet.go:497-523) -/

/-- One decoder body run against an eagerPacket.  `run d off len p` is the recursive call
    `next.Decode(d, p)`; `none` = ran out of fuel (unbounded recursion: in Go a fatal stack
    overflow that `recover` cannot catch). -/
def eagerBeh (run : DecId → Nat → Nat → Pkt → Option (Pkt × Out)) : Beh → Pkt → Option (Pkt × Out)
  | .ret e, p => some (p, .ret e)
  | .panic, p => some (p, .panic)
  | .act a k, p => eagerBeh run k (applyAct a p)
  | .next none _ kErr, p => eagerBeh run kErr p                -- errNilDecoder
  | .next (some d) kOk kErr, p =>
    match p.last with
    | none => eagerBeh run kErr p                             -- ErrNoLayersAdded
    | some l =>
      if l.payLen = 0 then eagerBeh run kOk p                  -- len(d) == 0: return nil
      else match run d l.poff l.payLen p with
        | none => none
        | some (p', .ret false) => eagerBeh run kOk p'
        | some (p', .ret true)  => eagerBeh run kErr p'
        | some (p', .panic)     => some (p', .panic)           -- unwinds through the caller

/-- `dec.Decode(data[off:off+len], p)` with recursion depth bounded by the fuel. -/
def eagerDec (tab : Table) : Nat → DecId → Nat → Nat → Pkt → Option (Pkt × Out)
  | 0, _, _, _, _ => none
  | n + 1, d, off, len, p => eagerBeh (eagerDec tab n) (tab d p.data off len) p

/-- Result of `NewPacket`: a packet, a panic escaping to the caller, or no return. -/
inductive Built where
  | ok (p : Pkt)
  | panic
  | diverge
  deriving DecidableEq, Repr

/-- initialDecode (packet.go:517-523) incl. the deferred recoverDecodeError; `first = none` is a
    nil firstLayerDecoder (calling it is a nil dereference).  `recover` = ¬SkipDecodeRecovery. -/
def newEager (tab : Table) (fuel : Nat) (recover : Bool) (data : Bytes) (first : Option DecId) : Built :=
  let p0 : Pkt := { data := data }
  match first with
  | none => if recover then .ok (addFinal p0) else .panic
  | some d =>
    match eagerDec tab fuel d 0 data.length p0 with
    | none => .diverge
    | some (p, .ret false) => .ok p
    | some (p, .ret true)  => .ok (addFinal p)
    | some (p, .panic)     => if recover then .ok (addFinal p) else .panic

/-! ### Lazy decoding (packet.go:565-671) -/

structure LPkt where
  p    : Pkt
  next : Option DecId
  deriving DecidableEq, Repr

/-- NewPacket with Lazy: nothing is decoded. -/
def newLazy (data : Bytes) (first : Option DecId) : LPkt := { p := { data := data }, next := first }

/-- One decoder body run against a lazyPacket: NextDecoder stores the continuation and returns
    nil (errNilDecoder for a nil decoder). -/
def lazyBeh : Beh → LPkt → LPkt × Out
  | .ret e, lp => (lp, .ret e)
  | .panic, lp => (lp, .panic)
  | .act a k, lp => lazyBeh k { lp with p := applyAct a lp.p }
  | .next none _ kErr, lp => lazyBeh kErr lp
  | .next (some d) kOk _, lp => lazyBeh kOk { lp with next := some d }

/-- The input window of the next decoder: last layer's payload, or the whole data. -/
def inputWin (p : Pkt) : Nat × Nat :=
  match p.last with
  | none => (0, p.data.length)
  | some l => (l.poff, l.payLen)

/-- decodeNextLayer (packet.go:577-597).  The Bool says a panic escaped (SkipDecodeRecovery). -/
def step (tab : Table) (recover : Bool) (lp : LPkt) : LPkt × Bool :=
  match lp.next with
  | none => (lp, false)
  | some d =>
    let w := inputWin lp.p
    let lp1 : LPkt := { lp with next := none }
    if w.2 = 0 then (lp1, false)
    else match lazyBeh (tab d lp.p.data w.1 w.2) lp1 with
      | (lp2, .ret false) => (lp2, false)
      | (lp2, .ret true)  => ({ lp2 with p := addFinal lp2.p }, false)
      | (lp2, .panic)     => if recover then ({ lp2 with p := addFinal lp2.p }, false) else (lp2, true)

/-- Result of a lazy accessor's decode loop. -/
inductive LRes where
  | ok (lp : LPkt)
  | panic (lp : LPkt)    -- a decoder panic escaped (SkipDecodeRecovery); state as left behind
  | diverge              -- the loop never ends (fuel exhausted)
  deriving DecidableEq, Repr

/-- `for !stop(p) && p.next != nil { p.decodeNextLayer() }` -/
def loopUntil (tab : Table) (recover : Bool) (stop : Pkt → Bool) : Nat → LPkt → LRes
  | 0, lp => if stop lp.p || lp.next.isNone then .ok lp else .diverge
  | n + 1, lp =>
    if stop lp.p || lp.next.isNone then .ok lp
    else match step tab recover lp with
      | (lp', true)  => .panic lp'
      | (lp', false) => loopUntil tab recover stop n lp'

/-- The second loop of lazyPacket.Layer / LayerClass (packet.go:640-650): decode one more layer
    batch, look only at the layers added since (`p.layers[numLayers:]`). -/
def findLoop (tab : Table) (recover : Bool) (pred : Layer → Bool) : Nat → Nat → LPkt → LRes × Option Layer
  | 0, _, lp => if lp.next.isNone then (.ok lp, none) else (.diverge, none)
  | n + 1, num, lp =>
    if lp.next.isNone then (.ok lp, none)
    else match step tab recover lp with
      | (lp', true)  => (.panic lp', none)
      | (lp', false) =>
        match (lp'.p.layers.drop num).find? pred with
        | some l => (.ok lp', some l)
        | none   => findLoop tab recover pred n lp'.p.layers.length lp'

/-- The accessor alphabet of gopacket.Packet (C03). -/
inductive Acc where
  | layers
  | layer (t : Nat)
  | layerClass (c : List Nat)
  | link | net | trans | app | err
  | string | dump
  deriving DecidableEq, Repr

/-- What an accessor call returns (or that it panicked / never returned).  `rendered` stands for
    the String()/Dump() text: a function of the layer list and the truncated flag. -/
inductive Ans where
  | layer (l : Option Layer)
  | layers (ls : List Layer)
  | rendered (ls : List Layer) (truncated : Bool)
  | panic
  | diverge
  deriving DecidableEq, Repr

def isTy (t : Nat) (l : Layer) : Bool := l.ty == t
def inClass (c : List Nat) (l : Layer) : Bool := c.contains l.ty

/-- eagerPacket's accessors (packet.go:524-559): pure reads of the packet value. -/
def evalEager (a : Acc) (p : Pkt) : Ans :=
  match a with
  | .layers => .layers p.layers
  | .layer t => .layer (p.layers.find? (isTy t))
  | .layerClass c => .layer (p.layers.find? (inClass c))
  | .link => .layer p.link
  | .net => .layer p.net
  | .trans => .layer p.trans
  | .app => .layer p.app
  | .err => .layer p.failure
  | .string => .rendered p.layers p.truncated
  | .dump => .rendered p.layers p.truncated

def afterLoop (lp : LPkt) (r : LRes) (f : Pkt → Ans) : LPkt × Ans :=
  match r with
  | .ok lp' => (lp', f lp'.p)
  | .panic lp' => (lp', .panic)
  | .diverge => (lp, .diverge)

def lazyFind (tab : Table) (recover : Bool) (fuel : Nat) (pred : Layer → Bool) (lp : LPkt) : LPkt × Ans :=
  match lp.p.layers.find? pred with
  | some l => (lp, .layer (some l))
  | none =>
    match findLoop tab recover pred fuel lp.p.layers.length lp with
    | (.ok lp', r) => (lp', .layer r)
    | (.panic lp', _) => (lp', .panic)
    | (.diverge, _) => (lp, .diverge)

/-- lazyPacket's accessors (packet.go:598-671): state transformer + answer. -/
def lazyAcc (tab : Table) (recover : Bool) (fuel : Nat) (a : Acc) (lp : LPkt) : LPkt × Ans :=
  match a with
  | .layers => afterLoop lp (loopUntil tab recover (fun _ => false) fuel lp) (fun p => .layers p.layers)
  | .layer t => lazyFind tab recover fuel (isTy t) lp
  | .layerClass c => lazyFind tab recover fuel (inClass c) lp
  | .link  => afterLoop lp (loopUntil tab recover (fun p => p.link.isSome) fuel lp) (fun p => .layer p.link)
  | .net   => afterLoop lp (loopUntil tab recover (fun p => p.net.isSome) fuel lp) (fun p => .layer p.net)
  | .trans => afterLoop lp (loopUntil tab recover (fun p => p.trans.isSome) fuel lp) (fun p => .layer p.trans)
  | .app   => afterLoop lp (loopUntil tab recover (fun p => p.app.isSome) fuel lp) (fun p => .layer p.app)
  | .err   => afterLoop lp (loopUntil tab recover (fun p => p.failure.isSome) fuel lp) (fun p => .layer p.failure)
  | .string => afterLoop lp (loopUntil tab recover (fun _ => false) fuel lp) (fun p => .rendered p.layers p.truncated)
  | .dump   => afterLoop lp (loopUntil tab recover (fun _ => false) fuel lp) (fun p => .rendered p.layers p.truncated)

/-- Run an accessor program on a lazy packet; the list of answers. -/
def runLazy (tab : Table) (recover : Bool) (fuel : Nat) : List Acc → LPkt → List Ans
  | [], _ => []
  | a :: rest, lp =>
    let r := lazyAcc tab recover fuel a lp
    r.2 :: runLazy tab recover fuel rest r.1

/-- Final state of a lazy packet after an accessor program. -/
def stateAfter (tab : Table) (recover : Bool) (fuel : Nat) : List Acc → LPkt → LPkt
  | [], lp => lp
  | a :: rest, lp => stateAfter tab recover fuel rest (lazyAcc tab recover fuel a lp).1

/-- Run an accessor program on an eager packet. -/
def runEager (prog : List Acc) (p : Pkt) : List Ans := prog.map (fun a => evalEager a p)

/-! ### Scripted decoders (what the correspondence harness installs)

  A scripted layer is given relative to the decoder's input window `data[off:off+len]`:
  contents = `in[:min(c,len)]`, payload = `in[s:s+n]` with `s = min(skip,len)`, `n = min(pl,len-s)`.
  (`abs` layers, used for traces of the real decoders, carry absolute windows.) -/

inductive LSpec where
  | rel (id ty c skip pl : Nat) (fail : Bool)
  | abs (id ty coff clen poff plen : Nat) (fail : Bool)
  deriving DecidableEq, Repr

def LSpec.mk' (s : LSpec) (off len : Nat) : Layer :=
  match s with
  | .rel id ty c skip pl fail =>
    let sk := min skip len
    { id := id, ty := ty, coff := off, clen := min c len, poff := off + sk, plen := min pl (len - sk), fail := fail }
  | .abs id ty coff clen poff plen fail =>
    { id := id, ty := ty, coff := coff, clen := clen, poff := poff, plen := plen, fail := fail }

inductive SAct where
  | add (s : LSpec) | setLink (s : LSpec) | setNet (s : LSpec) | setTrans (s : LSpec)
  | setApp (s : LSpec) | setErr (s : LSpec) | trunc
  deriving DecidableEq, Repr

inductive SBeh where
  | ret (err : Bool)
  | panic
  | act (a : SAct) (k : SBeh)
  | next (d : Option DecId) (kOk kErr : SBeh)
  deriving Repr

def SAct.inst (a : SAct) (off len : Nat) : Act :=
  match a with
  | .add s => .add (s.mk' off len)
  | .setLink s => .setLink (s.mk' off len)
  | .setNet s => .setNet (s.mk' off len)
  | .setTrans s => .setTrans (s.mk' off len)
  | .setApp s => .setApp (s.mk' off len)
  | .setErr s => .setErr (s.mk' off len)
  | .trunc => .trunc

def SBeh.inst : SBeh → Nat → Nat → Beh
  | .ret e, _, _ => .ret e
  | .panic, _, _ => .panic
  | .act a k, off, len => .act (a.inst off len) (k.inst off len)
  | .next d kOk kErr, off, len => .next d (kOk.inst off len) (kErr.inst off len)

/-- The table of a list of scripts; an undefined decoder id does nothing and returns nil. -/
def scriptTable (scripts : List SBeh) : Table :=
  fun d _ off len =>
    match scripts[d]? with
    | some s => s.inst off len
    | none => .ret false

end Gp.Pkt
