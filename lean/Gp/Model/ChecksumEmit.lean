import Gp.Model.Checksum
/-
  Byte-level models of checksum EMISSION (the `if opts.ComputeChecksums { … }` blocks of SerializeTo
  in layers/ip4.go, tcp.go, udp.go, icmp4.go, icmp6.go, gre.go) and VERIFICATION (the VerifyChecksum
  methods of the same files, plus the part of each DecodeFromBytes that decides WHICH bytes and WHICH
  stored value VerifyChecksum sees, and packet.go Packet.VerifyChecksums).

  Only as much of each header is modelled as the checksum needs: the header bytes are built from the
  field values the way SerializeTo (with FixLengths) lays them out; options are one run of NOPs plus at
  most one generic (kind,len,data) option and zero padding.  All emitters and verifiers are instances
  of the two generic functions `emitAt` / `verifyAt`; the theorems (Gp/Props/C08) are proved once
  for these and instantiated.  Core Lean only.
-/
namespace Gp.CksumEmit
open Gp Gp.Cksum

/-! ### generic machinery -/

/-- `binary.BigEndian.PutUint16(bs[off:], v)` on a slice that is long enough -/
def put16At (bs : Bytes) (off v : Nat) : Bytes := bs.take off ++ putBe16 v ++ bs.drop (off + 2)

/-- `binary.BigEndian.Uint16(bs[off:off+2])`; `none` where Go would panic (index out of range) -/
def get16At? (bs : Bytes) (off : Nat) : Option Nat :=
  match bs.drop off with
  | a :: b :: _ => some (be16 a b)
  | _ => none

/-- the emission block shared by all six SerializeTo: zero the field, sum (starting from `c0`),
    fold, post-process (identity; UDP maps 0 to 0xffff), store. -/
def emitAt (c0 off : Nat) (post : Nat → Nat) (seg : Bytes) : Bytes :=
  let z := put16At seg off 0
  put16At z off (post (fold (compute z c0)))

/-- gopacket.ChecksumVerificationResult -/
structure VerRes where
  valid : Bool
  correct : Nat
  actual : Nat
  deriving Repr, DecidableEq, Inhabited

/-- the body shared by all six VerifyChecksum: `existing` is the stored field,
    `correct := post (FoldChecksum(ComputeChecksum(bytes, c0) - uint32(existing)))`,
    `Valid := noCk || correct == existing`. -/
def verifyWith (c0 : Nat) (post : Nat → Nat) (noCk : Bool) (existing : Nat) (seg : Bytes) : VerRes :=
  let v := compute seg c0
  let correct := post (fold ((v + W32 - existing) % W32))
  { valid := noCk || correct == existing, correct := correct, actual := existing }

/-- verification of a segment whose checksum field is the 16-bit word at `off` -/
def verifyAt (c0 off : Nat) (post : Nat → Nat) (noCk : Nat → Bool) (seg : Bytes) : Res VerRes :=
  match get16At? seg off with
  | none => .panic .index
  | some existing => .ok (verifyWith c0 post (noCk existing) existing seg)

def postId (x : Nat) : Nat := x
/-- RFC 768: a computed zero is transmitted as all ones (udp.go SerializeTo; VerifyChecksum after
    proposed_fixes/cksum-1-udp-verify-zero) -/
def postUdp (x : Nat) : Nat := if x = 0 then 65535 else x
def neverNoCk (_ : Nat) : Bool := false
/-- RFC 768: a stored zero means "no checksum" (udp.go VerifyChecksum `existing == 0 ||`) -/
def udpNoCk (e : Nat) : Bool := e == 0

/-! ### the reference value (specification side) -/

/-- the value the checksum field must hold: the RFC 1071 checksum (Gp.Cksum.rfc1071: one's-complement sum
    with end-around carry, complemented) of `pre ++ seg` where `pre` is the pseudo-header byte string
    (empty for IPv4 header, ICMPv4, GRE) and the field itself counts as zero; `post` is the protocol's
    transmission rule for the value (UDP: zero is sent as 0xffff). -/
def refCk (pre : Bytes) (off : Nat) (post : Nat → Nat) (seg : Bytes) : Nat :=
  post (rfc1071 (pre ++ put16At seg off 0))

/-! ### pseudo-headers -/

/-- which network layer was attached with SetNetworkLayerForChecksum -/
inductive Net where
  | v4 (src dst : Bytes)
  | v6 (src dst : Bytes)
  deriving Repr, DecidableEq, Inhabited

def Net.ok : Net → Bool
  | .v4 s d => s.length == 4 && d.length == 4
  | .v6 s d => s.length == 16 && d.length == 16

/-- the upper-layer length fits the pseudo-header's length field (16 bits for IPv4, 32 for IPv6) -/
def Net.lenOk : Net → Nat → Prop
  | .v4 _ _, n => n < 65536
  | .v6 _ _, n => n < 4294967296

instance (net : Net) (n : Nat) : Decidable (net.lenOk n) := by
  cases net <;> simp only [Net.lenOk] <;> exact inferInstance

/-- pseudoheaderChecksum of the attached layer -/
def Net.pseudo : Net → Nat
  | .v4 s d => pseudo4 s d
  | .v6 s d => pseudo6 s d 0

/-- the accumulator computeChecksum hands to ComputeChecksum for a segment of `len` bytes -/
def l4c0 (net : Net) (proto len : Nat) : Nat := l4init net.pseudo proto len

/-- the pseudo-header as a byte string (RFC 793/768 for IPv4: src, dst, zero, protocol, 16-bit length;
    RFC 8200 §8.1 for IPv6: src, dst, 32-bit upper-layer length, three zero bytes, next header) -/
def Net.pseudoBytes (net : Net) (proto len : Nat) : Bytes :=
  match net with
  | .v4 s d => s ++ d ++ [0, u8 proto] ++ putBe16 len
  | .v6 s d => s ++ d ++ putBe32 len ++ [0, 0, 0, u8 proto]

/-! ### header construction (as SerializeTo with FixLengths lays the fields out) -/

def zeros (n : Nat) : Bytes := List.replicate n 0

/-- options area: `nnop` NOP bytes, then (if okind ≠ 0) one option `kind, 2+|data|, data`, then zero
    padding to a multiple of four bytes -/
def optBytes (nnop okind : Nat) (odata : Bytes) : Bytes :=
  let o := List.replicate nnop (1 : UInt8) ++ (if okind = 0 then [] else u8 okind :: u8 (2 + odata.length) :: odata)
  o ++ zeros ((4 - o.length % 4) % 4)

structure Ip4F where
  tos : Nat
  id : Nat
  ff : Nat      -- flags<<13 | fragment offset
  ttl : Nat
  proto : Nat
  src : Bytes
  dst : Bytes
  opts : Bytes  -- already padded
  deriving Repr, Inhabited

/-- ip4.go SerializeTo before the checksum block; `plen` = bytes already in the buffer -/
def ip4Hdr (f : Ip4F) (plen : Nat) : Bytes :=
  [u8 (64 + (5 + f.opts.length / 4)), u8 f.tos] ++ putBe16 ((20 + f.opts.length + plen) % 65536) ++ putBe16 f.id ++
    putBe16 f.ff ++ [u8 f.ttl, u8 f.proto, 0, 0] ++ f.src ++ f.dst ++ f.opts

/-- header with checksum written, followed by the payload -/
def emitIp4 (f : Ip4F) (payload : Bytes) : Bytes := emitAt 0 10 postId (ip4Hdr f payload.length) ++ payload

structure TcpF where
  sport : Nat
  dport : Nat
  seq : Nat
  ack : Nat
  flags : Nat   -- 9 bits: NS CWR ECE URG ACK PSH RST SYN FIN
  window : Nat
  urgent : Nat
  opts : Bytes  -- already padded
  deriving Repr, Inhabited

def tcpHdr (f : TcpF) : Bytes :=
  putBe16 f.sport ++ putBe16 f.dport ++ putBe32 f.seq ++ putBe32 f.ack ++
    putBe16 (((20 + f.opts.length) / 4) * 4096 + f.flags) ++ putBe16 f.window ++ [0, 0] ++ putBe16 f.urgent ++ f.opts

def emitTcp (net : Net) (f : TcpF) (payload : Bytes) : Bytes :=
  let seg := tcpHdr f ++ payload
  emitAt (l4c0 net 6 seg.length) 16 postId seg

/-- udp.go SerializeTo: the jumbogram rule looks at the attached pseudo-header type -/
def udpLen (net : Net) (plen : Nat) : Nat :=
  match net with
  | .v6 _ _ => if plen + 8 > 65535 then 0 else (plen + 8) % 65536
  | .v4 _ _ => (plen + 8) % 65536

def udpHdr (net : Net) (sport dport plen : Nat) : Bytes :=
  putBe16 sport ++ putBe16 dport ++ putBe16 (udpLen net plen) ++ [0, 0]

def emitUdp (net : Net) (sport dport : Nat) (payload : Bytes) : Bytes :=
  let seg := udpHdr net sport dport payload.length ++ payload
  emitAt (l4c0 net 17 seg.length) 6 postUdp seg

def emitIcmp4 (type code id seq : Nat) (payload : Bytes) : Bytes :=
  emitAt 0 2 postId ([u8 type, u8 code, 0, 0] ++ putBe16 id ++ putBe16 seq ++ payload)

def emitIcmp6 (net : Net) (type code : Nat) (payload : Bytes) : Bytes :=
  let seg := [u8 type, u8 code, 0, 0] ++ payload
  emitAt (l4c0 net 58 seg.length) 2 postId seg

structure GreF where
  c : Bool      -- ChecksumPresent
  k : Bool      -- KeyPresent
  s : Bool      -- SeqPresent
  a : Bool      -- AckPresent
  recur : Nat   -- < 8
  flags : Nat   -- < 32 (gre.go: `buf[1] |= g.Flags << 3`, so bit 4 overlaps AckPresent)
  ver : Nat     -- < 8
  proto : Nat
  offset : Nat
  key : Nat
  seq : Nat
  ack : Nat
  deriving Repr, Inhabited

def b2n (b : Bool) : Nat := if b then 1 else 0

/-- gre.go SerializeTo without routing, before the checksum is written (field zeroed) -/
def greHdr (f : GreF) : Bytes :=
  [u8 (b2n f.c * 128 + b2n f.k * 32 + b2n f.s * 16 + f.recur), u8 ((b2n f.a * 128) ||| (f.flags * 8 % 256) ||| f.ver)] ++
    putBe16 f.proto ++ (if f.c then [0, 0] ++ putBe16 f.offset else []) ++
    (if f.k then putBe32 f.key else []) ++ (if f.s then putBe32 f.seq else []) ++ (if f.a then putBe32 f.ack else [])

def emitGre (f : GreF) (payload : Bytes) : Bytes :=
  let seg := greHdr f ++ payload
  if f.c then emitAt 0 4 postId seg else seg

/-! ### what DecodeFromBytes hands to VerifyChecksum

  `none` = DecodeFromBytes returns an error (no verification possible). -/

/-- outcome of walking an options area -/
inductive OptRes where
  | ok | err | unmodelled
  deriving Repr, DecidableEq, Inhabited

/-- ip4.go DecodeFromBytes `pullOutOptions` loop: only whether it returns an error -/
def ip4OptsOk : Nat → Bytes → Bool
  | 0, _ => true
  | _ + 1, [] => true
  | fuel + 1, t :: rest =>
    if t.toNat = 0 then true
    else if t.toNat = 1 then ip4OptsOk fuel rest
    else match rest with
      | [] => false                                   -- len < 2
      | l :: _ =>
        if (t :: rest).length < l.toNat then false    -- exceeds remaining header
        else if l.toNat ≤ 2 then false
        else ip4OptsOk fuel ((t :: rest).drop l.toNat)

/-- ip4.go DecodeFromBytes up to `ip.Contents = data[:ip.IHL*4]`: the bytes VerifyChecksum sums -/
def ip4Contents (data : Bytes) : Option Bytes :=
  match data with
  | b0 :: _ :: l0 :: l1 :: _ =>
    if data.length < 20 then none else
    let len0 := be16 l0 l1
    let len := if len0 = 0 then data.length % 65536 else len0
    let ihl := b0.toNat % 16
    if len < 20 then none
    else if ihl < 5 then none
    else if ihl * 4 > len then none
    else
      let data' := if data.length > len then data.take len else data
      if data.length < len ∧ ihl * 4 > data.length then none
      else
        let contents := data'.take (ihl * 4)
        if ip4OptsOk 64 (contents.drop 20) then some contents else none
  | _ => none

def verifyIp4 (data : Bytes) : Option (Res VerRes) :=
  (ip4Contents data).map (verifyAt 0 10 postId neverNoCk)

/-- tcp.go DecodeFromBytes options loop: error / fine / contains an MPTCP option (kind 30, modelled by
    engine ltcp, not here) -/
def tcpOptsCheck : Nat → Bytes → OptRes
  | 0, _ => .ok
  | _ + 1, [] => .ok
  | fuel + 1, k :: rest =>
    if k.toNat = 0 then .ok
    else if k.toNat = 1 then tcpOptsCheck fuel rest
    else if k.toNat = 30 then .unmodelled
    else match rest with
      | [] => .err
      | l :: _ =>
        if l.toNat < 2 then .err
        else if l.toNat > (k :: rest).length then .err
        else tcpOptsCheck fuel ((k :: rest).drop l.toNat)

/-- TCP: Contents ++ Payload is the whole segment whenever decoding succeeds -/
def tcpDelim (data : Bytes) : OptRes :=
  if data.length < 20 then .err else
  match data.drop 12 with
  | [] => .err
  | b12 :: _ =>
    let doff := b12.toNat / 16
    if doff < 5 then .err
    else if doff * 4 > data.length then .err
    else tcpOptsCheck 64 ((data.take (doff * 4)).drop 20)

def verifyTcp (net : Net) (data : Bytes) : Res VerRes :=
  verifyAt (l4c0 net 6 data.length) 16 postId neverNoCk data

/-- udp.go DecodeFromBytes: Contents ++ Payload is cut by the UDP length field -/
def udpDelim (data : Bytes) : Option Bytes :=
  match data with
  | _ :: _ :: _ :: _ :: l0 :: l1 :: _ :: _ :: _ =>
    let len := be16 l0 l1
    if len ≥ 8 then some (data.take (if len > data.length then data.length else len))
    else if len = 0 then some data
    else none
  | _ => none

def verifyUdp (net : Net) (data : Bytes) : Option (Res VerRes) :=
  (udpDelim data).map fun seg => verifyAt (l4c0 net 17 seg.length) 6 postUdp udpNoCk seg

def verifyIcmp4 (data : Bytes) : Option (Res VerRes) :=
  if data.length < 8 then none else some (verifyAt 0 2 postId neverNoCk data)

def verifyIcmp6 (net : Net) (data : Bytes) : Option (Res VerRes) :=
  if data.length < 4 then none else some (verifyAt (l4c0 net 58 data.length) 2 postId neverNoCk data)

/-- gre.go DecodeFromBytes routing loop from `offset`: the offset after the terminating NULL SRE, or
    none when `requireBytes` fails -/
def greRouting : Nat → Bytes → Nat → Option Nat
  | 0, _, _ => none
  | fuel + 1, data, offset =>
    if data.length < offset + 4 then none else
    match data.drop offset with
    | a0 :: a1 :: _ :: l :: _ =>
      if data.length < offset + 4 + l.toNat then none
      else if be16 a0 a1 = 0 ∧ l.toNat = 0 then some (offset + 4)
      else greRouting fuel data (offset + 4 + l.toNat)
    | _ => none

/-- gre.go DecodeFromBytes: does it succeed, is ChecksumPresent set, which stored checksum -/
def greDecode (data : Bytes) : Option (Bool × Nat) :=
  match data with
  | b0 :: b1 :: _ :: _ :: _ =>
    let c := b0.toNat / 128 % 2 == 1
    let r := b0.toNat / 64 % 2 == 1
    let k := b0.toNat / 32 % 2 == 1
    let s := b0.toNat / 16 % 2 == 1
    let a := b1.toNat / 128 % 2 == 1
    let stored? : Option Nat := if c || r then get16At? data 4 else some 0
    match stored? with
    | none => none
    | some stored =>
      if (c || r) && data.length < 8 then none else
      let off := if c || r then 8 else 4
      if k && data.length < off + 4 then none else
      let off := if k then off + 4 else off
      if s && data.length < off + 4 then none else
      let off := if s then off + 4 else off
      match (if r then greRouting (data.length + 1) data off else some off) with
      | none => none
      | some off =>
        if a && data.length < off + 4 then none else some (c, stored)
  | _ => none

def verifyGre (data : Bytes) : Option (Res VerRes) :=
  (greDecode data).map fun (c, stored) => .ok (verifyWith 0 postId (!c) stored data)

/-! ### bit flips -/

/-- flip bit `j` (0 = least significant) of a byte, arithmetically -/
def flipByte (b : UInt8) (j : Nat) : UInt8 :=
  if b.toNat / 2 ^ j % 2 = 1 then UInt8.ofNat (b.toNat - 2 ^ j) else UInt8.ofNat (b.toNat + 2 ^ j)

/-- flip bit `i` of a byte string: byte `i / 8`, bit `7 - i % 8` (bit 0 = most significant bit of byte 0) -/
def flipBit : Bytes → Nat → Bytes
  | [], _ => []
  | b :: rest, i => if i < 8 then flipByte b (7 - i) :: rest else b :: flipBit rest (i - 8)

/-- the network layer with bit `i` of its source / destination address flipped (the addresses are covered by
    the transport checksum through the pseudo-header) -/
def Net.flipSrc : Net → Nat → Net
  | .v4 s d, i => .v4 (flipBit s i) d
  | .v6 s d, i => .v6 (flipBit s i) d

def Net.flipDst : Net → Nat → Net
  | .v4 s d, i => .v4 s (flipBit d i)
  | .v6 s d, i => .v6 s (flipBit d i)

def Net.addrBits : Net → Nat
  | .v4 _ _ => 32
  | .v6 _ _ => 128

/-! ### Packet.VerifyChecksums (packet.go)

  The loop over the decoded layers.  Each layer is represented by what its VerifyChecksum returns
  (`none`: the layer is not a LayerWithChecksum).  A TCP/UDP/ICMPv6 layer is verified against the
  network layer the CALLER attached with SetNetworkLayerForChecksum (API precondition; decoding does
  not attach it and VerifyChecksums must stay a pure reader — C02), which is how the caller computes
  its entry. -/

/-- one entry of the mismatch list: layer index, Correct, Actual -/
abbrev Mismatch := Nat × Nat × Nat

def mismatchOf (idx : Nat) (r : VerRes) : List Mismatch :=
  if r.valid then [] else [(idx, r.correct, r.actual)]

/-- packet.go VerifyChecksums from layer index `i` on: an error of any layer aborts, otherwise the
    invalid layers are listed in order -/
def packetVerify : List (Option (Res VerRes)) → Nat → Res (List Mismatch)
  | [], _ => .ok []
  | none :: rest, i => packetVerify rest (i + 1)
  | some (.ok r) :: rest, i =>
    match packetVerify rest (i + 1) with
    | .ok ms => .ok (mismatchOf i r ++ ms)
    | .err k => .err k
    | .panic k => .panic k
  | some (.err k) :: _, _ => .err k
  | some (.panic k) :: _, _ => .panic k

end Gp.CksumEmit
