import Gp.Go.Basic
import Gp.Gen.Sll
/-
  Model of the decode-only link/transport layers of engine `lsll`:

    /repo/layers/linux_sll.go   LinuxSLL.DecodeFromBytes, CanDecode, NextLayerType, LinkFlow, decodeLinuxSLL
    /repo/layers/linux_sll2.go  LinuxSLL2.DecodeFromBytes, CanDecode, NextLayerType, LinkFlow, decodeLinuxSLL2
    /repo/layers/etherip.go     EtherIP.DecodeFromBytes, CanDecode, NextLayerType, decodeEtherIP
    /repo/layers/udplite.go     decodeUDPLite, UDPLite.TransportFlow          (no DecodeFromBytes)
    /repo/layers/rudp.go        decodeRUDP (SYN / EACK variable header parts), RUDP.TransportFlow (no DecodeFromBytes)
    + enums_generated.go EthernetType.LayerType over the table filled in enums.go, base.go
      decodingLayerDecoder, flows.go NewFlow / Reverse as used by the flow accessors, and the
      DecodingLayerParser loop (layers_decoder.go / parser.go) restricted to {LinuxSLL, LinuxSLL2, EtherIP}.

  NONE of the five layers has a SerializeTo method: there is no serializer to model (no C06/C07 part).

  Conventions (DESIGN §3): a Go panic is `Res.panic`; a Go `[]byte` is its visible bytes plus the
  *foreign* bytes between len and cap (`GSlice`): `s[a:b]` panics iff ¬(a ≤ b ∧ b ≤ cap), `s[i]`
  panics iff i ≥ len.  Sized integers are `Nat` with an explicit `%` wherever Go truncates.
  A Go `error` return of DecodeFromBytes is a *value* (`err := true`) so that what the call did to the
  receiver before returning the error stays visible (LinuxSLL / LinuxSLL2 return their "address
  length exceeds" error with three / five header fields already overwritten).
  Every assignment of the Go source appears, in source order.  Core Lean only.
-/
namespace Gp.Sll
open Gp Gp.Gen.Sll

/-! ## Go slices with capacity -/

/-- A Go `[]byte`: `vis` = the `len` visible bytes, `tail` = the bytes of the backing array between
    `len` and `cap` (cap = len on the copying decode path; larger under NoCopy / Pool, and for every
    inner layer of a packet, whose input is a sub-slice of the packet buffer). -/
structure GSlice where
  vis  : Bytes
  tail : Bytes
  deriving Repr, DecidableEq

namespace GSlice
def len (s : GSlice) : Nat := s.vis.length
def cap (s : GSlice) : Nat := s.vis.length + s.tail.length
/-- Go `s[a:b]`: the upper bound is checked against the CAPACITY. -/
def slice (s : GSlice) (a b : Nat) : Res GSlice :=
  if a ≤ b ∧ b ≤ s.cap then
    .ok { vis := ((s.vis ++ s.tail).drop a).take (b - a), tail := (s.vis ++ s.tail).drop b }
  else .panic .slice
/-- Go `s[a:]` (= `s[a:len(s)]`): panics iff a > len. -/
def sliceFrom (s : GSlice) (a : Nat) : Res GSlice :=
  if a ≤ s.len then .ok { vis := s.vis.drop a, tail := s.tail } else .panic .slice
/-- Go `s[i]`: the bound is the LENGTH. -/
def index (s : GSlice) (i : Nat) : Res UInt8 := Gp.index s.vis i
end GSlice

/-- encoding/binary `BigEndian.Uint16(b)`: `_ = b[1]` (early bounds check), then b[0]<<8 | b[1]. -/
def uint16 (s : GSlice) : Res Nat := do
  let b1 ← s.index 1
  let b0 ← s.index 0
  pure (be16 b0 b1)

/-- `BigEndian.Uint32(b)`: `_ = b[3]`, then b[3] | b[2]<<8 | b[1]<<16 | b[0]<<24. -/
def uint32 (s : GSlice) : Res Nat := do
  let b3 ← s.index 3
  let b2 ← s.index 2
  let b1 ← s.index 1
  let b0 ← s.index 0
  pure (be32 b0 b1 b2 b3)

/-! ## Layer-type numbers (layertypes.go / decode.go RegisterLayerType ids), endpoint types, the EthernetType table -/

def LayerTypeZero : Nat := 0
def LayerTypePayload : Nat := 2
def LayerTypeARP : Nat := 10
def LayerTypeCiscoDiscovery : Nat := 11
def LayerTypeEthernetCTP : Nat := 12
def LayerTypeDot1Q : Nat := 15
def LayerTypeEtherIP : Nat := 16
def LayerTypeEthernet : Nat := 17
def LayerTypeIPv4 : Nat := 20
def LayerTypeIPv6 : Nat := 21
def LayerTypeLLC : Nat := 22
def LayerTypeMPLS : Nat := 24
def LayerTypePPP : Nat := 25
def LayerTypePPPoE : Nat := 26
def LayerTypeRUDP : Nat := 27
def LayerTypeUDPLite : Nat := 52
def LayerTypeEAPOL : Nat := 56
def LayerTypeLinkLayerDiscovery : Nat := 58
def LayerTypeNortelDiscovery : Nat := 61
def LayerTypeRadioTap : Nat := 64
def LayerTypeLinuxSLL : Nat := 113
def LayerTypeERSPANII : Nat := 145
def LayerTypeMDP : Nat := 147
def LayerTypeLinuxSLL2 : Nat := 276

/-- endpoints.go `EndpointMAC = RegisterEndpointType(3, …)`, `EndpointRUDPPort` = 7, `EndpointUDPLitePort` = 8. -/
def EndpointMAC : Nat := 3
def EndpointRUDPPort : Nat := 7
def EndpointUDPLitePort : Nat := 8

/-- enums.go `initActualTypeData`: the EthernetType rows of `EthernetTypeMetadata`
    (EthernetType ↦ LayerType); every other entry has `DecodeWith == nil`.  The keys are the
    GENERATED constants; the layer-type ids and the set of rows are tied by the exhaustive
    65536-entry correspondence op `lsll nlttab`. -/
def ethTypeTable : List (Nat × Nat) :=
  [ (ethernetTypeLLC, LayerTypeLLC), (ethernetTypeIPv4, LayerTypeIPv4),
    (ethernetTypeRaw, LayerTypeIPv4), (ethernetTypeIPv6, LayerTypeIPv6),
    (ethernetTypeARP, LayerTypeARP), (ethernetTypeDot1Q, LayerTypeDot1Q),
    (ethernetTypePPP, LayerTypePPP), (ethernetTypePPPoEDiscovery, LayerTypePPPoE),
    (ethernetTypePPPoESession, LayerTypePPPoE), (ethernetTypeEthernetCTP, LayerTypeEthernetCTP),
    (ethernetTypeCiscoDiscovery, LayerTypeCiscoDiscovery),
    (ethernetTypeNortelDiscovery, LayerTypeNortelDiscovery),
    (ethernetTypeLinkLayerDiscovery, LayerTypeLinkLayerDiscovery),
    (ethernetTypeMPLSUnicast, LayerTypeMPLS), (ethernetTypeMPLSMulticast, LayerTypeMPLS),
    (ethernetTypeEAPOL, LayerTypeEAPOL), (ethernetTypeQinQ, LayerTypeDot1Q),
    (ethernetTypeTransparentEthernetBridging, LayerTypeEthernet),
    (ethernetTypeERSPAN, LayerTypeERSPANII), (ethernetTypeMerakiDiscoveryProtocol, LayerTypeMDP) ]

/-- `EthernetTypeMetadata[a].DecodeWith != nil` (`EthernetType.Decode` returns an error otherwise). -/
def ethTypeKnown (a : Nat) : Bool := (ethTypeTable.lookup a).isSome

/-- enums_generated.go `EthernetType.LayerType()`: the table entry, 0 when there is no decoder. -/
def ethTypeLayerType (a : Nat) : Nat := (ethTypeTable.lookup a).getD LayerTypeZero

/-- What one DecodeFromBytes call did: the receiver afterwards, whether it called
    `df.SetTruncated()`, and whether it returned a non-nil error. -/
structure DecOut (L : Type) where
  layer : L
  trunc : Bool
  err   : Bool
  deriving Repr, DecidableEq

/-! ## LinuxSLL (linux_sll.go) -/

/-- layers.LinuxSLL: BaseLayer{Contents, Payload}, PacketType (uint16), AddrLen (uint16),
    Addr (net.HardwareAddr), EthernetType (uint16), AddrType (uint16). -/
structure LinuxSLL where
  contents     : Bytes
  payload      : Bytes
  packetType   : Nat
  addrLen      : Nat
  addr         : Bytes
  ethernetType : Nat
  addrType     : Nat
  deriving Repr, DecidableEq

/-- `&LinuxSLL{}`. -/
def LinuxSLL.fresh : LinuxSLL :=
  { contents := [], payload := [], packetType := 0, addrLen := 0, addr := [], ethernetType := 0, addrType := 0 }

/-- linux_sll.go:84-101 `(*LinuxSLL).DecodeFromBytes`, statement by statement.  `old` is the receiver
    before the call.  NOTE the second error return (`AddrLen > 8`, proposed_fixes/all-10): it happens
    after PacketType, AddrType and AddrLen have been assigned; neither error path calls SetTruncated.
    `sll.AddrLen+6` is uint16 arithmetic. -/
def LinuxSLL.decodeFromBytes (old : LinuxSLL) (data : GSlice) : Res (DecOut LinuxSLL) :=
  if data.len < 16 then
    .ok { layer := old, trunc := false, err := true }            -- "Linux SLL packet too small"
  else do
    let s ← data.slice 0 2
    let v ← uint16 s
    let l := { old with packetType := v }                        -- sll.PacketType = LinuxSLLPacketType(Uint16(data[0:2]))
    let s ← data.slice 2 4
    let v ← uint16 s
    let l := { l with addrType := v }                            -- sll.AddrType = Uint16(data[2:4])
    let s ← data.slice 4 6
    let v ← uint16 s
    let l := { l with addrLen := v }                             -- sll.AddrLen = Uint16(data[4:6])
    if l.addrLen > 8 then
      pure { layer := l, trunc := false, err := true }           -- "Linux SLL address length exceeds the 8-byte address field"
    else do
      let s ← data.slice 6 ((l.addrLen + 6) % 65536)
      let l := { l with addr := s.vis }                          -- sll.Addr = net.HardwareAddr(data[6 : sll.AddrLen+6])
      let s ← data.slice 14 16
      let v ← uint16 s
      let l := { l with ethernetType := v }                      -- sll.EthernetType = EthernetType(Uint16(data[14:16]))
      let c ← data.slice 0 16
      let p ← data.sliceFrom 16
      let l := { l with contents := c.vis, payload := p.vis }    -- sll.BaseLayer = BaseLayer{data[:16], data[16:]}
      pure { layer := l, trunc := false, err := false }

/-- The view asked for by the engine brief: success carries the layer and its truncation
    contribution; an error return is `.err`.  `cap = |data| + |foreign|`. -/
def decodeSll (old : LinuxSLL) (data : Bytes) (foreign : Bytes) : Res (LinuxSLL × Bool) :=
  match old.decodeFromBytes { vis := data, tail := foreign } with
  | .ok o => if o.err then .err "sll" else .ok (o.layer, o.trunc)
  | .err k => .err k
  | .panic k => .panic k

/-- linux_sll.go:63 CanDecode. -/
def LinuxSLL.canDecode : Nat := LayerTypeLinuxSLL
/-- linux_sll.go:80 NextLayerType = `sll.EthernetType.LayerType()`. -/
def LinuxSLL.nextLayerType (l : LinuxSLL) : Nat := ethTypeLayerType l.ethernetType
/-- base.go LayerPayload. -/
def LinuxSLL.layerPayload (l : LinuxSLL) : Bytes := l.payload

/-! ## LinuxSLL2 (linux_sll2.go) -/

/-- layers.LinuxSLL2: BaseLayer, ProtocolType (uint16), InterfaceIndex (uint32), ARPHardwareType
    (uint16), PacketType (uint8), AddrLength (uint8), Addr. -/
structure LinuxSLL2 where
  contents        : Bytes
  payload         : Bytes
  protocolType    : Nat
  interfaceIndex  : Nat
  arpHardwareType : Nat
  packetType      : Nat
  addrLength      : Nat
  addr            : Bytes
  deriving Repr, DecidableEq

def LinuxSLL2.fresh : LinuxSLL2 :=
  { contents := [], payload := [], protocolType := 0, interfaceIndex := 0, arpHardwareType := 0,
    packetType := 0, addrLength := 0, addr := [] }

/-- linux_sll2.go:165-182 `(*LinuxSLL2).DecodeFromBytes`.  The second error return (`AddrLength > 8`,
    proposed_fixes/all-11) happens after five header fields have been assigned; `data[2:4]` (reserved)
    is never read; `Addr` is assigned twice (`data[12:20]`, then re-sliced to `[:AddrLength]`). -/
def LinuxSLL2.decodeFromBytes (old : LinuxSLL2) (data : GSlice) : Res (DecOut LinuxSLL2) :=
  if data.len < 20 then
    .ok { layer := old, trunc := false, err := true }            -- "Linux SLL2 packet too small"
  else do
    let s ← data.slice 0 2
    let v ← uint16 s
    let l := { old with protocolType := v }                      -- sll.ProtocolType = EthernetType(Uint16(data[0:2]))
    let s ← data.slice 4 8
    let v ← uint32 s
    let l := { l with interfaceIndex := v }                      -- sll.InterfaceIndex = Uint32(data[4:8])
    let s ← data.slice 8 10
    let v ← uint16 s
    let l := { l with arpHardwareType := v }                     -- sll.ARPHardwareType = ARPHardwareType(Uint16(data[8:10]))
    let b ← data.index 10
    let l := { l with packetType := b.toNat }                    -- sll.PacketType = LinuxSLL2PacketType(data[10])
    let b ← data.index 11
    let l := { l with addrLength := b.toNat }                    -- sll.AddrLength = data[11]
    if l.addrLength > 8 then
      pure { layer := l, trunc := false, err := true }           -- "Linux SLL2 address length exceeds the 8-byte address field"
    else do
      let a ← data.slice 12 20                                   -- sll.Addr = data[12:20]
      let a ← a.slice 0 l.addrLength                             -- sll.Addr = sll.Addr[:sll.AddrLength]
      let l := { l with addr := a.vis }
      let c ← data.slice 0 20
      let p ← data.sliceFrom 20
      let l := { l with contents := c.vis, payload := p.vis }    -- sll.BaseLayer = BaseLayer{data[:20], data[20:]}
      pure { layer := l, trunc := false, err := false }

def decodeSll2 (old : LinuxSLL2) (data : Bytes) (foreign : Bytes) : Res (LinuxSLL2 × Bool) :=
  match old.decodeFromBytes { vis := data, tail := foreign } with
  | .ok o => if o.err then .err "sll2" else .ok (o.layer, o.trunc)
  | .err k => .err k
  | .panic k => .panic k

def LinuxSLL2.canDecode : Nat := LayerTypeLinuxSLL2

/-- linux_sll2.go:122-163 `(*LinuxSLL2).NextLayerType`: the ARPHRD_ special cases first (FRAD: no LAPF
    layer → 0; 802.11+radiotap; IPGRE → Ethernet), then the four special protocol types (only
    `LinuxSLL2EthernetTypeLLC` has a layer), then the EthernetType table.  All keys are GENERATED constants. -/
def LinuxSLL2.nextLayerType (l : LinuxSLL2) : Nat :=
  if l.arpHardwareType = arpHardwareTypeFRAD then LayerTypeZero
  else if l.arpHardwareType = arpHardwareTypeDot11Radiotap then LayerTypeRadioTap
  else if l.arpHardwareType = arpHardwareTypeIPGRE then LayerTypeEthernet
  else if l.protocolType = linuxSLL2EthernetTypeDot3 then LayerTypeZero
  else if l.protocolType = linuxSLL2EthernetTypeUnknown then LayerTypeZero
  else if l.protocolType = linuxSLL2EthernetTypeLLC then LayerTypeLLC
  else if l.protocolType = linuxSLL2EthernetTypeCAN then LayerTypeZero
  else ethTypeLayerType l.protocolType

def LinuxSLL2.layerPayload (l : LinuxSLL2) : Bytes := l.payload

/-! ## EtherIP (etherip.go) -/

/-- layers.EtherIP: BaseLayer, Version (uint8), Reserved (uint16). -/
structure EtherIP where
  contents : Bytes
  payload  : Bytes
  version  : Nat
  reserved : Nat
  deriving Repr, DecidableEq

def EtherIP.fresh : EtherIP := { contents := [], payload := [], version := 0, reserved := 0 }

/-- etherip.go:27-36 `(*EtherIP).DecodeFromBytes` (with proposed_fixes/all-6: the length check and
    its SetTruncated). -/
def EtherIP.decodeFromBytes (old : EtherIP) (data : GSlice) : Res (DecOut EtherIP) :=
  if data.len < 2 then
    .ok { layer := old, trunc := true, err := true }             -- df.SetTruncated(); "EtherIP packet too small"
  else do
    let b ← data.index 0
    let l := { old with version := b.toNat >>> 4 }               -- e.Version = data[0] >> 4
    let s ← data.slice 0 2
    let v ← uint16 s
    let l := { l with reserved := v &&& 0x0fff }                 -- e.Reserved = Uint16(data[:2]) & 0x0fff
    let c ← data.slice 0 2
    let p ← data.sliceFrom 2
    let l := { l with contents := c.vis, payload := p.vis }      -- e.BaseLayer = BaseLayer{data[:2], data[2:]}
    pure { layer := l, trunc := false, err := false }

def decodeEtherip (old : EtherIP) (data : Bytes) (foreign : Bytes) : Res (EtherIP × Bool) :=
  match old.decodeFromBytes { vis := data, tail := foreign } with
  | .ok o => if o.err then .err "etherip" else .ok (o.layer, o.trunc)
  | .err k => .err k
  | .panic k => .panic k

def EtherIP.canDecode : Nat := LayerTypeEtherIP
/-- etherip.go:44 NextLayerType = LayerTypeEthernet. -/
def EtherIP.nextLayerType (_ : EtherIP) : Nat := LayerTypeEthernet
def EtherIP.layerPayload (l : EtherIP) : Bytes := l.payload

/-! ## The decoder functions registered for NewPacket, as behaviour descriptions -/

/-- A call on the PacketBuilder. -/
inductive Act where
  | setTruncated
  | addLayer (t : Nat)
  | setLinkLayer
  | setTransportLayer
  deriving Repr, DecidableEq

/-- How a decoder function ends. -/
inductive Tail where
  | done                          -- return nil
  | fail                          -- return err
  | nextLayerType (t : Nat)       -- return p.NextDecoder(LayerType(t))
  | nextEthernetType (e : Nat)    -- return p.NextDecoder(EthernetType(e))
  deriving Repr, DecidableEq

structure Beh where
  acts : List Act
  tail : Tail
  deriving Repr, DecidableEq

/-- an error return of a decoder function after the given PacketBuilder calls -/
def failed {L : Type} (acts : List Act) : Beh × Option L := ({ acts := acts, tail := .fail }, none)

/-- linux_sll.go:103-111 `decodeLinuxSLL`: fresh layer, DecodeFromBytes (the PacketBuilder is the
    DecodeFeedback), AddLayer, SetLinkLayer, NextDecoder(sll.EthernetType). -/
def decodeLinuxSLLFn (data : GSlice) : Res (Beh × Option LinuxSLL) := do
  let o ← LinuxSLL.fresh.decodeFromBytes data
  let tr := if o.trunc then [Act.setTruncated] else []
  if o.err then pure (failed tr)
  else pure ({ acts := tr ++ [.addLayer LayerTypeLinuxSLL, .setLinkLayer],
               tail := .nextEthernetType o.layer.ethernetType }, some o.layer)

/-- linux_sll2.go:184-192 `decodeLinuxSLL2`: …, NextDecoder(sll.NextLayerType()) — a LayerType, also
    when it is LayerTypeZero (whose registered decoder is DecodeUnknown). -/
def decodeLinuxSLL2Fn (data : GSlice) : Res (Beh × Option LinuxSLL2) := do
  let o ← LinuxSLL2.fresh.decodeFromBytes data
  let tr := if o.trunc then [Act.setTruncated] else []
  if o.err then pure (failed tr)
  else pure ({ acts := tr ++ [.addLayer LayerTypeLinuxSLL2, .setLinkLayer],
               tail := .nextLayerType o.layer.nextLayerType }, some o.layer)

/-- base.go:39-50 `decodingLayerDecoder(d, data, p)` after `d.DecodeFromBytes(data, p)` returned `o`
    for a layer of type `typ` whose NextLayerType is `next`: no Set*Layer call is made. -/
def decodingLayerDecoder {L : Type} (o : DecOut L) (typ next : Nat) : Beh × Option L :=
  let tr := if o.trunc then [Act.setTruncated] else []
  if o.err then ({ acts := tr, tail := .fail }, none)
  else if next = LayerTypeZero then ({ acts := tr ++ [.addLayer typ], tail := .done }, some o.layer)
  else ({ acts := tr ++ [.addLayer typ], tail := .nextLayerType next }, some o.layer)

/-- etherip.go:47-50 `decodeEtherIP` = `decodingLayerDecoder(&EtherIP{}, data, p)`. -/
def decodeEtherIPFn (data : GSlice) : Res (Beh × Option EtherIP) := do
  let o ← EtherIP.fresh.decodeFromBytes data
  pure (decodingLayerDecoder o LayerTypeEtherIP o.layer.nextLayerType)

/-! ## UDPLite (udplite.go): decoder function only -/

/-- layers.UDPLite: BaseLayer, SrcPort, DstPort, ChecksumCoverage, Checksum (uint16) and the two
    PRIVATE slices sPort, dPort (the port bytes inside the packet data; what TransportFlow uses). -/
structure UDPLite where
  contents         : Bytes
  payload          : Bytes
  srcPort          : Nat
  dstPort          : Nat
  checksumCoverage : Nat
  checksum         : Nat
  sPort            : Bytes
  dPort            : Bytes
  deriving Repr, DecidableEq

/-- udplite.go:29-45 `decodeUDPLite` (with proposed_fixes/all-18: the length check; no SetTruncated).
    The fields of the composite literal are evaluated in source order. -/
def decodeUDPLite (data : GSlice) : Res (Beh × Option UDPLite) :=
  if data.len < 8 then .ok (failed [])                           -- "UDPLite packet too small"
  else do
    let s ← data.slice 0 2
    let sp ← uint16 s                                            -- SrcPort: UDPLitePort(Uint16(data[0:2]))
    let sPort ← data.slice 0 2                                   -- sPort: data[0:2]
    let s ← data.slice 2 4
    let dp ← uint16 s                                            -- DstPort: UDPLitePort(Uint16(data[2:4]))
    let dPort ← data.slice 2 4                                   -- dPort: data[2:4]
    let s ← data.slice 4 6
    let cov ← uint16 s                                           -- ChecksumCoverage: Uint16(data[4:6])
    let s ← data.slice 6 8
    let ck ← uint16 s                                            -- Checksum: Uint16(data[6:8])
    let c ← data.slice 0 8
    let p ← data.sliceFrom 8                                     -- BaseLayer: BaseLayer{data[:8], data[8:]}
    let udp : UDPLite := { srcPort := sp, sPort := sPort.vis, dstPort := dp, dPort := dPort.vis,
                           checksumCoverage := cov, checksum := ck, contents := c.vis, payload := p.vis }
    pure ({ acts := [.addLayer LayerTypeUDPLite, .setTransportLayer],        -- p.AddLayer(udp); p.SetTransportLayer(udp)
            tail := .nextLayerType LayerTypePayload }, some udp)            -- return p.NextDecoder(gopacket.LayerTypePayload)

/-! ## RUDP (rudp.go): decoder function only -/

/-- layers.RUDPHeaderSYN. -/
structure RUDPHeaderSYN where
  maxOutstandingSegments : Nat
  maxSegmentSize         : Nat
  optionFlags            : Nat
  deriving Repr, DecidableEq

/-- layers.RUDP: BaseLayer, five flags, Version, HeaderLength, SrcPort, DstPort (uint8), DataLength
    (uint16), Seq, Ack, Checksum (uint32), VariableHeaderArea, and the two embedded POINTERS
    `*RUDPHeaderSYN`, `*RUDPHeaderEACK` (nil unless the SYN / EACK branch ran: `Option`). -/
structure RUDP where
  contents           : Bytes
  payload            : Bytes
  syn                : Bool
  ack                : Bool
  eack               : Bool
  rst                : Bool
  nul                : Bool
  version            : Nat
  headerLength       : Nat
  srcPort            : Nat
  dstPort            : Nat
  dataLength         : Nat
  seq                : Nat
  ackNum             : Nat
  checksum           : Nat
  variableHeaderArea : Bytes
  headerSYN          : Option RUDPHeaderSYN
  headerEACK         : Option (List Nat)        -- &RUDPHeaderEACK{SeqsReceivedOK}
  deriving Repr, DecidableEq

/-- `xs[i] = v` on a Go slice of uint32: index check against len. -/
def setIdx (xs : List Nat) (i : Nat) (v : Nat) : Res (List Nat) :=
  if i < xs.length then .ok (xs.set i v) else .panic .index

/-- rudp.go:104-106 `for i := 0; i < len(headerData); i += 4 { r.SeqsReceivedOK[i/4] = Uint32(headerData[i : i+4]) }`
    as fuel-bounded recursion (`.err "fuel"` when the fuel runs out: shown unreachable with the fuel
    `len(headerData) + 1` used by `decodeRUDP` — `Gp.C19.Sll.eack_fuel_suffices`). -/
def eackLoop (hd : GSlice) : Nat → Nat → List Nat → Res (List Nat)
  | 0, _, _ => .err "fuel"
  | fuel + 1, i, seqs =>
    if i < hd.len then do
      let s ← hd.slice i (i + 4)
      let v ← uint32 s
      let seqs ← setIdx seqs (i / 4) v
      eackLoop hd fuel (i + 4) seqs
    else .ok seqs

/-- rudp.go:46-112 `decodeRUDP`, statement by statement.  SetTruncated is called on the three length
    errors, not on the HeaderLength < 9 / SYN / EACK format errors; on every error the layer is NOT
    added.  `switch { case r.SYN: … case r.EACK: … }`: SYN wins when both flags are set. -/
def decodeRUDP (data : GSlice) : Res (Beh × Option RUDP) :=
  if data.len < 18 then
    .ok (failed [.setTruncated])                                 -- p.SetTruncated(); "RUDP packet length … too short"
  else do
    let b ← data.index 0
    let syn := (b.toNat &&& 0x80 != 0)                           -- SYN: data[0]&0x80 != 0
    let b ← data.index 0
    let ack := (b.toNat &&& 0x40 != 0)                           -- ACK: data[0]&0x40 != 0
    let b ← data.index 0
    let eack := (b.toNat &&& 0x20 != 0)                          -- EACK: data[0]&0x20 != 0
    let b ← data.index 0
    let rst := (b.toNat &&& 0x10 != 0)                           -- RST: data[0]&0x10 != 0
    let b ← data.index 0
    let nul := (b.toNat &&& 0x08 != 0)                           -- NUL: data[0]&0x08 != 0
    let b ← data.index 0
    let version := b.toNat &&& 0x3                               -- Version: data[0] & 0x3
    let b1 ← data.index 1                                        -- HeaderLength: data[1]
    let b2 ← data.index 2                                        -- SrcPort: RUDPPort(data[2])
    let b3 ← data.index 3                                        -- DstPort: RUDPPort(data[3])
    let s ← data.slice 4 6
    let dl ← uint16 s                                            -- DataLength: Uint16(data[4:6])
    let s ← data.slice 6 10
    let sq ← uint32 s                                            -- Seq: Uint32(data[6:10])
    let s ← data.slice 10 14
    let ak ← uint32 s                                            -- Ack: Uint32(data[10:14])
    let s ← data.slice 14 18
    let ck ← uint32 s                                            -- Checksum: Uint32(data[14:18])
    let r : RUDP :=
      { contents := [], payload := [], syn := syn, ack := ack, eack := eack, rst := rst, nul := nul,
        version := version, headerLength := b1.toNat, srcPort := b2.toNat, dstPort := b3.toNat,
        dataLength := dl, seq := sq, ackNum := ak, checksum := ck, variableHeaderArea := [],
        headerSYN := none, headerEACK := none }
    if r.headerLength < 9 then pure (failed [])                  -- "RUDP packet with too-short header length"
    else
    let hlen := r.headerLength * 2                               -- hlen := int(r.HeaderLength) * 2
    if data.len < hlen then pure (failed [.setTruncated])        -- p.SetTruncated(); "… header bytes expected"
    else
    let payloadEnd := hlen + r.dataLength                        -- payloadEnd := hlen + int(r.DataLength)
    if data.len < payloadEnd then pure (failed [.setTruncated])  -- p.SetTruncated(); "… total bytes expected"
    else do
      let c ← data.slice 0 hlen
      let r := { r with contents := c.vis }                      -- r.Contents = data[:hlen]
      let p ← data.slice hlen payloadEnd
      let r := { r with payload := p.vis }                       -- r.Payload = data[hlen:payloadEnd]
      let headerData ← data.slice 18 hlen
      let r := { r with variableHeaderArea := headerData.vis }   -- r.VariableHeaderArea = data[18:hlen]; headerData := r.VariableHeaderArea
      let added (r : RUDP) : Beh × Option RUDP :=
        ({ acts := [.addLayer LayerTypeRUDP, .setTransportLayer],            -- p.AddLayer(r); p.SetTransportLayer(r)
           tail := .nextLayerType LayerTypePayload }, some r)               -- return p.NextDecoder(gopacket.LayerTypePayload)
      if r.syn then                                              -- case r.SYN:
        if headerData.len ≠ 6 then pure (failed [])              -- "RUDP packet invalid SYN header length"
        else do
          let s ← headerData.slice 0 2
          let a ← uint16 s                                       -- MaxOutstandingSegments: Uint16(headerData[:2])
          let s ← headerData.slice 2 4
          let b ← uint16 s                                       -- MaxSegmentSize: Uint16(headerData[2:4])
          let s ← headerData.slice 4 6
          let c ← uint16 s                                       -- OptionFlags: Uint16(headerData[4:6])
          pure (added { r with headerSYN := some { maxOutstandingSegments := a, maxSegmentSize := b, optionFlags := c } })
      else if r.eack then                                        -- case r.EACK:
        if headerData.len % 4 ≠ 0 then pure (failed [])          -- "RUDP packet invalid EACK header length"
        else do
          -- r.RUDPHeaderEACK = &RUDPHeaderEACK{make([]uint32, len(headerData)/4)}; the loop
          let seqs ← eackLoop headerData (headerData.len + 1) 0 (List.replicate (headerData.len / 4) 0)
          pure (added { r with headerEACK := some seqs })
      else pure (added r)

/-! ## The `Res (Layer × behaviour)` views of the two decoder-function-only layers -/

def viewFn {L : Type} (name : String) (r : Res (Beh × Option L)) : Res (L × Beh) :=
  match r with
  | .ok (b, some l) => .ok (l, b)
  | .ok (_, none) => .err name
  | .err k => .err k
  | .panic k => .panic k

def decodeUdplite (data foreign : Bytes) : Res (UDPLite × Beh) := viewFn "udplite" (decodeUDPLite { vis := data, tail := foreign })
def decodeRudp (data foreign : Bytes) : Res (RUDP × Beh) := viewFn "rudp" (decodeRUDP { vis := data, tail := foreign })

/-! ## Flows (flows.go NewFlow / Reverse; the three flow accessors) -/

structure Flow where
  typ  : Nat
  slen : Nat
  dlen : Nat
  src  : Bytes      -- [MaxEndpointSize]byte
  dst  : Bytes
  deriving Repr, DecidableEq

/-- `copy(f.src[:], src)` into the zero array. -/
def pad16 (b : Bytes) : Bytes := b ++ List.replicate (maxEndpointSize - b.length) 0

/-- flows.go NewFlow: explicit panic above MaxEndpointSize. -/
def newFlow (t : Nat) (src dst : Bytes) : Res Flow :=
  if src.length > maxEndpointSize ∨ dst.length > maxEndpointSize then .panic .explicit
  else .ok { typ := t, slen := src.length, dlen := dst.length, src := pad16 src, dst := pad16 dst }

def Flow.reverse (f : Flow) : Flow :=
  { typ := f.typ, slen := f.dlen, dlen := f.slen, src := f.dst, dst := f.src }
def Flow.srcBytes (f : Flow) : Bytes := f.src.take f.slen
def Flow.dstBytes (f : Flow) : Bytes := f.dst.take f.dlen

/-- linux_sll.go:67-77 `(*LinuxSLL).LinkFlow`: the address cut to MaxEndpointSize, no destination
    (a cooked-capture header carries ONE address, the sender's). -/
def LinuxSLL.linkFlow (l : LinuxSLL) : Res Flow :=
  let addr := l.addr                                             -- addr := sll.Addr
  let addr := if addr.length > maxEndpointSize then addr.take maxEndpointSize else addr
                                                                 -- if len(addr) > MaxEndpointSize { addr = addr[:MaxEndpointSize] }
  newFlow EndpointMAC addr []                                    -- return gopacket.NewFlow(EndpointMAC, addr, nil)

/-- linux_sll2.go:110-120 `(*LinuxSLL2).LinkFlow`: the same. -/
def LinuxSLL2.linkFlow (l : LinuxSLL2) : Res Flow :=
  let addr := l.addr
  let addr := if addr.length > maxEndpointSize then addr.take maxEndpointSize else addr
  newFlow EndpointMAC addr []

/-- udplite.go:47-49 `(*UDPLite).TransportFlow` = NewFlow(EndpointUDPLitePort, u.sPort, u.dPort). -/
def UDPLite.transportFlow (u : UDPLite) : Res Flow := newFlow EndpointUDPLitePort u.sPort u.dPort

/-- rudp.go:114-116 `(*RUDP).TransportFlow` = NewFlow(EndpointRUDPPort, []byte{byte(r.SrcPort)}, []byte{byte(r.DstPort)}). -/
def RUDP.transportFlow (r : RUDP) : Res Flow := newFlow EndpointRUDPPort [u8 r.srcPort] [u8 r.dstPort]

/-! ## DecodingLayerParser over {LinuxSLL, LinuxSLL2, EtherIP} (layers_decoder.go loop) -/

structure DlpState where
  sll     : LinuxSLL
  sll2    : LinuxSLL2
  etherip : EtherIP
  decoded : List Nat
  trunc   : Bool
  deriving Repr, DecidableEq

/-- One run of the LayersDecoder loop followed by the tail of DecodeLayers.  `typ` is the type about
    to be decoded.  Result code: 0 = `nil`, 1 = the error of a DecodeFromBytes, 2 =
    `UnsupportedLayerType(typ)` (next type outside the set and ≠ LayerTypeZero).
    Every iteration consumes at least 2 bytes: `fuel = |data| + 1` suffices. -/
def dlpLoop : Nat → DlpState → Nat → GSlice → Res (DlpState × Nat)
  | 0, st, _, _ => .ok (st, 0)
  | fuel + 1, st, typ, data =>
    if typ = LayerTypeLinuxSLL then
      match st.sll.decodeFromBytes data with
      | .panic k => .panic k
      | .err k => .err k
      | .ok o =>
        let st := { st with sll := o.layer, trunc := st.trunc || o.trunc }
        if o.err then .ok (st, 1) else
        let st := { st with decoded := st.decoded ++ [typ] }
        let rest : GSlice := { vis := o.layer.payload, tail := data.tail }
        if rest.len = 0 then .ok (st, 0) else dlpLoop fuel st o.layer.nextLayerType rest
    else if typ = LayerTypeLinuxSLL2 then
      match st.sll2.decodeFromBytes data with
      | .panic k => .panic k
      | .err k => .err k
      | .ok o =>
        let st := { st with sll2 := o.layer, trunc := st.trunc || o.trunc }
        if o.err then .ok (st, 1) else
        let st := { st with decoded := st.decoded ++ [typ] }
        let rest : GSlice := { vis := o.layer.payload, tail := data.tail }
        if rest.len = 0 then .ok (st, 0) else dlpLoop fuel st o.layer.nextLayerType rest
    else if typ = LayerTypeEtherIP then
      match st.etherip.decodeFromBytes data with
      | .panic k => .panic k
      | .err k => .err k
      | .ok o =>
        let st := { st with etherip := o.layer, trunc := st.trunc || o.trunc }
        if o.err then .ok (st, 1) else
        let st := { st with decoded := st.decoded ++ [typ] }
        let rest : GSlice := { vis := o.layer.payload, tail := data.tail }
        if rest.len = 0 then .ok (st, 0) else dlpLoop fuel st o.layer.nextLayerType rest
    else if typ = LayerTypeZero then .ok (st, 0) else .ok (st, 2)

/-- parser.go DecodeLayers: Truncated := false, decoded := decoded[:0], run the loop from `first`. -/
def dlpDecodeLayers (sll : LinuxSLL) (sll2 : LinuxSLL2) (e : EtherIP) (first : Nat) (data : GSlice) :
    Res (DlpState × Nat) :=
  dlpLoop (data.len + 1) { sll := sll, sll2 := sll2, etherip := e, decoded := [], trunc := false } first data

end Gp.Sll
