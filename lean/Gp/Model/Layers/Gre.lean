import Gp.Go.Basic
import Gp.Model.SBuf
import Gp.Model.Checksum
import Gp.Gen.Gre
/-
  Executable model of /repo/layers/gre.go (engine `lgre`): the GRE v0/v1 header codec.

    DecodeFromBytes   -> decodeGre        (line by line, Go panic semantics on every index/slice)
    SerializeTo       -> serializeGre     (over the SBuf model: every store goes to the window
                                           returned by PrependBytes, nothing else is written)
    NextLayerType     -> nextLayerType    (EthernetType.LayerType, constants REGENERATED: Gp.Gen.Gre)
    CanDecode         -> canDecode
    LayerPayload      -> Layer.payload
    VerifyChecksum    -> verifyChecksum
    decodeGRE (+ base.go decodingLayerDecoder) -> decodeGREPkt (PacketBuilder behaviour)

  The GRE layer has no LinkFlow/NetworkFlow/TransportFlow and no String method of its own.

  Conventions.  uintN fields are `Nat`; every place where Go truncates to a byte goes through
  `u8`/`putBe16`/`putBe32` (which reduce modulo 2^8/2^16/2^32), so the functions are total on all
  `Nat`s and agree with Go on the values Go can hold.  The `*GRERouting` chain (through `Next`) is a
  `List SRE` (`nil` = `[]`); cyclic chains — on which SerializeTo does not terminate — are outside
  the model (recorded as an assumption).

  The model follows the tree WITH the three proposed fixes lgre-1/2/3 applied; the original
  behaviour is kept selectable through `Variant` so that the defects have machine-checked witnesses
  (`Variant.orig`, see Props/C06/Gre.lean, Props/C07/Gre.lean).
-/
namespace Gp.Gre
open Gp

/-- layers.GRERouting without the `Next` pointer (the chain is the list). -/
structure SRE where
  addressFamily      : Nat    -- uint16
  sreOffset          : Nat    -- uint8
  sreLength          : Nat    -- uint8
  routingInformation : Bytes
  deriving Repr, DecidableEq, Inhabited

/-- layers.GRE: every public field, BaseLayer first. -/
structure Layer where
  contents          : Bytes
  payload           : Bytes
  checksumPresent   : Bool
  routingPresent    : Bool
  keyPresent        : Bool
  seqPresent        : Bool
  strictSourceRoute : Bool
  ackPresent        : Bool
  recursionControl  : Nat     -- uint8
  flags             : Nat     -- uint8
  version           : Nat     -- uint8
  protocol          : Nat     -- EthernetType (uint16)
  checksum          : Nat     -- uint16
  offset            : Nat     -- uint16
  key               : Nat     -- uint32
  seq               : Nat     -- uint32
  ack               : Nat     -- uint32
  routing           : List SRE  -- *GRERouting
  deriving Repr, DecidableEq, Inhabited

/-- `&GRE{}` / `var gre GRE`. -/
def Layer.fresh : Layer :=
  { contents := [], payload := [], checksumPresent := false, routingPresent := false,
    keyPresent := false, seqPresent := false, strictSourceRoute := false, ackPresent := false,
    recursionControl := 0, flags := 0, version := 0, protocol := 0, checksum := 0, offset := 0,
    key := 0, seq := 0, ack := 0, routing := [] }

/-! ### Go slice / index primitives with capacity

`data` has `len = data.length` and `cap = data.length + foreign.length`; `foreign` are the bytes
that follow the packet in its backing array (NoCopy / Pool), empty on the copying path. -/

/-- `data[a:b]`: panics iff ¬(a ≤ b ∧ b ≤ cap); may expose foreign bytes. -/
def sliceCap (data foreign : Bytes) (a b : Nat) : Res Bytes :=
  if a ≤ b ∧ b ≤ data.length + foreign.length then .ok (((data ++ foreign).drop a).take (b - a))
  else .panic .slice

/-- `data[a:]`: the upper bound defaults to `len(data)`, so this panics iff a > len. -/
def sliceFrom (data : Bytes) (a : Nat) : Res Bytes :=
  if a ≤ data.length then .ok (data.drop a) else .panic .slice

/-- binary.BigEndian.Uint16(s): `_ = b[1]` bounds hint, then the two bytes. -/
def beUint16 (s : Bytes) : Res Nat := do
  let b1 ← index s 1
  let b0 ← index s 0
  pure (be16 b0 b1)

/-- binary.BigEndian.Uint32(s): `_ = b[3]`, then the four bytes. -/
def beUint32 (s : Bytes) : Res Nat := do
  let b3 ← index s 3
  let b0 ← index s 0
  let b1 ← index s 1
  let b2 ← index s 2
  pure (be32 b0 b1 b2 b3)

/-! ### DecodeFromBytes -/

/-- gre.go:49 `requireBytes` failing: `len(data)-offset < size` (Go `int` arithmetic). -/
def short (data : Bytes) (offset size : Nat) : Bool :=
  decide ((data.length : Int) - (offset : Int) < (size : Int))

/-- gre.go:45 `truncated()`: df.SetTruncated() and an error.  EVERY error return of
    DecodeFromBytes is preceded by SetTruncated, so `Res.err` stands for "error, truncated set". -/
def errTruncated {α : Type} : Res α := .err "GRE packet truncated"

/-- gre.go:74-81: `if ChecksumPresent || RoutingPresent { require 4; Checksum, Offset = …; offset += 4 }`.
    Returns (Checksum, Offset, offset); both fields were reset to 0 at gre.go:58-59. -/
def decChecksumOffset (present : Bool) (data foreign : Bytes) (offset : Nat) : Res (Nat × Nat × Nat) :=
  if present then
    if short data offset 4 then errTruncated else do
      let s1 ← sliceCap data foreign offset (offset + 2)
      let c ← beUint16 s1
      let s2 ← sliceCap data foreign (offset + 2) (offset + 4)
      let o ← beUint16 s2
      pure (c, o, offset + 4)
  else pure (0, 0, offset)

/-- gre.go:82-95,119-125: `if XPresent { require 4; X = Uint32(data[offset:offset+4]); offset += 4 }`
    (Key, Seq, Ack; each was reset to 0 at gre.go:60-62). -/
def decU32 (present : Bool) (data foreign : Bytes) (offset : Nat) : Res (Nat × Nat) :=
  if present then
    if short data offset 4 then errTruncated else do
      let s ← sliceCap data foreign offset (offset + 4)
      let v ← beUint32 s
      pure (v, offset + 4)
  else pure (0, offset)

/-- gre.go:98-117, the SRE loop.  `fuel` bounds the number of iterations; running out of fuel is
    reported as a panic so that `decode_no_panic` also shows the loop ends within `len(data)`
    iterations (every iteration consumes at least 4 bytes).  The `*tail = sre; tail = &sre.Next`
    append is the cons in front of the rest of the loop. -/
def decRouting (data foreign : Bytes) : Nat → Nat → Res (List SRE × Nat)
  | 0, _ => .panic .explicit
  | fuel + 1, offset =>
    if short data offset 4 then errTruncated else do
      let s ← sliceCap data foreign offset (offset + 2)
      let af ← beUint16 s
      let so ← index data (offset + 2)
      let sl ← index data (offset + 3)
      if short data (offset + 4) sl.toNat then errTruncated else do
        let ri ← sliceCap data foreign (offset + 4) (offset + 4 + sl.toNat)
        let offset' := offset + 4 + sl.toNat
        if af = 0 ∧ sl.toNat = 0 then pure ([], offset')
        else do
          let (rest, off) ← decRouting data foreign fuel offset'
          pure ({ addressFamily := af, sreOffset := so.toNat, sreLength := sl.toNat,
                  routingInformation := ri } :: rest, off)

/-- (*GRE).DecodeFromBytes(data, df) on the receiver value `old`.
    Result: the new receiver value and whether SetTruncated was called on the success path
    (never).  On `len(data) < 4` nothing is assigned; from gre.go:56 on every field is assigned
    unconditionally, so `old` is not used after the first check. -/
def decodeGre (old : Layer) (data foreign : Bytes) : Res (Layer × Bool) :=
  if data.length < 4 then .err "GRE packet too small" else do   -- gre.go:41-44 (SetTruncated)
    let _ := old
    let d0 ← index data 0
    let d1 ← index data 1
    let s ← sliceCap data foreign 2 4
    let proto ← beUint16 s
    let n0 := d0.toNat                             -- uint8 arithmetic on data[0], data[1] (no overflow in & and >>)
    let n1 := d1.toNat
    let cp := n0 &&& 0x80 != 0
    let rp := n0 &&& 0x40 != 0
    let kp := n0 &&& 0x20 != 0
    let sp := n0 &&& 0x10 != 0
    let ssr := n0 &&& 0x08 != 0
    let ap := n1 &&& 0x80 != 0
    let (csum, off16, o1) ← decChecksumOffset (cp || rp) data foreign 4
    let (key, o2) ← decU32 kp data foreign o1
    let (seq, o3) ← decU32 sp data foreign o2
    let (routing, o4) ← (if rp then decRouting data foreign data.length o3 else pure ([], o3))
    let (ack, o5) ← decU32 ap data foreign o4
    let contents ← sliceCap data foreign 0 o5      -- data[:offset]
    let payload ← sliceFrom data o5                -- data[offset:]
    pure ({ contents := contents, payload := payload,
            checksumPresent := cp, routingPresent := rp, keyPresent := kp, seqPresent := sp,
            strictSourceRoute := ssr, ackPresent := ap,
            recursionControl := n0 &&& 0x7, flags := n1 >>> 3,
            version := n1 &&& 0x7, protocol := proto,
            checksum := csum, offset := off16, key := key, seq := seq, ack := ack,
            routing := routing }, false)

/-! ### NextLayerType / CanDecode / decodeGRE -/

def layerTypeGRE : Nat := 18

/-- EthernetType.LayerType(): the table filled by layers/enums.go init (EthernetType values are
    regenerated from source; LayerType numbers are those of layers/layertypes.go, tied by the
    correspondence run).  Unknown types have `DecodeWith != nil` and `LayerType = 0`. -/
def ethLayerType (p : Nat) : Nat :=
  if p = Gp.Gen.Gre.ethernetTypeLLC then 22
  else if p = Gp.Gen.Gre.ethernetTypeIPv4 then 20
  else if p = Gp.Gen.Gre.ethernetTypeRaw then 20
  else if p = Gp.Gen.Gre.ethernetTypeIPv6 then 21
  else if p = Gp.Gen.Gre.ethernetTypeARP then 10
  else if p = Gp.Gen.Gre.ethernetTypeDot1Q then 15
  else if p = Gp.Gen.Gre.ethernetTypePPP then 25
  else if p = Gp.Gen.Gre.ethernetTypePPPoEDiscovery then 26
  else if p = Gp.Gen.Gre.ethernetTypePPPoESession then 26
  else if p = Gp.Gen.Gre.ethernetTypeEthernetCTP then 12
  else if p = Gp.Gen.Gre.ethernetTypeCiscoDiscovery then 11
  else if p = Gp.Gen.Gre.ethernetTypeNortelDiscovery then 61
  else if p = Gp.Gen.Gre.ethernetTypeLinkLayerDiscovery then 58
  else if p = Gp.Gen.Gre.ethernetTypeMPLSUnicast then 24
  else if p = Gp.Gen.Gre.ethernetTypeMPLSMulticast then 24
  else if p = Gp.Gen.Gre.ethernetTypeEAPOL then 56
  else if p = Gp.Gen.Gre.ethernetTypeQinQ then 15
  else if p = Gp.Gen.Gre.ethernetTypeTransparentEthernetBridging then 17
  else if p = Gp.Gen.Gre.ethernetTypeERSPAN then 145
  else if p = Gp.Gen.Gre.ethernetTypeMerakiDiscoveryProtocol then 147
  else 0

/-- (*GRE).NextLayerType. -/
def nextLayerType (l : Layer) : Nat := ethLayerType l.protocol

/-- (*GRE).CanDecode: the single layer type GRE. -/
def canDecode (t : Nat) : Bool := t == layerTypeGRE

/-- What a registered decoder does with its PacketBuilder after the layer was decoded. -/
inductive Tail where
  | done                                  -- return nil
  | next (t : Nat) (payload : Bytes)      -- return p.NextDecoder(LayerType t) on LayerPayload()
  deriving Repr, DecidableEq

/-- Behaviour of `decodeGRE` (gre.go:252) = base.go decodingLayerDecoder on a fresh `&GRE{}`:
    on a decode error nothing is added (the error is returned, truncated already set);
    otherwise exactly one `AddLayer(g)`, NO Set{Link,Network,Transport,Application,Error}Layer,
    then `NextDecoder(NextLayerType())` unless that type is LayerTypeZero. -/
structure PktBeh where
  added     : Layer
  truncated : Bool
  setCalls  : List String     -- Set*Layer calls made by the decoder: none
  tail      : Tail
  deriving Repr, DecidableEq

def decodeGREPkt (data foreign : Bytes) : Res PktBeh := do
  let (g, tr) ← decodeGre Layer.fresh data foreign
  let next := nextLayerType g
  pure { added := g, truncated := tr, setCalls := [],
         tail := if next = 0 then .done else .next next g.payload }

/-! ### VerifyChecksum -/

structure VerifyResult where
  valid   : Bool
  correct : Nat
  actual  : Nat
  deriving Repr, DecidableEq

/-- (*GRE).VerifyChecksum: `bytes := append(g.Contents, g.Payload...)` (for a decoded layer this
    rewrites the payload over itself inside the packet buffer — a C02 matter, values unchanged),
    `correct = Fold(Compute(bytes,0) - uint32(existing))` with uint32 wrap-around. -/
def verifyChecksum (l : Layer) : VerifyResult :=
  let bytes := l.contents ++ l.payload
  let existing := l.checksum
  let verification := Cksum.compute bytes 0
  let correct := Cksum.fold ((verification + Cksum.W32 - existing % Cksum.W32) % Cksum.W32)
  { valid := !l.checksumPresent || correct == existing, correct := correct, actual := existing }

/-! ### SerializeTo -/

structure Opts where
  fixLengths       : Bool
  computeChecksums : Bool
  deriving Repr, DecidableEq

/-- Which of the three proposed fixes are in the tree. `fixed` is the modelled target. -/
structure Variant where
  advanceAfterTerminator : Bool   -- lgre-1: `offset += 4` after the NULL SRE
  zeroShortInfo          : Bool   -- lgre-2: zero the part of an SRE that RoutingInformation does not cover
  keepRoutingOnlyCsum    : Bool   -- lgre-3: write g.Checksum when the field exists only because of routing
  deriving Repr, DecidableEq

def Variant.fixed : Variant := ⟨true, true, true⟩
def Variant.orig : Variant := ⟨false, false, false⟩

/-- gre.go:143-149 `for r != nil { size += 4 + int(r.SRELength); r = r.Next }`. -/
def sreSize : List SRE → Nat
  | [] => 0
  | r :: rs => 4 + r.sreLength + sreSize rs

/-- gre.go:133-153. -/
def headerSize (l : Layer) : Nat :=
  4 + (if l.checksumPresent || l.routingPresent then 4 else 0)
    + (if l.keyPresent then 4 else 0)
    + (if l.seqPresent then 4 else 0)
    + (if l.routingPresent then sreSize l.routing + 4 else 0)
    + (if l.ackPresent then 4 else 0)

/-- Store `vs` at indices `i …` of the slice `w` handed out by PrependBytes: the Go statement is
    either `buf[i] = v` (|vs| = 1, index check) or a write through `buf[i:i+|vs|]`.  The bounds
    check is made against the window LENGTH — stricter than Go's capacity check; the theorems show
    it never fails, hence all stores land inside the requested bytes. -/
def storeAt (b : SBuf.SBuf) (w : SBuf.Win) (i : Nat) (vs : Bytes) : Res SBuf.SBuf :=
  if i + vs.length ≤ w.n then
    .ok (SBuf.fill b { gen := w.gen, off := w.off + i, n := vs.length } vs)
  else .panic .slice

/-- The buffer together with the local variable `offset` of SerializeTo. -/
structure Cur where
  b   : SBuf.SBuf
  off : Nat
  deriving Repr, DecidableEq

/-- write `vs` at `offset`, then `offset += |vs|`. -/
def put (w : SBuf.Win) (c : Cur) (vs : Bytes) : Res Cur := do
  let b ← storeAt c.b w c.off vs
  pure { b := b, off := c.off + vs.length }

/-- bytes that are part of a bounds-checked slice `buf[offset:offset+n]` but are NOT written. -/
def skip (w : SBuf.Win) (c : Cur) (n : Nat) : Res Cur :=
  if c.off + n ≤ w.n then .ok { c with off := c.off + n } else .panic .slice

/-- gre.go:159-181: `buf[0] = 0; buf[0] |= …` collapsed into the value finally stored
    (uint8 arithmetic: operands and result reduced modulo 256). -/
def byte0 (l : Layer) : UInt8 :=
  u8 (0 ||| (if l.checksumPresent then 0x80 else 0) ||| (if l.routingPresent then 0x40 else 0)
        ||| (if l.keyPresent then 0x20 else 0) ||| (if l.seqPresent then 0x10 else 0)
        ||| (if l.strictSourceRoute then 0x08 else 0) ||| l.recursionControl % 256)

/-- `buf[1] = 0; if AckPresent { buf[1] |= 0x80 }; buf[1] |= Flags << 3; buf[1] |= Version`. -/
def byte1 (l : Layer) : UInt8 :=
  u8 (0 ||| (if l.ackPresent then 0x80 else 0) ||| ((l.flags % 256) <<< 3) % 256 ||| l.version % 256)

/-- gre.go:203-210, one iteration per SRE. -/
def putSREs (v : Variant) (w : SBuf.Win) : Cur → List SRE → Res Cur
  | c, [] => .ok c
  | c, r :: rs => do
    let c ← put w c (putBe16 r.addressFamily)                 -- PutUint16(buf[offset:offset+2], AF)
    let c ← put w c [u8 r.sreOffset]                          -- buf[offset+2] = SREOffset
    let c ← put w c [u8 r.sreLength]                          -- buf[offset+3] = SRELength
    -- copy(buf[offset+4:offset+4+int(SRELength)], RoutingInformation): min(len) bytes are copied
    let n := min r.sreLength r.routingInformation.length
    let c ← put w c (r.routingInformation.take n)
    let c ← (if v.zeroShortInfo then put w c (SBuf.zeros (r.sreLength - n))  -- lgre-2: clear(rest)
             else skip w c (r.sreLength - n))                                -- original: never written
    putSREs v w c rs                                          -- offset += 4+SRELength; sre = sre.Next

/-- gre.go:158-217: all stores from `buf[0]` to the Ack word, in program order. -/
def writeHeader (v : Variant) (l : Layer) (w : SBuf.Win) (c : Cur) : Res Cur := do
  let c ← put w c [byte0 l]                                   -- buf[0]
  let c ← put w c [byte1 l]                                   -- buf[1]
  let c ← put w c (putBe16 l.protocol)                        -- PutUint16(buf[2:4], Protocol)
  let c ← (if l.checksumPresent || l.routingPresent then do
            let c ← put w c (if v.keepRoutingOnlyCsum && !l.checksumPresent
                             then putBe16 l.checksum          -- lgre-3
                             else [0, 0])                     -- buf[offset] = 0; buf[offset+1] = 0
            put w c (putBe16 l.offset)                        -- PutUint16(buf[offset+2:offset+4], Offset)
          else pure c)
  let c ← (if l.keyPresent then put w c (putBe32 l.key) else pure c)
  let c ← (if l.seqPresent then put w c (putBe32 l.seq) else pure c)
  let c ← (if l.routingPresent then do
            let c ← putSREs v w c l.routing
            let c' ← put w c (putBe32 0)                      -- NULL SRE
            pure (if v.advanceAfterTerminator then c' else { c' with off := c.off })  -- lgre-1
          else pure c)
  (if l.ackPresent then put w c (putBe32 l.ack) else pure c)

/-- (*GRE).SerializeTo(b, opts) for the tree variant `v`; returns the buffer and the receiver
    (g.Checksum is assigned under ChecksumPresent ∧ ComputeChecksums; FixLengths is not consulted). -/
def serializeGreV (v : Variant) (l : Layer) (b : SBuf.SBuf) (opts : Opts) : Res (SBuf.SBuf × Layer) :=
  let pw := SBuf.prepend b (headerSize l)                     -- buf, err := b.PrependBytes(size)
  do
    let c ← writeHeader v l pw.2 { b := pw.1, off := 0 }
    if l.checksumPresent then
      let l' := if opts.computeChecksums
                then { l with checksum := Cksum.fold (Cksum.compute (SBuf.contents c.b) 0) }
                else l
      let b ← storeAt c.b pw.2 4 (putBe16 l'.checksum)        -- PutUint16(buf[4:6], g.Checksum)
      pure (b, l')
    else pure (c.b, l)

/-- The modelled target: the tree with lgre-1, lgre-2, lgre-3 applied. -/
def serializeGre (l : Layer) (b : SBuf.SBuf) (opts : Opts) : Res (SBuf.SBuf × Layer) :=
  serializeGreV Variant.fixed l b opts

/-- gopacket.Payload.SerializeTo: `bytes, _ := b.PrependBytes(len(p)); copy(bytes, p)`. -/
def putPayload (b : SBuf.SBuf) (p : Bytes) : SBuf.SBuf :=
  let (b1, w) := SBuf.prepend b p.length
  SBuf.fill b1 w p

end Gp.Gre
