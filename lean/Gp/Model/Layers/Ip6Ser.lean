import Gp.Model.Layers.Ip6
import Gp.Model.SBuf
/-
  Model of the SERIALIZE half of /repo/layers/ip6.go (engine `lip6`), core Lean only.

  Transcribed: (*IPv6).SerializeTo, addIPv6JumboOption, (*IPv6HopByHopOption).SetJumboLength,
  setIPv6PayloadJumboLength, (*ipv6HeaderTLVOption).serializeTo, serializeTLVOptionPadding,
  serializeIPv6HeaderTLVOptions, (*IPv6HopByHop).SerializeTo, (*IPv6Destination).SerializeTo,
  (*IPv6Routing).SerializeTo, (*IPv6Fragment).SerializeTo, checkIPv6Address / AddressTo16.

  All serializers are written OVER the serialize-buffer model `Gp.SBuf`: `PrependBytes(n)`
  returns a window whose bytes are *whatever the buffer held*; the model reads those stale bytes
  (`prependWith`), replays every `bytes[i] = …` / `copy(…)` of the Go code on them, and stores the
  result back.  A byte the Go code never writes therefore keeps its stale value in the model too.

  Out-of-range stores/slices are `.panic`; `opts.ComputeChecksums` is not read by any of these
  functions (no checksum in IPv6 headers) and therefore is not a parameter.
-/
namespace Gp.Ip6
open Gp Gp.SBuf Gp.Gen.Ip6

/-! ## Stores into a byte slice -/

/-- `buf[i] = v` -/
def wr (buf : Bytes) (i : Nat) (v : UInt8) : Res Bytes :=
  if i < buf.length then .ok (buf.set i v) else .panic .index

/-- `copy(buf[off:], src)`: slice panic iff `off > len(buf)`; copies `min` bytes. -/
def cp (buf : Bytes) (off : Nat) (src : Bytes) : Res Bytes :=
  if off ≤ buf.length then
    let n := min (buf.length - off) src.length
    .ok (buf.take off ++ src.take n ++ buf.drop (off + n))
  else .panic .slice

/-- `copy(buf[a:b], src)` -/
def cpRange (buf : Bytes) (a b : Nat) (src : Bytes) : Res Bytes :=
  if a ≤ b ∧ b ≤ buf.length then
    let n := min (b - a) src.length
    .ok (buf.take a ++ src.take n ++ buf.drop (a + n))
  else .panic .slice

/-- `for k := range data[2:] { data[k+2] = 0 }` where `data = buf[off:]`. -/
def zeroFrom (buf : Bytes) (off : Nat) : Res Bytes :=
  if off ≤ buf.length then .ok (buf.take off ++ List.replicate (buf.length - off) 0)
  else .panic .slice

/-- PrependBytes(n), then run the Go stores `f` on the returned (stale) bytes. -/
def prependWith (b : SBuf) (n : Nat) (f : Bytes → Res Bytes) : Res SBuf :=
  let r := prepend b n
  let stale := (contents r.1).take n
  match f stale with
  | .ok out => .ok (fill r.1 r.2 out)
  | .err e => .err e
  | .panic k => .panic k

/-! ## (h *ipv6HeaderTLVOption) serializeTo -/

/-- `data = buf[off:]`; `buf = none` is the dry run.  Returns the (mutated) option, the buffer and
    the length consumed. -/
def tlvSerializeTo (o : Tlv) (buf : Option Bytes) (off : Nat) (fix : Bool) :
    Res (Tlv × Option Bytes × Nat) :=
  if o.typ = 0 then
    -- Pad1: a single zero byte, no length, no data (OptionLength is left alone)
    match buf with
    | none => .ok (o, none, 1)
    | some bf => do
      let bf ← wr bf off 0
      pure (o, some bf, 1)
  else
  let o' : Tlv := if fix then { o with len := o.bytes.length % 256 } else o
  let length := o'.len + 2
  match buf with
  | none => .ok (o', none, length)
  | some bf => do
    let bf ← wr bf off (u8 o'.typ)
    let bf ← wr bf (off + 1) (u8 o'.len)
    let bf ← cp bf (off + 2) o'.bytes
    pure (o', some bf, length)

/-! ## serializeTLVOptionPadding -/

/-- `data = buf[off:]`, `padLength = pad`. -/
def tlvPadding (bf : Bytes) (off : Nat) (pad : Nat) : Res Bytes :=
  if pad = 0 then .ok bf
  else if pad = 1 then wr bf off 0
  else
    let tlvLength := (pad % 256 + 254) % 256      -- uint8(padLength) - 2
    do
      let bf ← wr bf off 1
      let bf ← wr bf (off + 1) (u8 tlvLength)
      if tlvLength ≠ 0 then zeroFrom bf (off + 2) else pure bf

/-- `buf[length-2:]` must be a valid slice expression before the callee runs. -/
def sliceCheck (buf : Option Bytes) (off : Nat) : Res Unit :=
  match buf with
  | none => .ok ()
  | some bf => if off ≤ bf.length then .ok () else .panic .slice

/-- padding in real mode, nothing in dry-run mode -/
def padMaybe (buf : Option Bytes) (off pad : Nat) : Res (Option Bytes) :=
  match buf with
  | none => .ok none
  | some bf => do
    sliceCheck (some bf) off
    let bf ← tlvPadding bf off pad
    pure (some bf)

/-! ## serializeIPv6HeaderTLVOptions -/

/-- The `if fixLengths { x, y := alignment; … }` block of one loop iteration. -/
def alignStep (buf : Option Bytes) (fix : Bool) (o : Tlv) (length : Nat) : Res (Option Bytes × Nat) :=
  if fix then
    let x := o.ax
    let y := o.ay
    if x ≠ 0 then
      let n := length / x
      let offset := x * n + y
      let offset := if offset < length then offset + x else offset
      if length ≠ offset then
        let pad := offset - length
        do
          let buf ← padMaybe buf (length - 2) pad
          pure (buf, length + pad)
      else .ok (buf, length)
    else .ok (buf, length)
  else .ok (buf, length)

def tlvOptsLoop (fix : Bool) : List Tlv → Option Bytes → Nat → Res (List Tlv × Option Bytes × Nat)
  | [], buf, length => .ok ([], buf, length)
  | o :: os, buf, length => do
    let (buf, length) ← alignStep buf fix o length
    sliceCheck buf (length - 2)
    let (o', buf, l) ← tlvSerializeTo o buf (length - 2) fix
    let (os', buf, length) ← tlvOptsLoop fix os buf (length + l)
    pure (o' :: os', buf, length)

/-- The final pad computed by the code. -/
def finalPad (length : Nat) : Nat := (8 - length % 8) % 8

def serializeTlvOptions (buf : Option Bytes) (opts : List Tlv) (fix : Bool) :
    Res (List Tlv × Option Bytes × Nat) := do
  let (os', buf, length) ← tlvOptsLoop fix opts buf 2
  if fix then
    let pad := finalPad length
    if pad ≠ 0 then
      let buf ← padMaybe buf (length - 2) pad
      pure (os', buf, length + pad - 2)
    else pure (os', buf, length - 2)
  else pure (os', buf, length - 2)

/-! ## (*IPv6HopByHop).SerializeTo / (*IPv6Destination).SerializeTo (identical bodies) -/

def serializeTlvExt (e : TlvExt) (b : SBuf) (fix : Bool) : Res (SBuf × TlvExt) := do
  -- l := serializeIPv6HeaderTLVOptions(nil, o, opts.FixLengths)   (dry run; mutates OptionLength)
  let (os1, _, l) ← serializeTlvOptions none e.options fix
  -- bytes, err = b.PrependBytes(l); serializeIPv6HeaderTLVOptions(bytes, o, opts.FixLengths)
  let r := prepend b l
  let stale := (contents r.1).take l
  let (os2, out, _) ← serializeTlvOptions (some stale) os1 fix
  let b2 := fill r.1 r.2 (out.getD stale)
  let length := l + 2
  if length % 8 ≠ 0 then .err "actual length must be multiple of 8"
  else
    let hl := if fix then (length / 8 - 1) % 256 else e.base.headerLength
    let r2 := prepend b2 2
    let b3 := fill r2.1 r2.2 [u8 e.base.nextHeader, u8 hl]
    pure (b3, { e with options := os2, base := { e.base with headerLength := hl } })

/-! ## SetJumboLength / addIPv6JumboOption -/

/-- (*IPv6HopByHopOption).SetJumboLength(length): `if len(o.OptionData) != 4 { o.OptionData =
    make([]byte, 4) }; binary.BigEndian.PutUint32(o.OptionData, length)`. -/
def setJumboLength (o : Tlv) (n : Nat) : Res Tlv :=
  let data : Bytes := if o.bytes.length ≠ 4 then [0, 0, 0, 0] else o.bytes
  if data.length < 4 then .panic .index
  else
    .ok { typ := hopByHopOptionJumbogram, len := 4, alen := 6,
          data := some (putBe32 (n % 4294967296) ++ data.drop 4), ax := 4, ay := 2 }

/-- SetJumboLength(0) on the first option whose type is Jumbogram; `false` if there is none. -/
def setFirstJumbo : List Tlv → Res (List Tlv × Bool)
  | [] => .ok ([], false)
  | o :: os =>
    if o.typ = hopByHopOptionJumbogram then do
      let o' ← setJumboLength o 0
      pure (o' :: os, true)
    else do
      let (os', f) ← setFirstJumbo os
      pure (o :: os', f)

def addJumboOption (l : IPv6) : Res IPv6 := do
  let (h, nh) : TlvExt × Nat := match l.hopByHop with
    | none => ({ base := { ExtBase.zero with nextHeader := l.nextHeader, headerLength := 0 },
                 options := [] }, ipProtocolIPv6HopByHop)
    | some h => (h, l.nextHeader)
  let (os, found) ← setFirstJumbo h.options
  if found then pure { l with nextHeader := nh, hopByHop := some { h with options := os } }
  else do
    let t ← setJumboLength Tlv.zero 0
    pure { l with nextHeader := nh, hopByHop := some { h with options := h.options ++ [t] } }

/-! ## setIPv6PayloadJumboLength -/

def jumboScan (hbh : Bytes) (hbhLen : Nat) : Nat → Nat → Res Bytes
  | fuel, offset =>
    if offset < hbhLen then
      match fuel with
      | 0 => .panic .explicit
      | fuel + 1 => do
        let opt ← index hbh offset
        if opt = 0 then jumboScan hbh hbhLen fuel (offset + 1)
        else do
          let optLen ← index hbh (offset + 1)
          if opt.toNat = hopByHopOptionJumbogram then
            if optLen.toNat = 4 then
              -- binary.BigEndian.PutUint32(hbh[offset+2:], uint32(pLen))
              if offset + 2 ≤ hbh.length then
                if hbh.length - (offset + 2) < 4 then .panic .index
                else .ok (hbh.take (offset + 2) ++ putBe32 (hbh.length % 4294967296) ++
                          hbh.drop (offset + 6))
              else .panic .slice
            else .err "Jumbo TLV too short"
          else jumboScan hbh hbhLen fuel (offset + 2 + optLen.toNat)
    else .err "Jumbo TLV not found"

def setPayloadJumboLength (hbh : Bytes) : Res Bytes :=
  let pLen := hbh.length
  if pLen < 8 then .err "Invalid IPv6 payload"
  else do
    let h1 ← index hbh 1
    let hbhLen := (h1.toNat + 1) * 8       -- (int(hbh[1]) + 1) * 8
    if hbhLen > pLen then .err "Invalid hop-by-hop length"
    else jumboScan hbh hbhLen hbhLen 2

/-! ## (*IPv6).SerializeTo -/

/-- Store the new contents through the slice returned by `b.Bytes()` (same backing array). -/
def setContents (b : SBuf) (p : Bytes) : SBuf :=
  fill b { gen := b.gen, off := b.start, n := p.length } p

/-- The 40 header stores, replayed on the stale window. -/
def ip6HeaderStores (l : IPv6) (len : Nat) (st : Bytes) : Res Bytes := do
  let st ← wr st 0 (u8 (((l.version * 16) % 256) ||| ((l.trafficClass % 256) / 16)))
  let st ← wr st 1 (u8 (((l.trafficClass * 16) % 256) ||| ((l.flowLabel / 65536) % 256)))
  let st ← cp st 2 (putBe16 (l.flowLabel % 65536))
  let st ← cp st 4 (putBe16 len)
  let st ← wr st 6 (u8 l.nextHeader)
  let st ← wr st 7 (u8 l.hopLimit)
  -- AddressTo16
  if l.srcIP.length ≠ 16 then .err "Invalid source IPv6 address"
  else if l.dstIP.length ≠ 16 then .err "Invalid destination IPv6 address"
  else do
    let st ← cp st 8 l.srcIP
    cp st 24 l.dstIP

/-- First block of SerializeTo: `if pLen > ipv6MaxPayloadLength { jumbo = true; … }`. -/
def ip6JumboPrep (l : IPv6) (fix jumbo : Bool) : Res IPv6 :=
  if jumbo then
    if fix then addJumboOption l
    else match l.hopByHop with
      | none => .err "Cannot fit payload length into IPv6 packet"
      | some h => do
        let (_, ok) ← getJumboLength h
        if ok then pure l else .err "Missing jumbo length hop-by-hop option"
  else pure l

/-- `if ipv6.NextHeader != IPProtocolIPv6HopByHop { ipv6.NextHeader = IPProtocolIPv6HopByHop }` -/
def ip6SetHbhNext (l : IPv6) : IPv6 :=
  if l.nextHeader ≠ ipProtocolIPv6HopByHop then { l with nextHeader := ipProtocolIPv6HopByHop } else l

/-- Second block: serialize the hop-by-hop header unless the buffer already holds one; returns the
    buffer, the layer and the payload length seen by the IPv6 header. -/
def ip6HbhStep (l : IPv6) (b : SBuf) (fix jumbo : Bool) : Res (SBuf × IPv6 × Nat) :=
  match l.hopByHop with
  | some h =>
    if b.layers.contains layerTypeIPv6HopByHop then pure (b, l, (contents b).length)
    else do
      let l : IPv6 := ip6SetHbhNext l
      let (b, h') ← serializeTlvExt h b fix
      let l : IPv6 := { l with hopByHop := some h' }
      let payload := contents b
      if fix && jumbo then do
        let p' ← setPayloadJumboLength payload
        pure (setContents b p', l, payload.length)
      else pure (b, l, payload.length)
  | none => pure (b, l, (contents b).length)

/-- Third block: the 40-byte header. -/
def ip6HeaderStep (l : IPv6) (b : SBuf) (fix jumbo : Bool) (pLen : Nat) : Res (SBuf × IPv6) :=
  if !jumbo && decide (pLen > maxPayloadLength) then .err "Cannot fit payload into IPv6 header"
  else
    let length := if fix then (if jumbo then 0 else pLen % 65536) else l.length
    let l : IPv6 := { l with length := length }
    match prependWith b 40 (ip6HeaderStores l (length % 65536)) with
    | .ok b => .ok (b, l)
    | .err e => .err e
    | .panic k => .panic k

def serializeIPv6 (l : IPv6) (b : SBuf) (fix : Bool) : Res (SBuf × IPv6) := do
  let jumbo : Bool := decide ((contents b).length > maxPayloadLength)
  let l ← ip6JumboPrep l fix jumbo
  let (b, l, pLen) ← ip6HbhStep l b fix jumbo
  ip6HeaderStep l b fix jumbo pLen

/-! ## (*IPv6Routing).SerializeTo -/

/-- net.IP.To16 -/
def to16 (ip : Bytes) : Bytes :=
  if ip.length = 4 then [0, 0, 0, 0, 0, 0, 0, 0, 0, 0, 0xff, 0xff] ++ ip
  else if ip.length = 16 then ip
  else []

def routingIPStores : List Bytes → Nat → Bytes → Res Bytes
  | [], _, st => .ok st
  | ip :: ips, i, st => do
    let st ← cpRange st (8 + i * 16) (8 + i * 16 + 16) (to16 ip)
    routingIPStores ips (i + 1) st

def serializeRouting (r : Routing) (b : SBuf) : Res SBuf :=
  let totalLen := 8 + r.sourceRoutingIPs.length * 16
  let hdrExtLen := (totalLen - 8) / 8
  prependWith b totalLen (fun st => do
    let st ← wr st 0 (u8 r.base.nextHeader)
    let st ← wr st 1 (u8 hdrExtLen)
    let st ← wr st 2 (u8 r.routingType)
    let st ← wr st 3 (u8 r.segmentsLeft)
    let st ← cpRange st 4 8 r.reserved
    routingIPStores r.sourceRoutingIPs 0 st)

/-! ## (*IPv6Fragment).SerializeTo -/

def serializeFragment (f : Fragment) (b : SBuf) : Res SBuf :=
  prependWith b 8 (fun st => do
    let st ← wr st 0 (u8 f.nextHeader)
    let st ← wr st 1 (u8 f.reserved1)
    let st ← cpRange st 2 4 (putBe16 ((f.fragmentOffset * 8) % 65536))
    let d3 ← index st 3
    let st ← wr st 3 (u8 (d3.toNat ||| (((f.reserved2 * 2) % 256) &&& 6)))
    let st ← (if f.moreFragments then do
                let d3 ← index st 3
                wr st 3 (u8 (d3.toNat ||| 1))
              else pure st : Res Bytes)
    cpRange st 4 8 (putBe32 (f.identification % 4294967296)))

end Gp.Ip6
