import Gp.Go.Basic
import Gp.Model.SBuf
import Gp.Gen.Eth
/-
  Model of /repo/layers/ethernet.go and /repo/layers/dot1q.go (engine `leth`):

    Ethernet.DecodeFromBytes, SerializeTo, CanDecode, NextLayerType, LinkFlow, decodeEthernet
    Dot1Q.DecodeFromBytes,    SerializeTo, CanDecode, NextLayerType,           decodeDot1Q
    + EthernetType.LayerType (enums_generated.go over the table filled in enums.go),
      decodingLayerDecoder (base.go), gopacket.NewFlow/Flow.Reverse (flows.go) as used by LinkFlow,
      and the DecodingLayerParser loop (layers_decoder.go) restricted to these two layers.

  Conventions (DESIGN §3): a Go panic is `Res.panic`; a Go `[]byte` is its visible bytes plus the
  *foreign* bytes between len and cap (`GSlice`): `s[a:b]` panics iff ¬(a ≤ b ∧ b ≤ cap), `s[i]`
  panics iff i ≥ len.  Sized integers are `Nat` with an explicit `%` wherever Go truncates.
  A Go `error` return is a *value* (`err := true`) so that what the call did to the receiver and
  to the DecodeFeedback/SerializeBuffer before returning the error stays visible.
  Every assignment of the Go source appears, in source order.  Core Lean only.
-/
namespace Gp.Eth
open Gp Gp.SBuf Gp.Gen.Eth

/-! ## Go slices with capacity -/

/-- A Go `[]byte`: `vis` = the `len` visible bytes, `tail` = the bytes of the backing array between
    `len` and `cap` (cap = len on the copying decode path; larger under NoCopy / Pool, where the
    tail is whatever the caller's buffer / the pool block holds there). -/
structure GSlice where
  vis  : Bytes
  tail : Bytes
  deriving Repr, DecidableEq

namespace GSlice
def len (s : GSlice) : Nat := s.vis.length
def cap (s : GSlice) : Nat := s.vis.length + s.tail.length
/-- Go `s[a:b]`: the upper bound is checked against the CAPACITY. -/
def slice (s : GSlice) (a b : Nat) : Res GSlice :=
  if a ≤ b ∧ b ≤ s.cap then
    .ok { vis := ((s.vis ++ s.tail).drop a).take (b - a), tail := (s.vis ++ s.tail).drop b }
  else .panic .slice
/-- Go `s[a:]` (= `s[a:len(s)]`): panics iff a > len. -/
def sliceFrom (s : GSlice) (a : Nat) : Res GSlice :=
  if a ≤ s.len then .ok { vis := s.vis.drop a, tail := s.tail } else .panic .slice
/-- Go `s[i]`: the bound is the LENGTH. -/
def index (s : GSlice) (i : Nat) : Res UInt8 := Gp.index s.vis i
end GSlice

/-- encoding/binary `BigEndian.Uint16(b)`: `_ = b[1]` (early bounds check), then b[0]<<8 | b[1]. -/
def uint16 (s : GSlice) : Res Nat := do
  let b1 ← s.index 1
  let b0 ← s.index 0
  pure (be16 b0 b1)

/-! ## Layer-type numbers (layertypes.go RegisterLayerType ids) and the EthernetType table -/

def LayerTypeZero : Nat := 0
def LayerTypeARP : Nat := 10
def LayerTypeCiscoDiscovery : Nat := 11
def LayerTypeEthernetCTP : Nat := 12
def LayerTypeDot1Q : Nat := 15
def LayerTypeEAPOL : Nat := 56
def LayerTypeEthernet : Nat := 17
def LayerTypeIPv4 : Nat := 20
def LayerTypeIPv6 : Nat := 21
def LayerTypeLLC : Nat := 22
def LayerTypeMPLS : Nat := 24
def LayerTypePPP : Nat := 25
def LayerTypePPPoE : Nat := 26
def LayerTypeLinkLayerDiscovery : Nat := 58
def LayerTypeNortelDiscovery : Nat := 61
def LayerTypeERSPANII : Nat := 145
def LayerTypeMDP : Nat := 147

/-- enums.go `initActualTypeData`: the EthernetType rows of `EthernetTypeMetadata`
    (EthernetType ↦ LayerType); every other entry has `DecodeWith == nil`.  The keys are the
    GENERATED constants; the layer-type ids and the set of rows are tied by the exhaustive
    65536-entry correspondence op `leth nlttab`. -/
def ethTypeTable : List (Nat × Nat) :=
  [ (ethernetTypeLLC, LayerTypeLLC), (ethernetTypeIPv4, LayerTypeIPv4),
    (ethernetTypeRaw, LayerTypeIPv4), (ethernetTypeIPv6, LayerTypeIPv6),
    (ethernetTypeARP, LayerTypeARP), (ethernetTypeDot1Q, LayerTypeDot1Q),
    (ethernetTypePPP, LayerTypePPP), (ethernetTypePPPoEDiscovery, LayerTypePPPoE),
    (ethernetTypePPPoESession, LayerTypePPPoE), (ethernetTypeEthernetCTP, LayerTypeEthernetCTP),
    (ethernetTypeCiscoDiscovery, LayerTypeCiscoDiscovery),
    (ethernetTypeNortelDiscovery, LayerTypeNortelDiscovery),
    (ethernetTypeLinkLayerDiscovery, LayerTypeLinkLayerDiscovery),
    (ethernetTypeMPLSUnicast, LayerTypeMPLS), (ethernetTypeMPLSMulticast, LayerTypeMPLS),
    (ethernetTypeEAPOL, LayerTypeEAPOL), (ethernetTypeQinQ, LayerTypeDot1Q),
    (ethernetTypeTransparentEthernetBridging, LayerTypeEthernet),
    (ethernetTypeERSPAN, LayerTypeERSPANII), (ethernetTypeMerakiDiscoveryProtocol, LayerTypeMDP) ]

/-- `EthernetTypeMetadata[a].DecodeWith != nil`. -/
def ethTypeKnown (a : Nat) : Bool := (ethTypeTable.lookup a).isSome

/-- enums_generated.go `EthernetType.LayerType()`: the table entry, 0 when there is no decoder. -/
def ethTypeLayerType (a : Nat) : Nat := (ethTypeTable.lookup a).getD LayerTypeZero

/-! ## Ethernet -/

/-- layers.Ethernet: BaseLayer{Contents, Payload}, SrcMAC, DstMAC, EthernetType, Length. -/
structure Ethernet where
  contents     : Bytes
  payload      : Bytes
  srcMAC       : Bytes
  dstMAC       : Bytes
  ethernetType : Nat     -- uint16
  length       : Nat     -- uint16
  deriving Repr, DecidableEq

/-- `&Ethernet{}`. -/
def Ethernet.fresh : Ethernet :=
  { contents := [], payload := [], srcMAC := [], dstMAC := [], ethernetType := 0, length := 0 }

/-- What one DecodeFromBytes call did: the receiver afterwards, whether it called
    `df.SetTruncated()`, and whether it returned a non-nil error. -/
structure DecOut (L : Type) where
  layer : L
  trunc : Bool
  err   : Bool
  deriving Repr, DecidableEq

/-- ethernet.go:42-63 `(*Ethernet).DecodeFromBytes`, statement by statement.  `old` is the
    receiver before the call. -/
def Ethernet.decodeFromBytes (old : Ethernet) (data : GSlice) : Res (DecOut Ethernet) :=
  if data.len < 14 then
    .ok { layer := old, trunc := false, err := true }          -- "Ethernet packet too small"
  else do
    let s ← data.slice 0 6
    let l := { old with dstMAC := s.vis }                       -- eth.DstMAC = data[0:6]
    let s ← data.slice 6 12
    let l := { l with srcMAC := s.vis }                         -- eth.SrcMAC = data[6:12]
    let s ← data.slice 12 14
    let v ← uint16 s
    let l := { l with ethernetType := v }                       -- eth.EthernetType = …(data[12:14])
    let c ← data.slice 0 14
    let p ← data.sliceFrom 14
    let l := { l with contents := c.vis, payload := p.vis }     -- eth.BaseLayer = {data[:14], data[14:]}
    let l := { l with length := 0 }                             -- eth.Length = 0
    if l.ethernetType < 0x0600 then
      let l := { l with length := l.ethernetType % 65536 }      -- eth.Length = uint16(eth.EthernetType)
      let l := { l with ethernetType := ethernetTypeLLC }       -- eth.EthernetType = EthernetTypeLLC
      let cmp : Int := (p.len : Int) - (l.length : Int)         -- len(eth.Payload) - int(eth.Length)
      if cmp < 0 then
        pure { layer := l, trunc := true, err := false }        -- df.SetTruncated()
      else if cmp > 0 then
        let hi : Int := (p.len : Int) - cmp
        if hi < 0 then .panic .slice else do
        let p' ← p.slice 0 hi.toNat                             -- eth.Payload[:len(eth.Payload)-cmp]
        pure { layer := { l with payload := p'.vis }, trunc := false, err := false }
      else
        pure { layer := l, trunc := false, err := false }
    else
      pure { layer := l, trunc := false, err := false }

/-- The view asked for by the engine brief: success carries the layer and its truncation
    contribution; an error return is `.err` (the receiver is then untouched, see
    `Ethernet.decodeFromBytes`).  `cap = |data| + |foreign|`. -/
def decodeEth (old : Ethernet) (data : Bytes) (foreign : Bytes) : Res (Ethernet × Bool) :=
  match old.decodeFromBytes { vis := data, tail := foreign } with
  | .ok o => if o.err then .err "ethernet" else .ok (o.layer, o.trunc)
  | .err k => .err k
  | .panic k => .panic k

/-- ethernet.go:107 CanDecode. -/
def Ethernet.canDecode : Nat := LayerTypeEthernet
/-- ethernet.go:111 NextLayerType = `eth.EthernetType.LayerType()`. -/
def Ethernet.nextLayerType (l : Ethernet) : Nat := ethTypeLayerType l.ethernetType
/-- base.go LayerPayload. -/
def Ethernet.layerPayload (l : Ethernet) : Bytes := l.payload

/-! ## Dot1Q -/

/-- layers.Dot1Q: BaseLayer, Priority (uint8), DropEligible, VLANIdentifier (uint16), Type. -/
structure Dot1Q where
  contents     : Bytes
  payload      : Bytes
  priority     : Nat     -- uint8
  dropEligible : Bool
  vlan         : Nat     -- uint16
  type         : Nat     -- uint16 (EthernetType)
  deriving Repr, DecidableEq

/-- `&Dot1Q{}`. -/
def Dot1Q.fresh : Dot1Q :=
  { contents := [], payload := [], priority := 0, dropEligible := false, vlan := 0, type := 0 }

/-- dot1q.go:30-41 `(*Dot1Q).DecodeFromBytes`. -/
def Dot1Q.decodeFromBytes (old : Dot1Q) (data : GSlice) : Res (DecOut Dot1Q) :=
  if data.len < 4 then
    .ok { layer := old, trunc := true, err := true }   -- df.SetTruncated(); "802.1Q tag length … too short"
  else do
    let b0 ← data.index 0
    let l := { old with priority := (b0.toNat &&& 0xE0) >>> 5 }     -- d.Priority = (data[0] & 0xE0) >> 5
    let b0 ← data.index 0
    let l := { l with dropEligible := (b0.toNat &&& 0x10 != 0) }    -- d.DropEligible = data[0]&0x10 != 0
    let s ← data.slice 0 2
    let v ← uint16 s
    let l := { l with vlan := v &&& 0x0FFF }                        -- d.VLANIdentifier = …(data[:2]) & 0x0FFF
    let s ← data.slice 2 4
    let v ← uint16 s
    let l := { l with type := v }                                   -- d.Type = EthernetType(…(data[2:4]))
    let c ← data.slice 0 4
    let p ← data.sliceFrom 4
    let l := { l with contents := c.vis, payload := p.vis }         -- d.BaseLayer = {data[:4], data[4:]}
    pure { layer := l, trunc := false, err := false }

def decodeDot1Q (old : Dot1Q) (data : Bytes) (foreign : Bytes) : Res (Dot1Q × Bool) :=
  match old.decodeFromBytes { vis := data, tail := foreign } with
  | .ok o => if o.err then .err "dot1q" else .ok (o.layer, o.trunc)
  | .err k => .err k
  | .panic k => .panic k

def Dot1Q.canDecode : Nat := LayerTypeDot1Q
def Dot1Q.nextLayerType (l : Dot1Q) : Nat := ethTypeLayerType l.type
def Dot1Q.layerPayload (l : Dot1Q) : Bytes := l.payload

/-! ## The decoder functions registered for NewPacket, as behaviour descriptions -/

/-- A call on the PacketBuilder. -/
inductive Act where
  | setTruncated
  | addLayer (t : Nat)
  | setLinkLayer
  deriving Repr, DecidableEq

/-- How a decoder function ends. -/
inductive Tail where
  | done                       -- return nil
  | fail                       -- return err
  | nextEthType (a : Nat)      -- return p.NextDecoder(EthernetType(a))
  | nextLayerType (t : Nat)    -- return p.NextDecoder(LayerType(t))
  deriving Repr, DecidableEq

structure Beh where
  acts : List Act
  tail : Tail
  deriving Repr, DecidableEq

/-- ethernet.go:115-124 `decodeEthernet`: fresh layer, DecodeFromBytes, AddLayer, SetLinkLayer,
    NextDecoder(eth.EthernetType).  Returns the behaviour and the layer that was added. -/
def decodeEthernet (data : GSlice) : Res (Beh × Option Ethernet) := do
  let o ← Ethernet.fresh.decodeFromBytes data
  let tr := if o.trunc then [Act.setTruncated] else []
  if o.err then pure ({ acts := tr, tail := .fail }, none)
  else pure ({ acts := tr ++ [.addLayer LayerTypeEthernet, .setLinkLayer],
               tail := .nextEthType o.layer.ethernetType }, some o.layer)

/-- dot1q.go:53-56 `decodeDot1Q` = base.go:39-50 `decodingLayerDecoder(&Dot1Q{}, data, p)`. -/
def decodeDot1QFn (data : GSlice) : Res (Beh × Option Dot1Q) := do
  let o ← Dot1Q.fresh.decodeFromBytes data
  let tr := if o.trunc then [Act.setTruncated] else []
  if o.err then pure ({ acts := tr, tail := .fail }, none)
  else
    let next := o.layer.nextLayerType
    if next = LayerTypeZero then pure ({ acts := tr ++ [.addLayer LayerTypeDot1Q], tail := .done }, some o.layer)
    else pure ({ acts := tr ++ [.addLayer LayerTypeDot1Q], tail := .nextLayerType next }, some o.layer)

/-- What the packet builder does with `NextDecoder(EthernetType(a))`: enums_generated.go
    `EthernetType.Decode` returns an error when the table has no decoder. -/
def ethTypeDecodes (a : Nat) : Bool := ethTypeKnown a

/-! ## LinkFlow (ethernet.go:38-40 over flows.go:214-224, 206-208) -/

structure Flow where
  typ  : Nat
  slen : Nat
  dlen : Nat
  src  : Bytes      -- [MaxEndpointSize]byte
  dst  : Bytes
  deriving Repr, DecidableEq

def EndpointMAC : Nat := 3

/-- `copy(f.src[:], src)` into the zero array. -/
def pad16 (b : Bytes) : Bytes := b ++ List.replicate (maxEndpointSize - b.length) 0

/-- flows.go NewFlow: explicit panic above MaxEndpointSize. -/
def newFlow (t : Nat) (src dst : Bytes) : Res Flow :=
  if src.length > maxEndpointSize ∨ dst.length > maxEndpointSize then .panic .explicit
  else .ok { typ := t, slen := src.length, dlen := dst.length, src := pad16 src, dst := pad16 dst }

def Flow.reverse (f : Flow) : Flow :=
  { typ := f.typ, slen := f.dlen, dlen := f.slen, src := f.dst, dst := f.src }
/-- `f.Src().Raw()` / `f.Dst().Raw()`. -/
def Flow.srcBytes (f : Flow) : Bytes := f.src.take f.slen
def Flow.dstBytes (f : Flow) : Bytes := f.dst.take f.dlen

/-- ethernet.go:38 LinkFlow. -/
def Ethernet.linkFlow (l : Ethernet) : Res Flow := newFlow EndpointMAC l.srcMAC l.dstMAC

/-! ## Serialization, written over the C18 buffer model -/

/-- `w[a:]` on a slice handed out by the buffer. -/
def winFrom (w : Win) (a : Nat) : Res Win :=
  if a ≤ w.n then .ok { gen := w.gen, off := w.off + a, n := w.n - a } else .panic .slice

/-- Go `copy(w, src)`: copies `min(len(w), len(src))` bytes, never panics. -/
def copyTo (b : SBuf) (w : Win) (src : Bytes) : SBuf := fill b w (src.take w.n)

/-- `binary.BigEndian.PutUint16(w, v)`: `_ = b[1]` then two stores. -/
def putUint16 (b : SBuf) (w : Win) (v : Nat) : Res SBuf :=
  if w.n < 2 then .panic .index else .ok (fill b w (putBe16 v))

/-- base.go `lotsOfZeros` (a package VARIABLE, [1024]byte; trusted never to be written). -/
def lotsOfZeros : Bytes := zeros 1024

/-- What one SerializeTo call did: the buffer and the receiver afterwards (SerializeTo mutates the
    layer under FixLengths), and whether it returned a non-nil error. -/
structure SerOut (L : Type) where
  buf   : SBuf
  layer : L
  err   : Bool
  deriving Repr, DecidableEq

/-- ethernet.go:68-106 `(*Ethernet).SerializeTo` — the code WITH proposed_fixes/leth-1 applied (type
    compatibility is checked before FixLengths overwrites Length; the code before the fix is
    `Ethernet.serializeToPreFix` below).  (`PrependBytes`/`AppendBytes` of the default buffer never
    return an error; their `num < 0` panic is unreachable: 14 and 60-length > 0.) -/
def Ethernet.serializeTo (l : Ethernet) (b : SBuf) (fix _csum : Bool) : Res (SerOut Ethernet) :=
  if l.dstMAC.length ≠ 6 then .ok { buf := b, layer := l, err := true }       -- "invalid dst MAC"
  else if l.srcMAC.length ≠ 6 then .ok { buf := b, layer := l, err := true }  -- "invalid src MAC"
  else do
    let payloadLen := (Gp.SBuf.contents b).length                       -- payload := b.Bytes()
    let (b, bytes) := prepend b 14                              -- bytes, err := b.PrependBytes(14)
    let b := copyTo b bytes l.dstMAC                            -- copy(bytes, eth.DstMAC)
    let w ← winFrom bytes 6
    let b := copyTo b w l.srcMAC                                -- copy(bytes[6:], eth.SrcMAC)
    let w ← winFrom bytes 12
    if l.length ≠ 0 ∨ l.ethernetType = ethernetTypeLLC then
      if l.ethernetType ≠ ethernetTypeLLC then
        pure { buf := b, layer := l, err := true }              -- "ethernet type … not compatible with length value"
      else
      let l := if fix then { l with length := payloadLen % 65536 } else l   -- eth.Length = uint16(len(payload))
      if l.length > 0x0600 then
        pure { buf := b, layer := l, err := true }              -- "invalid ethernet length"
      else do
        let b ← putUint16 b w l.length                          -- PutUint16(bytes[12:], eth.Length)
        pad b l
    else do
      let b ← putUint16 b w l.ethernetType                      -- PutUint16(bytes[12:], uint16(eth.EthernetType))
      pad b l
where
  /-- ethernet.go:95-104: pad the frame out to 60 bytes with zeros. -/
  pad (b : SBuf) (l : Ethernet) : Res (SerOut Ethernet) :=
    let length := (Gp.SBuf.contents b).length                           -- length := len(b.Bytes())
    if length < 60 then
      let (b, padding) := append b (60 - length)                -- padding, err := b.AppendBytes(60 - length)
      pure { buf := copyTo b padding lotsOfZeros, layer := l, err := false }  -- copy(padding, lotsOfZeros[:])
    else pure { buf := b, layer := l, err := false }

/-- View asked for by the brief: `.err` when SerializeTo returned an error. -/
def serializeEth (l : Ethernet) (b : SBuf) (fix csum : Bool) : Res (SBuf × Ethernet) :=
  match l.serializeTo b fix csum with
  | .ok o => if o.err then .err "ethernet" else .ok (o.buf, o.layer)
  | .err k => .err k
  | .panic k => .panic k

/-- The same function BEFORE proposed_fixes/leth-1: `eth.Length = uint16(len(payload))` ran before the
    type-compatibility check, so a rejected layer was left modified (kept only to state the defect:
    `Gp.C07.Eth.prefix_not_idempotent_counterexample`). -/
def Ethernet.serializeToPreFix (l : Ethernet) (b : SBuf) (fix _csum : Bool) : Res (SerOut Ethernet) :=
  if l.dstMAC.length ≠ 6 then .ok { buf := b, layer := l, err := true }
  else if l.srcMAC.length ≠ 6 then .ok { buf := b, layer := l, err := true }
  else do
    let payloadLen := (Gp.SBuf.contents b).length
    let (b, bytes) := prepend b 14
    let b := copyTo b bytes l.dstMAC
    let w ← winFrom bytes 6
    let b := copyTo b w l.srcMAC
    let w ← winFrom bytes 12
    if l.length ≠ 0 ∨ l.ethernetType = ethernetTypeLLC then
      let l := if fix then { l with length := payloadLen % 65536 } else l
      if l.ethernetType ≠ ethernetTypeLLC then
        pure { buf := b, layer := l, err := true }
      else if l.length > 0x0600 then
        pure { buf := b, layer := l, err := true }
      else do
        let b ← putUint16 b w l.length
        Ethernet.serializeTo.pad b l
    else do
      let b ← putUint16 b w l.ethernetType
      Ethernet.serializeTo.pad b l

/-- dot1q.go:61-76 `(*Dot1Q).SerializeTo`.  Note the order: PrependBytes first, range check after. -/
def Dot1Q.serializeTo (l : Dot1Q) (b : SBuf) (_fix _csum : Bool) : Res (SerOut Dot1Q) := do
  let (b, bytes) := prepend b 4                                 -- bytes, err := b.PrependBytes(4)
  if l.vlan > 0xFFF then
    pure { buf := b, layer := l, err := true }                  -- "vlan identifier … is too high"
  else
    let firstBytes := ((l.priority <<< 13) % 65536) ||| l.vlan  -- uint16(d.Priority)<<13 | d.VLANIdentifier
    let firstBytes := if l.dropEligible then firstBytes ||| 0x1000 else firstBytes
    let b ← putUint16 b bytes firstBytes                        -- PutUint16(bytes, firstBytes)
    let w ← winFrom bytes 2
    let b ← putUint16 b w l.type                                -- PutUint16(bytes[2:], uint16(d.Type))
    pure { buf := b, layer := l, err := false }

def serializeDot1Q (l : Dot1Q) (b : SBuf) (fix csum : Bool) : Res (SBuf × Dot1Q) :=
  match l.serializeTo b fix csum with
  | .ok o => if o.err then .err "dot1q" else .ok (o.buf, o.layer)
  | .err k => .err k
  | .panic k => .panic k

/-- gopacket.Payload.SerializeTo: PrependBytes(len(p)); copy. -/
def serializePayload (p : Bytes) (b : SBuf) : SBuf :=
  let (b, w) := prepend b p.length
  copyTo b w p

/-! ## DecodingLayerParser over {Ethernet, Dot1Q} (layers_decoder.go loop, first = Ethernet) -/

structure DlpState where
  eth     : Ethernet
  dot1q   : Dot1Q
  decoded : List Nat
  trunc   : Bool
  deriving Repr, DecidableEq

/-- One run of the LayersDecoder loop followed by the tail of DecodeLayers.  `typ` is the type about
    to be decoded.  Result code: 0 = `nil`, 1 = the error of a DecodeFromBytes, 2 =
    `UnsupportedLayerType(typ)` (next type outside the set and ≠ LayerTypeZero).
    Each Dot1Q iteration consumes 4 bytes, the Ethernet one 14: `fuel = |data| + 1` suffices. -/
def dlpLoop : Nat → DlpState → Nat → GSlice → Res (DlpState × Nat)
  | 0, st, _, _ => .ok (st, 0)
  | fuel + 1, st, typ, data =>
    if typ = LayerTypeEthernet then
      match st.eth.decodeFromBytes data with
      | .panic k => .panic k
      | .err k => .err k
      | .ok o =>
        let st := { st with eth := o.layer, trunc := st.trunc || o.trunc }
        if o.err then .ok (st, 1) else
        let st := { st with decoded := st.decoded ++ [typ] }
        let rest : GSlice := { vis := o.layer.payload,
                               tail := (data.vis.drop (14 + o.layer.payload.length)) ++ data.tail }
        if rest.len = 0 then .ok (st, 0) else dlpLoop fuel st o.layer.nextLayerType rest
    else if typ = LayerTypeDot1Q then
      match st.dot1q.decodeFromBytes data with
      | .panic k => .panic k
      | .err k => .err k
      | .ok o =>
        let st := { st with dot1q := o.layer, trunc := st.trunc || o.trunc }
        if o.err then .ok (st, 1) else
        let st := { st with decoded := st.decoded ++ [typ] }
        let rest : GSlice := { vis := o.layer.payload, tail := data.tail }
        if rest.len = 0 then .ok (st, 0) else dlpLoop fuel st o.layer.nextLayerType rest
    else if typ = LayerTypeZero then .ok (st, 0) else .ok (st, 2)

/-- parser.go DecodeLayers: Truncated := false, decoded := decoded[:0], run the loop. -/
def dlpDecodeLayers (eth : Ethernet) (dot1q : Dot1Q) (data : GSlice) : Res (DlpState × Nat) :=
  dlpLoop (data.len + 1) { eth := eth, dot1q := dot1q, decoded := [], trunc := false } LayerTypeEthernet data

end Gp.Eth
