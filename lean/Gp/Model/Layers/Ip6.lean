import Gp.Go.Basic
import Gp.Gen.Ip6
import Gp.Model.Flow
/-
  Model of the DECODE half of /repo/layers/ip6.go (engine `lip6`), core Lean only.

  Transcribed line by line:
    (*IPv6).DecodeFromBytes, getIPv6HopByHopJumboLength, (*IPv6).NextLayerType, decodeIPv6,
    decodeIPv6HeaderTLVOption, decodeIPv6ExtensionBase, (*IPv6ExtensionSkipper).DecodeFromBytes,
    (*IPv6HopByHop).DecodeFromBytes, decodeIPv6HopByHop, (*IPv6Destination).DecodeFromBytes,
    decodeIPv6Destination, decodeIPv6Routing, decodeIPv6Fragment, (*IPv6).NetworkFlow.

  Go semantics kept explicit:
  * a `[]byte` argument is a `View`: the `len` part `b` and the spare capacity `x` (the bytes
    between len and cap: foreign bytes under NoCopy/Pool).  `v[i]` panics iff `i ≥ len`;
    `v[a:b]` panics iff `¬(a ≤ b ∧ b ≤ cap)` and can therefore expose foreign bytes.
  * `DecodeFromBytes` is `old ↦ new`: every field the Go code does not assign on a path keeps the
    old value (the private `hbh` of IPv6, `Options` of the extension headers).
  * `DecodeFeedback.SetTruncated` is the Bool of `DecOut`.
  * the layer state is returned on the error paths too (decodeIPv6 adds the layer even then).

  The constants `hopByHopOptionJumbogram`, `maxPayloadLength`, `ipProtocolIPv6HopByHop`,
  are regenerated from the source (Gp/Gen/Ip6.lean); flows are the shared model Gp/Model/Flow.lean.
-/
namespace Gp.Ip6
open Gp Gp.Gen.Ip6

/-! ## Slices with capacity -/

structure View where
  b : Bytes      -- data[0:len]
  x : Bytes      -- data[len:cap]  (spare capacity: arbitrary foreign bytes)
  deriving Repr, DecidableEq, Inhabited

namespace View
def len (v : View) : Nat := v.b.length
def cap (v : View) : Nat := v.b.length + v.x.length
def all (v : View) : Bytes := v.b ++ v.x
/-- `v[i]` -/
def idx (v : View) (i : Nat) : Res UInt8 := index v.b i
/-- `v[a:b]` — Go checks the *capacity*. -/
def slice (v : View) (a b : Nat) : Res View :=
  if a ≤ b ∧ b ≤ v.cap then .ok ⟨(v.all.drop a).take (b - a), v.all.drop b⟩ else .panic .slice
/-- `v[a:]` -/
def sliceFrom (v : View) (a : Nat) : Res View := v.slice a v.len
/-- `v[:b]` -/
def sliceTo (v : View) (b : Nat) : Res View := v.slice 0 b
end View

/-- binary.BigEndian.Uint16(v[a:a+2]) -/
def rd16 (v : View) (a : Nat) : Res Nat := do
  let s ← v.slice a (a + 2)
  let y ← s.idx 1
  let x ← s.idx 0
  pure (be16 x y)

/-- binary.BigEndian.Uint32(v[a:a+4]) -/
def rd32 (v : View) (a : Nat) : Res Nat := do
  let s ← v.slice a (a + 4)
  let d ← s.idx 3
  let a0 ← s.idx 0
  let b0 ← s.idx 1
  let c ← s.idx 2
  pure (be32 a0 b0 c d)

/-! ## Layer structures (every public field of the Go structs, plus Contents/Payload) -/

/-- ipv6HeaderTLVOption = IPv6HopByHopOption = IPv6DestinationOption.
    `data = none` is a nil `OptionData` slice (Pad1 options decode to nil; SetJumboLength tests it).
    `ActualLength` is a Go `int`; the code only ever reads values it has just computed (≥ 1). -/
structure Tlv where
  typ  : Nat              -- OptionType   uint8
  len  : Nat              -- OptionLength uint8
  alen : Nat              -- ActualLength int
  data : Option Bytes     -- OptionData   []byte
  ax   : Nat              -- OptionAlignment[0] uint8
  ay   : Nat              -- OptionAlignment[1] uint8
  deriving Repr, DecidableEq, Inhabited

def Tlv.bytes (o : Tlv) : Bytes := o.data.getD []
def Tlv.zero : Tlv := { typ := 0, len := 0, alen := 0, data := none, ax := 0, ay := 0 }

/-- ipv6ExtensionBase -/
structure ExtBase where
  contents     : Bytes
  payload      : Bytes
  nextHeader   : Nat      -- IPProtocol uint8
  headerLength : Nat      -- uint8
  actualLength : Nat      -- int
  deriving Repr, DecidableEq, Inhabited

def ExtBase.zero : ExtBase :=
  { contents := [], payload := [], nextHeader := 0, headerLength := 0, actualLength := 0 }

/-- IPv6HopByHop and IPv6Destination (identical layout). -/
structure TlvExt where
  base    : ExtBase
  options : List Tlv
  deriving Repr, DecidableEq, Inhabited

def TlvExt.zero : TlvExt := { base := ExtBase.zero, options := [] }

structure IPv6 where
  contents     : Bytes
  payload      : Bytes
  version      : Nat      -- uint8
  trafficClass : Nat      -- uint8
  flowLabel    : Nat      -- uint32
  length       : Nat      -- uint16
  nextHeader   : Nat      -- IPProtocol uint8
  hopLimit     : Nat      -- uint8
  srcIP        : Bytes    -- net.IP
  dstIP        : Bytes
  hopByHop     : Option TlvExt   -- *IPv6HopByHop (nil = none)
  hbh          : TlvExt          -- private field reused by DecodeFromBytes
  deriving Repr, DecidableEq, Inhabited

def IPv6.zero : IPv6 :=
  { contents := [], payload := [], version := 0, trafficClass := 0, flowLabel := 0, length := 0,
    nextHeader := 0, hopLimit := 0, srcIP := [], dstIP := [], hopByHop := none, hbh := TlvExt.zero }

structure Skipper where
  nextHeader : Nat
  contents   : Bytes
  payload    : Bytes
  deriving Repr, DecidableEq, Inhabited

def Skipper.zero : Skipper := { nextHeader := 0, contents := [], payload := [] }

structure Routing where
  base             : ExtBase
  routingType      : Nat         -- uint8
  segmentsLeft     : Nat         -- uint8
  reserved         : Bytes
  sourceRoutingIPs : List Bytes
  deriving Repr, DecidableEq, Inhabited

structure Fragment where
  contents       : Bytes
  payload        : Bytes
  nextHeader     : Nat      -- uint8
  reserved1      : Nat      -- uint8
  fragmentOffset : Nat      -- uint16
  reserved2      : Nat      -- uint8
  moreFragments  : Bool
  identification : Nat      -- uint32
  deriving Repr, DecidableEq, Inhabited

/-- State after a `DecodeFromBytes` call: the layer (also on error), the truncation contribution,
    and the outcome. -/
structure DecOut (L : Type) where
  layer : L
  tr    : Bool
  res   : Res Unit
  deriving Repr

/-! ## decodeIPv6HeaderTLVOption -/

/-- Returns the option (ok), or an error, plus whether SetTruncated was called. -/
def decodeTlvRest (v : View) : Res Tlv × Bool :=
  if v.len < 2 then (.err "IPv6 header option too small", true)
  else
    match v.idx 0 with
    | .panic k => (.panic k, false)
    | .err e => (.err e, false)
    | .ok t =>
      match v.idx 1 with
      | .panic k => (.panic k, false)
      | .err e => (.err e, false)
      | .ok l =>
        let alen := l.toNat + 2
        if v.len < alen then (.err "IPv6 header TLV option too small", true)
        else
          match v.slice 2 alen with
          | .panic k => (.panic k, false)
          | .err e => (.err e, false)
          | .ok d =>
            (.ok { typ := t.toNat, len := l.toNat, alen := alen, data := some d.b,
                   ax := 0, ay := 0 }, false)

def pad1 : Tlv := { typ := 0, len := 0, alen := 1, data := none, ax := 0, ay := 0 }

def decodeTlv (v : View) : Res Tlv × Bool :=
  -- `if len(data) > 0 && data[0] == 0 { return &ipv6HeaderTLVOption{ActualLength: 1}, nil }`
  if 0 < v.len then
    match v.idx 0 with
    | .panic k => (.panic k, false)
    | .err e => (.err e, false)
    | .ok t => if t = 0 then (.ok pad1, false) else decodeTlvRest v
  else decodeTlvRest v

/-! ## decodeIPv6ExtensionBase -/

def decodeExtBaseOk (v : View) : Res ExtBase := do
  let nh ← v.idx 0
  let hl ← v.idx 1
  let al := hl.toNat * 8 + 8
  if v.len < al then .err "Invalid ip6-extension header (specified length)"
  else do
    let c ← v.sliceTo al
    let p ← v.sliceFrom al
    pure { contents := c.b, payload := p.b, nextHeader := nh.toNat, headerLength := hl.toNat,
           actualLength := al }

def decodeExtBase (v : View) : Res ExtBase × Bool :=
  if v.len < 2 then (.err "Invalid ip6-extension header (less than 2)", true)
  else (decodeExtBaseOk v, false)

/-! ## The option loop of (*IPv6HopByHop).DecodeFromBytes / (*IPv6Destination).DecodeFromBytes

  `for offset < i.ActualLength { opt, err := decodeIPv6HeaderTLVOption(data[offset:i.ActualLength], df); … }`
  Returns the options appended before the loop stopped, the truncation flag and the outcome.
  Every iteration advances `offset` by `ActualLength ≥ 1`; the recursion is on `fuel`
  (initially `ActualLength`), running out of fuel is a `.panic .explicit` which
  `Gp.C19.Ip6` proves unreachable.  -/
def tlvLoop (v : View) (al : Nat) : Nat → Nat → (List Tlv × Bool × Res Unit)
  | fuel, off =>
    if off < al then
      match fuel with
      | 0 => ([], false, .panic .explicit)
      | fuel + 1 =>
        match v.slice off al with
        | .panic k => ([], false, .panic k)
        | .err e => ([], false, .err e)
        | .ok d =>
          match decodeTlv d with
          | (.panic k, tr) => ([], tr, .panic k)
          | (.err e, tr) => ([], tr, .err e)
          | (.ok o, tr) =>
            let r := tlvLoop v al fuel (off + o.alen)
            (o :: r.1, tr || r.2.1, r.2.2)
    else ([], false, .ok ())

/-- Which of the two TLV extension headers (their DecodeFromBytes bodies are identical:
    both reset `i.Options = i.Options[:0]` before the loop). -/
inductive ExtKind where
  | hopByHop
  | destination
  deriving Repr, DecidableEq, Inhabited

/-- (*IPv6HopByHop).DecodeFromBytes / (*IPv6Destination).DecodeFromBytes. -/
def decodeTlvExt (k : ExtKind) (old : TlvExt) (v : View) : DecOut TlvExt :=
  match decodeExtBase v with
  | (.panic p, tr) => ⟨old, tr, .panic p⟩
  -- `i.ipv6ExtensionBase, err = decodeIPv6ExtensionBase(...)` assigns the zero base on error
  | (.err e, tr) => ⟨{ old with base := ExtBase.zero }, tr, .err e⟩
  | (.ok base, tr) =>
    -- `i.Options = i.Options[:0]`: nothing of the old list survives (only its capacity is reused)
    let opts0 : List Tlv := match k with
      | .hopByHop => []
      | .destination => []
    let r := tlvLoop v base.actualLength base.actualLength 2
    ⟨{ base := base, options := opts0 ++ r.1 }, tr || r.2.1, r.2.2⟩

/-! ## (*IPv6ExtensionSkipper).DecodeFromBytes -/

def decodeSkipper (old : Skipper) (v : View) : DecOut Skipper :=
  match decodeExtBase v with
  | (.panic p, tr) => ⟨old, tr, .panic p⟩
  | (.err e, tr) => ⟨old, tr, .err e⟩
  | (.ok ext, tr) =>
    match v.sliceTo ext.actualLength, v.sliceFrom ext.actualLength with
    | .ok c, .ok p => ⟨{ nextHeader := ext.nextHeader, contents := c.b, payload := p.b }, tr, .ok ()⟩
    | .panic k, _ => ⟨old, tr, .panic k⟩
    | _, .panic k => ⟨old, tr, .panic k⟩
    | .err e, _ => ⟨old, tr, .err e⟩
    | _, .err e => ⟨old, tr, .err e⟩

/-! ## getIPv6HopByHopJumboLength -/

/-- `(length, found)`; errors when the jumbo TLV is malformed. -/
def getJumboLength (h : TlvExt) : Res (Nat × Bool) :=
  match h.options.find? (fun t => t.typ = hopByHopOptionJumbogram) with
  | none => .ok (0, false)
  | some t =>
    match t.bytes with
    | [a, b, c, d] =>
      let l := be32 a b c d
      if l ≤ maxPayloadLength then .err "Jumbo length cannot be less than 65536"
      else .ok (l, true)
    | _ => .err "Jumbo length TLV data must have length 4"

/-! ## (*IPv6).DecodeFromBytes -/

structure Hdr where
  version : Nat
  tc : Nat
  fl : Nat
  length : Nat
  nh : Nat
  hl : Nat
  src : Bytes
  dst : Bytes
  contents : Bytes
  payload : View
  deriving Repr

/-- The straight-line part: every index/slice of lines 226–235. -/
def parseHdr (v : View) : Res Hdr := do
  let d0 ← v.idx 0
  let w ← rd16 v 0
  let f ← rd32 v 0
  let ln ← rd16 v 4
  let nh ← v.idx 6
  let hl ← v.idx 7
  let s ← v.slice 8 24
  let d ← v.slice 24 40
  let c ← v.sliceTo 40
  let p ← v.sliceFrom 40
  pure { version := d0.toNat / 16, tc := (w / 16) % 256, fl := f % 1048576, length := ln,
         nh := nh.toNat, hl := hl.toNat, src := s.b, dst := d.b, contents := c.b, payload := p }

/-- The final `pEnd := int(ipv6.Length); if pEnd > len(Payload) {SetTruncated; pEnd = len}; Payload = Payload[:pEnd]`. -/
def clampPayload (p : View) (pEnd : Nat) : Res (Bytes × Bool) :=
  if pEnd > p.len then
    match p.sliceTo p.len with
    | .ok q => .ok (q.b, true)
    | .err e => .err e
    | .panic k => .panic k
  else
    match p.sliceTo pEnd with
    | .ok q => .ok (q.b, false)
    | .err e => .err e
    | .panic k => .panic k

def decodeIPv6 (old : IPv6) (v : View) : DecOut IPv6 :=
  if v.len < 40 then ⟨old, true, .err "Invalid ip6 header"⟩
  else
    match parseHdr v with
    | .panic k => ⟨old, false, .panic k⟩
    | .err e => ⟨old, false, .err e⟩
    | .ok h =>
      let l1 : IPv6 :=
        { old with version := h.version, trafficClass := h.tc, flowLabel := h.fl, length := h.length,
                   nextHeader := h.nh, hopLimit := h.hl, srcIP := h.src, dstIP := h.dst,
                   hopByHop := none, contents := h.contents, payload := h.payload.b }
      -- tail shared by the no-HBH path and the plain-HBH path
      let finish (l : IPv6) (p : View) (tr : Bool) (pEnd : Nat) : DecOut IPv6 :=
        match clampPayload p pEnd with
        | .ok (q, t2) => ⟨{ l with payload := q }, tr || t2, .ok ()⟩
        | .err e => ⟨l, tr, .err e⟩
        | .panic k => ⟨l, tr, .panic k⟩
      if h.nh = ipProtocolIPv6HopByHop then
        let ho := decodeTlvExt .hopByHop old.hbh h.payload
        let l2 : IPv6 := { l1 with hbh := ho.layer }
        match ho.res with
        | .panic k => ⟨l2, ho.tr, .panic k⟩
        | .err e => ⟨l2, ho.tr, .err e⟩
        | .ok () =>
          let l3 : IPv6 := { l2 with hopByHop := some ho.layer }
          match getJumboLength ho.layer with
          | .panic k => ⟨l3, ho.tr, .panic k⟩
          | .err e => ⟨l3, ho.tr, .err e⟩
          | .ok (pEnd, jumbo) =>
            if jumbo = true ∧ l3.length = 0 then
              match clampPayload h.payload pEnd with
              | .ok (q, t2) => ⟨{ l3 with payload := q }, ho.tr || t2, .ok ()⟩
              | .err e => ⟨l3, ho.tr, .err e⟩
              | .panic k => ⟨l3, ho.tr, .panic k⟩
            else if jumbo = true ∧ l3.length ≠ 0 then
              ⟨l3, ho.tr, .err "IPv6 has jumbo length and IPv6 length is not 0"⟩
            else if jumbo = false ∧ l3.length = 0 then
              ⟨l3, ho.tr, .err "IPv6 length 0, but HopByHop header does not have jumbogram option"⟩
            else
              -- ipv6.Payload = ipv6.Payload[ipv6.hbh.ActualLength:]
              match h.payload.sliceFrom ho.layer.base.actualLength with
              | .panic k => ⟨l3, ho.tr, .panic k⟩
              | .err e => ⟨l3, ho.tr, .err e⟩
              | .ok p2 =>
                let l4 : IPv6 := { l3 with payload := p2.b }
                -- pEnd := int(ipv6.Length) - ipv6.hbh.ActualLength; negative is an error
                if l4.length < ho.layer.base.actualLength then
                  ⟨l4, ho.tr, .err "IPv6 length less than hop-by-hop header length"⟩
                else finish l4 p2 ho.tr (l4.length - ho.layer.base.actualLength)
      else finish l1 h.payload false l1.length

/-! ## NextLayerType / CanDecode / LayerPayload -/

/-- `ltOf` is enums.go's `IPProtocolMetadata[p].LayerType` (outside ip6.go: a parameter). -/
def IPv6.nextLayerType (ltOf : Nat → Int) (l : IPv6) : Int :=
  match l.hopByHop with
  | some h => ltOf h.base.nextHeader
  | none => ltOf l.nextHeader

def Skipper.nextLayerType (ltOf : Nat → Int) (s : Skipper) : Int := ltOf s.nextHeader

def layerTypeIPv6 : Int := 21
def layerTypeIPv6HopByHop : Int := 46
def layerTypeIPv6Routing : Int := 47
def layerTypeIPv6Fragment : Int := 48
def layerTypeIPv6Destination : Int := 49

/-! ## decodeIPv6Routing / decodeIPv6Fragment (decode functions without a DecodingLayer) -/

/-- `for d := i.Contents[8:]; len(d) >= 16; d = d[16:] { append(d[:16]) }` on a list. -/
def chunks16 : Nat → Bytes → List Bytes
  | 0, _ => []
  | fuel + 1, d => if d.length ≥ 16 then d.take 16 :: chunks16 fuel (d.drop 16) else []

/-- Outcome of decodeIPv6Routing: `none` layer = nothing was added to the packet. -/
def decodeRouting (v : View) : Option Routing × Bool × Res Unit :=
  match decodeExtBase v with
  | (.panic k, tr) => (none, tr, .panic k)
  | (.err e, tr) => (none, tr, .err e)
  | (.ok base, tr) =>
    match v.idx 2, v.idx 3, v.slice 4 8 with
    | .ok rt, .ok sl, .ok rs =>
      let r0 : Routing := { base := base, routingType := rt.toNat, segmentsLeft := sl.toNat,
                            reserved := rs.b, sourceRoutingIPs := [] }
      if rt.toNat = 0 then
        if (base.actualLength - 8) % 16 ≠ 0 then (none, tr, .err "Invalid IPv6 source routing")
        else
          -- i.Contents[8:] : Contents has exactly ActualLength ≥ 8 bytes
          if 8 ≤ base.contents.length then
            (some { r0 with sourceRoutingIPs := chunks16 base.contents.length (base.contents.drop 8) },
             tr, .ok ())
          else (none, tr, .panic .slice)
      else (none, tr, .err "Unknown IPv6 routing header type")
    | .panic k, _, _ => (none, tr, .panic k)
    | _, .panic k, _ => (none, tr, .panic k)
    | _, _, .panic k => (none, tr, .panic k)
    | .err e, _, _ => (none, tr, .err e)
    | _, .err e, _ => (none, tr, .err e)
    | _, _, .err e => (none, tr, .err e)

def parseFragment (v : View) : Res Fragment := do
  let c ← v.sliceTo 8
  let p ← v.sliceFrom 8
  let nh ← v.idx 0
  let r1 ← v.idx 1
  let w ← rd16 v 2
  let d3 ← v.idx 3
  let idn ← rd32 v 4
  pure { contents := c.b, payload := p.b, nextHeader := nh.toNat, reserved1 := r1.toNat,
         fragmentOffset := w / 8, reserved2 := (d3.toNat &&& 6) / 2,
         moreFragments := decide (d3.toNat &&& 1 ≠ 0), identification := idn }

def decodeFragment (v : View) : Option Fragment × Bool × Res Unit :=
  if v.len < 8 then (none, true, .err "Invalid ip6-fragment header")
  else
    match parseFragment v with
    | .ok f => (some f, false, .ok ())
    | .err e => (none, false, .err e)
    | .panic k => (none, false, .panic k)

/-! ## The decode functions registered for NewPacket, as event lists -/

inductive NextDec where
  | layerType (t : Int)     -- p.NextDecoder(LayerType)
  | ipProto (p : Nat)       -- p.NextDecoder(IPProtocol)
  | fragment                -- p.NextDecoder(gopacket.DecodeFragment)
  deriving Repr, DecidableEq

inductive Ev where
  | addIPv6 (l : IPv6)
  | setNetwork
  | addHbh (h : TlvExt)
  | addDst (h : TlvExt)
  | addRouting (r : Routing)
  | addFragment (f : Fragment)
  | next (d : NextDec)
  deriving Repr

/-- decodeIPv6: the layer is added and set as network layer even when DecodeFromBytes failed. -/
def decodeIPv6Fn (ltOf : Nat → Int) (v : View) : List Ev × Bool × Res Unit :=
  let o := decodeIPv6 IPv6.zero v
  let evs := [Ev.addIPv6 o.layer, Ev.setNetwork] ++
    (match o.layer.hopByHop with | some h => [Ev.addHbh h] | none => [])
  match o.res with
  | .ok () => (evs ++ [Ev.next (.layerType (o.layer.nextLayerType ltOf))], o.tr, .ok ())
  | r => (evs, o.tr, r)

def decodeHopByHopFn (v : View) : List Ev × Bool × Res Unit :=
  let o := decodeTlvExt .hopByHop TlvExt.zero v
  match o.res with
  | .ok () => ([Ev.addHbh o.layer, Ev.next (.ipProto o.layer.base.nextHeader)], o.tr, .ok ())
  | r => ([Ev.addHbh o.layer], o.tr, r)

def decodeDestinationFn (v : View) : List Ev × Bool × Res Unit :=
  let o := decodeTlvExt .destination TlvExt.zero v
  match o.res with
  | .ok () => ([Ev.addDst o.layer, Ev.next (.ipProto o.layer.base.nextHeader)], o.tr, .ok ())
  | r => ([Ev.addDst o.layer], o.tr, r)

def decodeRoutingFn (v : View) : List Ev × Bool × Res Unit :=
  match decodeRouting v with
  | (some r, tr, .ok ()) => ([Ev.addRouting r, Ev.next (.ipProto r.base.nextHeader)], tr, .ok ())
  | (_, tr, res) => ([], tr, res)

def decodeFragmentFn (v : View) : List Ev × Bool × Res Unit :=
  match decodeFragment v with
  | (some f, tr, .ok ()) => ([Ev.addFragment f, Ev.next .fragment], tr, .ok ())
  | (_, tr, res) => ([], tr, res)

/-! ## Flows: (*IPv6).NetworkFlow = gopacket.NewFlow(EndpointIPv6, SrcIP, DstIP)

  `Gp.Flow.newFlow` is the shared model of flows.go (explicit panic above MaxEndpointSize). -/

def endpointIPv6 : Int := 2

def IPv6.networkFlow (l : IPv6) : Res Gp.Flow.Flow := Gp.Flow.newFlow endpointIPv6 l.srcIP l.dstIP

/-! ## The assignment's prescribed entry points -/

/-- `decodeIp6 old data cap foreign`: direct DecodeFromBytes into `old`, on a buffer whose spare
    capacity holds `foreign` (`cap = |data| + |foreign|`). -/
def decodeIp6 (old : IPv6) (data foreign : Bytes) : Res (IPv6 × Bool) :=
  let o := decodeIPv6 old ⟨data, foreign⟩
  match o.res with
  | .ok () => .ok (o.layer, o.tr)
  | .err e => .err e
  | .panic k => .panic k

def decodeExt (k : ExtKind) (old : TlvExt) (data foreign : Bytes) : Res (TlvExt × Bool) :=
  let o := decodeTlvExt k old ⟨data, foreign⟩
  match o.res with
  | .ok () => .ok (o.layer, o.tr)
  | .err e => .err e
  | .panic k => .panic k

end Gp.Ip6
