import Gp.Model.Layers.Rmcp
/-
  Model of /repo/layers/mdp.go (engine `lrmcp`, part 2): MDP.DecodeFromBytes (with fix all-12 and the
  proposed fixes lrmcp-1 "reset the TLV fields" and lrmcp-2 "no append to the previous Contents"),
  SerializeTo (a no-op), CanDecode, NextLayerType, decodeMDP.

  strconv.ParseFloat, strconv.ParseBool and net.ParseIP are library functions of the TLV's value
  string; they are NOT modelled: the fields Longitude, Latitude, IPAddress, Type13Bool hold the
  ARGUMENT of the parse call (the value bytes of the last TLV of that type, `[]` = never assigned =
  the zero value: ParseFloat("") = 0, ParseIP("") = nil, ParseBool("") = false, each with an ignored
  error).  The adapter checks on the real code that each field equals the library function applied
  to that argument.  Core Lean only.
-/
namespace Gp.Rmcp
open Gp Gp.SBuf Gp.Gen.Rmcp

def LayerTypeMDP : Nat := 147

/-- layers.MDP: BaseLayer, PreambleData, the TLV-derived fields, Type (EthernetType), Length (int). -/
structure MDP where
  contents     : Bytes
  payload      : Bytes
  preambleData : Bytes
  deviceInfo   : Bytes          -- string
  networkInfo  : Bytes          -- string
  longitude    : Bytes          -- float64 = ParseFloat(string(·), 64), error ignored
  latitude     : Bytes          -- float64 = ParseFloat(string(·), 64), error ignored
  type6UUID    : Bytes          -- string
  type7UUID    : Bytes          -- string
  ipAddress    : Bytes          -- net.IP = net.ParseIP(string(·))
  type13Bool   : Bytes          -- bool = ParseBool(string(·)), error ignored
  typ          : Nat
  length       : Nat
  deriving Repr, DecidableEq

def MDP.fresh : MDP :=
  { contents := [], payload := [], preambleData := [], deviceInfo := [], networkInfo := [], longitude := [],
    latitude := [], type6UUID := [], type7UUID := [], ipAddress := [], type13Bool := [], typ := 0, length := 0 }

/-- The assignment made by one `case` of the switch (mdp.go:78-137): which field receives the value. -/
def mdpAssign (m : MDP) (t : Nat) (v : Bytes) : MDP :=
  if t = mdpTlvDeviceInfo then { m with deviceInfo := v }
  else if t = mdpTlvNetworkInfo then { m with networkInfo := v }
  else if t = mdpTlvLongitude then { m with longitude := v }
  else if t = mdpTlvLatitude then { m with latitude := v }
  else if t = mdpTlvType6 then { m with type6UUID := v }
  else if t = mdpTlvType7 then { m with type7UUID := v }
  else if t = mdpTlvIP then { m with ipAddress := v }
  else if t = mdpTlvUnknownBool then { m with type13Bool := v }
  else m                                                          -- default: skip over unknown junk

/-- mdp.go:68-140, the `for` loop; `m.length` = `m.Length` = len(data).  Every iteration either ends the
    loop or advances `offset` by at least 2: fuel `|data|` suffices (`mdpLoop_fuel`).  The bounds check
    of fix all-12 uses a short-circuit `||`: `data[offset+1]` is read only when `offset+2 ≤ m.Length`. -/
def mdpLoop : Nat → MDP → GSlice → Nat → Res (DecOut MDP)
  | 0, m, _, _ => .ok { layer := m, trunc := false, err := false }          -- (unreachable with enough fuel)
  | fuel + 1, m, data, offset =>
    if offset ≥ m.length then do                                  -- if offset >= m.Length { break }
      let c ← data.sliceFrom 0
      pure { layer := { m with contents := c.vis, payload := [] }, trunc := false, err := false }
                                                                  -- m.BaseLayer = BaseLayer{Contents: data, Payload: nil}
    else do
      let t ← data.index offset                                   -- t := data[offset]
      if t.toNat = mdpTlvEnd then                                 -- case MdpTlvEnd: offset = m.Length
        mdpLoop fuel m data m.length
      else if offset + 2 > m.length then
        pure { layer := m, trunc := true, err := true }           -- df.SetTruncated(); "MDP TLV at offset … extends beyond the packet"
      else do
        let lb ← data.index (offset + 1)
        if offset + 2 + lb.toNat > m.length then
          pure { layer := m, trunc := true, err := true }
        else do
          let offset := offset + 2                                -- offset += 2
          let lb ← data.index (offset - 1)
          let length := lb.toNat                                  -- length = int(data[offset-1])
          let v ← data.slice offset (offset + length)             -- string(data[offset : offset+length])
          let m := mdpAssign m t.toNat v.vis
          mdpLoop fuel m data (offset + length)                   -- offset += length

/-- mdp.go:50-141 `(*MDP).DecodeFromBytes` (fixed). -/
def MDP.decodeFromBytes (old : MDP) (data : GSlice) : Res (DecOut MDP) :=
  if data.len < 28 then
    .ok { layer := old, trunc := true, err := true }             -- df.SetTruncated(); "MDP length … too short"
  else do
    let m := { old with typ := ethernetTypeMerakiDiscoveryProtocol }   -- m.Type = EthernetTypeMerakiDiscoveryProtocol
    let m := { m with length := data.len }                        -- m.Length = len(data)
    let p ← data.slice 0 28
    let m := { m with preambleData := p.vis }                     -- m.PreambleData = data[:offset]
    let m := { m with deviceInfo := [], networkInfo := [], type6UUID := [], type7UUID := [],
                      longitude := [], latitude := [], ipAddress := [], type13Bool := [] }   -- fix lrmcp-1
    mdpLoop data.len m data 28

def decodeMdpView (old : MDP) (data : Bytes) (foreign : Bytes) : Res (MDP × Bool) :=
  match old.decodeFromBytes { vis := data, tail := foreign } with
  | .ok o => if o.err then .err "mdp" else .ok (o.layer, o.trunc)
  | .err k => .err k
  | .panic k => .panic k

def MDP.canDecode : Nat := LayerTypeMDP
/-- mdp.go:160 NextLayerType = `m.Type.LayerType()`: EthernetTypeMetadata[0x0712].LayerType = LayerTypeMDP
    for a decoded layer (enums.go:333); 0 for the zero Type of a fresh object (tied by the `dec`/`pb` ops). -/
def MDP.nextLayerType (m : MDP) : Nat :=
  if m.typ = ethernetTypeMerakiDiscoveryProtocol then LayerTypeMDP else LayerTypeZero
def MDP.layerPayload (m : MDP) : Bytes := m.payload

/-- mdp.go:164-172 `decodeMDP`: fresh object; on error nothing is added; AddLayer; NextDecoder(LayerTypeMDP)
    (the payload is nil, so the packet builder stops). -/
def decodeMDPFn (data : GSlice) : Res (Beh × Option MDP) := do
  let o ← MDP.fresh.decodeFromBytes data
  let tr := if o.trunc then [Act.setTruncated] else []
  if o.err then pure ({ acts := tr, tail := .fail }, none)
  else pure ({ acts := tr ++ [.addLayer LayerTypeMDP], tail := .nextLayerType o.layer.nextLayerType }, some o.layer)

/-- mdp.go:145-151 `(*MDP).SerializeTo`: the body is commented out — it requests and writes nothing
    and returns nil. -/
def MDP.serializeTo (l : MDP) (b : SBuf) (_fix _csum : Bool) : Res (SerOut MDP) :=
  .ok { buf := b, layer := l, err := false }

end Gp.Rmcp
