import Gp.Go.Basic
import Gp.Model.SBuf
import Gp.Gen.Mld
/-
  Model of /repo/layers/mldv1.go (engine `lmld`):

    MLDv1Message.DecodeFromBytes, SerializeTo, NextLayerType
    MLDv1MulticastListenerQueryMessage.DecodeFromBytes (the override), CanDecode, IsGeneralQuery,
      IsSpecificQuery
    MLDv1MulticastListenerReportMessage / …DoneMessage (embed MLDv1Message: promoted
      DecodeFromBytes / SerializeTo), CanDecode
    decodeMLDv1MulticastListenerQuery / …Report / …Done (= base.go decodingLayerDecoder)
    + the glue that selects these layers: ICMPv6.DecodeFromBytes and ICMPv6.NextLayerType
      (icmp6.go; the ICMPv6 type constants are GENERATED), net.IP.To16 / net.IP.Equal as used here,
      gopacket.Payload.SerializeTo, and the DecodingLayerParser loop (layers_decoder.go / parser.go)
      over {ICMPv6, MLDv1 query, report, done}.

  `MLDv1Message.DecodeFromBytes` is modelled WITH proposed_fixes/lmld-1 (it assigns
  `m.BaseLayer = BaseLayer{Contents: data[:20], Payload: data[20:]}`; the unpatched code never
  assigned Contents, and Payload only in the query type and only when len(data) > 20 — a re-used
  query object kept the payload of the previous packet).

  Conventions (DESIGN §3): a Go panic is `Res.panic`; a Go `[]byte` is its visible bytes plus the
  *foreign* bytes between len and cap (`GSlice`): `s[a:b]` panics iff ¬(a ≤ b ∧ b ≤ cap), `s[i]`
  panics iff i ≥ len.  `time.Duration` (int64 nanoseconds) is `Int`; sized unsigned integers are
  `Nat` with an explicit `%` wherever Go truncates.  A Go `error` return is a *value*
  (`err := true`) so that what the call did to the receiver, the DecodeFeedback and the
  SerializeBuffer before returning the error stays visible.  Every assignment of the Go source
  appears, in source order.  Core Lean only.
-/
namespace Gp.Mld
open Gp Gp.SBuf Gp.Gen.Mld

/-! ## Go slices with capacity -/

/-- A Go `[]byte`: `vis` = the `len` visible bytes, `tail` = the bytes of the backing array between
    `len` and `cap` (cap = len on the copying decode path; larger under NoCopy / Pool, where the
    tail is whatever the caller's buffer / the pool block holds there). -/
structure GSlice where
  vis  : Bytes
  tail : Bytes
  deriving Repr, DecidableEq

namespace GSlice
def len (s : GSlice) : Nat := s.vis.length
def cap (s : GSlice) : Nat := s.vis.length + s.tail.length
/-- Go `s[a:b]`: the upper bound is checked against the CAPACITY. -/
def slice (s : GSlice) (a b : Nat) : Res GSlice :=
  if a ≤ b ∧ b ≤ s.cap then
    .ok { vis := ((s.vis ++ s.tail).drop a).take (b - a), tail := (s.vis ++ s.tail).drop b }
  else .panic .slice
/-- Go `s[a:]` (= `s[a:len(s)]`): panics iff a > len. -/
def sliceFrom (s : GSlice) (a : Nat) : Res GSlice :=
  if a ≤ s.len then .ok { vis := s.vis.drop a, tail := s.tail } else .panic .slice
/-- Go `s[i]`: the bound is the LENGTH. -/
def index (s : GSlice) (i : Nat) : Res UInt8 := Gp.index s.vis i
end GSlice

/-- encoding/binary `BigEndian.Uint16(b)`: `_ = b[1]` (early bounds check), then b[1] | b[0]<<8. -/
def uint16 (s : GSlice) : Res Nat := do
  let b1 ← s.index 1
  let b0 ← s.index 0
  pure (be16 b0 b1)

/-! ## Layer-type numbers (layers/layertypes.go, decode.go RegisterLayerType ids) -/

def LayerTypeZero : Nat := 0
def LayerTypePayload : Nat := 2
def LayerTypeICMPv6 : Nat := 57
def LayerTypeICMPv6RouterSolicitation : Nat := 124
def LayerTypeICMPv6RouterAdvertisement : Nat := 125
def LayerTypeICMPv6NeighborSolicitation : Nat := 126
def LayerTypeICMPv6NeighborAdvertisement : Nat := 127
def LayerTypeICMPv6Redirect : Nat := 128
def LayerTypeICMPv6Echo : Nat := 132
def LayerTypeMLDv1MulticastListenerReport : Nat := 135
def LayerTypeMLDv1MulticastListenerDone : Nat := 136
def LayerTypeMLDv1MulticastListenerQuery : Nat := 137
def LayerTypeMLDv2MulticastListenerReport : Nat := 138
def LayerTypeMLDv2MulticastListenerQuery : Nat := 139

/-- What one DecodeFromBytes call did: the receiver afterwards, whether it called
    `df.SetTruncated()`, and whether it returned a non-nil error. -/
structure DecOut (L : Type) where
  layer : L
  trunc : Bool
  err   : Bool
  deriving Repr, DecidableEq

/-! ## MLDv1 -/

/-- The three Go types wrapping MLDv1Message. -/
inductive Kind where
  | query | report | done
  deriving Repr, DecidableEq

/-- `LayerType()` of the three wrapper types. -/
def Kind.layerType : Kind → Nat
  | .query => LayerTypeMLDv1MulticastListenerQuery
  | .report => LayerTypeMLDv1MulticastListenerReport
  | .done => LayerTypeMLDv1MulticastListenerDone

/-- `time.Millisecond` (Go standard library: 1e6 nanoseconds). -/
def millisecond : Int := 1000000

/-- `math.MaxUint16`. -/
def maxUint16 : Int := 65535

/-- layers.MLDv1Message: BaseLayer{Contents, Payload}, MaximumResponseDelay (time.Duration = int64
    nanoseconds), MulticastAddress (net.IP = []byte of any length). -/
structure Msg where
  contents             : Bytes
  payload              : Bytes
  maximumResponseDelay : Int
  multicastAddress     : Bytes
  deriving Repr, DecidableEq

/-- `&MLDv1Multicast…Message{}`. -/
def Msg.fresh : Msg := { contents := [], payload := [], maximumResponseDelay := 0, multicastAddress := [] }

/-- mldv1.go `(*MLDv1Message).DecodeFromBytes` (with fix lmld-1), statement by statement.
    `old` is the receiver before the call. -/
def Msg.decodeFromBytes (old : Msg) (data : GSlice) : Res (DecOut Msg) :=
  if data.len < 20 then
    .ok { layer := old, trunc := true, err := true }             -- df.SetTruncated(); "ICMP layer less than 20 bytes …"
  else do
    let s ← data.slice 0 2
    let v ← uint16 s
    let l := { old with maximumResponseDelay := (v : Int) * millisecond }
                                        -- m.MaximumResponseDelay = time.Duration(…Uint16(data[0:2])) * time.Millisecond
    let s ← data.slice 4 20
    let l := { l with multicastAddress := s.vis }                -- m.MulticastAddress = data[4:20]
    let c ← data.slice 0 20
    let p ← data.sliceFrom 20
    let l := { l with contents := c.vis, payload := p.vis }      -- m.BaseLayer = BaseLayer{Contents: data[:20], Payload: data[20:]}
    pure { layer := l, trunc := false, err := false }

/-- mldv1.go `(*MLDv1MulticastListenerQueryMessage).DecodeFromBytes`: the embedded decode, then
    `if len(data) > 20 { m.Payload = data[20:] }`. -/
def queryDecodeFromBytes (old : Msg) (data : GSlice) : Res (DecOut Msg) := do
  let o ← old.decodeFromBytes data                               -- err := m.MLDv1Message.DecodeFromBytes(data, df)
  if o.err then pure o                                           -- if err != nil { return err }
  else if data.len > 20 then do
    let p ← data.sliceFrom 20
    pure { o with layer := { o.layer with payload := p.vis } }   -- m.Payload = data[20:]
  else pure o

/-- `DecodeFromBytes` of the three wrapper types (report and done use the promoted method). -/
def decodeFromBytes (k : Kind) (old : Msg) (data : GSlice) : Res (DecOut Msg) :=
  match k with
  | .query => queryDecodeFromBytes old data
  | .report => old.decodeFromBytes data
  | .done => old.decodeFromBytes data

/-- The view asked for by the engine brief: success carries the layer and its truncation
    contribution; an error return is `.err`.  `cap = |data| + |foreign|`. -/
def decodeMld (k : Kind) (old : Msg) (data : Bytes) (foreign : Bytes) : Res (Msg × Bool) :=
  match decodeFromBytes k old { vis := data, tail := foreign } with
  | .ok o => if o.err then .err "mld" else .ok (o.layer, o.trunc)
  | .err e => .err e
  | .panic p => .panic p

/-- CanDecode of the three wrapper types: the layer's own type. -/
def canDecode (k : Kind) : Nat := k.layerType
/-- mldv1.go `(*MLDv1Message).NextLayerType` = gopacket.LayerTypeZero. -/
def Msg.nextLayerType (_ : Msg) : Nat := LayerTypeZero
/-- base.go LayerContents / LayerPayload. -/
def Msg.layerContents (l : Msg) : Bytes := l.contents
def Msg.layerPayload (l : Msg) : Bytes := l.payload

/-- `net.IPv6zero.Equal(x)` (net/ip.go IP.Equal with a 16-byte all-zero receiver): equal lengths
    compare bytewise; a 4-byte x is compared against the v4-in-v6 form (the zero address does not
    carry the ff ff prefix: false); every other length: false. -/
def ipv6zeroEqual (x : Bytes) : Bool := x.length = 16 ∧ x = List.replicate 16 0

/-- mldv1.go IsGeneralQuery / IsSpecificQuery. -/
def isGeneralQuery (l : Msg) : Bool := ipv6zeroEqual l.multicastAddress
def isSpecificQuery (l : Msg) : Bool := !isGeneralQuery l

/-! ## The ICMPv6 header in front (icmp6.go), as far as it selects the MLD layers -/

/-- layers.ICMPv6 (public fields; TypeBytes is always nil). -/
structure Icmp6 where
  contents : Bytes
  payload  : Bytes
  typeCode : Nat
  checksum : Nat
  deriving Repr, DecidableEq

def Icmp6.fresh : Icmp6 := { contents := [], payload := [], typeCode := 0, checksum := 0 }

/-- icmp6.go `(*ICMPv6).DecodeFromBytes`. -/
def Icmp6.decodeFromBytes (old : Icmp6) (data : GSlice) : Res (DecOut Icmp6) :=
  if data.len < 4 then
    .ok { layer := old, trunc := true, err := true }
  else do
    let b0 ← data.index 0
    let b1 ← data.index 1
    let l := { old with typeCode := b0.toNat * 256 + b1.toNat }  -- i.TypeCode = CreateICMPv6TypeCode(data[0], data[1])
    let s ← data.slice 2 4
    let v ← uint16 s
    let l := { l with checksum := v }                            -- i.Checksum = …Uint16(data[2:4])
    let c ← data.slice 0 4
    let p ← data.sliceFrom 4
    let l := { l with contents := c.vis, payload := p.vis }      -- i.BaseLayer = BaseLayer{data[:4], data[4:]}
    pure { layer := l, trunc := false, err := false }

/-- icmp6.go `(*ICMPv6).NextLayerType`: `switch i.TypeCode.Type()` (= uint8(typeCode >> 8)).
    The case labels are the GENERATED constants.  Type 130 is shared by the MLDv1 and the MLDv2
    query: more than 20 payload bytes select MLDv2. -/
def Icmp6.nextLayerType (l : Icmp6) : Nat :=
  let t := (l.typeCode / 256) % 256
  if t = icmpv6TypeEchoRequest then LayerTypeICMPv6Echo
  else if t = icmpv6TypeEchoReply then LayerTypeICMPv6Echo
  else if t = icmpv6TypeRouterSolicitation then LayerTypeICMPv6RouterSolicitation
  else if t = icmpv6TypeRouterAdvertisement then LayerTypeICMPv6RouterAdvertisement
  else if t = icmpv6TypeNeighborSolicitation then LayerTypeICMPv6NeighborSolicitation
  else if t = icmpv6TypeNeighborAdvertisement then LayerTypeICMPv6NeighborAdvertisement
  else if t = icmpv6TypeRedirect then LayerTypeICMPv6Redirect
  else if t = icmpv6TypeMLDv1Query then
    (if l.payload.length > 20 then LayerTypeMLDv2MulticastListenerQuery
     else LayerTypeMLDv1MulticastListenerQuery)
  else if t = icmpv6TypeMLDv1Done then LayerTypeMLDv1MulticastListenerDone
  else if t = icmpv6TypeMLDv1Report then LayerTypeMLDv1MulticastListenerReport
  else if t = icmpv6TypeMLDv2Report then LayerTypeMLDv2MulticastListenerReport
  else LayerTypePayload

/-! ## The decoder functions registered for NewPacket, as behaviour descriptions -/

/-- A call on the PacketBuilder. -/
inductive Act where
  | setTruncated
  | addLayer (t : Nat)
  deriving Repr, DecidableEq

/-- How a decoder function ends. -/
inductive Tail where
  | done                          -- return nil
  | fail                          -- return err
  | nextLayerType (t : Nat)       -- return p.NextDecoder(LayerType(t))
  deriving Repr, DecidableEq

structure Beh where
  acts : List Act
  tail : Tail
  deriving Repr, DecidableEq

/-- base.go `decodingLayerDecoder(d, data, p)` after `d.DecodeFromBytes(data, p)` returned `o` for
    a layer of type `typ` whose NextLayerType is `next`: AddLayer, no Set*Layer call, and for
    `next == LayerTypeZero` a plain `return nil` (no NextDecoder). -/
def decodingLayerDecoder {L : Type} (o : DecOut L) (typ next : Nat) : Beh × Option L :=
  let tr := if o.trunc then [Act.setTruncated] else []
  if o.err then ({ acts := tr, tail := .fail }, none)
  else if next = LayerTypeZero then ({ acts := tr ++ [.addLayer typ], tail := .done }, some o.layer)
  else ({ acts := tr ++ [.addLayer typ], tail := .nextLayerType next }, some o.layer)

/-- mldv1.go decodeMLDv1MulticastListenerQuery / …Report / …Done:
    `m := &…Message{}; return decodingLayerDecoder(m, data, p)`. -/
def decodeMLDv1Fn (k : Kind) (data : GSlice) : Res (Beh × Option Msg) := do
  let o ← decodeFromBytes k Msg.fresh data
  pure (decodingLayerDecoder o k.layerType o.layer.nextLayerType)

/-- icmp6.go decodeICMPv6 = `decodingLayerDecoder(&ICMPv6{}, data, p)`. -/
def decodeICMPv6Fn (data : GSlice) : Res (Beh × Option Icmp6) := do
  let o ← Icmp6.fresh.decodeFromBytes data
  pure (decodingLayerDecoder o LayerTypeICMPv6 o.layer.nextLayerType)

/-! ## Serialization, written over the C18 buffer model -/

/-- `w[a:b]` on a slice handed out by the buffer.  (Go checks `b` against the capacity of the
    slice, which is at least its length; every use here has constant bounds inside the 20
    requested bytes, so the stricter length check of the model is never the one that decides.) -/
def winSlice (w : Win) (a b : Nat) : Res Win :=
  if a ≤ b ∧ b ≤ w.n then .ok { gen := w.gen, off := w.off + a, n := b - a } else .panic .slice

/-- Go `copy(w, src)`: copies `min(len(w), len(src))` bytes, never panics. -/
def copyTo (b : SBuf) (w : Win) (src : Bytes) : SBuf := fill b w (src.take w.n)

/-- `binary.BigEndian.PutUint16(w, v)`: `_ = b[1]` then two stores. -/
def putUint16 (b : SBuf) (w : Win) (v : Nat) : Res SBuf :=
  if w.n < 2 then .panic .index else .ok (fill b w (putBe16 v))

/-- What one SerializeTo call did: the buffer and the receiver afterwards, and whether it returned
    a non-nil error. -/
structure SerOut (L : Type) where
  buf   : SBuf
  layer : L
  err   : Bool
  deriving Repr, DecidableEq

/-- net/ip.go `v4InV6Prefix`. -/
def v4InV6Prefix : Bytes := [0, 0, 0, 0, 0, 0, 0, 0, 0, 0, 0xff, 0xff]

/-- net/ip.go `IP.To16`: a 4-byte address becomes `IPv4(a,b,c,d)` (the 16-byte v4-in-v6 form), a
    16-byte address is returned as it is, every other length (nil included) gives nil. -/
def to16 (ip : Bytes) : Option Bytes :=
  if ip.length = 4 then some (v4InV6Prefix ++ ip)
  else if ip.length = 16 then some ip
  else none

/-- mldv1.go `(*MLDv1Message).SerializeTo` (used by all three wrapper types; `opts` is not read).
    PrependBytes comes first: each of the three error returns leaves 20 requested bytes in the
    buffer (the caller gets an error and no bytes).  `dms` is computed after the sign check, so
    Go's truncating division is applied to a non-negative value only. -/
def Msg.serializeTo (l : Msg) (b : SBuf) (_fix _csum : Bool) : Res (SerOut Msg) :=
  let (b, buf) := prepend b 20                                   -- buf, err := b.PrependBytes(20)
  if l.maximumResponseDelay < 0 then
    .ok { buf := b, layer := l, err := true }                    -- "maximum response delay must not be negative"
  else
  let dms := Int.tdiv l.maximumResponseDelay millisecond         -- dms := m.MaximumResponseDelay / time.Millisecond
  if dms > maxUint16 then
    .ok { buf := b, layer := l, err := true }                    -- "maximum response delay %dms is more than the allowed 65535ms"
  else do
    let w ← winSlice buf 0 2
    let b ← putUint16 b w (dms.toNat % 65536)                    -- PutUint16(buf[0:2], uint16(dms))
    let w ← winSlice buf 2 4
    let b := copyTo b w [0, 0]                                   -- copy(buf[2:4], []byte{0x0, 0x0})
    match to16 l.multicastAddress with                           -- ma16 := m.MulticastAddress.To16()
    | none => pure { buf := b, layer := l, err := true }         -- "invalid multicast address '%s'"
    | some ma16 => do
      let w ← winSlice buf 4 20
      let b := copyTo b w ma16                                   -- copy(buf[4:20], ma16)
      pure { buf := b, layer := l, err := false }

/-- View asked for by the brief: `.err` when SerializeTo returned an error. -/
def serializeMld (l : Msg) (b : SBuf) (fix csum : Bool) : Res (SBuf × Msg) :=
  match l.serializeTo b fix csum with
  | .ok o => if o.err then .err "mld" else .ok (o.buf, o.layer)
  | .err e => .err e
  | .panic p => .panic p

/-- gopacket.Payload.SerializeTo: PrependBytes(len(p)); copy. -/
def serializePayload (p : Bytes) (b : SBuf) : SBuf :=
  let (b, w) := prepend b p.length
  copyTo b w p

/-! ## DecodingLayerParser over {ICMPv6, MLDv1 query, report, done} (layers_decoder.go loop) -/

structure DlpState where
  icmp    : Icmp6
  query   : Msg
  report  : Msg
  done    : Msg
  decoded : List Nat
  trunc   : Bool
  deriving Repr, DecidableEq

/-- The container lookup `dl.Decoder(typ)` for this set of layers. -/
def dlpHas (typ : Nat) : Bool :=
  typ = LayerTypeICMPv6 ∨ typ = LayerTypeMLDv1MulticastListenerQuery ∨
    typ = LayerTypeMLDv1MulticastListenerReport ∨ typ = LayerTypeMLDv1MulticastListenerDone

/-- What one iteration of the loop leaves: either the loop ended with a result code (0 = `nil`,
    1 = the error of a DecodeFromBytes, 2 = `UnsupportedLayerType(typ)`: the next type is outside
    the set and ≠ LayerTypeZero), or it goes on with the next type on the payload. -/
inductive DlpNext where
  | stop (st : DlpState) (code : Nat)
  | more (st : DlpState) (typ : Nat) (rest : GSlice)
  deriving Repr, DecidableEq

/-- After a successful DecodeFromBytes of the layer of type `typ` with next type `next` and payload
    `pl`: `*decoded = append(*decoded, typ); typ = NextLayerType(); if data = LayerPayload();
    len(data) == 0 { break }; if decoder, ok = dlc.Decoder(typ); !ok { return typ, nil }`, then the
    tail of DecodeLayers (`typ != LayerTypeZero` → UnsupportedLayerType). -/
def dlpAfter (st : DlpState) (typ next : Nat) (pl : Bytes) (tail : Bytes) : DlpNext :=
  let st := { st with decoded := st.decoded ++ [typ] }
  if pl.length = 0 then .stop st 0
  else if dlpHas next then .more st next { vis := pl, tail := tail }
  else if next = LayerTypeZero then .stop st 0
  else .stop st 2

/-- One iteration: `typ` (a member of the set) is the type about to be decoded. -/
def dlpStep (st : DlpState) (typ : Nat) (data : GSlice) : Res DlpNext :=
  if typ = LayerTypeICMPv6 then do
    let o ← st.icmp.decodeFromBytes data
    let st := { st with icmp := o.layer, trunc := st.trunc || o.trunc }
    if o.err then pure (.stop st 1)
    else pure (dlpAfter st typ o.layer.nextLayerType o.layer.payload data.tail)
  else if typ = LayerTypeMLDv1MulticastListenerQuery then do
    let o ← decodeFromBytes .query st.query data
    let st := { st with query := o.layer, trunc := st.trunc || o.trunc }
    if o.err then pure (.stop st 1)
    else pure (dlpAfter st typ o.layer.nextLayerType o.layer.payload data.tail)
  else if typ = LayerTypeMLDv1MulticastListenerReport then do
    let o ← decodeFromBytes .report st.report data
    let st := { st with report := o.layer, trunc := st.trunc || o.trunc }
    if o.err then pure (.stop st 1)
    else pure (dlpAfter st typ o.layer.nextLayerType o.layer.payload data.tail)
  else if typ = LayerTypeMLDv1MulticastListenerDone then do
    let o ← decodeFromBytes .done st.done data
    let st := { st with done := o.layer, trunc := st.trunc || o.trunc }
    if o.err then pure (.stop st 1)
    else pure (dlpAfter st typ o.layer.nextLayerType o.layer.payload data.tail)
  else pure (.stop st (if typ = LayerTypeZero then 0 else 2))    -- firstDec missing (never for the four firsts)

/-- The `for` loop.  Running out of fuel is reported as code 9; `Gp.C19.Mld.dlp_fuel_suffices`
    shows that two iterations always suffice (ICMPv6 is never a *next* type and the MLDv1 layers
    have no next type), so code 9 is unreachable from `dlpDecodeLayers`. -/
def dlpLoop : Nat → DlpState → Nat → GSlice → Res (DlpState × Nat)
  | 0, st, _, _ => .ok (st, 9)
  | fuel + 1, st, typ, data =>
    match dlpStep st typ data with
    | .panic k => .panic k
    | .err e => .err e
    | .ok (.stop st' code) => .ok (st', code)
    | .ok (.more st' typ' rest) => dlpLoop fuel st' typ' rest

/-- parser.go DecodeLayers: Truncated := false, decoded := decoded[:0], run the loop from `first`. -/
def dlpDecodeLayers (ic : Icmp6) (q r d : Msg) (first : Nat) (data : GSlice) : Res (DlpState × Nat) :=
  dlpLoop 2 { icmp := ic, query := q, report := r, done := d, decoded := [], trunc := false } first data

end Gp.Mld
