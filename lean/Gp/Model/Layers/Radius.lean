import Gp.Go.Basic
import Gp.Model.SBuf
import Gp.Gen.Radius
/-
  Model of /repo/layers/radius.go (engine `lradius`):

    RADIUS.DecodeFromBytes (with the attribute loop), RADIUS.Len, attributeValueLength,
    RADIUS.SerializeTo, CanDecode, NextLayerType, Payload/LayerPayload, decodeRADIUS, and the
    DecodingLayerParser loop (layers_decoder.go / parser.go) over the one-layer set {RADIUS}.

  Conventions (DESIGN §3): a Go panic is `Res.panic`; a Go `[]byte` is its visible bytes plus the
  *foreign* bytes between len and cap (`GSlice`): `s[a:b]` panics iff ¬(a ≤ b ∧ b ≤ cap), `s[a:]`
  panics iff a > len, `s[i]` panics iff i ≥ len.  Sized integers are `Nat` with an explicit `%`
  wherever Go truncates.  A Go `error` return is a *value* (`err := true`) so that what the call did
  to the receiver before returning the error stays visible.  Every assignment of the Go source
  appears, in source order.

  Two variants are modelled (`Variant`): `.orig` is the pinned source, `.fixed` the source with the
  two patches proposed_fixes/lradius-{1,2}-*.diff applied (the tree the correspondence run drives).
  The property theorems are about `.fixed`; the `_counterexample` theorems are about `.orig`.
  Core Lean only.
-/
namespace Gp.Radius
open Gp Gp.SBuf Gp.Gen.Radius

/-! ## Go slices with capacity -/

/-- A Go `[]byte`: `vis` = the `len` visible bytes, `tail` = the bytes of the backing array between
    `len` and `cap` (cap = len on the copying decode path; larger under NoCopy / Pool, where the
    tail is whatever the caller's buffer / the pool block holds there). -/
structure GSlice where
  vis  : Bytes
  tail : Bytes
  deriving Repr, DecidableEq

namespace GSlice
def len (s : GSlice) : Nat := s.vis.length
def cap (s : GSlice) : Nat := s.vis.length + s.tail.length
/-- Go `s[a:b]`: the upper bound is checked against the CAPACITY. -/
def slice (s : GSlice) (a b : Nat) : Res GSlice :=
  if a ≤ b ∧ b ≤ s.cap then
    .ok { vis := ((s.vis ++ s.tail).drop a).take (b - a), tail := (s.vis ++ s.tail).drop b }
  else .panic .slice
/-- Go `s[a:]` (= `s[a:len(s)]`): panics iff a > len. -/
def sliceFrom (s : GSlice) (a : Nat) : Res GSlice :=
  if a ≤ s.len then .ok { vis := s.vis.drop a, tail := s.tail } else .panic .slice
/-- Go `s[i]`: the bound is the LENGTH. -/
def index (s : GSlice) (i : Nat) : Res UInt8 := Gp.index s.vis i
end GSlice

/-- encoding/binary `BigEndian.Uint16(b)`: `_ = b[1]` (early bounds check), then b[0]<<8 | b[1]. -/
def uint16 (s : GSlice) : Res Nat := do
  let b1 ← s.index 1
  let b0 ← s.index 0
  pure (be16 b0 b1)

/-- Go `copy(dst, src)` seen as the new value of `dst`: the first min(len dst, len src) bytes are
    replaced. -/
def copyInto (dst src : Bytes) : Bytes := src.take dst.length ++ dst.drop src.length

/-- `copy(arr[:], src)` for a `[16]byte` array kept as a list: for an array value of 16 bytes this is
    `copyInto`; the outer `take 16` keeps the list at the array's size. -/
def copyArr16 (arr src : Bytes) : Bytes := (src.take 16 ++ arr.drop src.length).take 16

/-! ## Constants -/

def LayerTypeZero : Nat := 0
/-- layertypes.go: `LayerTypeEAP = gopacket.RegisterLayerType(55, …)`. -/
def LayerTypeEAP : Nat := 55
/-- layertypes.go: `LayerTypeRADIUS = gopacket.RegisterLayerType(146, …decodeRADIUS)`. -/
def LayerTypeRADIUS : Nat := 146

/-- `.orig` = the pinned radius.go; `.fixed` = with proposed_fixes/lradius-1 (`radius.Attributes =
    radius.Attributes[:0]` in DecodeFromBytes) and lradius-2 (FixLengths writes `len(Value)+2`,
    `attributeValueLength` rejects more than 253 bytes) applied. -/
inductive Variant where
  | orig
  | fixed
  deriving Repr, DecidableEq

/-- What one DecodeFromBytes call did: the receiver afterwards, whether it called
    `df.SetTruncated()`, and whether it returned a non-nil error. -/
structure DecOut (L : Type) where
  layer : L
  trunc : Bool
  err   : Bool
  deriving Repr, DecidableEq

/-! ## The layer -/

/-- layers.RADIUSAttribute{Type uint8, Length uint8, Value []byte}. -/
structure Attr where
  typ    : Nat
  length : Nat
  value  : Bytes
  deriving Repr, DecidableEq

/-- layers.RADIUS: BaseLayer{Contents, Payload}, Code, Identifier (uint8), Length (uint16),
    Authenticator ([16]byte, kept as a list: the Go type fixes its length to 16), Attributes. -/
structure RADIUS where
  contents      : Bytes
  payload       : Bytes
  code          : Nat
  identifier    : Nat
  length        : Nat
  authenticator : Bytes
  attributes    : List Attr
  deriving Repr, DecidableEq

/-- `&RADIUS{}`. -/
def RADIUS.fresh : RADIUS :=
  { contents := [], payload := [], code := 0, identifier := 0, length := 0, authenticator := zeros 16,
    attributes := [] }

/-- The Go type invariant the list representation does not carry: `Authenticator` is a `[16]byte`. -/
def RADIUS.typed (l : RADIUS) : Prop := l.authenticator.length = 16

instance (l : RADIUS) : Decidable l.typed := by unfold RADIUS.typed; infer_instance

/-! ## Decoding -/

/-- radius.go:465-469: `for _, v := range radius.Attributes { if v.Type == EAPMessage { Payload = append(Payload, v.Value...) } }`:
    the bytes appended to Payload. -/
def eapPayload : List Attr → Bytes
  | [] => []
  | a :: rest => (if a.typ = radiusAttrEAPMessage then a.value else []) ++ eapPayload rest

/-- radius.go:430-463, the attribute loop `for { if len(data) == pos { break } … pos += int(attr.Length) }`.
    `fuel` bounds the number of iterations; running out of fuel stands for a loop that does not
    terminate and is reported as `.panic .explicit` (proved unreachable when `fuel ≥ len - pos`: every
    iteration advances `pos` by ≥ 2).  Result: the receiver and whether an error was returned (every
    error return of the loop calls `df.SetTruncated()` first). -/
def attrLoop : Nat → RADIUS → GSlice → Nat → Res (RADIUS × Bool)
  | fuel, r, data, pos =>
    if data.len = pos then .ok (r, false)                              -- if len(data) == pos { break }
    else match fuel with
      | 0 => .panic .explicit
      | fuel + 1 =>
        match data.sliceFrom pos with                                   -- data[pos:]
        | .panic k => .panic k
        | .err e => .err e
        | .ok rest =>
          if rest.len < radiusAttrMinRecord then .ok (r, true)         -- "attributes length … too short"
          else
            match data.index pos with                                   -- attr.Type = data[pos]
            | .panic k => .panic k
            | .err e => .err e
            | .ok t =>
              match data.index (pos + 1) with                           -- attr.Length = data[pos+1]
              | .panic k => .panic k
              | .err e => .err e
              | .ok l =>
                if l.toNat > rest.len then .ok (r, true)               -- "attributes length … too big"
                else if l.toNat < radiusAttrMinRecord then .ok (r, true)  -- "attributes length … too short"
                else if l.toNat > radiusAttrMinRecord then
                  match data.slice (pos + 2) (pos + l.toNat) with       -- data[pos+2 : pos+int(attr.Length)]
                  | .panic k => .panic k
                  | .err e => .err e
                  | .ok s =>
                    -- attr.Value = make([]byte, attr.Length-2) (uint8 arithmetic); copy(attr.Value[:], …)
                    let value := copyInto (zeros ((l.toNat + 256 - 2) % 256)) s.vis
                    -- radius.Attributes = append(radius.Attributes, attr)
                    let r := { r with attributes := r.attributes ++ [{ typ := t.toNat, length := l.toNat, value := value }] }
                    attrLoop fuel r data (pos + l.toNat)                -- pos += int(attr.Length)
                else attrLoop fuel r data (pos + l.toNat)

/-- radius.go:426-472, DecodeFromBytes from `copy(radius.Authenticator[:], data[4:20])` on; `data` is the
    (possibly re-sliced) input, `cut` whether the padding branch called `df.SetTruncated()`. -/
def decodeRest (r : RADIUS) (data : GSlice) (cut : Bool) : Res (DecOut RADIUS) := do
  let s ← data.slice 4 20
  let r := { r with authenticator := copyArr16 r.authenticator s.vis }  -- copy(radius.Authenticator[:], data[4:20])
  if data.len = radiusMinRecord then
    pure { layer := r, trunc := cut, err := false }                   -- return nil
  else do
    let q ← attrLoop data.len r data radiusMinRecord                  -- pos := 20; for { … }
    if q.2 then pure { layer := q.1, trunc := true, err := true }
    else
      -- for _, v := range radius.Attributes { if v.Type == EAPMessage { Payload = append(Payload, v.Value...) } }
      pure { layer := { q.1 with payload := q.1.payload ++ eapPayload q.1.attributes }, trunc := cut, err := false }

/-- radius.go:387-472 `(*RADIUS).DecodeFromBytes`, statement by statement.  `old` is the receiver
    before the call.  The two size checks on `len(data)` return before anything is assigned; every
    later error return leaves the receiver half-updated. -/
def RADIUS.decodeFromBytes (v : Variant) (old : RADIUS) (data : GSlice) : Res (DecOut RADIUS) :=
  if data.len > radiusMaxRecord then
    .ok { layer := old, trunc := true, err := true }                  -- df.SetTruncated(); "RADIUS length … too big"
  else if data.len < radiusMinRecord then
    .ok { layer := old, trunc := true, err := true }                  -- df.SetTruncated(); "RADIUS length … too short"
  else do
    let r := { old with contents := data.vis, payload := [] }         -- radius.BaseLayer = BaseLayer{Contents: data}
    let r := { r with attributes := match v with
      | .fixed => []                                                  -- [lradius-1] radius.Attributes = radius.Attributes[:0]
      | .orig => r.attributes }
    let b ← data.index 0
    let r := { r with code := b.toNat }                               -- radius.Code = RADIUSCode(data[0])
    let b ← data.index 1
    let r := { r with identifier := b.toNat }                         -- radius.Identifier = RADIUSIdentifier(data[1])
    let s ← data.slice 2 4
    let x ← uint16 s
    let r := { r with length := x }                                   -- radius.Length = …Uint16(data[2:4])
    if r.length > radiusMaxRecord then
      pure { layer := r, trunc := true, err := true }                 -- "RADIUS length … too big"
    else if r.length < radiusMinRecord then
      pure { layer := r, trunc := true, err := true }                 -- "RADIUS length … too short"
    else if r.length > data.len then
      pure { layer := r, trunc := true, err := true }                 -- "RADIUS length … too big"
    else do
      if r.length < data.len then do                                  -- if int(radius.Length) < len(data) { df.SetTruncated()
        let data ← data.slice 0 r.length                              --   data = data[:radius.Length] }
        decodeRest r data true
      else decodeRest r data false

/-- The view asked for by the engine brief: success carries the layer and its truncation
    contribution; an error return is `.err`.  `cap = |data| + |foreign|`. -/
def decodeRadius (old : RADIUS) (data : Bytes) (foreign : Bytes) : Res (RADIUS × Bool) :=
  match old.decodeFromBytes .fixed { vis := data, tail := foreign } with
  | .ok o => if o.err then .err "radius" else .ok (o.layer, o.trunc)
  | .err k => .err k
  | .panic k => .panic k

/-- radius.go:520 CanDecode. -/
def RADIUS.canDecode : Nat := LayerTypeRADIUS
/-- radius.go:525 NextLayerType: EAP when Payload is not empty, else LayerTypeZero. -/
def RADIUS.nextLayerType (l : RADIUS) : Nat := if l.payload.length > 0 then LayerTypeEAP else LayerTypeZero
/-- radius.go:534 Payload / base.go LayerPayload. -/
def RADIUS.layerPayload (l : RADIUS) : Bytes := l.payload

/-! ## The decoder function registered for NewPacket, as a behaviour description -/

/-- A call on the PacketBuilder. -/
inductive Act where
  | setTruncated
  | addLayer (t : Nat)
  | setApplicationLayer
  deriving Repr, DecidableEq

/-- How a decoder function ends. -/
inductive Tail where
  | fail                          -- return err
  | done                          -- return nil
  | nextLayerType (t : Nat)       -- return p.NextDecoder(LayerType(t))
  deriving Repr, DecidableEq

structure Beh where
  acts : List Act
  tail : Tail
  deriving Repr, DecidableEq

/-- radius.go:538-551 `decodeRADIUS`: fresh layer, DecodeFromBytes(data, p), on success AddLayer,
    SetApplicationLayer, then `nil` for NextLayerType() == LayerTypeZero, else `p.NextDecoder(next)`. -/
def decodeRADIUSFn (v : Variant) (data : GSlice) : Res (Beh × Option RADIUS) := do
  let o ← RADIUS.fresh.decodeFromBytes v data
  let tr := if o.trunc then [Act.setTruncated] else []
  if o.err then pure ({ acts := tr, tail := .fail }, none)
  else
    let next := o.layer.nextLayerType
    let acts := tr ++ [.addLayer LayerTypeRADIUS, .setApplicationLayer]
    if next = LayerTypeZero then pure ({ acts := acts, tail := .done }, some o.layer)
    else pure ({ acts := acts, tail := .nextLayerType next }, some o.layer)

/-! ## DecodingLayerParser over {RADIUS} (layers_decoder.go loop, parser.go DecodeLayers) -/

structure DlpOut where
  layer   : RADIUS
  decoded : List Nat
  trunc   : Bool
  code    : Nat            -- 0 = nil, 1 = the error of DecodeFromBytes, 2 = UnsupportedLayerType
  deriving Repr, DecidableEq

/-- One `DecodeLayers` call of a parser built with `NewDecodingLayerParser(LayerTypeRADIUS, obj)`:
    Truncated := false; decode; append the type; `typ = NextLayerType()`; `data = LayerPayload()`;
    empty → nil; otherwise typ = EAP has no decoder in the set → UnsupportedLayerType. -/
def dlpDecodeLayers (v : Variant) (obj : RADIUS) (data : GSlice) : Res DlpOut := do
  let o ← obj.decodeFromBytes v data
  if o.err then pure { layer := o.layer, decoded := [], trunc := o.trunc, code := 1 }
  else if o.layer.layerPayload.length = 0 then
    pure { layer := o.layer, decoded := [LayerTypeRADIUS], trunc := o.trunc, code := 0 }
  else pure { layer := o.layer, decoded := [LayerTypeRADIUS], trunc := o.trunc, code := 2 }

/-! ## Serialization, written over the C18 buffer model -/

/-- `w[a:]` on a slice handed out by the buffer: panics iff a > len(w). -/
def winFrom (w : Win) (a : Nat) : Res Win :=
  if a ≤ w.n then .ok { gen := w.gen, off := w.off + a, n := w.n - a } else .panic .slice

/-- `w[a:c]` on a slice handed out by the buffer.  The model checks `c` against the LENGTH of the
    window; Go checks the capacity.  The two agree whenever `c ≤ len(w)`, which holds for the one such
    slice of SerializeTo (`data[4:20]`, `plen ≥ 20`). -/
def winSlice (w : Win) (a c : Nat) : Res Win :=
  if a ≤ c ∧ c ≤ w.n then .ok { gen := w.gen, off := w.off + a, n := c - a } else .panic .slice

/-- Go `copy(w, src)`: copies `min(len(w), len(src))` bytes, never panics. -/
def copyTo (b : SBuf) (w : Win) (src : Bytes) : SBuf := fill b w (src.take w.n)

/-- `binary.BigEndian.PutUint16(w, v)`: `_ = b[1]` then two stores. -/
def putUint16 (b : SBuf) (w : Win) (v : Nat) : Res SBuf :=
  if w.n < 2 then .panic .index else .ok (fill b w (putBe16 v))

/-- What one SerializeTo call did: the buffer and the receiver afterwards (SerializeTo mutates the
    layer under FixLengths), and whether it returned a non-nil error. -/
structure SerOut (L : Type) where
  buf   : SBuf
  layer : L
  err   : Bool
  deriving Repr, DecidableEq

/-- radius.go:553-560 `attributeValueLength(v)`: `none` = the error return; the limit is 255 in the
    pinned source, 253 with lradius-2. -/
def valLen (v : Variant) (value : Bytes) : Option Nat :=
  let lim := match v with | .orig => 255 | .fixed => 253
  if value.length > lim then none else some (value.length % 256)

/-- radius.go:369-379 `(*RADIUS).Len()`: `n := 20; for … { alen, err := attributeValueLength(v.Value); … n += int(alen) + 2 }`. -/
def lenLoop (v : Variant) : List Attr → Nat → Option Nat
  | [], n => some n
  | a :: rest, n =>
    match valLen v a.value with
    | none => none                                                    -- return 0, err
    | some al => lenLoop v rest (n + (al + 2))

def RADIUS.len (v : Variant) (l : RADIUS) : Option Nat := lenLoop v l.attributes radiusMinRecord

/-- The value stored in the attribute's Length octet: under FixLengths `attributeValueLength(v.Value)`
    (pinned source) / that `+ 2` in uint8 (lradius-2); otherwise the field. `none` = error return. -/
def attrLenByte (v : Variant) (fix : Bool) (a : Attr) : Option Nat :=
  if fix then
    match valLen v a.value with
    | none => none
    | some n => some (match v with | .orig => n | .fixed => (n + 2) % 256)
  else some a.length

/-- radius.go:501-517: `for _, v := range radius.Attributes { … data[pos] = …; data[pos+1] = …;
    copy(data[pos+2:], v.Value[:]); pos += len(v.Value) + 2 }` (`v` is a copy: the receiver's
    attributes are not modified).  Result: the buffer and whether an error was returned. -/
def serLoop (v : Variant) (fix : Bool) : List Attr → SBuf → Win → Nat → Res (SBuf × Bool)
  | [], b, _, _ => .ok (b, false)
  | a :: rest, b, data, pos =>
    match attrLenByte v fix a with
    | none => .ok (b, true)                                           -- return err
    | some alen =>
      match write b data pos (u8 a.typ) with                          -- data[pos] = byte(v.Type)
      | .panic k => .panic k
      | .err e => .err e
      | .ok b =>
        match write b data (pos + 1) (u8 alen) with                   -- data[pos+1] = byte(v.Length)
        | .panic k => .panic k
        | .err e => .err e
        | .ok b =>
          match winFrom data (pos + 2) with                           -- data[pos+2:]
          | .panic k => .panic k
          | .err e => .err e
          | .ok w =>
            serLoop v fix rest (copyTo b w a.value) data (pos + (a.value.length + 2))  -- copy(…, v.Value[:]); pos += len(v.Value) + 2

/-- radius.go:480-517 `(*RADIUS).SerializeTo`.
    (`PrependBytes` of the default buffer never returns an error.) -/
def RADIUS.serializeTo (v : Variant) (l : RADIUS) (b : SBuf) (fix _csum : Bool) : Res (SerOut RADIUS) :=
  match l.len v with                                                  -- plen, err := radius.Len()
  | none => .ok { buf := b, layer := l, err := true }
  | some plen =>
    let l := if fix then { l with length := plen % 65536 } else l     -- if opts.FixLengths { radius.Length = RADIUSLength(plen) }
    let r := prepend b plen                                           -- data, err := b.PrependBytes(plen)
    do
      let b ← write r.1 r.2 0 (u8 l.code)                             -- data[0] = byte(radius.Code)
      let b ← write b r.2 1 (u8 l.identifier)                         -- data[1] = byte(radius.Identifier)
      let w ← winFrom r.2 2
      let b ← putUint16 b w l.length                                  -- PutUint16(data[2:], uint16(radius.Length))
      let w ← winSlice r.2 4 20
      let b := copyTo b w l.authenticator                             -- copy(data[4:20], radius.Authenticator[:])
      let q ← serLoop v fix l.attributes b r.2 radiusMinRecord        -- pos := 20; for …
      pure { buf := q.1, layer := l, err := q.2 }

/-- View asked for by the brief: `.err` when SerializeTo returned an error. -/
def serializeRadius (l : RADIUS) (b : SBuf) (fix csum : Bool) : Res (SBuf × RADIUS) :=
  match l.serializeTo .fixed b fix csum with
  | .ok o => if o.err then .err "radius" else .ok (o.buf, o.layer)
  | .err k => .err k
  | .panic k => .panic k

/-- gopacket.Payload.SerializeTo: PrependBytes(len(p)); copy. -/
def serializePayload (p : Bytes) (b : SBuf) : SBuf :=
  let (b, w) := prepend b p.length
  copyTo b w p

end Gp.Radius
