import Gp.Go.Basic
import Gp.Model.SBuf
import Gp.Gen.Dhcp
/-
  Model of /repo/layers/dhcpv4.go (engine `ldhcp`):

    DHCPv4.DecodeFromBytes, DHCPOption.decode, DHCPv4.Len, DHCPv4.SerializeTo, DHCPOption.encode,
    NewDHCPOption, CanDecode, NextLayerType, decodeDHCPv4, net.IP.To4 (as used by SerializeTo), and
    the DecodingLayerParser loop (layers_decoder.go / parser.go) over the one-layer set {DHCPv4}.

  Conventions (DESIGN §3): a Go panic is `Res.panic`; a Go `[]byte` is its visible bytes plus the
  *foreign* bytes between len and cap (`GSlice`): `s[a:b]` panics iff ¬(a ≤ b ∧ b ≤ cap), `s[a:]`
  panics iff a > len, `s[i]` panics iff i ≥ len.  Sized integers are `Nat` with an explicit `%`
  wherever Go truncates (`28+d.HardwareLen` is uint8 arithmetic, `Len()` counts in uint16).
  A Go `error` return is a *value* (`err := true`) so that what the call did to the receiver before
  returning the error stays visible.  Every assignment of the Go source appears, in source order.

  Two variants are modelled (`Variant`): `.orig` is the pinned source, `.fixed` the source with the
  three patches proposed_fixes/ldhcp-{1,2,3}-*.diff applied (the tree the correspondence run drives).
  The property theorems are about `.fixed`; the `_counterexample` theorems are about `.orig`.
  Core Lean only.
-/
namespace Gp.Dhcp
open Gp Gp.SBuf Gp.Gen.Dhcp

/-! ## Go slices with capacity -/

/-- A Go `[]byte`: `vis` = the `len` visible bytes, `tail` = the bytes of the backing array between
    `len` and `cap` (cap = len on the copying decode path; larger under NoCopy / Pool, where the
    tail is whatever the caller's buffer / the pool block holds there). -/
structure GSlice where
  vis  : Bytes
  tail : Bytes
  deriving Repr, DecidableEq

namespace GSlice
def len (s : GSlice) : Nat := s.vis.length
def cap (s : GSlice) : Nat := s.vis.length + s.tail.length
/-- Go `s[a:b]`: the upper bound is checked against the CAPACITY. -/
def slice (s : GSlice) (a b : Nat) : Res GSlice :=
  if a ≤ b ∧ b ≤ s.cap then
    .ok { vis := ((s.vis ++ s.tail).drop a).take (b - a), tail := (s.vis ++ s.tail).drop b }
  else .panic .slice
/-- Go `s[a:]` (= `s[a:len(s)]`): panics iff a > len. -/
def sliceFrom (s : GSlice) (a : Nat) : Res GSlice :=
  if a ≤ s.len then .ok { vis := s.vis.drop a, tail := s.tail } else .panic .slice
/-- Go `s[i]`: the bound is the LENGTH. -/
def index (s : GSlice) (i : Nat) : Res UInt8 := Gp.index s.vis i
end GSlice

/-- encoding/binary `BigEndian.Uint16(b)`: `_ = b[1]` (early bounds check), then b[0]<<8 | b[1]. -/
def uint16 (s : GSlice) : Res Nat := do
  let b1 ← s.index 1
  let b0 ← s.index 0
  pure (be16 b0 b1)

/-- `BigEndian.Uint32(b)`: `_ = b[3]`, then b[3] | b[2]<<8 | b[1]<<16 | b[0]<<24. -/
def uint32be (s : GSlice) : Res Nat := do
  let b3 ← s.index 3
  let b2 ← s.index 2
  let b1 ← s.index 1
  let b0 ← s.index 0
  pure (be32 b0 b1 b2 b3)

/-! ## Constants -/

def LayerTypeZero : Nat := 0
def LayerTypePayload : Nat := 2
/-- layertypes.go: `LayerTypeDHCPv4 = gopacket.RegisterLayerType(118, …decodeDHCPv4)`. -/
def LayerTypeDHCPv4 : Nat := 118

/-- dhcpv4.go:82 `var DHCPMagic uint32 = 0x63825363` (a package VARIABLE: the model describes the
    shipped value; tied by the correspondence run). -/
def dhcpMagic : Nat := 0x63825363

/-- `.orig` = the pinned dhcpv4.go; `.fixed` = with proposed_fixes/ldhcp-1 (BaseLayer reset before the
    no-options return), ldhcp-2 (`clear(data)` after PrependBytes) and ldhcp-3 (the size is counted from the
    option data, inconsistent options are an error) applied. -/
inductive Variant where
  | orig
  | fixed
  deriving Repr, DecidableEq

/-- What one DecodeFromBytes call did: the receiver afterwards, whether it called
    `df.SetTruncated()`, and whether it returned a non-nil error. -/
structure DecOut (L : Type) where
  layer : L
  trunc : Bool
  err   : Bool
  deriving Repr, DecidableEq

/-! ## The layer -/

/-- layers.DHCPOption{Type DHCPOpt (byte), Length uint8, Data []byte}. -/
structure DHCPOption where
  typ    : Nat
  length : Nat
  data   : Bytes
  deriving Repr, DecidableEq

/-- `DHCPOption{}`. -/
def DHCPOption.zero : DHCPOption := { typ := 0, length := 0, data := [] }

/-- dhcpv4.go:542 `NewDHCPOption(t, data)`: `Length = uint8(len(data))` (wraps above 255). -/
def newDHCPOption (t : Nat) (data : Option Bytes) : DHCPOption :=
  match data with
  | some d => { typ := t, length := d.length % 256, data := d }
  | none => { typ := t, length := 0, data := [] }

/-- layers.DHCPv4: BaseLayer{Contents, Payload}, Operation (DHCPOp byte), HardwareType (LinkType uint8),
    HardwareLen, RelayHops (uint8), Xid (uint32), Secs, Flags (uint16), four net.IP, ClientHWAddr,
    ServerName, File ([]byte), Options. -/
structure DHCPv4 where
  contents     : Bytes
  payload      : Bytes
  operation    : Nat
  hardwareType : Nat
  hardwareLen  : Nat
  relayHops    : Nat
  xid          : Nat
  secs         : Nat
  flags        : Nat
  clientIP     : Bytes
  yourClientIP : Bytes
  nextServerIP : Bytes
  relayAgentIP : Bytes
  clientHWAddr : Bytes
  serverName   : Bytes
  file         : Bytes
  options      : List DHCPOption
  deriving Repr, DecidableEq

/-- `&DHCPv4{}`. -/
def DHCPv4.fresh : DHCPv4 :=
  { contents := [], payload := [], operation := 0, hardwareType := 0, hardwareLen := 0, relayHops := 0,
    xid := 0, secs := 0, flags := 0, clientIP := [], yourClientIP := [], nextServerIP := [],
    relayAgentIP := [], clientHWAddr := [], serverName := [], file := [], options := [] }

/-! ## Decoding -/

/-- dhcpv4.go:563-583 `(*DHCPOption).decode(data)`: the receiver afterwards and whether an error
    (DecOptionNotEnoughData / DecOptionMalformed) was returned. -/
def DHCPOption.decode (o : DHCPOption) (data : GSlice) : Res (DHCPOption × Bool) :=
  if data.len < 1 then .ok (o, true)                               -- DecOptionNotEnoughData
  else do
    let b ← data.index 0
    let o := { o with typ := b.toNat }                             -- o.Type = DHCPOpt(data[0])
    if o.typ = dhcpOptPad ∨ o.typ = dhcpOptEnd then
      pure ({ o with data := [] }, false)                          -- o.Data = nil
    else if data.len < 2 then pure (o, true)                       -- DecOptionNotEnoughData
    else do
      let b ← data.index 1
      let o := { o with length := b.toNat }                        -- o.Length = data[1]
      let rest ← data.sliceFrom 2                                  -- len(data[2:])
      if o.length > rest.len then pure (o, true)                   -- DecOptionMalformed
      else do
        let s ← data.slice 2 (2 + o.length)
        pure ({ o with data := s.vis }, false)                     -- o.Data = data[2 : 2+int(o.Length)]

/-- dhcpv4.go:164-179, the option loop `for start < stop { … }` (`stop = len(options)`).
    `fuel` bounds the number of iterations; running out of fuel while `start < stop` stands for a
    loop that does not terminate and is reported as `.panic .explicit` (proved unreachable when
    `fuel ≥ stop - start`: every iteration advances `start` by ≥ 1).  Result: the receiver and
    whether `o.decode` returned an error. -/
def optLoop : Nat → DHCPv4 → GSlice → Nat → Res (DHCPv4 × Bool)
  | fuel, d, options, start =>
    if ¬ (start < options.len) then .ok (d, false)
    else match fuel with
      | 0 => .panic .explicit
      | fuel + 1 =>
        match options.sliceFrom start with                          -- options[start:]
        | .panic k => .panic k
        | .err e => .err e
        | .ok s =>
          match DHCPOption.zero.decode s with                       -- o := DHCPOption{}; o.decode(…)
          | .panic k => .panic k
          | .err e => .err e
          | .ok (o, e) =>
            if e then .ok (d, true)                                 -- return err
            else if o.typ = dhcpOptEnd then .ok (d, false)          -- break
            else
              let d := { d with options := d.options ++ [o] }       -- d.Options = append(d.Options, o)
              if o.typ = dhcpOptPad then optLoop fuel d options (start + 1)
              else optLoop fuel d options (start + (o.length + 2))

/-- dhcpv4.go:126-184 `(*DHCPv4).DecodeFromBytes`, statement by statement.  `old` is the receiver
    before the call.  Error returns after the length check leave the receiver half-updated
    (Options emptied, leading fields overwritten). -/
def DHCPv4.decodeFromBytes (v : Variant) (old : DHCPv4) (data : GSlice) : Res (DecOut DHCPv4) :=
  if data.len < 240 then
    .ok { layer := old, trunc := true, err := true }               -- df.SetTruncated(); "DHCPv4 length … too short"
  else do
    let d := { old with options := [] }                            -- d.Options = d.Options[:0]
    let b ← data.index 0
    let d := { d with operation := b.toNat }                       -- d.Operation = DHCPOp(data[0])
    let b ← data.index 1
    let d := { d with hardwareType := b.toNat }                    -- d.HardwareType = LinkType(data[1])
    let b ← data.index 2
    let d := { d with hardwareLen := b.toNat }                     -- d.HardwareLen = data[2]
    if d.hardwareLen > 16 then
      pure { layer := d, trunc := false, err := true }             -- "hardware address length … exceeds 16"
    else do
      let b ← data.index 3
      let d := { d with relayHops := b.toNat }                     -- d.RelayHops = data[3]
      let s ← data.slice 4 8
      let x ← uint32be s
      let d := { d with xid := x }                                 -- d.Xid = …Uint32(data[4:8])
      let s ← data.slice 8 10
      let x ← uint16 s
      let d := { d with secs := x }                                -- d.Secs = …Uint16(data[8:10])
      let s ← data.slice 10 12
      let x ← uint16 s
      let d := { d with flags := x }                               -- d.Flags = …Uint16(data[10:12])
      let s ← data.slice 12 16
      let d := { d with clientIP := s.vis }                        -- d.ClientIP = net.IP(data[12:16])
      let s ← data.slice 16 20
      let d := { d with yourClientIP := s.vis }                    -- d.YourClientIP = net.IP(data[16:20])
      let s ← data.slice 20 24
      let d := { d with nextServerIP := s.vis }                    -- d.NextServerIP = net.IP(data[20:24])
      let s ← data.slice 24 28
      let d := { d with relayAgentIP := s.vis }                    -- d.RelayAgentIP = net.IP(data[24:28])
      let s ← data.slice 28 ((28 + d.hardwareLen) % 256)           -- uint8 arithmetic: 28+d.HardwareLen
      let d := { d with clientHWAddr := s.vis }                    -- d.ClientHWAddr = data[28 : 28+d.HardwareLen]
      let s ← data.slice 44 108
      let d := { d with serverName := s.vis }                      -- d.ServerName = data[44:108]
      let s ← data.slice 108 236
      let d := { d with file := s.vis }                            -- d.File = data[108:236]
      let s ← data.slice 236 240
      let m ← uint32be s
      if m ≠ dhcpMagic then
        pure { layer := d, trunc := false, err := true }           -- InvalidMagicCookie
      else
        let d := match v with
          | .fixed => { d with contents := data.vis, payload := [] }  -- [ldhcp-1] d.BaseLayer = BaseLayer{Contents: data}
          | .orig => d
        if data.len ≤ 240 then
          pure { layer := d, trunc := false, err := false }        -- "DHCP Packet could have no option"
        else do
          let options ← data.sliceFrom 240                         -- options := data[240:]
          let r ← optLoop options.len d options 0                  -- stop := len(options); start := 0; for …
          if r.2 then pure { layer := r.1, trunc := false, err := true }
          else
            let d := match v with
              | .orig => { r.1 with contents := data.vis }         -- d.Contents = data
              | .fixed => r.1
            pure { layer := d, trunc := false, err := false }

/-- The view asked for by the engine brief: success carries the layer and its truncation
    contribution; an error return is `.err`.  `cap = |data| + |foreign|`. -/
def decodeDhcp (old : DHCPv4) (data : Bytes) (foreign : Bytes) : Res (DHCPv4 × Bool) :=
  match old.decodeFromBytes .fixed { vis := data, tail := foreign } with
  | .ok o => if o.err then .err "dhcpv4" else .ok (o.layer, o.trunc)
  | .err k => .err k
  | .panic k => .panic k

/-- dhcpv4.go:252 CanDecode. -/
def DHCPv4.canDecode : Nat := LayerTypeDHCPv4
/-- dhcpv4.go:257 NextLayerType = gopacket.LayerTypePayload. -/
def DHCPv4.nextLayerType (_ : DHCPv4) : Nat := LayerTypePayload
/-- base.go LayerPayload. -/
def DHCPv4.layerPayload (l : DHCPv4) : Bytes := l.payload

/-! ## The decoder function registered for NewPacket, as a behaviour description -/

/-- A call on the PacketBuilder. -/
inductive Act where
  | setTruncated
  | addLayer (t : Nat)
  deriving Repr, DecidableEq

/-- How a decoder function ends. -/
inductive Tail where
  | fail                          -- return err
  | nextLayerType (t : Nat)       -- return p.NextDecoder(LayerType(t))
  deriving Repr, DecidableEq

structure Beh where
  acts : List Act
  tail : Tail
  deriving Repr, DecidableEq

/-- dhcpv4.go:261-269 `decodeDHCPv4`: fresh layer, DecodeFromBytes(data, p), on success AddLayer and
    `p.NextDecoder(gopacket.LayerTypePayload)`; no Set*Layer call. -/
def decodeDHCPv4Fn (v : Variant) (data : GSlice) : Res (Beh × Option DHCPv4) := do
  let o ← DHCPv4.fresh.decodeFromBytes v data
  let tr := if o.trunc then [Act.setTruncated] else []
  if o.err then pure ({ acts := tr, tail := .fail }, none)
  else pure ({ acts := tr ++ [.addLayer LayerTypeDHCPv4], tail := .nextLayerType LayerTypePayload }, some o.layer)

/-! ## DecodingLayerParser over {DHCPv4} (layers_decoder.go loop, parser.go DecodeLayers) -/

structure DlpOut where
  layer   : DHCPv4
  decoded : List Nat
  trunc   : Bool
  code    : Nat            -- 0 = nil, 1 = the error of DecodeFromBytes, 2 = UnsupportedLayerType
  deriving Repr, DecidableEq

/-- One `DecodeLayers` call of a parser built with `NewDecodingLayerParser(LayerTypeDHCPv4, obj)`:
    Truncated := false; decode; append the type; `typ = NextLayerType()` (Payload);
    `data = LayerPayload()`; empty → nil; otherwise no decoder for Payload in the set →
    UnsupportedLayerType.  The loop body runs once: the only type in the set is never the next type. -/
def dlpDecodeLayers (v : Variant) (obj : DHCPv4) (data : GSlice) : Res DlpOut := do
  let o ← obj.decodeFromBytes v data
  if o.err then pure { layer := o.layer, decoded := [], trunc := o.trunc, code := 1 }
  else if o.layer.layerPayload.length = 0 then
    pure { layer := o.layer, decoded := [LayerTypeDHCPv4], trunc := o.trunc, code := 0 }
  else pure { layer := o.layer, decoded := [LayerTypeDHCPv4], trunc := o.trunc, code := 2 }

/-! ## Serialization, written over the C18 buffer model -/

/-- `w[a:]` on a slice handed out by the buffer: panics iff a > len(w). -/
def winFrom (w : Win) (a : Nat) : Res Win :=
  if a ≤ w.n then .ok { gen := w.gen, off := w.off + a, n := w.n - a } else .panic .slice

/-- `w[a:c]` on a slice handed out by the buffer.  The model checks `c` against the LENGTH of the
    window; Go checks the capacity (the rest of the backing array).  The two agree whenever
    `c ≤ len(w)`, which is the case for every such slice of the fixed code (`plen ≥ 241`, all bounds
    ≤ 240); for `.orig` with a wrapped `Len()` < 240 the model reports a panic where the real code may
    instead write beyond the window — both are violations of C07. -/
def winSlice (w : Win) (a c : Nat) : Res Win :=
  if a ≤ c ∧ c ≤ w.n then .ok { gen := w.gen, off := w.off + a, n := c - a } else .panic .slice

/-- Go `copy(w, src)`: copies `min(len(w), len(src))` bytes, never panics. -/
def copyTo (b : SBuf) (w : Win) (src : Bytes) : SBuf := fill b w (src.take w.n)

/-- `binary.BigEndian.PutUint16(w, v)`: `_ = b[1]` then two stores. -/
def putUint16 (b : SBuf) (w : Win) (v : Nat) : Res SBuf :=
  if w.n < 2 then .panic .index else .ok (fill b w (putBe16 v))

/-- `binary.BigEndian.PutUint32(w, v)`: `_ = b[3]` then four stores. -/
def putUint32be (b : SBuf) (w : Win) (v : Nat) : Res SBuf :=
  if w.n < 4 then .panic .index else .ok (fill b w (putBe32 v))

/-- net.IP.To4 (net/ip.go): a 4-byte slice is returned as it is, a 16-byte slice with the
    IPv4-in-IPv6 prefix (ten zero bytes, ff ff) gives its last four bytes, everything else nil. -/
def to4 (ip : Bytes) : Bytes :=
  if ip.length = 4 then ip
  else if ip.length = 16 ∧ (ip.take 10).all (· == 0) ∧ (ip.drop 10).take 2 = [0xff, 0xff] then ip.drop 12
  else []

/-- What one SerializeTo call did: the buffer and the receiver afterwards (SerializeTo mutates the
    layer under FixLengths), and whether it returned a non-nil error. -/
structure SerOut (L : Type) where
  buf   : SBuf
  layer : L
  err   : Bool
  deriving Repr, DecidableEq

/-- dhcpv4.go:187-198 `(*DHCPv4).Len()`: counted in uint16 (wraps at 65536), trusting `o.Length`. -/
def lenLoop : List DHCPOption → Nat → Nat
  | [], n => n
  | o :: rest, n =>
    if o.typ = dhcpOptPad then lenLoop rest ((n + 1) % 65536)              -- n++
    else lenLoop rest ((n + (o.length + 2) % 65536) % 65536)                -- n += uint16(o.Length) + 2

def DHCPv4.len (d : DHCPv4) : Nat := (lenLoop d.options 240 + 1) % 65536   -- n++ // for opt end

/-- [ldhcp-3] the size loop in front of PrependBytes (counted in `int` from `len(o.Data)`): `none` = an
    option whose Data does not have Length bytes (error return); otherwise the size. -/
def sizeLoop : List DHCPOption → Nat → Option Nat
  | [], size => some size
  | o :: rest, size =>
    if o.typ = dhcpOptPad then sizeLoop rest (size + 1)
    else if o.data.length ≠ o.length then none                              -- len(o.Data) != int(o.Length)
    else sizeLoop rest (size + (2 + o.data.length))

/-- dhcpv4.go:551-561 `(*DHCPOption).encode(b)`: Pad/End store one byte; every other option stores
    Type, Length and copies Data behind them (`copy` stops at the end of `b`). -/
def DHCPOption.encode (o : DHCPOption) (b : SBuf) (w : Win) : Res SBuf :=
  if o.typ = dhcpOptPad ∨ o.typ = dhcpOptEnd then
    write b w 0 (u8 o.typ)                                          -- b[0] = byte(o.Type)
  else do
    let b ← write b w 0 (u8 o.typ)                                  -- b[0] = byte(o.Type)
    let b ← write b w 1 (u8 o.length)                               -- b[1] = o.Length
    let w2 ← winFrom w 2                                            -- b[2:]
    pure (copyTo b w2 o.data)                                       -- copy(b[2:], o.Data)

/-- dhcpv4.go:231-243: `for _, o := range d.Options { o.encode(data[offset:]); offset += … }`.
    Returns the buffer and the final offset. -/
def encLoop : List DHCPOption → SBuf → Win → Nat → Res (SBuf × Nat)
  | [], b, _, offset => .ok (b, offset)
  | o :: rest, b, data, offset => do
    let w ← winFrom data offset                                     -- data[offset:]
    let b ← o.encode b w
    if o.typ = dhcpOptPad then encLoop rest b data (offset + 1)      -- offset++
    else encLoop rest b data (offset + (2 + o.data.length))          -- offset += 2 + len(o.Data)

/-- The stores of SerializeTo from `data[2] = d.HardwareLen` on, dhcpv4.go:216-248 (`l` is the receiver
    after the FixLengths assignment). -/
def serStoresRest (l : DHCPv4) (b : SBuf) (data : Win) : Res (SerOut DHCPv4) := do
  let b ← write b data 2 (u8 l.hardwareLen)                         -- data[2] = d.HardwareLen
  let b ← write b data 3 (u8 l.relayHops)                           -- data[3] = d.RelayHops
  let w ← winSlice data 4 8
  let b ← putUint32be b w l.xid                                     -- PutUint32(data[4:8], d.Xid)
  let w ← winSlice data 8 10
  let b ← putUint16 b w l.secs                                      -- PutUint16(data[8:10], d.Secs)
  let w ← winSlice data 10 12
  let b ← putUint16 b w l.flags                                     -- PutUint16(data[10:12], d.Flags)
  let w ← winSlice data 12 16
  let b := copyTo b w (to4 l.clientIP)                              -- copy(data[12:16], d.ClientIP.To4())
  let w ← winSlice data 16 20
  let b := copyTo b w (to4 l.yourClientIP)                          -- copy(data[16:20], d.YourClientIP.To4())
  let w ← winSlice data 20 24
  let b := copyTo b w (to4 l.nextServerIP)                          -- copy(data[20:24], d.NextServerIP.To4())
  let w ← winSlice data 24 28
  let b := copyTo b w (to4 l.relayAgentIP)                          -- copy(data[24:28], d.RelayAgentIP.To4())
  let w ← winSlice data 28 44
  let b := copyTo b w l.clientHWAddr                                -- copy(data[28:44], d.ClientHWAddr)
  let w ← winSlice data 44 108
  let b := copyTo b w l.serverName                                  -- copy(data[44:108], d.ServerName)
  let w ← winSlice data 108 236
  let b := copyTo b w l.file                                        -- copy(data[108:236], d.File)
  let w ← winSlice data 236 240
  let b ← putUint32be b w dhcpMagic                                 -- PutUint32(data[236:240], DHCPMagic)
  let r ← encLoop l.options b data 240                              -- offset := 240; for _, o := range d.Options …
  let w ← winFrom data r.2                                          -- data[offset:]
  let b ← (newDHCPOption dhcpOptEnd none).encode r.1 w              -- optend := NewDHCPOption(DHCPOptEnd, nil); optend.encode(…)
  pure { buf := b, layer := l, err := false }

/-- The stores of SerializeTo behind PrependBytes (and `clear`), dhcpv4.go:211-248. -/
def serStores (l : DHCPv4) (b : SBuf) (data : Win) (fix : Bool) : Res (SerOut DHCPv4) := do
  let b ← write b data 0 (u8 l.operation)                           -- data[0] = byte(d.Operation)
  let b ← write b data 1 (u8 l.hardwareType)                        -- data[1] = byte(d.HardwareType)
  let l := if fix then { l with hardwareLen := l.clientHWAddr.length % 256 } else l
                                                                    -- if opts.FixLengths { d.HardwareLen = uint8(len(d.ClientHWAddr)) }
  serStoresRest l b data

/-- dhcpv4.go:203-249 `(*DHCPv4).SerializeTo`.
    (`PrependBytes` of the default buffer never returns an error.) -/
def DHCPv4.serializeTo (v : Variant) (l : DHCPv4) (b : SBuf) (fix _csum : Bool) : Res (SerOut DHCPv4) :=
  match v with
  | .orig =>
    let plen := l.len                                               -- plen := int(d.Len())
    let r := prepend b plen                                         -- data, err := b.PrependBytes(plen)
    serStores l r.1 r.2 fix
  | .fixed =>
    match sizeLoop l.options 241 with                               -- [ldhcp-3] plen := 240 + 1; for _, o := range d.Options …
    | none => .ok { buf := b, layer := l, err := true }             -- "Length is … but Data has … bytes"
    | some plen =>
      let r := prepend b plen                                       -- data, err := b.PrependBytes(plen)
      let b1 := fill r.1 r.2 (zeros plen)                           -- [ldhcp-2] clear(data)
      serStores l b1 r.2 fix

/-- View asked for by the brief: `.err` when SerializeTo returned an error. -/
def serializeDhcp (l : DHCPv4) (b : SBuf) (fix csum : Bool) : Res (SBuf × DHCPv4) :=
  match l.serializeTo .fixed b fix csum with
  | .ok o => if o.err then .err "dhcpv4" else .ok (o.buf, o.layer)
  | .err k => .err k
  | .panic k => .panic k

/-- gopacket.Payload.SerializeTo: PrependBytes(len(p)); copy. -/
def serializePayload (p : Bytes) (b : SBuf) : SBuf :=
  let (b, w) := prepend b p.length
  copyTo b w p

end Gp.Dhcp
