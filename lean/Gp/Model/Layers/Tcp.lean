import Gp.Go.Basic
import Gp.Model.SBuf
import Gp.Model.Checksum
import Gp.Model.Flow
import Gp.Gen.Tcp
/-
  Engine `ltcp`: executable model of layers/tcp.go (+ the MPTCP structs of
  layers/multipathtcp.go and TCPPort.LayerType of layers/ports.go).

  Transcribed line by line:
    (*TCP).DecodeFromBytes, optionMptcpDsslen, isValidOptionMptcpAddAddrlen, decodeTCP,
    (*TCP).NextLayerType, (*TCP).CanDecode, (*TCP).SerializeTo, (*TCP).flagsAndOffset,
    TCPOption.String, TCPOptionKind.String, MPTCPSubtype.String, (*TCP).TransportFlow,
    (*TCP).VerifyChecksum / ComputeChecksum (value level).

  The model is parameterised by a `Variant` that selects, per defect, the code as pinned in
  /repo (`Variant.orig`) or the code with the proposed fix patches applied
  (`Variant.fixed`, proposed_fixes/ltcp-{1,2,3}-*.diff).  The full-strength theorems are
  proved for `fixed`, the `_counterexample` theorems for `orig`.

  Conventions: integers are `Nat` (explicit `% 2^N` where Go wraps), bytes are `UInt8`.
  A Go slice is `Sl`: the visible bytes plus the bytes between len and cap ("foreign" bytes
  of the packet buffer under NoCopy/Pool).  `s[i]` panics iff `i ≥ len`, `s[a:b]` panics iff
  `¬(a ≤ b ∧ b ≤ cap)`.  nil and empty slices are identified (both render as `-`).
  Core Lean only.
-/
namespace Gp.Tcp
open Gp Gp.Gen.Tcp

/-! ## Go slices with capacity -/

structure Sl where
  vis : Bytes
  ext : Bytes
  deriving Repr, DecidableEq

namespace Sl
def len (s : Sl) : Nat := s.vis.length
def cap (s : Sl) : Nat := s.vis.length + s.ext.length
def all (s : Sl) : Bytes := s.vis ++ s.ext
/-- `s[i]` -/
def idx (s : Sl) (i : Nat) : Res UInt8 := index s.vis i
/-- `s[a:b]` (checked against the capacity, as Go does) -/
def slice (s : Sl) (a b : Nat) : Res Sl :=
  if a ≤ b ∧ b ≤ s.cap then .ok ⟨(s.all.drop a).take (b - a), s.all.drop b⟩ else .panic .slice
/-- `s[a:]` = `s[a:len(s)]` -/
def sliceFrom (s : Sl) (a : Nat) : Res Sl := s.slice a s.len
/-- `s[:b]` -/
def sliceTo (s : Sl) (b : Nat) : Res Sl := s.slice 0 b
end Sl

/-- binary.BigEndian.Uint16(b) -/
def u16 (s : Sl) : Res Nat := do
  let a ← s.idx 0
  let b ← s.idx 1
  pure (be16 a b)

/-- binary.BigEndian.Uint32(b) -/
def u32 (s : Sl) : Res Nat := do
  let a ← s.idx 0
  let b ← s.idx 1
  let c ← s.idx 2
  let d ← s.idx 3
  pure (be32 a b c d)

/-- binary.BigEndian.Uint64(b) -/
def u64 (s : Sl) : Res Nat := do
  let a ← s.idx 0
  let b ← s.idx 1
  let c ← s.idx 2
  let d ← s.idx 3
  let e ← s.idx 4
  let f ← s.idx 5
  let g ← s.idx 6
  let h ← s.idx 7
  pure (be32 a b c d * 4294967296 + be32 e f g h)

/-- `b & d != 0` for a one-bit mask `d` (a power of two). -/
def bit (b : UInt8) (d : Nat) : Bool := (b.toNat / d) % 2 == 1

/-! ## Data types (layers/tcp.go, layers/multipathtcp.go) -/

structure MPCapable where
  version : Nat := 0
  a : Bool := false
  b : Bool := false
  c : Bool := false
  d : Bool := false
  e : Bool := false
  f : Bool := false
  g : Bool := false
  h : Bool := false
  sendKey : Bytes := []
  receivKey : Bytes := []
  dataLength : Nat := 0
  checksum : Nat := 0
  deriving Repr, DecidableEq

structure MPJoin where
  backup : Bool := false
  addrID : Nat := 0
  receivToken : Nat := 0
  sendRandNum : Nat := 0
  sendHMAC : Bytes := []
  deriving Repr, DecidableEq

/-- Dss: `fF fm fM fa fA` are the Go fields `F m M a A`. -/
structure Dss where
  fF : Bool := false
  fm : Bool := false
  fM : Bool := false
  fa : Bool := false
  fA : Bool := false
  dataAck : Bytes := []
  dsn : Bytes := []
  ssn : Nat := 0
  dataLength : Nat := 0
  checksum : Nat := 0
  deriving Repr, DecidableEq

structure AddAddr where
  ipVer : Nat := 0
  e : Bool := false
  addrID : Nat := 0
  address : Bytes := []
  port : Nat := 0
  sendHMAC : Bytes := []
  deriving Repr, DecidableEq

structure RemAddr where
  addrIDs : Bytes := []
  deriving Repr, DecidableEq

structure MPPrio where
  backup : Bool := false
  addrID : Nat := 0
  deriving Repr, DecidableEq

structure MPFail where
  dsn : Nat := 0
  deriving Repr, DecidableEq

structure MPFClose where
  receivKey : Bytes := []
  deriving Repr, DecidableEq

structure MPTcpRst where
  u : Bool := false
  v : Bool := false
  w : Bool := false
  t : Bool := false
  reason : Nat := 0
  deriving Repr, DecidableEq

/-- TCPOption; a Go pointer is an `Option` (`none` = nil). -/
structure TcpOption where
  optionType : Nat := 0
  optionLength : Nat := 0
  optionData : Bytes := []
  optionMultipath : Nat := 0
  mpCapable : Option MPCapable := none
  dss : Option Dss := none
  mpJoin : Option MPJoin := none
  mpPrio : Option MPPrio := none
  addAddr : Option AddAddr := none
  remAddr : Option RemAddr := none
  mpFastClose : Option MPFClose := none
  mpTcpRst : Option MPTcpRst := none
  mpFail : Option MPFail := none
  deriving Repr, DecidableEq

/-- The `pseudoheader` of tcpipchecksum: nil, an *IPv4 or an *IPv6 (only their addresses matter). -/
inductive Pseudo where
  | ip4 (src dst : Bytes)
  | ip6 (src dst : Bytes)
  deriving Repr, DecidableEq

/-- layers.TCP: all public fields, BaseLayer (contents/payload) and the private state that is
    observable through public methods (sPort/dPort via TransportFlow, pseudoheader via
    SerializeTo/VerifyChecksum).  The private scratch array `opts` has no observable value. -/
structure Layer where
  contents : Bytes := []
  payload : Bytes := []
  srcPort : Nat := 0
  dstPort : Nat := 0
  seq : Nat := 0
  ack : Nat := 0
  dataOffset : Nat := 0
  fin : Bool := false
  syn : Bool := false
  rst : Bool := false
  psh : Bool := false
  ackF : Bool := false
  urg : Bool := false
  ece : Bool := false
  cwr : Bool := false
  ns : Bool := false
  window : Nat := 0
  checksum : Nat := 0
  urgent : Nat := 0
  sPort : Bytes := []
  dPort : Bytes := []
  options : List TcpOption := []
  padding : Bytes := []
  multipath : Bool := false
  pseudo : Option Pseudo := none
  deriving Repr, DecidableEq

/-- `&TCP{}` -/
def fresh : Layer := {}

/-- Which code is modelled (see header). -/
structure Variant where
  mptcpBounds : Bool      -- ltcp-1: length checks in the MPTCP branch of DecodeFromBytes
  resetMultipath : Bool   -- ltcp-2: `tcp.Multipath = false` at the start of the option reset
  renderNilSafe : Bool    -- ltcp-3: nil checks in TCPOption.String
  deriving Repr, DecidableEq

def Variant.orig : Variant := ⟨false, false, false⟩
def Variant.fixed : Variant := ⟨true, true, true⟩

/-- Result of DecodeFromBytes: the layer as left behind, whether `df.SetTruncated()` was
    called, and whether a non-nil error was returned.  (The layer matters after an error
    too: decodeTCP adds it to the packet regardless.) -/
structure DecOut where
  layer : Layer
  trunc : Bool
  err : Bool
  deriving Repr, DecidableEq

/-- What the option loop works on: the three fields it assigns (`tcp.Options`, `tcp.Padding`,
    `tcp.Multipath`); all other fields are untouched by the loop. -/
structure OptSt where
  options : List TcpOption := []
  padding : Bytes := []
  multipath : Bool := false
  deriving Repr, DecidableEq

/-- Outcome of the option loop. -/
structure LoopOut where
  st : OptSt
  trunc : Bool
  err : Bool
  deriving Repr, DecidableEq

/-- One iteration of the option loop: either the function returns / the loop breaks,
    or the loop continues after `data = data[n:]`. -/
inductive Step where
  | stop (o : LoopOut)
  | cont (l : OptSt) (n : Nat)
  deriving Repr, DecidableEq

/-- `tcp.Options = append(tcp.Options, o)`; `opt` points at the last element. -/
def pushOpt (l : OptSt) (o : TcpOption) : OptSt := { l with options := l.options ++ [o] }

/-- `return fmt.Errorf(...)` with the half-built option left in the layer. -/
def errStep (l : OptSt) (o : TcpOption) (trunc : Bool) : Step :=
  .stop { st := pushOpt l o, trunc := trunc, err := true }

/-! ## MPTCP sub-options (tcp.go:354-533) -/

/-- `if c { x = data[a:b] }` (x stays nil otherwise) -/
def sliceIf (c : Bool) (data : Sl) (a b : Nat) : Res Bytes :=
  if c then (do let s ← data.slice a b; pure s.vis) else .ok []

/-- `if c { x = binary.BigEndian.Uint16(data[a:b]) }` (x stays 0 otherwise) -/
def u16If (c : Bool) (data : Sl) (a b : Nat) : Res Nat :=
  if c then (do let s ← data.slice a b; u16 s) else .ok 0

/-- `if c { x = binary.BigEndian.Uint32(data[a:b]) }` -/
def u32If (c : Bool) (data : Sl) (a b : Nat) : Res Nat :=
  if c then (do let s ← data.slice a b; u32 s) else .ok 0

def mpCapableOpt (l : OptSt) (opt : TcpOption) (data : Sl) (n : Nat) (b2 : UInt8) : Res Step :=
  if n ≠ optionLenMpCapableSyn ∧ n ≠ optionLenMpCapableSynAck ∧ n ≠ optionLenMpCapableAck ∧
      n ≠ optionLenMpCapableAckData ∧ n ≠ optionLenMpCapableAckDataCSum then
    .ok (errStep l opt false)
  else do
    let b3 ← data.idx 3
    let sk ← sliceIf (n ≥ optionLenMpCapableSynAck) data 4 12
    let rk ← sliceIf (n ≥ optionLenMpCapableAck) data 12 20
    let dl ← u16If (n ≥ optionLenMpCapableAckData) data 20 22
    let ck ← u16If (n = optionLenMpCapableAckDataCSum) data 22 24
    pure (.cont (pushOpt l { opt with mpCapable := some {
      version := b2.toNat % 16, a := bit b3 128, b := bit b3 64, c := bit b3 32, d := bit b3 16,
      e := bit b3 8, f := bit b3 4, g := bit b3 2, h := bit b3 1,
      sendKey := sk, receivKey := rk, dataLength := dl, checksum := ck } }) n)

def mpJoinOpt (l : OptSt) (opt : TcpOption) (data : Sl) (n : Nat) (b2 : UInt8) : Res Step :=
  if n ≠ optionLenMpJoinSyn ∧ n ≠ optionLenMpJoinSynAck ∧ n ≠ optionLenMpJoinAck then
    .ok (errStep l opt false)
  else if n = optionLenMpJoinSyn then do
    let b3 ← data.idx 3
    let s ← data.slice 4 8
    let tok ← u32 s
    let s2 ← data.slice 8 12
    let rnd ← u32 s2
    pure (.cont (pushOpt l { opt with mpJoin := some { backup := bit b2 1, addrID := b3.toNat, receivToken := tok, sendRandNum := rnd } }) n)
  else if n = optionLenMpJoinSynAck then do
    let b3 ← data.idx 3
    let s ← data.slice 4 12
    let s2 ← data.slice 12 16
    let rnd ← u32 s2
    pure (.cont (pushOpt l { opt with mpJoin := some { backup := bit b2 1, addrID := b3.toNat, sendHMAC := s.vis, sendRandNum := rnd } }) n)
  else do
    let s ← data.slice 4 24
    pure (.cont (pushOpt l { opt with mpJoin := some { sendHMAC := s.vis } }) n)

/-- tcp.go optionMptcpDsslen -/
def optionMptcpDsslen (d : Dss) (csum : Bool) : Nat :=
  let len := 4
  let len := if d.fA then (if d.fa then len + 4 + 4 else len + 4) else len
  let len := if d.fM then
      let len := len + 10
      let len := if d.fm then len + 4 else len
      if csum then len + 2 else len
    else len
  len % 256

def dssOpt (v : Variant) (l : OptSt) (opt : TcpOption) (data : Sl) (n : Nat) : Res Step :=
  if v.mptcpBounds && n < 4 then .ok (errStep l opt false) else do
    let b3 ← data.idx 3
    let d0 : Dss := { fF := bit b3 16, fm := bit b3 8, fM := bit b3 4, fa := bit b3 2, fA := bit b3 1 }
    let opt := { opt with dss := some d0 }
    if n ≠ optionMptcpDsslen d0 false ∧ n ≠ optionMptcpDsslen d0 true then
      pure (errStep l opt false)
    else do
      -- var lenOpt uint8 = 4; the nested ifs of tcp.go:418-442 as guarded reads in the same order
      let ackLen := if d0.fA then (if d0.fa then optionLenDssAck64 else optionLenDssAck) else 0
      let da ← sliceIf d0.fA data 4 (4 + ackLen)
      let p := 4 + ackLen
      let dsnLen := if d0.fm then optionLenDssDSN64 else optionLenDssDSN
      let dsn ← sliceIf d0.fM data p (p + dsnLen)
      let p2 := p + dsnLen
      let ssn ← u32If d0.fM data p2 (p2 + optionLenDssSSN)
      let p3 := p2 + optionLenDssSSN
      let dl ← u16If d0.fM data p3 (p3 + optionLenDssDataLen)
      let p4 := p3 + optionLenDssDataLen
      -- `opt.OptionLength-lenOpt == 2` in uint8 arithmetic
      let ck ← u16If (d0.fM && (n + 256 - p4 % 256) % 256 == 2) data p4 (p4 + optionLenDssCSum)
      pure (.cont (pushOpt l { opt with dss := some {
        d0 with dataAck := da, dsn := dsn, ssn := ssn, dataLength := dl, checksum := ck } }) n)

/-- tcp.go isValidOptionMptcpAddAddrlen (length is a uint8: the subtraction wraps) -/
def isValidOptionMptcpAddAddrlen (length ver : Nat) (hmac : Bool) : Bool :=
  if ver = mptcpVersion0 then
    length == optionLenAddAddrv4 || length == optionLenAddAddrv4 + optionLenAddAddrPort ||
    length == optionLenAddAddrv6 || length == optionLenAddAddrv6 + optionLenAddAddrPort
  else if ver = mptcpVersion1 then
    let length := if !hmac then (length + 256 - optionLenAddAddrHmac) % 256 else length
    length == optionLenAddAddrv4 || length == optionLenAddAddrv4 + optionLenAddAddrPort ||
    length == optionLenAddAddrv6 || length == optionLenAddAddrv6 + optionLenAddAddrPort
  else false

def addAddrOpt (l : OptSt) (opt : TcpOption) (data : Sl) (n : Nat) (b2 : UInt8) : Res Step :=
  let low := b2.toNat % 16
  let ver := if low > 1 then mptcpVersion0 else mptcpVersion1
  let bitE := if low > 1 then false else bit b2 1
  if !isValidOptionMptcpAddAddrlen n ver bitE then .ok (errStep l opt false) else do
    let b3 ← data.idx 3
    -- version 1 without the echo flag carries a truncated HMAC: `data[opt.OptionLength-8:]`
    let hmac : Bool := ver == mptcpVersion1 && !bit b2 1
    let hm ← (if hmac then (do let s ← data.sliceFrom ((n + 256 - 8) % 256); pure s.vis) else .ok [] : Res Bytes)
    let lenOpt := if hmac then (n + 256 - optionLenAddAddrHmac) % 256 else n
    let is4 : Bool := lenOpt == optionLenAddAddrv4 || lenOpt == optionLenAddAddrv4 + optionLenAddAddrPort
    let is6 : Bool := lenOpt == optionLenAddAddrv6 || lenOpt == optionLenAddAddrv6 + optionLenAddAddrPort
    let addr ← (if is4 then sliceIf true data 4 8 else sliceIf is6 data 4 20 : Res Bytes)
    let p4 ← u16If (lenOpt == optionLenAddAddrv4 + optionLenAddAddrPort) data 8 10
    let p6 ← u16If (lenOpt == optionLenAddAddrv6 + optionLenAddAddrPort) data 20 22
    let aa : AddAddr :=
      if ver = mptcpVersion0 then { ipVer := low, addrID := b3.toNat }
      else { e := bit b2 1, addrID := b3.toNat }
    pure (.cont (pushOpt l { opt with addAddr := some {
      aa with sendHMAC := hm, address := addr,
              port := if lenOpt == optionLenAddAddrv4 + optionLenAddAddrPort then p4 else p6 } }) n)

/-- `for n = 0; n < k; n++ { addrIds = append(addrIds, data[i+n]) }` -/
def readIds (data : Sl) : Nat → Nat → Res Bytes
  | _, 0 => .ok []
  | i, k + 1 => do
    let b ← data.idx i
    let r ← readIds data (i + 1) k
    pure (b :: r)

def remAddrOpt (l : OptSt) (opt : TcpOption) (data : Sl) (n : Nat) : Res Step :=
  if n < optionLenRemAddr then .ok (errStep l opt false) else do
    let ids ← readIds data 3 ((n + 256 - 3) % 256)
    pure (.cont (pushOpt l { opt with remAddr := some { addrIDs := ids } }) n)

def mpPrioOpt (l : OptSt) (opt : TcpOption) (data : Sl) (n : Nat) (b2 : UInt8) : Res Step :=
  if n ≠ optionLenMpPrio ∧ n ≠ optionLenMpPrioAddr then .ok (errStep l opt false)
  else if n = optionLenMpPrioAddr then do
    let b3 ← data.idx 3
    pure (.cont (pushOpt l { opt with mpPrio := some { backup := bit b2 1, addrID := b3.toNat } }) n)
  else pure (.cont (pushOpt l { opt with mpPrio := some { backup := bit b2 1 } }) n)

def mpFailOpt (l : OptSt) (opt : TcpOption) (data : Sl) (n : Nat) : Res Step :=
  if n ≠ optionLenMpFail then .ok (errStep l opt false) else do
    let s ← data.slice 4 optionLenMpFail
    let x ← u64 s
    pure (.cont (pushOpt l { opt with mpFail := some { dsn := x } }) n)

def mpFCloseOpt (l : OptSt) (opt : TcpOption) (data : Sl) (n : Nat) : Res Step :=
  if n ≠ optionLenMpFClose then .ok (errStep l opt false) else do
    let s ← data.slice 4 optionLenMpFClose
    pure (.cont (pushOpt l { opt with mpFastClose := some { receivKey := s.vis } }) n)

def mpTcpRstOpt (l : OptSt) (opt : TcpOption) (data : Sl) (n : Nat) (b2 : UInt8) : Res Step :=
  if n ≠ optionLenMpTcpRst then .ok (errStep l opt false) else do
    let b3 ← data.idx 3
    pure (.cont (pushOpt l { opt with mpTcpRst := some { u := bit b2 8, v := bit b2 4, w := bit b2 2, t := bit b2 1, reason := b3.toNat } }) n)

/-- `case TCPOptionKindMultipathTCP:` (tcp.go:347-533). `l` already has `Multipath = true`. -/
def mptcpOpt (v : Variant) (l : OptSt) (opt : TcpOption) (data : Sl) : Res Step :=
  if v.mptcpBounds && data.len < 3 then .ok (errStep l opt true) else do
    let n8 ← data.idx 1
    let n := n8.toNat
    let opt := { opt with optionLength := n }
    if (if v.mptcpBounds then n < 3 else n ≤ 0) then pure (errStep l opt false)
    else if v.mptcpBounds && n > data.len then pure (errStep l opt true)
    else do
      let b2 ← data.idx 2
      let sub := b2.toNat / 16
      let opt := { opt with optionMultipath := sub }
      if sub = mPTCPSubtypeMPCAPABLE then mpCapableOpt l opt data n b2
      else if sub = mPTCPSubtypeMPJOIN then mpJoinOpt l opt data n b2
      else if sub = mPTCPSubtypeDSS then dssOpt v l opt data n
      else if sub = mPTCPSubtypeADDADDR then addAddrOpt l opt data n b2
      else if sub = mPTCPSubtypeREMOVEADDR then remAddrOpt l opt data n
      else if sub = mPTCPSubtypeMPPRIO then mpPrioOpt l opt data n b2
      else if sub = mPTCPSubtypeMPFAIL then mpFailOpt l opt data n
      else if sub = mPTCPSubtypeMPFASTCLOSE then mpFCloseOpt l opt data n
      else if sub = mPTCPSubtypeMPTCPRST then mpTcpRstOpt l opt data n b2
      else pure (.cont (pushOpt l opt) n)

/-- `default:` branch of the option switch (tcp.go:534-546). -/
def genericOpt (l : OptSt) (opt : TcpOption) (data : Sl) : Res Step :=
  if data.len < 2 then .ok (errStep l opt true) else do
    let n8 ← data.idx 1
    let n := n8.toNat
    let opt := { opt with optionLength := n }
    if n < 2 then pure (errStep l opt false)
    else if n > data.len then pure (errStep l opt true)
    else do
      let d ← data.slice 2 n
      pure (.cont (pushOpt l { opt with optionData := d.vis }) n)

/-- Body of `for len(data) > 0 { … }` up to (not including) `data = data[opt.OptionLength:]`. -/
def optStep (v : Variant) (l : OptSt) (data : Sl) : Res Step := do
  let k ← data.idx 0
  let opt : TcpOption := { optionType := k.toNat }
  if k.toNat = tCPOptionKindEndList then do
    let p ← data.sliceFrom 1
    pure (.stop { st := pushOpt { l with padding := p.vis } { opt with optionLength := 1 },
                  trunc := false, err := false })
  else if k.toNat = tCPOptionKindNop then
    pure (.cont (pushOpt l { opt with optionLength := 1 }) 1)
  else if k.toNat = tCPOptionKindMultipathTCP then
    mptcpOpt v { l with multipath := true } opt data
  else genericOpt l opt data

/-- The option loop.  `fuel` bounds the number of iterations; running out of fuel while data
    is left stands for a loop that does not terminate and is reported as `.panic .explicit`
    (proved unreachable when `fuel ≥ len(data)`: every iteration consumes ≥ 1 byte). -/
def optLoop (v : Variant) : Nat → OptSt → Sl → Res LoopOut
  | fuel, l, data =>
    if data.vis.length = 0 then .ok { st := l, trunc := false, err := false }
    else match fuel with
      | 0 => .panic .explicit
      | fuel + 1 =>
        match optStep v l data with
        | .ok (.stop o) => .ok o
        | .ok (.cont l' n) =>
          -- data = data[n:]
          if n > data.vis.length then .panic .slice
          else optLoop v fuel l' ⟨data.vis.drop n, data.ext⟩
        | .err e => .err e
        | .panic k => .panic k

/-- what tcp.go:296-314 reads from the fixed 20-byte header -/
structure FixedHdr where
  srcPort : Nat
  sPort : Bytes
  dstPort : Nat
  dPort : Bytes
  seq : Nat
  ack : Nat
  b12 : UInt8
  b13 : UInt8
  window : Nat
  checksum : Nat
  urgent : Nat
  deriving Repr, DecidableEq

/-- tcp.go:296-314: the reads of the fixed header, in source order. -/
def parseFixed (data : Sl) : Res FixedHdr := do
  let sp ← data.slice 0 2
  let srcPort ← u16 sp
  let dp ← data.slice 2 4
  let dstPort ← u16 dp
  let s ← data.slice 4 8
  let seq ← u32 s
  let s ← data.slice 8 12
  let ack ← u32 s
  let b12 ← data.idx 12
  let b13 ← data.idx 13
  let s ← data.slice 14 16
  let window ← u16 s
  let s ← data.slice 16 18
  let checksum ← u16 s
  let s ← data.slice 18 20
  let urgent ← u16 s
  pure { srcPort := srcPort, sPort := sp.vis, dstPort := dstPort, dPort := dp.vis, seq := seq, ack := ack,
         b12 := b12, b13 := b13, window := window, checksum := checksum, urgent := urgent }

/-- (*TCP).DecodeFromBytes (tcp.go:291-551). -/
def decodeFromBytes (v : Variant) (old : Layer) (data : Sl) : Res DecOut :=
  if data.len < 20 then .ok { layer := old, trunc := true, err := true } else do
    let h ← parseFixed data
    -- Options = Options[:0] (or opts[:0]); Padding = Padding[:0]
    let l1 : Layer :=
      { old with
        srcPort := h.srcPort, sPort := h.sPort, dstPort := h.dstPort, dPort := h.dPort,
        seq := h.seq, ack := h.ack, dataOffset := h.b12.toNat / 16,
        fin := bit h.b13 1, syn := bit h.b13 2, rst := bit h.b13 4, psh := bit h.b13 8,
        ackF := bit h.b13 16, urg := bit h.b13 32, ece := bit h.b13 64, cwr := bit h.b13 128,
        ns := bit h.b12 1, window := h.window, checksum := h.checksum, urgent := h.urgent,
        options := [], padding := [],
        multipath := if v.resetMultipath then false else old.multipath }
    if l1.dataOffset < 5 then pure { layer := l1, trunc := false, err := true }
    else
      let dataStart := l1.dataOffset * 4
      if dataStart > data.len then
        pure { layer := { l1 with payload := [], contents := data.vis }, trunc := true, err := true }
      else do
        let c ← data.sliceTo dataStart
        let p ← data.sliceFrom dataStart
        let od ← data.slice 20 dataStart
        let r ← optLoop v od.len { multipath := l1.multipath } od
        pure { layer := { l1 with contents := c.vis, payload := p.vis, options := r.st.options,
                                  padding := r.st.padding, multipath := r.st.multipath },
               trunc := r.trunc, err := r.err }

/-- Direct DecodeFromBytes on `data` living in a buffer whose spare capacity holds `foreign`. -/
def decode (v : Variant) (old : Layer) (data foreign : Bytes) : Res DecOut :=
  decodeFromBytes v old ⟨data, foreign⟩

/-! ## NextLayerType / CanDecode / LayerPayload / decodeTCP -/

inductive LayerT where
  | payload | dns | tls | modbusTCP | modbus | enip | diameter | tcp
  deriving Repr, DecidableEq

def LayerT.name : LayerT → String
  | .payload => "Payload" | .dns => "DNS" | .tls => "TLS" | .modbusTCP => "ModbusTCP"
  | .modbus => "Modbus" | .enip => "ENIP" | .diameter => "Diameter" | .tcp => "TCP"

/-- `tcpPortLayerTypeOverride`/`tcpPortLayerType` as left by the package's own `init()`s
    (layers/modbus.go:170, layers/enip.go:138); user registrations are outside the model. -/
def portOverride (p : Nat) : Option LayerT :=
  if p = 502 then some .modbus else if p = 44818 then some .enip else none

/-- layers/ports.go TCPPort.LayerType. -/
def portLayerType (p : Nat) : LayerT :=
  match portOverride p with
  | some t => t
  | none =>
  if p = 53 then .dns
  else if p = 443 then .tls
  else if p = 502 then .modbusTCP
  else if p = 636 ∨ p = 989 ∨ p = 990 ∨ p = 992 ∨ p = 993 ∨ p = 994 ∨ p = 995 then .tls
  else if p = 2222 then .enip
  else if p = 3868 then .diameter
  else if p = 5061 ∨ p = 5082 ∨ p = 5083 then .tls
  else if p = 44818 then .enip
  else .payload

def nextLayerType (l : Layer) : LayerT :=
  let lt := portLayerType l.dstPort
  if lt = .payload then portLayerType l.srcPort else lt

def canDecode : LayerT := .tcp
def layerPayload (l : Layer) : Bytes := l.payload

/-- What decodeTCP does to the PacketBuilder: AddLayer(tcp) and SetTransportLayer(tcp) always
    (also after an error), then either returns the error or NextDecoder(next). -/
structure PktBeh where
  added : Layer
  setTransport : Bool
  trunc : Bool
  next : Option LayerT    -- none = `return err`
  deriving Repr, DecidableEq

def decodeTCP (v : Variant) (dsad : Bool) (data : Sl) : Res PktBeh :=
  match decodeFromBytes v fresh data with
  | .ok o =>
    .ok { added := o.layer, setTransport := true, trunc := o.trunc,
          next := if o.err then none
                  else if dsad then some (nextLayerType o.layer) else some .payload }
  | .err e => .err e
  | .panic k => .panic k

/-! ## SerializeTo (tcp.go:194-249) over the serialize-buffer model -/

def isOneByte (o : TcpOption) : Bool := o.optionType == 0 || o.optionType == 1

/-- first loop of SerializeTo: `optionLength` -/
def optLen : List TcpOption → Nat
  | [] => 0
  | o :: os => (if isOneByte o then 1 else 2 + o.optionData.length) + optLen os

/-- tcp.go flagsAndOffset (`|=` of disjoint bits written as a sum) -/
def flagsAndOffset (l : Layer) : Nat :=
  ((l.dataOffset % 256) * 4096) % 65536 +
  (if l.fin then 1 else 0) + (if l.syn then 2 else 0) + (if l.rst then 4 else 0) +
  (if l.psh then 8 else 0) + (if l.ackF then 16 else 0) + (if l.urg then 32 else 0) +
  (if l.ece then 64 else 0) + (if l.cwr then 128 else 0) + (if l.ns then 256 else 0)

/-- the `if opts.FixLengths { … }` block: mutates Padding and DataOffset -/
def fixLengths (l : Layer) : Layer :=
  let ol := optLen l.options
  let l1 := if ol % 4 ≠ 0 then { l with padding := SBuf.zeros (4 - ol % 4) } else l
  { l1 with dataOffset := ((l1.padding.length + ol + 20) / 4) % 256 }

/-- `bytes[i] = v` -/
def put (bs : Bytes) (i : Nat) (v : UInt8) : Res Bytes :=
  if i < bs.length then .ok (bs.set i v) else .panic .index

/-- `binary.BigEndian.PutUint16(bytes[off:], n)` -/
def put16 (bs : Bytes) (off n : Nat) : Res Bytes :=
  if off > bs.length then .panic .slice
  else if bs.length - off < 2 then .panic .index
  else .ok ((bs.set off (u8 (n / 256))).set (off + 1) (u8 n))

/-- `binary.BigEndian.PutUint32(bytes[off:], n)` -/
def put32 (bs : Bytes) (off n : Nat) : Res Bytes :=
  if off > bs.length then .panic .slice
  else if bs.length - off < 4 then .panic .index
  else .ok ((((bs.set off (u8 (n / 16777216))).set (off + 1) (u8 (n / 65536))).set (off + 2)
          (u8 (n / 256))).set (off + 3) (u8 n))

/-- `copy(bytes[a:b], src)`; the slice bound is checked against len (≤ cap: conservative). -/
def copyAt (bs : Bytes) (a b : Nat) (src : Bytes) : Res Bytes :=
  if a ≤ b ∧ b ≤ bs.length then
    let k := min (b - a) src.length
    .ok (bs.take a ++ src.take k ++ bs.drop (a + k))
  else .panic .slice

/-- second loop of SerializeTo: writes the options starting at `start`. -/
def writeOpts (fix : Bool) : Bytes → Nat → List TcpOption → Res (Bytes × Nat)
  | bs, start, [] => .ok (bs, start)
  | bs, start, o :: os => do
    let bs ← put bs start (u8 o.optionType)
    if isOneByte o then writeOpts fix bs (start + 1) os
    else do
      let ol := if fix then (o.optionData.length + 2) % 256 else o.optionLength
      let bs ← put bs (start + 1) (u8 ol)
      let bs ← copyAt bs (start + 2) (start + o.optionData.length + 2) o.optionData
      writeOpts fix bs (start + o.optionData.length + 2) os

/-- (*IPv4/*IPv6).pseudoheaderChecksum incl. AddressTo4/AddressTo16; `none` = error. -/
def pseudoSum : Pseudo → Option Nat
  | .ip4 src dst =>
    let to4 (a : Bytes) : Option Bytes :=
      if a.length = 4 then some a
      else if a.length = 16 ∧ a.take 12 = [0,0,0,0,0,0,0,0,0,0,0xff,0xff] then some (a.drop 12)
      else none
    match to4 src, to4 dst with
    | some s, some d => some (Cksum.pseudo4 s d)
    | _, _ => none
  | .ip6 src dst =>
    if src.length = 16 ∧ dst.length = 16 then some (Cksum.pseudo6 src dst 0) else none

/-- tcpipchecksum.computeChecksum followed by FoldChecksum; `none` = error. -/
def l4checksum (p : Option Pseudo) (headerAndPayload : Bytes) : Option Nat :=
  match p with
  | none => none
  | some p =>
    match pseudoSum p with
    | none => none
    | some ps => some (Cksum.fold (Cksum.l4sum ps iPProtocolTCP headerAndPayload))

/-- tcp.go:214-220: the stores into the fixed 20-byte header (bytes 16,17 come last). -/
def putFixed (l : Layer) (bs : Bytes) : Res Bytes := do
  let bs ← put16 bs 0 l.srcPort
  let bs ← put16 bs 2 l.dstPort
  let bs ← put32 bs 4 l.seq
  let bs ← put32 bs 8 l.ack
  let bs ← put16 bs 12 (flagsAndOffset l)
  let bs ← put16 bs 14 l.window
  put16 bs 18 l.urgent

/-- tcp.go:237-247: checksum computation over `b.Bytes()` = window ++ rest, and the store of
    the checksum field. -/
def putChecksum (l : Layer) (csum : Bool) (bs rest : Bytes) : Res (Bytes × Layer) :=
  if csum then do
    let bs ← put bs 16 0
    let bs ← put bs 17 0
    match l4checksum l.pseudo (bs ++ rest) with
    | none => .err "checksum"
    | some c =>
      let bs ← put16 bs 16 c
      pure (bs, { l with checksum := c })
  else do
    let bs ← put16 bs 16 l.checksum
    pure (bs, l)

/-- The stores of SerializeTo into the window `bytes` returned by PrependBytes.  `stale` is
    what the window held (never assumed zero), `rest` the buffer contents behind it
    (`b.Bytes()` = window ++ rest).  `l` is the layer after the FixLengths block. -/
def serializeWin (l : Layer) (fix csum : Bool) (stale rest : Bytes) : Res (Bytes × Layer) := do
  let bs ← putFixed l stale
  let (bs, start) ← writeOpts fix bs 20 l.options
  -- copy(bytes[start:], t.Padding)
  if start > bs.length then .panic .slice else do
  let bs ← copyAt bs start bs.length l.padding
  putChecksum l csum bs rest

/-- the bytes currently under a window -/
def window (b : SBuf.SBuf) (w : SBuf.Win) : Bytes := (b.mem.drop w.off).take w.n

/-- (*TCP).SerializeTo: returns the buffer and the (mutated) layer. -/
def serializeTcp (l : Layer) (b : SBuf.SBuf) (fix csum : Bool) : Res (SBuf.SBuf × Layer) :=
  let l1 := if fix then fixLengths l else l
  let n := 20 + optLen l1.options + l1.padding.length
  let rest := SBuf.contents b
  let (b1, w) := SBuf.prepend b n
  match serializeWin l1 fix csum (window b1 w) rest with
  | .ok (out, l2) => .ok (SBuf.fill b1 w out, l2)
  | .err e => .err e
  | .panic k => .panic k

/-! ## TransportFlow, VerifyChecksum -/

/-- layers/endpoints.go: `EndpointTCPPort = gopacket.RegisterEndpointType(4, …)` (a `var`, hence
    not extractable as a constant; the adapter prints the number, so a change is seen). -/
def endpointTCPPort : Int := 4

/-- (*TCP).TransportFlow = gopacket.NewFlow(EndpointTCPPort, t.sPort, t.dPort), over the shared
    model of flows.go (panics above MaxEndpointSize). -/
def transportFlow (l : Layer) : Res Gp.Flow.Flow := Gp.Flow.newFlow endpointTCPPort l.sPort l.dPort

structure Verify where
  valid : Bool
  correct : Nat
  actual : Nat
  deriving Repr, DecidableEq

/-- (*TCP).VerifyChecksum at value level (`append(t.Contents, t.Payload...)` also WRITES the
    payload bytes into the packet buffer behind Contents when capacity allows — where they
    already are for a decoded layer; noted for C02, not modelled).  `none` = error. -/
def verifyChecksum (l : Layer) : Option Verify :=
  match l.pseudo with
  | none => none
  | some p =>
    match pseudoSum p with
    | none => none
    | some ps =>
      let ver := Cksum.l4sum ps iPProtocolTCP (l.contents ++ l.payload)
      let correct := Cksum.fold ((ver + Cksum.W32 - l.checksum % Cksum.W32) % Cksum.W32)
      some { valid := correct == l.checksum, correct := correct, actual := l.checksum }

/-! ## Renderers (tcp.go:62-186, multipathtcp.go:30-53) -/

def kindName (k : Nat) : String :=
  match k with
  | 0 => "EndList" | 1 => "NOP" | 2 => "MSS" | 3 => "WindowScale" | 4 => "SACKPermitted"
  | 5 => "SACK" | 6 => "Echo" | 7 => "EchoReply" | 8 => "Timestamps"
  | 9 => "PartialOrderConnectionPermitted" | 10 => "PartialOrderServiceProfile"
  | 11 => "CC" | 12 => "CCNew" | 13 => "CCEcho" | 14 => "AltChecksum" | 15 => "AltChecksumData"
  | 30 => "MultipathTCP"
  | k => "Unknown(" ++ toString k ++ ")"

def subtypeName (k : Nat) : String :=
  match k with
  | 0 => "MP_CAPABLE" | 1 => "MP_JOIN" | 2 => "DSS" | 3 => "ADD_ADDR" | 4 => "REMOVE_ADDR"
  | 5 => "MP_PRIO" | 6 => "MP_FAIL" | 7 => "MP_FASTCLOSE" | 8 => "MP_TCPRST"
  | k => "Unknown(" ++ toString k ++ ")"

def hexDigit (n : Nat) : Char :=
  if n < 10 then Char.ofNat (48 + n) else Char.ofNat (87 + n)

/-- hex.EncodeToString -/
def hexStr (bs : Bytes) : String :=
  String.ofList (bs.foldr (fun b acc => hexDigit (b.toNat / 16) :: hexDigit (b.toNat % 16) :: acc) [])

def boolStr (b : Bool) : String := if b then "true" else "false"

/-- `%v` of a []uint8 -/
def idsStr (bs : Bytes) : String := "[" ++ " ".intercalate (bs.map (fun b => toString b.toNat)) ++ "]"

/-- `*p` / `p.Field` on a Go pointer -/
def deref {α} : Option α → Res α
  | some a => .ok a
  | none => .panic .nilDeref

/-- `hd`: " 0x" ++ hex of the option data (empty when there is none) -/
def optHd (t : TcpOption) : String :=
  if t.optionData.length > 0 then " 0x" ++ hexStr t.optionData else ""

/-- the final `return fmt.Sprintf("TCPOption(%s:%s)", t.OptionType, hd)` -/
def optDflt (t : TcpOption) : Res String :=
  .ok ("TCPOption(" ++ kindName t.optionType ++ ":" ++ optHd t ++ ")")

/-- `case TCPOptionKindMultipathTCP:` of TCPOption.String.  ADD_ADDR prints a net.IP with `%v`;
    its text is outside the model, the renderer returns the part of the string before the
    address (the dereferences are the same). -/
def mptcpString (v : Variant) (t : TcpOption) : Res String :=
  let sub := t.optionMultipath
  if sub = mPTCPSubtypeMPCAPABLE then
    if v.renderNilSafe && t.mpCapable.isNone then optDflt t else do
      let c ← deref t.mpCapable
      pure ("MPTCPOption(" ++ subtypeName sub ++ " Version " ++ toString c.version ++ ")")
  else if sub = mPTCPSubtypeMPJOIN then
    if v.renderNilSafe && t.mpJoin.isNone then optDflt t else do
      let c ← deref t.mpJoin
      pure ("MPTCPOption(" ++ subtypeName sub ++ " Backup " ++ boolStr c.backup ++ ";Address ID " ++
            toString c.addrID ++ ")")
  else if sub = mPTCPSubtypeDSS then .ok ("MPTCPOption(" ++ subtypeName sub ++ ")")
  else if sub = mPTCPSubtypeMPPRIO then
    if v.renderNilSafe && t.mpPrio.isNone then optDflt t else do
      let c ← deref t.mpPrio
      pure ("MPTCPOption(" ++ subtypeName sub ++ " Backup " ++ boolStr c.backup ++ ";Address ID " ++
            toString c.addrID ++ ")")
  else if sub = mPTCPSubtypeADDADDR then
    if v.renderNilSafe && t.addAddr.isNone then optDflt t else do
      let c ← deref t.addAddr
      pure ("MPTCPOption(" ++ subtypeName sub ++ " Address ID " ++ toString c.addrID ++ ";Address ")
  else if sub = mPTCPSubtypeREMOVEADDR then
    if v.renderNilSafe && t.remAddr.isNone then optDflt t else do
      let c ← deref t.remAddr
      pure ("MPTCPOption(" ++ subtypeName sub ++ " Address ID " ++ idsStr c.addrIDs ++ ")")
  else if sub = mPTCPSubtypeMPFASTCLOSE then .ok ("MPTCPOption(" ++ subtypeName sub ++ ")")
  else if sub = mPTCPSubtypeMPTCPRST then
    if v.renderNilSafe && t.mpTcpRst.isNone then optDflt t else do
      let c ← deref t.mpTcpRst
      pure ("MPTCPOption(" ++ subtypeName sub ++ " Transient " ++ boolStr c.t ++ "; Reason " ++
            toString c.reason ++ ")")
  else if sub = mPTCPSubtypeMPFAIL then .ok ("MPTCPOption(" ++ subtypeName sub ++ ")")
  else optDflt t

/-- TCPOption.String (tcp.go:120-186). -/
def optionString (v : Variant) (t : TcpOption) : Res String :=
  if t.optionType = tCPOptionKindMSS then
    match t.optionData with
    | a :: b :: _ =>
      .ok ("TCPOption(" ++ kindName t.optionType ++ ":" ++ toString (be16 a b) ++ optHd t ++ ")")
    | _ => optDflt t
  else if t.optionType = tCPOptionKindTimestamps then
    match t.optionData with
    | [a, b, c, d, e, f, g, h] =>
      .ok ("TCPOption(" ++ kindName t.optionType ++ ":" ++ toString (be32 a b c d) ++ "/" ++
            toString (be32 e f g h) ++ optHd t ++ ")")
    | _ => optDflt t
  else if t.optionType = tCPOptionKindMultipathTCP then mptcpString v t
  else optDflt t

/-- Rendering every option of the layer (what packet.String()/LayerString do through
    fmt's Stringer support); the first panic wins. -/
def renderOptions (v : Variant) : List TcpOption → Res (List String)
  | [] => .ok []
  | o :: os => do
    let s ← optionString v o
    let r ← renderOptions v os
    pure (s :: r)

end Gp.Tcp
