import Gp.Go.Basic
import Gp.Gen.Usb
/-
  Model of the decode-only layers of engine `lusb`:

    /repo/layers/usb.go   USB.DecodeFromBytes / NextLayerType / decodeUSB        (Linux usbmon 48-byte-less "40 byte" header)
                          USBRequestBlockSetup.DecodeFromBytes / NextLayerType / decodeUSBRequestBlockSetup
                          USBControl / USBInterrupt / USBBulk .DecodeFromBytes / NextLayerType / decodeUSBxxx
    + enums_generated.go USBTransportType.LayerType over the table filled in enums.go, base.go
      decodingLayerDecoder.

  The model describes the tree WITH proposed_fixes/all-19 (length checks, already in /repo) and
  proposed_fixes/lusb-1 (Setup / Data are ASSIGNED from the two flag bytes on every decode instead of
  only ever being set to true).

  NONE of the five layers has a SerializeTo method and none has a flow accessor: there is no
  serializer to model (no C06/C07 part) and no flow (no C17 part).

  Conventions (DESIGN §3): a Go panic is `Res.panic`; a Go `[]byte` is its visible bytes plus the
  *foreign* bytes between len and cap (`GSlice`): `s[a:b]` panics iff ¬(a ≤ b ∧ b ≤ cap), `s[a:]`
  panics iff a > len, `s[i]` panics iff i ≥ len.  Unsigned sized integers are `Nat` with an explicit
  `%` wherever Go truncates, the three signed fields (int64 / int32) are `Int`.  A Go `error` return of
  DecodeFromBytes is a *value* (`err := true`) so that what the call did to the receiver before
  returning the error stays visible.  Every assignment of the Go source appears, in source order.
  Core Lean only.
-/
namespace Gp.Usb
open Gp Gp.Gen.Usb

/-! ## Go slices with capacity -/

/-- A Go `[]byte`: `vis` = the `len` visible bytes, `tail` = the bytes of the backing array between
    `len` and `cap` (cap = len on the copying decode path; larger under NoCopy / Pool, and for every
    inner layer of a packet, whose input is a sub-slice of the packet buffer). -/
structure GSlice where
  vis  : Bytes
  tail : Bytes
  deriving Repr, DecidableEq

namespace GSlice
def len (s : GSlice) : Nat := s.vis.length
def cap (s : GSlice) : Nat := s.vis.length + s.tail.length
/-- Go `s[a:b]`: the upper bound is checked against the CAPACITY. -/
def slice (s : GSlice) (a b : Nat) : Res GSlice :=
  if a ≤ b ∧ b ≤ s.cap then
    .ok { vis := ((s.vis ++ s.tail).drop a).take (b - a), tail := (s.vis ++ s.tail).drop b }
  else .panic .slice
/-- Go `s[a:]` (= `s[a:len(s)]`): panics iff a > len. -/
def sliceFrom (s : GSlice) (a : Nat) : Res GSlice :=
  if a ≤ s.len then .ok { vis := s.vis.drop a, tail := s.tail } else .panic .slice
/-- Go `s[i]`: the bound is the LENGTH. -/
def index (s : GSlice) (i : Nat) : Res UInt8 := Gp.index s.vis i
end GSlice

/-- The value of a little-endian byte string. -/
def leVal : Bytes → Nat
  | [] => 0
  | b :: bs => b.toNat + 256 * leVal bs

/-- encoding/binary `LittleEndian.Uint16/32/64(b)` for n = 2, 4, 8: `_ = b[n-1]` (the early bounds
    check against len — the only place these functions can panic), then the little-endian value of
    b[0] … b[n-1]. -/
def leUint (n : Nat) (s : GSlice) : Res Nat := do
  let _ ← s.index (n - 1)
  pure (leVal (s.vis.take n))

/-- Go conversion `int64(x)` of a uint64 value. -/
def toInt64 (x : Nat) : Int := if x < 2 ^ 63 then (x : Int) else (x : Int) - 2 ^ 64
/-- Go conversion `int32(x)` of a uint32 value. -/
def toInt32 (x : Nat) : Int := if x < 2 ^ 31 then (x : Int) else (x : Int) - 2 ^ 32

/-! ## Layer-type numbers (layers/layertypes.go, decode.go RegisterLayerType ids) and the transfer-type table -/

def LayerTypeZero : Nat := 0
def LayerTypePayload : Nat := 2
def LayerTypeUSB : Nat := 108
def LayerTypeUSBRequestBlockSetup : Nat := 109
def LayerTypeUSBControl : Nat := 110
def LayerTypeUSBInterrupt : Nat := 111
def LayerTypeUSBBulk : Nat := 112

/-- enums.go `initActualTypeData`: the three rows of `USBTransportTypeMetadata` (transfer type ↦
    LayerType); every other entry (isochronous = 0 included) has LayerType 0.  Keys = GENERATED
    constants; rows and ids are tied by the exhaustive 256-entry op `lusb nlttab`.
    = enums_generated.go `USBTransportType.LayerType()`. -/
def transportLayerType (t : Nat) : Nat :=
  if t = usbTransportTypeInterrupt then LayerTypeUSBInterrupt
  else if t = usbTransportTypeControl then LayerTypeUSBControl
  else if t = usbTransportTypeBulk then LayerTypeUSBBulk
  else LayerTypeZero

/-- What one DecodeFromBytes call did: the receiver afterwards, whether it called
    `df.SetTruncated()`, and whether it returned a non-nil error. -/
structure DecOut (L : Type) where
  layer : L
  trunc : Bool
  err   : Bool
  deriving Repr, DecidableEq

/-! ## USB (the usbmon header) -/

/-- layers.USB: BaseLayer{Contents, Payload} and every public field.  The last four fields are
    NEVER assigned by DecodeFromBytes (the 64-byte header extension is behind `if false`). -/
structure USB where
  contents               : Bytes
  payload                : Bytes
  id                     : Nat     -- uint64
  eventType              : Nat     -- uint8
  transferType           : Nat     -- uint8
  direction              : Nat     -- uint8 (0 unknown, 1 in, 2 out)
  endpointNumber         : Nat     -- uint8
  deviceAddress          : Nat     -- uint8
  busID                  : Nat     -- uint16
  timestampSec           : Int     -- int64
  timestampUsec          : Int     -- int32
  setup                  : Bool
  data                   : Bool
  status                 : Int     -- int32
  urbLength              : Nat     -- uint32
  urbDataLength          : Nat     -- uint32
  urbInterval            : Nat
  urbStartFrame          : Nat
  urbCopyOfTransferFlags : Nat
  isoNumDesc             : Nat
  deriving Repr, DecidableEq

/-- `&USB{}`. -/
def USB.fresh : USB :=
  { contents := [], payload := [], id := 0, eventType := 0, transferType := 0, direction := 0,
    endpointNumber := 0, deviceAddress := 0, busID := 0, timestampSec := 0, timestampUsec := 0,
    setup := false, data := false, status := 0, urbLength := 0, urbDataLength := 0,
    urbInterval := 0, urbStartFrame := 0, urbCopyOfTransferFlags := 0, isoNumDesc := 0 }

/-- usb.go `(*USB).DecodeFromBytes`, statement by statement (with all-19 and lusb-1).  `old` is the
    receiver before the call.  The reads happen in source order (each can panic on its own); the
    sixteen assignments up to `m.Payload = data[40:]`, between which the Go code has no return, are
    applied to the receiver in one structure update.  The second error return ("USB data length exceeds packet") happens
    after every header field, Contents and Payload have been assigned.  `uint32(len(data)-40)` and
    `uint32(len(data))-m.UrbDataLength` are uint32 arithmetic. -/
def USB.decodeFromBytes (old : USB) (data : GSlice) : Res (DecOut USB) :=
  if data.len < 40 then
    .ok { layer := old, trunc := true, err := true }             -- df.SetTruncated(); "USB < 40 bytes"
  else do
    let s ← data.slice 0 8
    let vId ← leUint 8 s                                         -- m.ID = LittleEndian.Uint64(data[0:8])
    let b8 ← data.index 8                                        -- m.EventType = USBEventType(data[8])
    let b9 ← data.index 9                                        -- m.TransferType = USBTransportType(data[9])
    let b10 ← data.index 10                                      -- m.EndpointNumber = data[10] & 0x7f
    let b10' ← data.index 10                                     -- if data[10]&uint8(USBTransportTypeTransferIn) > 0 {
                                                                 --   m.Direction = USBDirectionTypeIn } else { … = USBDirectionTypeOut }
    let b11 ← data.index 11                                      -- m.DeviceAddress = data[11]
    let s ← data.slice 12 14
    let vBus ← leUint 2 s                                        -- m.BusID = LittleEndian.Uint16(data[12:14])
    let b14 ← data.index 14                                      -- m.Setup = uint(data[14]) == 0      (lusb-1)
    let b15 ← data.index 15                                      -- m.Data = uint(data[15]) == 0       (lusb-1)
    let s ← data.slice 16 24
    let vSec ← leUint 8 s                                        -- m.TimestampSec = int64(Uint64(data[16:24]))
    let s ← data.slice 24 28
    let vUsec ← leUint 4 s                                       -- m.TimestampUsec = int32(Uint32(data[24:28]))
    let s ← data.slice 28 32
    let vStatus ← leUint 4 s                                     -- m.Status = int32(Uint32(data[28:32]))
    let s ← data.slice 32 36
    let vLen ← leUint 4 s                                        -- m.UrbLength = Uint32(data[32:36])
    let s ← data.slice 36 40
    let vDlen ← leUint 4 s                                       -- m.UrbDataLength = Uint32(data[36:40])
    let c ← data.slice 0 40                                      -- m.Contents = data[:40]
    let p ← data.sliceFrom 40                                    -- m.Payload = data[40:]
    -- no return lies between these assignments: the receiver after them, in one update
    let l : USB :=
      { old with id := vId, eventType := b8.toNat, transferType := b9.toNat,
                 endpointNumber := b10.toNat &&& 0x7f,
                 direction := if b10'.toNat &&& usbTransportTypeTransferIn > 0 then usbDirectionTypeIn else usbDirectionTypeOut,
                 deviceAddress := b11.toNat, busID := vBus,
                 setup := (b14.toNat == 0), data := (b15.toNat == 0),
                 timestampSec := toInt64 vSec, timestampUsec := toInt32 vUsec, status := toInt32 vStatus,
                 urbLength := vLen, urbDataLength := vDlen, contents := c.vis, payload := p.vis }
    if l.setup then do                                           -- if m.Setup {
      let p ← data.sliceFrom 40
      let l := { l with payload := p.vis }                       --   m.Payload = data[40:]
      pure { layer := l, trunc := false, err := false }
    else if l.data then                                          -- } else if m.Data {
      if l.urbDataLength > (data.len - 40) % 2 ^ 32 then         --   if m.UrbDataLength > uint32(len(data)-40)
        pure { layer := l, trunc := true, err := true }          --     df.SetTruncated(); "USB data length exceeds packet"
      else do
        let p ← data.sliceFrom ((data.len % 2 ^ 32 + 2 ^ 32 - l.urbDataLength) % 2 ^ 32)
        let l := { l with payload := p.vis }                     --   m.Payload = data[uint32(len(data))-m.UrbDataLength:]
        pure { layer := l, trunc := false, err := false }
    else                                                         -- `if false { … }`: dead
      pure { layer := l, trunc := false, err := false }

/-- The view asked for by the engine brief: success carries the layer and its truncation
    contribution; an error return is `.err`.  `cap = |data| + |foreign|`. -/
def decodeUsb (old : USB) (data : Bytes) (foreign : Bytes) : Res (USB × Bool) :=
  match old.decodeFromBytes { vis := data, tail := foreign } with
  | .ok o => if o.err then .err "usb" else .ok (o.layer, o.trunc)
  | .err k => .err k
  | .panic k => .panic k

/-- usb.go `(*USB).NextLayerType`: the setup packet wins, `else if m.Data {}` is empty, then the
    transfer-type table. -/
def USB.nextLayerType (m : USB) : Nat :=
  if m.setup then LayerTypeUSBRequestBlockSetup else transportLayerType m.transferType
/-- base.go LayerPayload. -/
def USB.layerPayload (m : USB) : Bytes := m.payload

/-! ## USBRequestBlockSetup -/

/-- layers.USBRequestBlockSetup: BaseLayer, RequestType (uint8), Request (uint8), Value, Index, Length (uint16). -/
structure Setup where
  contents    : Bytes
  payload     : Bytes
  requestType : Nat
  request     : Nat
  value       : Nat
  index       : Nat
  length      : Nat
  deriving Repr, DecidableEq

def Setup.fresh : Setup :=
  { contents := [], payload := [], requestType := 0, request := 0, value := 0, index := 0, length := 0 }

/-- usb.go `(*USBRequestBlockSetup).DecodeFromBytes` (with all-19: the length check and its SetTruncated). -/
def Setup.decodeFromBytes (old : Setup) (data : GSlice) : Res (DecOut Setup) :=
  if data.len < 8 then
    .ok { layer := old, trunc := true, err := true }             -- df.SetTruncated(); "USB request block setup < 8 bytes"
  else do
    let b0 ← data.index 0                                        -- m.RequestType = data[0]
    let b1 ← data.index 1                                        -- m.Request = USBRequestBlockSetupRequest(data[1])
    let s ← data.slice 2 4
    let vVal ← leUint 2 s                                        -- m.Value = LittleEndian.Uint16(data[2:4])
    let s ← data.slice 4 6
    let vIdx ← leUint 2 s                                        -- m.Index = LittleEndian.Uint16(data[4:6])
    let s ← data.slice 6 8
    let vLen ← leUint 2 s                                        -- m.Length = LittleEndian.Uint16(data[6:8])
    let c ← data.slice 0 8                                       -- m.Contents = data[:8]
    let p ← data.sliceFrom 8                                     -- m.Payload = data[8:]
    let l : Setup := { old with requestType := b0.toNat, request := b1.toNat, value := vVal, index := vIdx,
                                length := vLen, contents := c.vis, payload := p.vis }
    pure { layer := l, trunc := false, err := false }

def decodeSetup (old : Setup) (data : Bytes) (foreign : Bytes) : Res (Setup × Bool) :=
  match old.decodeFromBytes { vis := data, tail := foreign } with
  | .ok o => if o.err then .err "setup" else .ok (o.layer, o.trunc)
  | .err k => .err k
  | .panic k => .panic k

/-- NextLayerType = gopacket.LayerTypePayload. -/
def Setup.nextLayerType (_ : Setup) : Nat := LayerTypePayload
def Setup.layerPayload (m : Setup) : Bytes := m.payload

/-! ## USBControl / USBInterrupt / USBBulk: a BaseLayer and nothing else -/

/-- layers.USBControl = layers.USBInterrupt = layers.USBBulk = struct{ BaseLayer }. -/
structure Raw where
  contents : Bytes
  payload  : Bytes
  deriving Repr, DecidableEq

def Raw.fresh : Raw := { contents := [], payload := [] }

/-- usb.go `(*USBControl).DecodeFromBytes` (= Interrupt = Bulk): `m.Contents = data; return nil`.
    Payload is NOT assigned: it keeps the receiver's value (nil for `&USBControl{}` and after any
    number of decodes of such an object — `Gp.C05.Usb.raw_history_payload_nil`). -/
def Raw.decodeFromBytes (old : Raw) (data : GSlice) : Res (DecOut Raw) :=
  .ok { layer := { old with contents := data.vis }, trunc := false, err := false }

def decodeRaw (old : Raw) (data : Bytes) (foreign : Bytes) : Res (Raw × Bool) :=
  match old.decodeFromBytes { vis := data, tail := foreign } with
  | .ok o => if o.err then .err "raw" else .ok (o.layer, o.trunc)
  | .err k => .err k
  | .panic k => .panic k

def Raw.nextLayerType (_ : Raw) : Nat := LayerTypePayload
def Raw.layerPayload (m : Raw) : Bytes := m.payload

/-! ## The decoder functions registered for NewPacket, as behaviour descriptions -/

/-- A call on the PacketBuilder. -/
inductive Act where
  | setTruncated
  | addLayer (t : Nat)
  deriving Repr, DecidableEq

/-- How a decoder function ends. -/
inductive Tail where
  | done                          -- return nil
  | fail                          -- return err
  | nextLayerType (t : Nat)       -- return p.NextDecoder(LayerType(t))
  deriving Repr, DecidableEq

structure Beh where
  acts : List Act
  tail : Tail
  deriving Repr, DecidableEq

/-- base.go:39-50 `decodingLayerDecoder(d, data, p)` after `d.DecodeFromBytes(data, p)` returned `o`
    for a layer of type `typ` whose NextLayerType is `next`: no Set*Layer call is made. -/
def decodingLayerDecoder {L : Type} (o : DecOut L) (typ next : Nat) : Beh × Option L :=
  let tr := if o.trunc then [Act.setTruncated] else []
  if o.err then ({ acts := tr, tail := .fail }, none)
  else if next = LayerTypeZero then ({ acts := tr ++ [.addLayer typ], tail := .done }, some o.layer)
  else ({ acts := tr ++ [.addLayer typ], tail := .nextLayerType next }, some o.layer)

/-- usb.go `decodeUSB` = `decodingLayerDecoder(&USB{}, data, p)`. -/
def decodeUSBFn (data : GSlice) : Res (Beh × Option USB) := do
  let o ← USB.fresh.decodeFromBytes data
  pure (decodingLayerDecoder o LayerTypeUSB o.layer.nextLayerType)

/-- usb.go `decodeUSBRequestBlockSetup`. -/
def decodeSetupFn (data : GSlice) : Res (Beh × Option Setup) := do
  let o ← Setup.fresh.decodeFromBytes data
  pure (decodingLayerDecoder o LayerTypeUSBRequestBlockSetup o.layer.nextLayerType)

/-- usb.go `decodeUSBControl` / `decodeUSBInterrupt` / `decodeUSBBulk` (`typ` = the layer's own type). -/
def decodeRawFn (typ : Nat) (data : GSlice) : Res (Beh × Option Raw) := do
  let o ← Raw.fresh.decodeFromBytes data
  pure (decodingLayerDecoder o typ o.layer.nextLayerType)

/-! ## The packet NewPacket builds (eager decoding, packet.go NextDecoder / addFinalDecodeError, decode.go DecodePayload) -/

/-- A layer of a built packet. -/
inductive PLayer where
  | usb (l : USB)
  | setup (l : Setup)
  | raw (t : Nat) (l : Raw)       -- USBControl / USBInterrupt / USBBulk by layer type
  | payload (b : Bytes)           -- gopacket.Payload (DecodePayload)
  | failure (b : Bytes)           -- *DecodeFailure with its data (the bytes that could not be decoded)
  deriving Repr, DecidableEq

structure Pkt where
  layers : List PLayer
  trunc  : Bool                   -- Metadata().Truncated
  failed : Bool                   -- ErrorLayer() != nil
  deriving Repr, DecidableEq

def Pkt.empty : Pkt := { layers := [], trunc := false, failed := false }

/-- `p.NextDecoder(gopacket.LayerTypePayload)` when the last layer's LayerPayload is `d`:
    nothing when it is empty, else DecodePayload adds a Payload layer holding it. -/
def nextPayload (d : Bytes) : Pkt :=
  if d.length = 0 then Pkt.empty else { layers := [.payload d], trunc := false, failed := false }

/-- `p.NextDecoder(LayerTypeUSBRequestBlockSetup)` with last payload `d` (`p.last.LayerPayload()`):
    on an error of the decoder the packet ends with a DecodeFailure holding `d`. -/
def nextSetup (d : GSlice) : Res Pkt :=
  if d.len = 0 then .ok Pkt.empty else do
    let o ← Setup.fresh.decodeFromBytes d
    if o.err then pure { layers := [.failure d.vis], trunc := o.trunc, failed := true }
    else
      let t := nextPayload o.layer.payload
      pure { layers := .setup o.layer :: t.layers, trunc := o.trunc || t.trunc, failed := t.failed }

/-- `p.NextDecoder(LayerTypeUSBControl / Interrupt / Bulk)` with last payload `d`: the layer takes all
    of `d` as Contents, its own LayerPayload is nil, so the following NextDecoder(Payload) adds nothing. -/
def nextRaw (t : Nat) (d : GSlice) : Res Pkt :=
  if d.len = 0 then .ok Pkt.empty else do
    let o ← Raw.fresh.decodeFromBytes d
    if o.err then pure { layers := [.failure d.vis], trunc := o.trunc, failed := true }
    else
      let n := nextPayload o.layer.payload
      pure { layers := .raw t o.layer :: n.layers, trunc := o.trunc || n.trunc, failed := n.failed }

/-- `gopacket.NewPacket(data, LayerTypeUSB, …)` (data non-empty): decodeUSB, then the decoder of
    `NextLayerType()` on the USB payload (a sub-slice of the same buffer), then Payload.  When the
    first decoder fails the DecodeFailure holds the whole packet data. -/
def packetUSB (data : GSlice) : Res Pkt := do
  let o ← USB.fresh.decodeFromBytes data
  if o.err then pure { layers := [.failure data.vis], trunc := o.trunc, failed := true }
  else
    let next := o.layer.nextLayerType
    let rest : GSlice := { vis := o.layer.payload, tail := data.tail }
    let t ← if next = LayerTypeZero then pure Pkt.empty                     -- decodingLayerDecoder returns nil
            else if next = LayerTypeUSBRequestBlockSetup then nextSetup rest
            else nextRaw next rest
    pure { layers := .usb o.layer :: t.layers, trunc := o.trunc || t.trunc, failed := t.failed }

/-- NewPacket with USBRequestBlockSetup as first decoder. -/
def packetSetup (data : GSlice) : Res Pkt := do
  let o ← Setup.fresh.decodeFromBytes data
  if o.err then pure { layers := [.failure data.vis], trunc := o.trunc, failed := true }
  else
    let t := nextPayload o.layer.payload
    pure { layers := .setup o.layer :: t.layers, trunc := o.trunc || t.trunc, failed := t.failed }

/-- NewPacket with USBControl / USBInterrupt / USBBulk as first decoder. -/
def packetRaw (t : Nat) (data : GSlice) : Res Pkt := do
  let o ← Raw.fresh.decodeFromBytes data
  if o.err then pure { layers := [.failure data.vis], trunc := o.trunc, failed := true }
  else
    let n := nextPayload o.layer.payload
    pure { layers := .raw t o.layer :: n.layers, trunc := o.trunc || n.trunc, failed := n.failed }

/-! ## No DecodingLayerParser part

  None of the five types has a `CanDecode` method, so none implements `gopacket.DecodingLayer` and
  none can be given to a DecodingLayerParser / DecodingLayerContainer: the parser clauses of C05 and
  C19 have no instance here.  `DecodeFromBytes` itself is public and can be called on a re-used
  object: that is what `old` stands for. -/

end Gp.Usb
