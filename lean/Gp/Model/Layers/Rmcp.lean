import Gp.Go.Basic
import Gp.Model.SBuf
import Gp.Gen.Rmcp
/-
  Model of /repo/layers/rmcp.go, /repo/layers/asf.go and /repo/layers/ague_var0.go (engine `lrmcp`):

    RMCP.DecodeFromBytes,     SerializeTo, CanDecode, NextLayerType, Payload, decodeRMCP,
                              RMCPClass.LayerType (the 16-entry array rmcpClassLayerTypes)
    ASF.DecodeFromBytes,      SerializeTo, CanDecode, NextLayerType, decodeASF,
                              ASFDataIdentifier.LayerType (the map asfDataLayerTypes)
    AGUEVar0.DecodeFromBytes, SerializeTo, LayerContents, LayerPayload, CanDecode, NextLayerType, decodeAGUE,
                              IPProtocol.LayerType (IPProtocolMetadata as shipped)
    + decodingLayerDecoder (base.go) and the DecodingLayerParser loop (layers_decoder.go / parser.go)
      restricted to these three layers.
  (MDP, layers/mdp.go, is in Gp/Model/Layers/RmcpMdp.lean.)

  Conventions (DESIGN §3): a Go panic is `Res.panic`; a Go `[]byte` is its visible bytes plus the
  *foreign* bytes between len and cap (`GSlice`): `s[a:b]` panics iff ¬(a ≤ b ∧ b ≤ cap), `s[i]`
  panics iff i ≥ len.  Sized integers are `Nat` with an explicit `%` wherever Go truncates.
  A Go `error` return is a *value* (`err := true`) so that what the call did to the receiver and to
  the DecodeFeedback/SerializeBuffer before returning the error stays visible.
  Every assignment of the Go source appears, in source order.  Core Lean only.
-/
namespace Gp.Rmcp
open Gp Gp.SBuf Gp.Gen.Rmcp

/-! ## Go slices with capacity -/

/-- A Go `[]byte`: `vis` = the `len` visible bytes, `tail` = the bytes of the backing array between
    `len` and `cap` (cap = len on the copying decode path; larger under NoCopy / Pool, where the
    tail is whatever the caller's buffer / the pool block holds there). -/
structure GSlice where
  vis  : Bytes
  tail : Bytes
  deriving Repr, DecidableEq

namespace GSlice
def len (s : GSlice) : Nat := s.vis.length
def cap (s : GSlice) : Nat := s.vis.length + s.tail.length
/-- Go `s[a:b]`: the upper bound is checked against the CAPACITY. -/
def slice (s : GSlice) (a b : Nat) : Res GSlice :=
  if a ≤ b ∧ b ≤ s.cap then
    .ok { vis := ((s.vis ++ s.tail).drop a).take (b - a), tail := (s.vis ++ s.tail).drop b }
  else .panic .slice
/-- Go `s[a:]` (= `s[a:len(s)]`): panics iff a > len. -/
def sliceFrom (s : GSlice) (a : Nat) : Res GSlice :=
  if a ≤ s.len then .ok { vis := s.vis.drop a, tail := s.tail } else .panic .slice
/-- Go `s[i]`: the bound is the LENGTH. -/
def index (s : GSlice) (i : Nat) : Res UInt8 := Gp.index s.vis i
end GSlice

/-- `BigEndian.Uint32(b)`: `_ = b[3]`, then b[3] | b[2]<<8 | b[1]<<16 | b[0]<<24. -/
def uint32be (s : GSlice) : Res Nat := do
  let b3 ← s.index 3
  let b2 ← s.index 2
  let b1 ← s.index 1
  let b0 ← s.index 0
  pure (be32 b0 b1 b2 b3)

/-! ## Layer-type numbers (layertypes.go / decode.go RegisterLayerType ids) and the next-layer tables -/

def LayerTypeZero : Nat := 0
def LayerTypePayload : Nat := 2
def LayerTypeRMCP : Nat := 142
def LayerTypeASF : Nat := 143
def LayerTypeASFPresencePong : Nat := 144
def LayerTypeAGUEVar0 : Nat := 148

/-- rmcp.go:59-65 `rmcpClassLayerTypes = [16]gopacket.LayerType{RMCPClassASF: LayerTypeASF}` (the key is the
    GENERATED constant; rows and ids are tied by the exhaustive 256-entry op `lrmcp classtab`). -/
def rmcpClassTable : List (Nat × Nat) := [(rmcpClassASF, LayerTypeASF)]

/-- rmcp.go:23-28 `RMCPClass.LayerType()`: `rmcpClassLayerTypes[uint8(c)]` indexes an ARRAY OF 16 with a
    uint8: a class ≥ 16 (only possible in a hand-built layer; the decoder masks with 0xF) panics. -/
def rmcpClassLayerType (c : Nat) : Res Nat :=
  if c < 16 then
    let lt := (rmcpClassTable.lookup c).getD LayerTypeZero
    if lt ≠ 0 then .ok lt else .ok LayerTypePayload
  else .panic .index

/-- asf.go:83-85 `asfDataLayerTypes = map[ASFDataIdentifier]LayerType{ASFDataIdentifierPresencePong:
    LayerTypeASFPresencePong}` with `ASFDataIdentifierPresencePong = {ASFRMCPEnterprise, 0x40}`. -/
def asfDataTable : List ((Nat × Nat) × Nat) := [((asfRMCPEnterprise, 0x40), LayerTypeASFPresencePong)]

/-- asf.go:45-52 `ASFDataIdentifier.LayerType()`: a map lookup (0 for a missing key), default Payload. -/
def asfDataLayerType (enterprise typ : Nat) : Nat :=
  let lt := (asfDataTable.lookup (enterprise, typ)).getD LayerTypeZero
  if lt ≠ 0 then lt else LayerTypePayload

/-- enums.go `initActualTypeData`: the rows of `IPProtocolMetadata` that carry a layer type
    (IPProtocol ↦ LayerType); every other of the 256 entries has LayerType 0.  Tied by the exhaustive
    256-entry op `lrmcp iptab`; three keys are GENERATED constants. -/
def ipProtoTable : List (Nat × Nat) :=
  [ (0, 46), (1, 19), (2, 62), (ipProtocolIPv4, 20), (6, 44), (ipProtocolUDP, 45), (27, 27), (ipProtocolIPv6, 21),
    (43, 47), (44, 48), (47, 18), (50, 51), (51, 50), (58, 57), (59, 2), (60, 49), (89, 123), (94, 20),
    (97, 16), (112, 119), (132, 28), (136, 52), (137, 24) ]

/-- enums_generated.go `IPProtocol.LayerType()`: the table entry (0 when there is none). -/
def ipProtoLayerType (p : Nat) : Nat := (ipProtoTable.lookup p).getD LayerTypeZero

/-- What one DecodeFromBytes call did: the receiver afterwards, whether it called
    `df.SetTruncated()`, and whether it returned a non-nil error. -/
structure DecOut (L : Type) where
  layer : L
  trunc : Bool
  err   : Bool
  deriving Repr, DecidableEq

/-! ## RMCP -/

/-- layers.RMCP: BaseLayer{Contents, Payload}, Version, Sequence (uint8), Ack (bool), Class (RMCPClass, uint8). -/
structure RMCP where
  contents : Bytes
  payload  : Bytes
  version  : Nat
  sequence : Nat
  ack      : Bool
  cls      : Nat
  deriving Repr, DecidableEq

/-- `&RMCP{}`. -/
def RMCP.fresh : RMCP := { contents := [], payload := [], version := 0, sequence := 0, ack := false, cls := 0 }

/-- rmcp.go:111-127 `(*RMCP).DecodeFromBytes`, statement by statement; `old` is the receiver before the call. -/
def RMCP.decodeFromBytes (old : RMCP) (data : GSlice) : Res (DecOut RMCP) :=
  if data.len < 4 then
    .ok { layer := old, trunc := true, err := true }             -- df.SetTruncated(); "invalid RMCP header, length …"
  else do
    let c ← data.slice 0 4
    let l := { old with contents := c.vis }                       -- r.BaseLayer.Contents = data[:4]
    let p ← data.sliceFrom 4
    let l := { l with payload := p.vis }                          -- r.BaseLayer.Payload = data[4:]
    let b ← data.index 0
    let l := { l with version := b.toNat }                        -- r.Version = uint8(data[0])
    let b ← data.index 2
    let l := { l with sequence := b.toNat }                       -- r.Sequence = uint8(data[2])
    let b ← data.index 3
    let l := { l with ack := (b.toNat &&& rmcpAck != 0) }         -- r.Ack = data[3]&RMCPAck != 0
    let b ← data.index 3
    let l := { l with cls := b.toNat &&& 0xF }                    -- r.Class = RMCPClass(data[3] & 0xF)
    pure { layer := l, trunc := false, err := false }

/-- The view asked for by the engine brief: success carries the layer and its truncation
    contribution; an error return is `.err`.  `cap = |data| + |foreign|`. -/
def decodeRmcp (old : RMCP) (data : Bytes) (foreign : Bytes) : Res (RMCP × Bool) :=
  match old.decodeFromBytes { vis := data, tail := foreign } with
  | .ok o => if o.err then .err "rmcp" else .ok (o.layer, o.trunc)
  | .err k => .err k
  | .panic k => .panic k

/-- rmcp.go:106 CanDecode. -/
def RMCP.canDecode : Nat := LayerTypeRMCP
/-- rmcp.go:131 NextLayerType = `r.Class.LayerType()` (may panic for a hand-built Class ≥ 16). -/
def RMCP.nextLayerType (l : RMCP) : Res Nat := rmcpClassLayerType l.cls
/-- base.go LayerPayload / rmcp.go:136 Payload(). -/
def RMCP.layerPayload (l : RMCP) : Bytes := l.payload

/-! ## ASF -/

/-- layers.ASF: BaseLayer, ASFDataIdentifier{Enterprise uint32, Type uint8}, Tag, Length (uint8). -/
structure ASF where
  contents   : Bytes
  payload    : Bytes
  enterprise : Nat
  typ        : Nat
  tag        : Nat
  length     : Nat
  deriving Repr, DecidableEq

def ASF.fresh : ASF := { contents := [], payload := [], enterprise := 0, typ := 0, tag := 0, length := 0 }

/-- asf.go:119-135 `(*ASF).DecodeFromBytes`.  NOTE: the Length field is stored but not used: the
    payload is everything behind the 8-byte header. -/
def ASF.decodeFromBytes (old : ASF) (data : GSlice) : Res (DecOut ASF) :=
  if data.len < 8 then
    .ok { layer := old, trunc := true, err := true }             -- df.SetTruncated(); "invalid ASF data header, length …"
  else do
    let c ← data.slice 0 8
    let l := { old with contents := c.vis }                       -- a.BaseLayer.Contents = data[:8]
    let p ← data.sliceFrom 8
    let l := { l with payload := p.vis }                          -- a.BaseLayer.Payload = data[8:]
    let s ← data.slice 0 4
    let v ← uint32be s
    let l := { l with enterprise := v }                           -- a.Enterprise = BigEndian.Uint32(data[:4])
    let b ← data.index 4
    let l := { l with typ := b.toNat }                            -- a.Type = uint8(data[4])
    let b ← data.index 5
    let l := { l with tag := b.toNat }                            -- a.Tag = uint8(data[5])
    let b ← data.index 7
    let l := { l with length := b.toNat }                         -- a.Length = uint8(data[7])
    pure { layer := l, trunc := false, err := false }

def decodeAsfView (old : ASF) (data : Bytes) (foreign : Bytes) : Res (ASF × Bool) :=
  match old.decodeFromBytes { vis := data, tail := foreign } with
  | .ok o => if o.err then .err "asf" else .ok (o.layer, o.trunc)
  | .err k => .err k
  | .panic k => .panic k

def ASF.canDecode : Nat := LayerTypeASF
/-- asf.go:139 NextLayerType = `a.ASFDataIdentifier.LayerType()`. -/
def ASF.nextLayerType (l : ASF) : Nat := asfDataLayerType l.enterprise l.typ
def ASF.layerPayload (l : ASF) : Bytes := l.payload

/-! ## AGUEVar0 -/

/-- layers.AGUEVar0 (no BaseLayer): Version uint8, C bool, Protocol IPProtocol (uint8), Flags uint16,
    Extensions, Data []byte. -/
structure AGUE where
  version    : Nat
  c          : Bool
  protocol   : Nat
  flags      : Nat
  extensions : Bytes
  data       : Bytes
  deriving Repr, DecidableEq

def AGUE.fresh : AGUE := { version := 0, c := false, protocol := 0, flags := 0, extensions := [], data := [] }

/-- ague_var0.go:77-93 `(*AGUEVar0).DecodeFromBytes` (with fix all-2: the two length checks).  Neither
    error path calls SetTruncated (the DecodeFeedback parameter is `_`).  `4+hlen` is uint8 arithmetic
    (hlen ≤ 31: no wrap). -/
def AGUE.decodeFromBytes (old : AGUE) (data : GSlice) : Res (DecOut AGUE) :=
  if data.len < 4 then
    .ok { layer := old, trunc := false, err := true }            -- "AGUEVar0 packet too small"
  else do
    let b ← data.index 0
    if data.len < 4 + (b.toNat &&& 0x1f) then
      pure { layer := old, trunc := false, err := true }          -- "AGUEVar0 packet too small for its extensions"
    else do
      let b ← data.index 0
      let l := { old with version := b.toNat >>> 6 }              -- l.Version = data[0] >> 6
      let b ← data.index 0
      let l := { l with c := (b.toNat &&& 0x20 != 0) }            -- l.C = data[0]&0x20 != 0
      let b ← data.index 1
      let l := { l with protocol := b.toNat }                     -- l.Protocol = IPProtocol(data[1])
      let b2 ← data.index 2
      let b3 ← data.index 3
      let l := { l with flags := ((b2.toNat <<< 8) % 65536) ||| b3.toNat }   -- l.Flags = (uint16(data[2]) << 8) | uint16(data[3])
      let b ← data.index 0
      let hlen := b.toNat &&& 0x1f                                -- hlen := data[0] & 0x1f
      let e ← data.slice 4 ((4 + hlen) % 256)
      let l := { l with extensions := e.vis }                     -- l.Extensions = data[4 : 4+hlen]
      let d ← data.sliceFrom ((4 + hlen) % 256)
      let l := { l with data := d.vis }                           -- l.Data = data[4+hlen:]
      pure { layer := l, trunc := false, err := false }

def decodeAgueView (old : AGUE) (data : Bytes) (foreign : Bytes) : Res (AGUE × Bool) :=
  match old.decodeFromBytes { vis := data, tail := foreign } with
  | .ok o => if o.err then .err "ague" else .ok (o.layer, o.trunc)
  | .err k => .err k
  | .panic k => .panic k

def AGUE.canDecode : Nat := LayerTypeAGUEVar0
/-- ague_var0.go:96 NextLayerType = `l.Protocol.LayerType()`. -/
def AGUE.nextLayerType (l : AGUE) : Nat := ipProtoLayerType l.protocol
/-- ague_var0.go:55 LayerPayload = l.Data. -/
def AGUE.layerPayload (l : AGUE) : Bytes := l.data

/-- ague_var0.go:38-52 `AGUEVar0.LayerContents()`: a fresh 4-byte array, all uint8 arithmetic
    (`hlen := uint8(len(l.Extensions))`, `l.Version<<6` drops the high bits), then the extensions. -/
def AGUE.layerContents (l : AGUE) : Bytes :=
  let hlen := l.extensions.length % 256                          -- hlen := uint8(len(l.Extensions))
  let b0 := ((l.version <<< 6) % 256) ||| hlen                    -- b[0] = l.Version<<6 | hlen
  let b0 := if l.c then b0 ||| 0x20 else b0                       -- if l.C { b[0] |= 0x20 }
  let b0 := b0 ||| hlen                                           -- b[0] |= hlen
  [u8 b0, u8 l.protocol, u8 (l.flags >>> 8), u8 (l.flags &&& 0xff)] ++ l.extensions

/-! ## The decoder functions registered for NewPacket, as behaviour descriptions -/

/-- A call on the PacketBuilder. -/
inductive Act where
  | setTruncated
  | addLayer (t : Nat)
  | setApplicationLayer
  deriving Repr, DecidableEq

/-- How a decoder function ends. -/
inductive Tail where
  | done                          -- return nil
  | fail                          -- return err
  | nextLayerType (t : Nat)       -- return p.NextDecoder(LayerType(t))
  | agueVar1                      -- return decodeAGUEVar1(data, p)   (ague_var1.go, not this engine)
  deriving Repr, DecidableEq

structure Beh where
  acts : List Act
  tail : Tail
  deriving Repr, DecidableEq

/-- base.go:39-50 `decodingLayerDecoder(d, data, p)` after `d.DecodeFromBytes(data, p)` returned `o`
    for a layer of type `typ` whose NextLayerType is `next`: no Set*Layer call is made. -/
def decodingLayerDecoder {L : Type} (o : DecOut L) (typ next : Nat) : Beh × Option L :=
  let tr := if o.trunc then [Act.setTruncated] else []
  if o.err then ({ acts := tr, tail := .fail }, none)
  else if next = LayerTypeZero then ({ acts := tr ++ [.addLayer typ], tail := .done }, some o.layer)
  else ({ acts := tr ++ [.addLayer typ], tail := .nextLayerType next }, some o.layer)

/-- rmcp.go:162-171 `decodeRMCP`: `rmcp := &RMCP{}; err := rmcp.DecodeFromBytes(data, p); p.AddLayer(rmcp);
    p.SetApplicationLayer(rmcp); if err != nil { return err }; return p.NextDecoder(rmcp.NextLayerType())`.
    NOTE: the layer is added (and made the application layer) BEFORE the error is looked at: a too-short
    input yields a packet with an all-zero RMCP layer followed by the DecodeFailure layer. -/
def decodeRMCPFn (data : GSlice) : Res (Beh × Option RMCP) := do
  let o ← RMCP.fresh.decodeFromBytes data
  let tr := if o.trunc then [Act.setTruncated] else []
  let acts := tr ++ [.addLayer LayerTypeRMCP, .setApplicationLayer]
  if o.err then pure ({ acts := acts, tail := .fail }, some o.layer)
  else do
    let next ← o.layer.nextLayerType
    pure ({ acts := acts, tail := .nextLayerType next }, some o.layer)

/-- asf.go:162-164 `decodeASF` = `decodingLayerDecoder(&ASF{}, data, p)`. -/
def decodeASFFn (data : GSlice) : Res (Beh × Option ASF) := do
  let o ← ASF.fresh.decodeFromBytes data
  pure (decodingLayerDecoder o LayerTypeASF o.layer.nextLayerType)

/-- ague_var0.go:104-117 `decodeAGUE`: empty input is an error; variant 1 (`data[0]>>6 == 1`) is handed
    to decodeAGUEVar1; otherwise a fresh AGUEVar0 is decoded with gopacket.NilDecodeFeedback, added BY
    VALUE, and the next decoder is `l.Protocol.LayerType()` (LayerTypeZero for an unknown protocol: then
    NextDecoder fails). -/
def decodeAGUEFn (data : GSlice) : Res (Beh × Option AGUE) :=
  if data.len = 0 then .ok ({ acts := [], tail := .fail }, none)  -- "decodeAGUE() failed, no data"
  else do
    let b ← data.index 0
    if b.toNat >>> 6 = 1 then pure ({ acts := [], tail := .agueVar1 }, none)
    else do
      let o ← AGUE.fresh.decodeFromBytes data
      if o.err then pure ({ acts := [], tail := .fail }, none)
      else pure ({ acts := [.addLayer LayerTypeAGUEVar0], tail := .nextLayerType o.layer.nextLayerType }, some o.layer)

/-! ## Serialization, written over the C18 buffer model -/

/-- `w[:k]` on a slice handed out by the buffer (the bound Go checks is the capacity, which is at least
    the length: requiring `k ≤ len` can only add panics). -/
def winTo (w : Win) (k : Nat) : Res Win :=
  if k ≤ w.n then .ok { gen := w.gen, off := w.off, n := k } else .panic .slice

/-- Go `copy(w, src)`: copies `min(len(w), len(src))` bytes, never panics. -/
def copyTo (b : SBuf) (w : Win) (src : Bytes) : SBuf := fill b w (src.take w.n)

/-- `binary.BigEndian.PutUint32(w, v)`: `_ = b[3]` then four stores. -/
def putUint32be (b : SBuf) (w : Win) (v : Nat) : Res SBuf :=
  if w.n < 4 then .panic .index else .ok (fill b w (putBe32 v))

/-- What one SerializeTo call did: the buffer and the receiver afterwards (SerializeTo mutates the
    layer under FixLengths), and whether it returned a non-nil error. -/
structure SerOut (L : Type) where
  buf   : SBuf
  layer : L
  err   : Bool
  deriving Repr, DecidableEq

/-- utils / bfd.go `bool2uint8`. -/
def bool2uint8 (b : Bool) : Nat := if b then 1 else 0

/-- rmcp.go:141-157 `(*RMCP).SerializeTo`: four stores; the options are ignored.
    `bool2uint8(r.Ack)<<7 | uint8(r.Class)`: a Class ≥ 16 spills into the reserved bits, ≥ 128 into the
    Ack bit (nothing is masked). -/
def RMCP.serializeTo (l : RMCP) (b : SBuf) (_fix _csum : Bool) : Res (SerOut RMCP) := do
  let (b, bytes) := prepend b 4                                 -- bytes, err := b.PrependBytes(4)
  let b ← write b bytes 0 (u8 l.version)                        -- bytes[0] = r.Version
  let b ← write b bytes 1 0                                     -- bytes[1] = 0x00
  let b ← write b bytes 2 (u8 l.sequence)                       -- bytes[2] = r.Sequence
  let b ← write b bytes 3 (u8 (((bool2uint8 l.ack <<< 7) % 256) ||| (l.cls % 256)))
                                                                -- bytes[3] = bool2uint8(r.Ack)<<7 | uint8(r.Class)
  pure { buf := b, layer := l, err := false }

/-- View asked for by the brief: `.err` when SerializeTo returned an error. -/
def serializeRmcp (l : RMCP) (b : SBuf) (fix csum : Bool) : Res (SBuf × RMCP) :=
  match l.serializeTo b fix csum with
  | .ok o => if o.err then .err "rmcp" else .ok (o.buf, o.layer)
  | .err k => .err k
  | .panic k => .panic k

/-- asf.go:144-159 `(*ASF).SerializeTo`: `payload := b.Bytes()` is taken BEFORE PrependBytes;
    FixLengths stores `uint8(len(payload))` in the receiver (silently wrapping at 256). -/
def ASF.serializeTo (l : ASF) (b : SBuf) (fix _csum : Bool) : Res (SerOut ASF) := do
  let payload := SBuf.contents b                                -- payload := b.Bytes()
  let (b, bytes) := prepend b 8                                 -- bytes, err := b.PrependBytes(8)
  let w ← winTo bytes 4
  let b ← putUint32be b w l.enterprise                          -- PutUint32(bytes[:4], a.Enterprise)
  let b ← write b bytes 4 (u8 l.typ)                            -- bytes[4] = uint8(a.Type)
  let b ← write b bytes 5 (u8 l.tag)                            -- bytes[5] = a.Tag
  let b ← write b bytes 6 0                                     -- bytes[6] = 0x00
  let l := if fix then { l with length := payload.length % 256 } else l
                                                                -- if opts.FixLengths { a.Length = uint8(len(payload)) }
  let b ← write b bytes 7 (u8 l.length)                         -- bytes[7] = a.Length
  pure { buf := b, layer := l, err := false }

def serializeAsf (l : ASF) (b : SBuf) (fix csum : Bool) : Res (SBuf × ASF) :=
  match l.serializeTo b fix csum with
  | .ok o => if o.err then .err "asf" else .ok (o.buf, o.layer)
  | .err k => .err k
  | .panic k => .panic k

/-- ague_var0.go:60-68 `AGUEVar0.SerializeTo` (value receiver: nothing can be mutated):
    `b := l.LayerContents(); writeTo, err := buf.PrependBytes(len(b)); copy(writeTo, b)`. -/
def AGUE.serializeTo (l : AGUE) (b : SBuf) (_fix _csum : Bool) : Res (SerOut AGUE) :=
  let c := l.layerContents                                      -- b := l.LayerContents()
  let (b, writeTo) := prepend b c.length                        -- writeTo, err := buf.PrependBytes(len(b))
  .ok { buf := copyTo b writeTo c, layer := l, err := false }   -- copy(writeTo, b)

def serializeAgue (l : AGUE) (b : SBuf) (fix csum : Bool) : Res (SBuf × AGUE) :=
  match l.serializeTo b fix csum with
  | .ok o => if o.err then .err "ague" else .ok (o.buf, o.layer)
  | .err k => .err k
  | .panic k => .panic k

/-- gopacket.Payload.SerializeTo: PrependBytes(len(p)); copy. -/
def serializePayload (p : Bytes) (b : SBuf) : SBuf :=
  let (b, w) := prepend b p.length
  copyTo b w p

/-! ## DecodingLayerParser over {RMCP, ASF, AGUEVar0} (layers_decoder.go loop) -/

structure DlpState where
  rmcp    : RMCP
  asf     : ASF
  ague    : AGUE
  decoded : List Nat
  trunc   : Bool
  deriving Repr, DecidableEq

/-- One run of the LayersDecoder loop followed by the tail of DecodeLayers.  `typ` is the type about
    to be decoded.  Result code: 0 = `nil`, 1 = the error of a DecodeFromBytes, 2 =
    `UnsupportedLayerType(typ)` (next type outside the set and ≠ LayerTypeZero).
    Every iteration consumes at least 4 bytes: `fuel = |data| + 1` suffices. -/
def dlpLoop : Nat → DlpState → Nat → GSlice → Res (DlpState × Nat)
  | 0, st, _, _ => .ok (st, 0)
  | fuel + 1, st, typ, data =>
    if typ = LayerTypeRMCP then
      match st.rmcp.decodeFromBytes data with
      | .panic k => .panic k
      | .err k => .err k
      | .ok o =>
        let st := { st with rmcp := o.layer, trunc := st.trunc || o.trunc }
        if o.err then .ok (st, 1) else
        let st := { st with decoded := st.decoded ++ [typ] }
        match o.layer.nextLayerType with                        -- typ = decoder.NextLayerType()
        | .panic k => .panic k
        | .err k => .err k
        | .ok next =>
          let rest : GSlice := { vis := o.layer.payload, tail := data.tail }
          if rest.len = 0 then .ok (st, 0) else dlpLoop fuel st next rest
    else if typ = LayerTypeASF then
      match st.asf.decodeFromBytes data with
      | .panic k => .panic k
      | .err k => .err k
      | .ok o =>
        let st := { st with asf := o.layer, trunc := st.trunc || o.trunc }
        if o.err then .ok (st, 1) else
        let st := { st with decoded := st.decoded ++ [typ] }
        let rest : GSlice := { vis := o.layer.payload, tail := data.tail }
        if rest.len = 0 then .ok (st, 0) else dlpLoop fuel st o.layer.nextLayerType rest
    else if typ = LayerTypeAGUEVar0 then
      match st.ague.decodeFromBytes data with
      | .panic k => .panic k
      | .err k => .err k
      | .ok o =>
        let st := { st with ague := o.layer, trunc := st.trunc || o.trunc }
        if o.err then .ok (st, 1) else
        let st := { st with decoded := st.decoded ++ [typ] }
        let rest : GSlice := { vis := o.layer.layerPayload, tail := data.tail }
        if rest.len = 0 then .ok (st, 0) else dlpLoop fuel st o.layer.nextLayerType rest
    else if typ = LayerTypeZero then .ok (st, 0) else .ok (st, 2)

/-- parser.go DecodeLayers: Truncated := false, decoded := decoded[:0], run the loop from `first`. -/
def dlpDecodeLayers (r : RMCP) (a : ASF) (g : AGUE) (first : Nat) (data : GSlice) :
    Res (DlpState × Nat) :=
  dlpLoop (data.len + 1) { rmcp := r, asf := a, ague := g, decoded := [], trunc := false } first data

end Gp.Rmcp
