import Gp.Go.Basic
import Gp.Model.SBuf
import Gp.Gen.Eap
/-
  Model of /repo/layers/eap.go and /repo/layers/eapol.go (engine `leap`):

    EAP.DecodeFromBytes,      SerializeTo, CanDecode, NextLayerType, decodeEAP
    EAPOL.DecodeFromBytes,    SerializeTo, CanDecode, NextLayerType, decodeEAPOL
    EAPOLKey.DecodeFromBytes, SerializeTo, CanDecode, NextLayerType, decodeEAPOLKey
    + EAPOLType.LayerType (enums_generated.go over the table filled in enums.go),
      decodingLayerDecoder (base.go), and the DecodingLayerParser loop (layers_decoder.go /
      parser.go) restricted to {EAPOL, EAP} (`*EAPOLKey` does not implement gopacket.DecodingLayer:
      its CanDecode returns a LayerType, not a LayerClass).

  The model is the code WITH the patches proposed_fixes/leap-1 … leap-4.  The code before each patch
  is kept as a parameter of the same definitions (`bounded := false`, `resetKd := false`,
  `zeroPad := false`) and as `EAP.serializeToPreFix`, only to state the `prefix_…_counterexample`
  theorems.

  Conventions (DESIGN §3): a Go panic is `Res.panic`; a Go `[]byte` is its visible bytes plus the
  *foreign* bytes between len and cap (`GSlice`): `s[a:b]` panics iff ¬(a ≤ b ∧ b ≤ cap), `s[i]`
  panics iff i ≥ len.  Sized integers are `Nat` with an explicit `%` wherever Go truncates.
  A Go `error` return is a *value* (`err := true`) so that what the call did to the receiver and
  to the DecodeFeedback/SerializeBuffer before returning the error stays visible (EAP's second and
  third error returns and EAPOLKey's second one happen after fields were overwritten).
  Every assignment of the Go source appears, in source order.  Core Lean only.
-/
namespace Gp.Eap
open Gp Gp.SBuf Gp.Gen.Eap

/-! ## Go slices with capacity -/

/-- A Go `[]byte`: `vis` = the `len` visible bytes, `tail` = the bytes of the backing array between
    `len` and `cap` (cap = len on the copying decode path; larger under NoCopy / Pool, where the
    tail is whatever the caller's buffer / the pool block holds there). -/
structure GSlice where
  vis  : Bytes
  tail : Bytes
  deriving Repr, DecidableEq

namespace GSlice
def len (s : GSlice) : Nat := s.vis.length
def cap (s : GSlice) : Nat := s.vis.length + s.tail.length
/-- Go `s[a:b]`: the upper bound is checked against the CAPACITY. -/
def slice (s : GSlice) (a b : Nat) : Res GSlice :=
  if a ≤ b ∧ b ≤ s.cap then
    .ok { vis := ((s.vis ++ s.tail).drop a).take (b - a), tail := (s.vis ++ s.tail).drop b }
  else .panic .slice
/-- Go `s[a:]` (= `s[a:len(s)]`): panics iff a > len. -/
def sliceFrom (s : GSlice) (a : Nat) : Res GSlice :=
  if a ≤ s.len then .ok { vis := s.vis.drop a, tail := s.tail } else .panic .slice
/-- Go `s[i]`: the bound is the LENGTH. -/
def index (s : GSlice) (i : Nat) : Res UInt8 := Gp.index s.vis i
end GSlice

/-- encoding/binary `BigEndian.Uint16(b)`: `_ = b[1]` (early bounds check), then b[0]<<8 | b[1]. -/
def uint16 (s : GSlice) : Res Nat := do
  let b1 ← s.index 1
  let b0 ← s.index 0
  pure (be16 b0 b1)

/-- Eight bytes, big-endian. -/
def be64 (b0 b1 b2 b3 b4 b5 b6 b7 : UInt8) : Nat := be32 b0 b1 b2 b3 * 4294967296 + be32 b4 b5 b6 b7

/-- `BigEndian.Uint64(b)`: `_ = b[7]`, then b[7] | b[6]<<8 | … | b[0]<<56. -/
def uint64be (s : GSlice) : Res Nat := do
  let b7 ← s.index 7
  let b6 ← s.index 6
  let b5 ← s.index 5
  let b4 ← s.index 4
  let b3 ← s.index 3
  let b2 ← s.index 2
  let b1 ← s.index 1
  let b0 ← s.index 0
  pure (be64 b0 b1 b2 b3 b4 b5 b6 b7)

/-- The eight bytes `BigEndian.PutUint64` stores (the value is taken mod 2^64 byte by byte). -/
def putBe64 (n : Nat) : Bytes := putBe32 (n / 4294967296) ++ putBe32 n

/-! ## Layer-type numbers (layertypes.go RegisterLayerType ids) and the EAPOLType table -/

def LayerTypeZero : Nat := 0
def LayerTypePayload : Nat := 2
def LayerTypeEAP : Nat := 55
def LayerTypeEAPOL : Nat := 56
def LayerTypeDot11InformationElement : Nat := 82
def LayerTypeEAPOLKey : Nat := 130

/-- enums.go `initActualTypeData`: the rows of `EAPOLTypeMetadata` (EAPOLType ↦ LayerType); every
    other of the 256 entries has `DecodeWith == nil`.  The keys are the GENERATED constants; the
    layer-type ids and the set of rows are tied by the exhaustive 256-entry correspondence op
    `leap nlttab`. -/
def eapolTable : List (Nat × Nat) :=
  [ (eapolTypeEAP, LayerTypeEAP), (eapolTypeKey, LayerTypeEAPOLKey) ]

/-- `EAPOLTypeMetadata[a].DecodeWith != nil`. -/
def eapolKnown (a : Nat) : Bool := (eapolTable.lookup a).isSome

/-- enums_generated.go `EAPOLType.LayerType()`: the table entry, 0 when there is no decoder. -/
def eapolLayerType (a : Nat) : Nat := (eapolTable.lookup a).getD LayerTypeZero

/-- What one DecodeFromBytes call did: the receiver afterwards, whether it called
    `df.SetTruncated()`, and whether it returned a non-nil error. -/
structure DecOut (L : Type) where
  layer : L
  trunc : Bool
  err   : Bool
  deriving Repr, DecidableEq

/-! ## EAP -/

/-- layers.EAP: BaseLayer{Contents, Payload}, Code (EAPCode, uint8), Id (uint8), Length (uint16),
    Type (EAPType, uint8), TypeData ([]byte; nil and empty are not distinguished). -/
structure EAP where
  contents : Bytes
  payload  : Bytes
  code     : Nat
  id       : Nat
  length   : Nat
  typ      : Nat
  typeData : Bytes
  deriving Repr, DecidableEq

/-- `&EAP{}`. -/
def EAP.fresh : EAP :=
  { contents := [], payload := [], code := 0, id := 0, length := 0, typ := 0, typeData := [] }

/-- eap.go `(*EAP).DecodeFromBytes`, statement by statement.  `old` is the receiver before the call.
    `bounded = true` is the code with patch leap-2 (`e.TypeData = data[5:e.Length]`), `false` the
    code before it (`e.TypeData = data[5:]`: TypeData ran to the end of the input, over the bytes that
    are also returned as Payload).
    NOTE the second and third error returns: Code, Id and Length are already assigned. -/
def EAP.decodeWith (bounded : Bool) (old : EAP) (data : GSlice) : Res (DecOut EAP) :=
  if data.len < 4 then
    .ok { layer := old, trunc := true, err := true }            -- df.SetTruncated(); "EAP length … too short"
  else do
    let b ← data.index 0
    let l := { old with code := b.toNat }                         -- e.Code = EAPCode(data[0])
    let b ← data.index 1
    let l := { l with id := b.toNat }                             -- e.Id = data[1]
    let s ← data.slice 2 4
    let v ← uint16 s
    let l := { l with length := v }                               -- e.Length = …Uint16(data[2:4])
    if data.len < l.length then
      pure { layer := l, trunc := true, err := true }             -- df.SetTruncated(); "EAP length … too short, … expected"
    else do
      let r ← (if l.length > 4 then do                            -- case e.Length > 4:
                  let b ← data.index 4
                  let l := { l with typ := b.toNat }              --   e.Type = EAPType(data[4])
                  let s ← (if bounded then data.slice 5 l.length else data.sliceFrom 5)
                  pure (some { l with typeData := s.vis })        --   e.TypeData = data[5:e.Length]
                else if l.length = 4 then                         -- case e.Length == 4:
                  pure (some { l with typ := 0, typeData := [] }) --   e.Type = 0; e.TypeData = nil
                else pure none : Res (Option EAP))                -- default: return "invalid EAP length"
      match r with
      | none => pure { layer := l, trunc := false, err := true }
      | some l => do
        let c ← data.slice 0 l.length
        let l := { l with contents := c.vis }                     -- e.BaseLayer.Contents = data[:e.Length]
        let p ← data.sliceFrom l.length
        let l := { l with payload := p.vis }                      -- e.BaseLayer.Payload = data[e.Length:]
        pure { layer := l, trunc := false, err := false }

def EAP.decodeFromBytes (old : EAP) (data : GSlice) : Res (DecOut EAP) := EAP.decodeWith true old data

/-- The decoder before patch leap-2. -/
def EAP.decodeFromBytesPreFix (old : EAP) (data : GSlice) : Res (DecOut EAP) := EAP.decodeWith false old data

/-- The view asked for by the engine brief: success carries the layer and its truncation
    contribution; an error return is `.err`.  `cap = |data| + |foreign|`. -/
def decodeEap (old : EAP) (data : Bytes) (foreign : Bytes) : Res (EAP × Bool) :=
  match old.decodeFromBytes { vis := data, tail := foreign } with
  | .ok o => if o.err then .err "eap" else .ok (o.layer, o.trunc)
  | .err k => .err k
  | .panic k => .panic k

/-- eap.go CanDecode. -/
def EAP.canDecode : Nat := LayerTypeEAP
/-- eap.go NextLayerType = gopacket.LayerTypeZero. -/
def EAP.nextLayerType (_ : EAP) : Nat := LayerTypeZero
/-- base.go LayerPayload. -/
def EAP.layerPayload (l : EAP) : Bytes := l.payload

/-! ## EAPOL -/

/-- layers.EAPOL: BaseLayer, Version (uint8), Type (EAPOLType, uint8), Length (uint16). -/
structure EAPOL where
  contents : Bytes
  payload  : Bytes
  version  : Nat
  typ      : Nat
  length   : Nat
  deriving Repr, DecidableEq

def EAPOL.fresh : EAPOL := { contents := [], payload := [], version := 0, typ := 0, length := 0 }

/-- eapol.go `(*EAPOL).DecodeFromBytes`.  The Length field is stored, never used: the payload is
    everything behind the four header bytes. -/
def EAPOL.decodeFromBytes (old : EAPOL) (data : GSlice) : Res (DecOut EAPOL) :=
  if data.len < 4 then
    .ok { layer := old, trunc := true, err := true }            -- df.SetTruncated(); "EAPOL length … too short"
  else do
    let b ← data.index 0
    let l := { old with version := b.toNat }                      -- e.Version = data[0]
    let b ← data.index 1
    let l := { l with typ := b.toNat }                            -- e.Type = EAPOLType(data[1])
    let s ← data.slice 2 4
    let v ← uint16 s
    let l := { l with length := v }                               -- e.Length = …Uint16(data[2:4])
    let c ← data.slice 0 4
    let p ← data.sliceFrom 4
    let l := { l with contents := c.vis, payload := p.vis }       -- e.BaseLayer = BaseLayer{data[:4], data[4:]}
    pure { layer := l, trunc := false, err := false }

def decodeEapolView (old : EAPOL) (data : Bytes) (foreign : Bytes) : Res (EAPOL × Bool) :=
  match old.decodeFromBytes { vis := data, tail := foreign } with
  | .ok o => if o.err then .err "eapol" else .ok (o.layer, o.trunc)
  | .err k => .err k
  | .panic k => .panic k

def EAPOL.canDecode : Nat := LayerTypeEAPOL
/-- eapol.go NextLayerType = `e.Type.LayerType()`. -/
def EAPOL.nextLayerType (l : EAPOL) : Nat := eapolLayerType l.typ
def EAPOL.layerPayload (l : EAPOL) : Bytes := l.payload

/-! ## EAPOL-Key -/

/-- layers.EAPOLKey: BaseLayer, KeyDescriptorType / KeyDescriptorVersion / KeyType / KeyIndex (uint8),
    eight flags, KeyLength (uint16), ReplayCounter (uint64), Nonce, IV, RSC / ID (uint64), MIC,
    KeyDataLength (uint16), EncryptedKeyData. -/
structure EAPOLKey where
  contents             : Bytes
  payload              : Bytes
  keyDescriptorType    : Nat
  keyDescriptorVersion : Nat
  keyType              : Nat
  keyIndex             : Nat
  install              : Bool
  keyACK               : Bool
  keyMIC               : Bool
  secure               : Bool
  micError             : Bool
  request              : Bool
  hasEncryptedKeyData  : Bool
  smkMessage           : Bool
  keyLength            : Nat
  replayCounter        : Nat
  nonce                : Bytes
  iv                   : Bytes
  rsc                  : Nat
  id                   : Nat
  mic                  : Bytes
  keyDataLength        : Nat
  encryptedKeyData     : Bytes
  deriving Repr, DecidableEq

def EAPOLKey.fresh : EAPOLKey :=
  { contents := [], payload := [], keyDescriptorType := 0, keyDescriptorVersion := 0, keyType := 0,
    keyIndex := 0, install := false, keyACK := false, keyMIC := false, secure := false,
    micError := false, request := false, hasEncryptedKeyData := false, smkMessage := false,
    keyLength := 0, replayCounter := 0, nonce := [], iv := [], rsc := 0, id := 0, mic := [],
    keyDataLength := 0, encryptedKeyData := [] }

/-- eapol.go:193-204: the twelve assignments from the key-information word. -/
def keyInfoFields (l : EAPOLKey) (info : Nat) : EAPOLKey :=
  { l with
    keyDescriptorVersion := info &&& 0x0007,                       -- EAPOLKeyDescriptorVersion(info & 0x0007)
    keyType := (info &&& 0x0008) >>> 3,                            -- EAPOLKeyType((info & 0x0008) >> 3)
    keyIndex := (info &&& 0x0030) >>> 4,                           -- uint8((info & 0x0030) >> 4)
    install := (info &&& 0x0040) != 0,
    keyACK := (info &&& 0x0080) != 0,
    keyMIC := (info &&& 0x0100) != 0,
    secure := (info &&& 0x0200) != 0,
    micError := (info &&& 0x0400) != 0,
    request := (info &&& 0x0800) != 0,
    hasEncryptedKeyData := (info &&& 0x1000) != 0,
    smkMessage := (info &&& 0x2000) != 0 }

/-- eapol.go `(*EAPOLKey).DecodeFromBytes`.  `resetKd = true` is the code with patch leap-3
    (`ek.EncryptedKeyData = nil` on the branch without encrypted key data), `false` the code before
    it (the field was assigned only when the HasEncryptedKeyData bit is set, so a re-used object kept
    the key data of an earlier packet).
    NOTE the second error return: every field up to KeyDataLength is already assigned. -/
def EAPOLKey.decodeWith (resetKd : Bool) (old : EAPOLKey) (data : GSlice) : Res (DecOut EAPOLKey) :=
  if data.len < eapolKeyFrameLen then
    .ok { layer := old, trunc := true, err := true }            -- df.SetTruncated(); "EAPOLKey length … too short"
  else do
    let b ← data.index 0
    let l := { old with keyDescriptorType := b.toNat }            -- ek.KeyDescriptorType = …(data[0])
    let s ← data.slice 1 3
    let info ← uint16 s                                           -- info := …Uint16(data[1:3])
    let l := keyInfoFields l info
    let s ← data.slice 3 5
    let v ← uint16 s
    let l := { l with keyLength := v }                            -- ek.KeyLength = …Uint16(data[3:5])
    let s ← data.slice 5 13
    let v ← uint64be s
    let l := { l with replayCounter := v }                        -- ek.ReplayCounter = …Uint64(data[5:13])
    let s ← data.slice 13 45
    let l := { l with nonce := s.vis }                            -- ek.Nonce = data[13:45]
    let s ← data.slice 45 61
    let l := { l with iv := s.vis }                               -- ek.IV = data[45:61]
    let s ← data.slice 61 69
    let v ← uint64be s
    let l := { l with rsc := v }                                  -- ek.RSC = …Uint64(data[61:69])
    let s ← data.slice 69 77
    let v ← uint64be s
    let l := { l with id := v }                                   -- ek.ID = …Uint64(data[69:77])
    let s ← data.slice 77 93
    let l := { l with mic := s.vis }                              -- ek.MIC = data[77:93]
    let s ← data.slice 93 95
    let v ← uint16 s
    let l := { l with keyDataLength := v }                        -- ek.KeyDataLength = …Uint16(data[93:95])
    let totalLength := eapolKeyFrameLen + l.keyDataLength         -- totalLength := eapolKeyFrameLen + int(ek.KeyDataLength)
    if data.len < totalLength then
      pure { layer := l, trunc := true, err := true }             -- df.SetTruncated(); "EAPOLKey data length … too short"
    else if l.hasEncryptedKeyData then do
      let s ← data.slice eapolKeyFrameLen totalLength
      let l := { l with encryptedKeyData := s.vis }               -- ek.EncryptedKeyData = data[eapolKeyFrameLen:totalLength]
      let c ← data.slice 0 totalLength
      let p ← data.sliceFrom totalLength
      let l := { l with contents := c.vis, payload := p.vis }     -- ek.BaseLayer = BaseLayer{data[:totalLength], data[totalLength:]}
      pure { layer := l, trunc := false, err := false }
    else do
      let l := if resetKd then { l with encryptedKeyData := [] } else l   -- ek.EncryptedKeyData = nil   (leap-3)
      let c ← data.slice 0 eapolKeyFrameLen
      let p ← data.sliceFrom eapolKeyFrameLen
      let l := { l with contents := c.vis, payload := p.vis }     -- ek.BaseLayer = BaseLayer{data[:95], data[95:]}
      pure { layer := l, trunc := false, err := false }

def EAPOLKey.decodeFromBytes (old : EAPOLKey) (data : GSlice) : Res (DecOut EAPOLKey) :=
  EAPOLKey.decodeWith true old data

/-- The decoder before patch leap-3. -/
def EAPOLKey.decodeFromBytesPreFix (old : EAPOLKey) (data : GSlice) : Res (DecOut EAPOLKey) :=
  EAPOLKey.decodeWith false old data

def decodeEapolKeyView (old : EAPOLKey) (data : Bytes) (foreign : Bytes) : Res (EAPOLKey × Bool) :=
  match old.decodeFromBytes { vis := data, tail := foreign } with
  | .ok o => if o.err then .err "eapolkey" else .ok (o.layer, o.trunc)
  | .err k => .err k
  | .panic k => .panic k

/-- eapol.go CanDecode (returns a LayerType — which is why `*EAPOLKey` is no gopacket.DecodingLayer). -/
def EAPOLKey.canDecode : Nat := LayerTypeEAPOLKey
/-- eapol.go NextLayerType: Dot11InformationElement when the key data exists and is unencrypted. -/
def EAPOLKey.nextLayerType (l : EAPOLKey) : Nat :=
  if !l.hasEncryptedKeyData ∧ l.keyDataLength > 0 then LayerTypeDot11InformationElement else LayerTypePayload
def EAPOLKey.layerPayload (l : EAPOLKey) : Bytes := l.payload

/-! ## The decoder functions registered for NewPacket, as behaviour descriptions -/

/-- A call on the PacketBuilder. -/
inductive Act where
  | setTruncated
  | addLayer (t : Nat)
  deriving Repr, DecidableEq

/-- How a decoder function ends. -/
inductive Tail where
  | done                          -- return nil
  | fail                          -- return err
  | nextLayerType (t : Nat)       -- return p.NextDecoder(LayerType(t))
  deriving Repr, DecidableEq

structure Beh where
  acts : List Act
  tail : Tail
  deriving Repr, DecidableEq

/-- base.go:39-50 `decodingLayerDecoder(d, data, p)` after `d.DecodeFromBytes(data, p)` returned `o`
    for a layer of type `typ` whose NextLayerType is `next`: no Set*Layer call is made. -/
def decodingLayerDecoder {L : Type} (o : DecOut L) (typ next : Nat) : Beh × Option L :=
  let tr := if o.trunc then [Act.setTruncated] else []
  if o.err then ({ acts := tr, tail := .fail }, none)
  else if next = LayerTypeZero then ({ acts := tr ++ [.addLayer typ], tail := .done }, some o.layer)
  else ({ acts := tr ++ [.addLayer typ], tail := .nextLayerType next }, some o.layer)

/-- eap.go `decodeEAP` = `decodingLayerDecoder(&EAP{}, data, p)`. -/
def decodeEAPFn (data : GSlice) : Res (Beh × Option EAP) := do
  let o ← EAP.fresh.decodeFromBytes data
  pure (decodingLayerDecoder o LayerTypeEAP o.layer.nextLayerType)

/-- eapol.go `decodeEAPOL` = `decodingLayerDecoder(&EAPOL{}, data, p)`. -/
def decodeEAPOLFn (data : GSlice) : Res (Beh × Option EAPOL) := do
  let o ← EAPOL.fresh.decodeFromBytes data
  pure (decodingLayerDecoder o LayerTypeEAPOL o.layer.nextLayerType)

/-- eapol.go `decodeEAPOLKey` = `decodingLayerDecoder(&EAPOLKey{}, data, p)`. -/
def decodeEAPOLKeyFn (data : GSlice) : Res (Beh × Option EAPOLKey) := do
  let o ← EAPOLKey.fresh.decodeFromBytes data
  pure (decodingLayerDecoder o LayerTypeEAPOLKey o.layer.nextLayerType)

/-! ## Serialization, written over the C18 buffer model -/

/-- `w[a:]` on a slice handed out by the buffer. -/
def winFrom (w : Win) (a : Nat) : Res Win :=
  if a ≤ w.n then .ok { gen := w.gen, off := w.off + a, n := w.n - a } else .panic .slice

/-- `w[a:b]` on a slice handed out by the buffer.  The upper bound is checked against the window
    LENGTH (Go checks the capacity, which is at least the length: the model panics at least whenever
    Go does; every use below has constant bounds inside the window). -/
def winSlice (w : Win) (a b : Nat) : Res Win :=
  if a ≤ b ∧ b ≤ w.n then .ok { gen := w.gen, off := w.off + a, n := b - a } else .panic .slice

/-- Go `copy(w, src)`: copies `min(len(w), len(src))` bytes, never panics. -/
def copyTo (b : SBuf) (w : Win) (src : Bytes) : SBuf := fill b w (src.take w.n)

/-- `binary.BigEndian.PutUint16(w, v)`: `_ = b[1]` then two stores. -/
def putUint16 (b : SBuf) (w : Win) (v : Nat) : Res SBuf :=
  if w.n < 2 then .panic .index else .ok (fill b w (putBe16 v))

/-- `binary.BigEndian.PutUint64(w, v)`: `_ = b[7]` then eight stores. -/
def putUint64 (b : SBuf) (w : Win) (v : Nat) : Res SBuf :=
  if w.n < 8 then .panic .index else .ok (fill b w (putBe64 v))

/-- What one SerializeTo call did: the buffer and the receiver afterwards (SerializeTo mutates the
    layer under FixLengths), and whether it returned a non-nil error. -/
structure SerOut (L : Type) where
  buf   : SBuf
  layer : L
  err   : Bool
  deriving Repr, DecidableEq

/-- eap.go (with leap-1): `size := 4; if e.Type != EAPTypeNone || len(e.TypeData) > 0 { size = 5 + len(e.TypeData) }`. -/
def eapSize (l : EAP) : Nat :=
  if l.typ ≠ eapTypeNone ∨ l.typeData.length > 0 then 5 + l.typeData.length else 4

/-- The stores of `EAP.SerializeTo` behind `PrependBytes(size)`. -/
def eapStores (l : EAP) (size : Nat) (b : SBuf) (bytes : Win) : Res (SerOut EAP) := do
  let b ← write b bytes 0 (u8 l.code)                           -- bytes[0] = byte(e.Code)
  let b ← write b bytes 1 (u8 l.id)                             -- bytes[1] = e.Id
  let w ← winFrom bytes 2
  let b ← putUint16 b w l.length                                -- PutUint16(bytes[2:], e.Length)
  if size > 4 then do
    let b ← write b bytes 4 (u8 l.typ)                          -- bytes[4] = byte(e.Type)
    let w ← winFrom bytes 5
    pure { buf := copyTo b w l.typeData, layer := l, err := false }  -- copy(bytes[5:], e.TypeData)
  else pure { buf := b, layer := l, err := false }

/-- eap.go `(*EAP).SerializeTo` with patch leap-1: the header size counts the Type byte whenever there
    is a Type or TypeData, and FixLengths stores that size (the length of the whole EAP packet) in
    Length.  (`PrependBytes` of the default buffer never returns an error.) -/
def EAP.serializeTo (l : EAP) (b : SBuf) (fix _csum : Bool) : Res (SerOut EAP) :=
  let size := eapSize l
  let l := if fix then { l with length := size % 65536 } else l   -- e.Length = uint16(size)
  let (b, bytes) := prepend b size                                -- bytes, err := b.PrependBytes(size)
  eapStores l size b bytes

/-- The serializer BEFORE leap-1: `e.Length = uint16(len(e.TypeData) + 1)` under FixLengths and
    `size := len(e.TypeData) + 4; if size > 4 { size++ }`. -/
def EAP.serializeToPreFix (l : EAP) (b : SBuf) (fix _csum : Bool) : Res (SerOut EAP) :=
  let l := if fix then { l with length := (l.typeData.length + 1) % 65536 } else l
  let size := if l.typeData.length + 4 > 4 then l.typeData.length + 4 + 1 else l.typeData.length + 4
  let (b, bytes) := prepend b size
  eapStores l size b bytes

/-- View asked for by the brief: `.err` when SerializeTo returned an error. -/
def serializeEap (l : EAP) (b : SBuf) (fix csum : Bool) : Res (SBuf × EAP) :=
  match l.serializeTo b fix csum with
  | .ok o => if o.err then .err "eap" else .ok (o.buf, o.layer)
  | .err k => .err k
  | .panic k => .panic k

/-- eapol.go `(*EAPOL).SerializeTo`: `bytes, _ := b.PrependBytes(4)`; Length is written as it is
    (no FixLengths handling). -/
def EAPOL.serializeTo (l : EAPOL) (b : SBuf) (_fix _csum : Bool) : Res (SerOut EAPOL) := do
  let (b, bytes) := prepend b 4                                 -- bytes, _ := b.PrependBytes(4)
  let b ← write b bytes 0 (u8 l.version)                        -- bytes[0] = e.Version
  let b ← write b bytes 1 (u8 l.typ)                            -- bytes[1] = byte(e.Type)
  let w ← winFrom bytes 2
  let b ← putUint16 b w l.length                                -- PutUint16(bytes[2:], e.Length)
  pure { buf := b, layer := l, err := false }

def serializeEapol (l : EAPOL) (b : SBuf) (fix csum : Bool) : Res (SBuf × EAPOL) :=
  match l.serializeTo b fix csum with
  | .ok o => if o.err then .err "eapol" else .ok (o.buf, o.layer)
  | .err k => .err k
  | .panic k => .panic k

/-- `if flag { info |= mask }`. -/
def orFlag (info : Nat) (flag : Bool) (mask : Nat) : Nat := if flag then info ||| mask else info

/-- eapol.go:254-281: the key-information word (`uint16` arithmetic; the three numeric fields are
    NOT masked, so out-of-range values spill into the neighbouring bits). -/
def keyInfo (l : EAPOLKey) : Nat :=
  let info := 0 ||| (l.keyDescriptorVersion % 65536)              -- info |= uint16(ek.KeyDescriptorVersion)
  let info := info ||| ((l.keyType <<< 3) % 65536)                -- info |= uint16(ek.KeyType) << 3
  let info := info ||| ((l.keyIndex <<< 4) % 65536)               -- info |= uint16(ek.KeyIndex) << 4
  let info := orFlag info l.install 0x0040
  let info := orFlag info l.keyACK 0x0080
  let info := orFlag info l.keyMIC 0x0100
  let info := orFlag info l.secure 0x0200
  let info := orFlag info l.micError 0x0400
  let info := orFlag info l.request 0x0800
  let info := orFlag info l.hasEncryptedKeyData 0x1000
  orFlag info l.smkMessage 0x2000

/-- `binary.BigEndian.PutUint16(buf[a:a+2], v)`. -/
def put16At (b : SBuf) (buf : Win) (a : Nat) (v : Nat) : Res SBuf := do
  let w ← winSlice buf a (a + 2)
  putUint16 b w v

/-- `binary.BigEndian.PutUint64(buf[a:a+8], v)`. -/
def put64At (b : SBuf) (buf : Win) (a : Nat) (v : Nat) : Res SBuf := do
  let w ← winSlice buf a (a + 8)
  putUint64 b w v

/-- `copy(buf[a:e], lotsOfZeros[:])` (when `zeroPad`; e - a ≤ 1024) followed by `copy(buf[a:e], src)`:
    a fixed-size field written from a slice of any length. -/
def copyField (zeroPad : Bool) (b : SBuf) (buf : Win) (a e : Nat) (src : Bytes) : Res SBuf := do
  let w ← winSlice buf a e
  let b := if zeroPad then copyTo b w (zeros 1024) else b        -- copy(buf[a:e], lotsOfZeros[:])   (leap-4)
  let w ← winSlice buf a e
  pure (copyTo b w src)                                          -- copy(buf[a:e], src)

/-- eapol.go `(*EAPOLKey).SerializeTo`.  `zeroPad = true` is the code with patch leap-4 (the Nonce, IV
    and MIC fields are cleared before the `copy`), `false` the code before it (a Nonce/IV/MIC shorter
    than its field left the rest of the field as the buffer happened to be).  No FixLengths handling:
    KeyDataLength is written as it is. -/
def EAPOLKey.serializeWith (zeroPad : Bool) (l : EAPOLKey) (b : SBuf) (_fix _csum : Bool) :
    Res (SerOut EAPOLKey) := do
  let n := l.encryptedKeyData.length
  let (b, buf) := prepend b (eapolKeyFrameLen + n)              -- buf, err := b.PrependBytes(eapolKeyFrameLen + len(ek.EncryptedKeyData))
  let b ← write b buf 0 (u8 l.keyDescriptorType)                -- buf[0] = byte(ek.KeyDescriptorType)
  let b ← put16At b buf 1 (keyInfo l)                           -- PutUint16(buf[1:3], info)
  let b ← put16At b buf 3 l.keyLength                           -- PutUint16(buf[3:5], ek.KeyLength)
  let b ← put64At b buf 5 l.replayCounter                       -- PutUint64(buf[5:13], ek.ReplayCounter)
  let b ← copyField zeroPad b buf 13 45 l.nonce                 -- copy(buf[13:45], ek.Nonce)
  let b ← copyField zeroPad b buf 45 61 l.iv                    -- copy(buf[45:61], ek.IV)
  let b ← put64At b buf 61 l.rsc                                -- PutUint64(buf[61:69], ek.RSC)
  let b ← put64At b buf 69 l.id                                 -- PutUint64(buf[69:77], ek.ID)
  let b ← copyField zeroPad b buf 77 93 l.mic                   -- copy(buf[77:93], ek.MIC)
  let b ← put16At b buf 93 l.keyDataLength                      -- PutUint16(buf[93:95], ek.KeyDataLength)
  if n > 0 then do
    let w ← winSlice buf 95 (95 + n)
    pure { buf := copyTo b w l.encryptedKeyData, layer := l, err := false }  -- copy(buf[95:95+n], ek.EncryptedKeyData)
  else pure { buf := b, layer := l, err := false }

def EAPOLKey.serializeTo (l : EAPOLKey) (b : SBuf) (fix csum : Bool) : Res (SerOut EAPOLKey) :=
  EAPOLKey.serializeWith true l b fix csum

/-- The serializer before patch leap-4. -/
def EAPOLKey.serializeToPreFix (l : EAPOLKey) (b : SBuf) (fix csum : Bool) : Res (SerOut EAPOLKey) :=
  EAPOLKey.serializeWith false l b fix csum

def serializeEapolKey (l : EAPOLKey) (b : SBuf) (fix csum : Bool) : Res (SBuf × EAPOLKey) :=
  match l.serializeTo b fix csum with
  | .ok o => if o.err then .err "eapolkey" else .ok (o.buf, o.layer)
  | .err k => .err k
  | .panic k => .panic k

/-- gopacket.Payload.SerializeTo: PrependBytes(len(p)); copy. -/
def serializePayload (p : Bytes) (b : SBuf) : SBuf :=
  let (b, w) := prepend b p.length
  copyTo b w p

/-! ## DecodingLayerParser over {EAPOL, EAP} (layers_decoder.go loop) -/

structure DlpState where
  eapol   : EAPOL
  eap     : EAP
  decoded : List Nat
  trunc   : Bool
  deriving Repr, DecidableEq

/-- One run of the LayersDecoder loop followed by the tail of DecodeLayers.  `typ` is the type about
    to be decoded.  Result code: 0 = `nil`, 1 = the error of a DecodeFromBytes, 2 =
    `UnsupportedLayerType(typ)` (next type outside the set and ≠ LayerTypeZero).
    Every iteration consumes at least 4 bytes: `fuel = |data| + 1` suffices. -/
def dlpLoop : Nat → DlpState → Nat → GSlice → Res (DlpState × Nat)
  | 0, st, _, _ => .ok (st, 0)
  | fuel + 1, st, typ, data =>
    if typ = LayerTypeEAPOL then
      match st.eapol.decodeFromBytes data with
      | .panic k => .panic k
      | .err k => .err k
      | .ok o =>
        let st := { st with eapol := o.layer, trunc := st.trunc || o.trunc }
        if o.err then .ok (st, 1) else
        let st := { st with decoded := st.decoded ++ [typ] }
        let rest : GSlice := { vis := o.layer.payload, tail := data.tail }
        if rest.len = 0 then .ok (st, 0) else dlpLoop fuel st o.layer.nextLayerType rest
    else if typ = LayerTypeEAP then
      match st.eap.decodeFromBytes data with
      | .panic k => .panic k
      | .err k => .err k
      | .ok o =>
        let st := { st with eap := o.layer, trunc := st.trunc || o.trunc }
        if o.err then .ok (st, 1) else
        let st := { st with decoded := st.decoded ++ [typ] }
        let rest : GSlice := { vis := o.layer.payload, tail := data.tail }
        if rest.len = 0 then .ok (st, 0) else dlpLoop fuel st o.layer.nextLayerType rest
    else if typ = LayerTypeZero then .ok (st, 0) else .ok (st, 2)

/-- parser.go DecodeLayers: Truncated := false, decoded := decoded[:0], run the loop from `first`. -/
def dlpDecodeLayers (eapol : EAPOL) (eap : EAP) (first : Nat) (data : GSlice) : Res (DlpState × Nat) :=
  dlpLoop (data.len + 1) { eapol := eapol, eap := eap, decoded := [], trunc := false } first data

end Gp.Eap
